(* KV.C12.Model — storage / replication encodings of values and entries.
   Executable definitions only.

   Part A  libs/crypto/src/lib.rs: Password::to_dbpasswordv1 (l.1154) and
           TryFrom<DbPasswordV1> for Password (l.423), transcribed arm by arm; Password::verify_ctx
           (l.932) over abstract hash oracles.
   Part B  server/lib/src/valueset/mod.rs: which DbValueSetV2 variant every in-memory valueset
           type writes (ValueSetT::to_db_valueset_v2 of each impl) and which loader
           from_db_valueset_v2 (l.1013) dispatches each variant to.
   Part C  server/lib/src/entry.rs to_dbentry (l.1402) / from_dbentry (l.1881) and
           server/lib/src/repl/proto.rs ReplEntryV1::new/rehydrate (l.145/193),
           ReplIncrementalEntryV1::new/rehydrate (l.266/327): the entry frame around values. *)
From Coq Require Import List NArith Bool.
Import ListNotations.
Open Scope N_scope.

(* ================================================================== Part A: passwords *)
Definition bytes := list N.

(* enum Kdf (lib.rs:326) *)
Inductive kdf :=
| K_TPM_ARGON2ID (m t p v : N) (s k : bytes)
| K_ARGON2ID (m t p v : N) (s k : bytes)
| K_PBKDF2 (c : N) (s h : bytes)
| K_PBKDF2_SHA1 (c : N) (s h : bytes)
| K_PBKDF2_SHA512 (c : N) (s h : bytes)
| K_SHA1 (h : bytes)
| K_SSHA1 (s h : bytes)
| K_SHA256 (h : bytes)
| K_SSHA256 (s h : bytes)
| K_SHA512 (h : bytes)
| K_SSHA512 (s h : bytes)
| K_NT_MD4 (h : bytes)
| K_CRYPT_MD5 (s h : bytes)
| K_CRYPT_SHA256 (h : bytes)
| K_CRYPT_SHA512 (h : bytes).

(* enum DbPasswordV1 (lib.rs:103) *)
Inductive dbpw :=
| D_TPM_ARGON2ID (m t p v : N) (s k : bytes)
| D_ARGON2ID (m t p v : N) (s k : bytes)
| D_PBKDF2 (c : N) (s h : bytes)
| D_PBKDF2_SHA1 (c : N) (s h : bytes)
| D_PBKDF2_SHA512 (c : N) (s h : bytes)
| D_SHA1 (h : bytes)
| D_SSHA1 (s h : bytes)
| D_SHA256 (h : bytes)
| D_SSHA256 (s h : bytes)
| D_SHA512 (h : bytes)
| D_SSHA512 (s h : bytes)
| D_NT_MD4 (h : bytes)
| D_CRYPT_MD5 (s h : bytes)
| D_CRYPT_SHA256 (h : bytes)
| D_CRYPT_SHA512 (h : bytes).

(* Password::to_dbpasswordv1 *)
Definition db_of_kdf (k : kdf) : dbpw :=
  match k with
  | K_TPM_ARGON2ID m t p v s k => D_TPM_ARGON2ID m t p v s k
  | K_ARGON2ID m t p v s k => D_ARGON2ID m t p v s k
  | K_PBKDF2 c s h => D_PBKDF2 c s h
  | K_PBKDF2_SHA1 c s h => D_PBKDF2_SHA1 c s h
  | K_PBKDF2_SHA512 c s h => D_PBKDF2_SHA512 c s h
  | K_SHA1 h => D_SHA1 h
  | K_SSHA1 s h => D_SSHA1 s h
  | K_SHA256 h => D_SHA256 h
  | K_SSHA256 s h => D_SSHA256 s h
  | K_SHA512 h => D_SHA512 h
  | K_SSHA512 s h => D_SSHA512 s h
  | K_NT_MD4 h => D_NT_MD4 h
  | K_CRYPT_MD5 s h => D_CRYPT_MD5 s h
  | K_CRYPT_SHA256 h => D_CRYPT_SHA256 h
  | K_CRYPT_SHA512 h => D_CRYPT_SHA512 h
  end.

(* TryFrom<DbPasswordV1> for Password (lib.rs:423) — every arm is Ok(..) of the constructor of
   the same name (repaired tree, /repo ef762e7) *)
Definition kdf_of_db (d : dbpw) : option kdf :=
  match d with
  | D_TPM_ARGON2ID m t p v s k => Some (K_TPM_ARGON2ID m t p v s k)
  | D_ARGON2ID m t p v s k => Some (K_ARGON2ID m t p v s k)
  | D_PBKDF2 c s h => Some (K_PBKDF2 c s h)
  | D_PBKDF2_SHA1 c s h => Some (K_PBKDF2_SHA1 c s h)
  | D_PBKDF2_SHA512 c s h => Some (K_PBKDF2_SHA512 c s h)
  | D_SHA1 h => Some (K_SHA1 h)
  | D_SSHA1 s h => Some (K_SSHA1 s h)
  | D_SHA256 h => Some (K_SHA256 h)
  | D_SSHA256 s h => Some (K_SSHA256 s h)
  | D_SHA512 h => Some (K_SHA512 h)
  | D_SSHA512 s h => Some (K_SSHA512 s h)
  | D_NT_MD4 h => Some (K_NT_MD4 h)
  | D_CRYPT_MD5 s h => Some (K_CRYPT_MD5 s h)
  | D_CRYPT_SHA256 h => Some (K_CRYPT_SHA256 h)
  | D_CRYPT_SHA512 h => Some (K_CRYPT_SHA512 h)
  end.

(* THE CODE BEFORE THE FIX (documentation of the repaired defect, not the current code): the
   last arm was  DbPasswordV1::CRYPT_SHA512 { h } => Kdf::CRYPT_SHA256 { h } *)
Definition kdf_of_db_prefix (d : dbpw) : option kdf :=
  match d with
  | D_CRYPT_SHA512 h => Some (K_CRYPT_SHA256 h)
  | _ => kdf_of_db d
  end.
Definition reload_prefix (k : kdf) : option kdf := kdf_of_db_prefix (db_of_kdf k).

Definition reload (k : kdf) : option kdf := kdf_of_db (db_of_kdf k).

(* constructor numbers, in declaration order *)
Definition ktag (k : kdf) : N :=
  match k with
  | K_TPM_ARGON2ID _ _ _ _ _ _ => 0 | K_ARGON2ID _ _ _ _ _ _ => 1 | K_PBKDF2 _ _ _ => 2
  | K_PBKDF2_SHA1 _ _ _ => 3 | K_PBKDF2_SHA512 _ _ _ => 4 | K_SHA1 _ => 5 | K_SSHA1 _ _ => 6
  | K_SHA256 _ => 7 | K_SSHA256 _ _ => 8 | K_SHA512 _ => 9 | K_SSHA512 _ _ => 10
  | K_NT_MD4 _ => 11 | K_CRYPT_MD5 _ _ => 12 | K_CRYPT_SHA256 _ => 13 | K_CRYPT_SHA512 _ => 14
  end.
Definition dtag (d : dbpw) : N :=
  match d with
  | D_TPM_ARGON2ID _ _ _ _ _ _ => 0 | D_ARGON2ID _ _ _ _ _ _ => 1 | D_PBKDF2 _ _ _ => 2
  | D_PBKDF2_SHA1 _ _ _ => 3 | D_PBKDF2_SHA512 _ _ _ => 4 | D_SHA1 _ => 5 | D_SSHA1 _ _ => 6
  | D_SHA256 _ => 7 | D_SSHA256 _ _ => 8 | D_SHA512 _ => 9 | D_SSHA512 _ _ => 10
  | D_NT_MD4 _ => 11 | D_CRYPT_MD5 _ _ => 12 | D_CRYPT_SHA256 _ => 13 | D_CRYPT_SHA512 _ => 14
  end.
Definition TAG_CRYPT_SHA256 : N := 13.
Definition TAG_CRYPT_SHA512 : N := 14.

(* ---- Password::verify_ctx without an HSM context, over abstract primitives *)
Record oracle := mkoracle {
  o_argon2 : N -> N -> N -> N -> bytes -> N -> bytes -> option bytes; (* m t p version salt keylen pw; None = Err *)
  o_pbkdf2 : N -> N -> bytes -> N -> bytes -> bytes;   (* hash(1|256|512) cost salt keylen pw *)
  o_digest : N -> bytes -> bytes;                      (* hash(1|256|512) over pw ++ salt *)
  o_md4_utf16 : bytes -> bytes;
  o_md5_crypt : bytes -> bytes -> bytes;               (* salt pw *)
  o_sha256_check : bytes -> bytes -> bool;             (* phc-string pw *)
  o_sha512_check : bytes -> bytes -> bool
}.
Fixpoint bytes_eqb (a b : bytes) : bool :=
  match a, b with
  | [], [] => true
  | x :: a', y :: b' => (x =? y) && bytes_eqb a' b'
  | _, _ => false
  end.
Definition PW_MAX_LENGTH_CHECK : N := 512.  (* PW_MAX_LENGTH_NIST * 4 *)
(* None = Err(CryptoError), Some b = Ok(b) *)
Definition verify (o : oracle) (k : kdf) (pw : bytes) : option bool :=
  if PW_MAX_LENGTH_CHECK <? N.of_nat (length pw) then Some false else
  match k with
  | K_TPM_ARGON2ID _ _ _ _ _ _ => None                       (* HsmContextMissing *)
  | K_ARGON2ID m t p v s key =>
      match o_argon2 o m t p v s (N.of_nat (length key)) pw with
      | Some r => Some (bytes_eqb r key) | None => None end
  | K_PBKDF2 c s key => Some (bytes_eqb (o_pbkdf2 o 256 c s (N.of_nat (length key)) pw) key)
  | K_PBKDF2_SHA1 c s key => Some (bytes_eqb (o_pbkdf2 o 1 c s (N.of_nat (length key)) pw) key)
  | K_PBKDF2_SHA512 c s key => Some (bytes_eqb (o_pbkdf2 o 512 c s (N.of_nat (length key)) pw) key)
  | K_SHA1 key => Some (bytes_eqb key (o_digest o 1 pw))
  | K_SSHA1 s key => Some (bytes_eqb key (o_digest o 1 (pw ++ s)))
  | K_SHA256 key => Some (bytes_eqb key (o_digest o 256 pw))
  | K_SSHA256 s key => Some (bytes_eqb key (o_digest o 256 (pw ++ s)))
  | K_SHA512 key => Some (bytes_eqb key (o_digest o 512 pw))
  | K_SSHA512 s key => Some (bytes_eqb key (o_digest o 512 (pw ++ s)))
  | K_NT_MD4 key => Some (bytes_eqb (o_md4_utf16 o pw) key)
  | K_CRYPT_MD5 s h => Some (bytes_eqb (o_md5_crypt o s pw) h)
  | K_CRYPT_SHA256 h => Some (o_sha256_check o h pw)
  | K_CRYPT_SHA512 h => Some (o_sha512_check o h pw)
  end.

(* a toy oracle under which the two crypt checkers differ (used only for the refutation witness) *)
Definition toy_oracle : oracle :=
  mkoracle (fun _ _ _ _ _ _ _ => None) (fun _ _ _ _ _ => []) (fun _ _ => []) (fun _ => [])
           (fun _ _ => []) (fun _ _ => false) (fun _ _ => true).

Definition dbpw_eqb (a b : dbpw) : bool :=
  match a, b with
  | D_TPM_ARGON2ID m t p v s k, D_TPM_ARGON2ID m' t' p' v' s' k'
  | D_ARGON2ID m t p v s k, D_ARGON2ID m' t' p' v' s' k' =>
      (m =? m') && (t =? t') && (p =? p') && (v =? v') && bytes_eqb s s' && bytes_eqb k k'
  | D_PBKDF2 c s h, D_PBKDF2 c' s' h'
  | D_PBKDF2_SHA1 c s h, D_PBKDF2_SHA1 c' s' h'
  | D_PBKDF2_SHA512 c s h, D_PBKDF2_SHA512 c' s' h' => (c =? c') && bytes_eqb s s' && bytes_eqb h h'
  | D_SHA1 h, D_SHA1 h' | D_SHA256 h, D_SHA256 h' | D_SHA512 h, D_SHA512 h'
  | D_NT_MD4 h, D_NT_MD4 h' | D_CRYPT_SHA256 h, D_CRYPT_SHA256 h'
  | D_CRYPT_SHA512 h, D_CRYPT_SHA512 h' => bytes_eqb h h'
  | D_SSHA1 s h, D_SSHA1 s' h' | D_SSHA256 s h, D_SSHA256 s' h' | D_SSHA512 s h, D_SSHA512 s' h'
  | D_CRYPT_MD5 s h, D_CRYPT_MD5 s' h' => bytes_eqb s s' && bytes_eqb h h'
  | _, _ => false
  end.

(* ================================================================== Part B: valueset dispatch *)
(* every `impl ValueSetT for ValueSetX` (49 types); VK_Other = anything the harness cannot name *)
Inductive vskind :=
| VK_Address | VK_EmailAddress | VK_ApplicationPassword | VK_AuditLogString | VK_PrivateBinary
| VK_PublicBinary | VK_Bool | VK_Certificate | VK_Cid | VK_Credential | VK_IntentToken | VK_Passkey
| VK_AttestedPasskey | VK_CredentialType | VK_WebauthnAttestationCaList | VK_DateTime | VK_HexString
| VK_Iname | VK_Index | VK_Int64 | VK_Iutf8 | VK_JsonFilter | VK_Json | VK_JwsKeyEs256 | VK_JwsKeyRs256
| VK_KeyInternal | VK_Message | VK_NsUniqueId | VK_OauthScope | VK_OauthScopeMap | VK_OauthClaimMap
| VK_Restricted | VK_Sha256 | VK_Secret | VK_Session | VK_Oauth2Session | VK_ApiTokenSet | VK_Spn
| VK_SshKey | VK_Syntax | VK_TotpSecret | VK_UiHint | VK_Uint32 | VK_Uint64 | VK_Url | VK_Utf8 | VK_Uuid
| VK_Refer | VK_Image | VK_Other.

(* enum DbValueSetV2 (be/dbvalue.rs:784), named by serde tag; T_Other = an unknown tag *)
Inductive dbtag :=
| T_U8 | T_I8 | T_N8 | T_UU | T_BO | T_SY | T_IN | T_RF | T_JF | T_CR | T_RU | T_SK | T_SP | T_UI
| T_I64 | T_U64 | T_CI | T_NU | T_DT | T_EM | T_PN | T_AD | T_UR | T_OS | T_OM | T_OC | T_E2 | T_PB
| T_RS | T_IT | T_PK | T_DK | T_TE | T_AS | T_JE | T_JR | T_OZ | T_UH | T_TO | T_AT | T_SA | T_EK
| T_IM | T_CT | T_WC | T_KI | T_HS | T_X509 | T_AP | T_JO | T_MS | T_S256 | T_Other.

(* the variant written by each valueset type's to_db_valueset_v2 *)
Definition tag_of (k : vskind) : dbtag :=
  match k with
  | VK_Address => T_AD | VK_EmailAddress => T_EM | VK_ApplicationPassword => T_AP
  | VK_AuditLogString => T_SA | VK_PrivateBinary => T_E2 | VK_PublicBinary => T_PB | VK_Bool => T_BO
  | VK_Certificate => T_X509 | VK_Cid => T_CI | VK_Credential => T_CR | VK_IntentToken => T_IT
  | VK_Passkey => T_PK | VK_AttestedPasskey => T_DK | VK_CredentialType => T_CT
  | VK_WebauthnAttestationCaList => T_WC | VK_DateTime => T_DT | VK_HexString => T_HS
  | VK_Iname => T_N8 | VK_Index => T_IN | VK_Int64 => T_I64 | VK_Iutf8 => T_I8
  | VK_JsonFilter => T_JF | VK_Json => T_JO | VK_JwsKeyEs256 => T_JE | VK_JwsKeyRs256 => T_JR
  | VK_KeyInternal => T_KI | VK_Message => T_MS | VK_NsUniqueId => T_NU | VK_OauthScope => T_OS
  | VK_OauthScopeMap => T_OM | VK_OauthClaimMap => T_OC | VK_Restricted => T_RS | VK_Sha256 => T_S256
  | VK_Secret => T_RU | VK_Session => T_AS | VK_Oauth2Session => T_OZ | VK_ApiTokenSet => T_AT
  | VK_Spn => T_SP | VK_SshKey => T_SK | VK_Syntax => T_SY | VK_TotpSecret => T_TO | VK_UiHint => T_UH
  | VK_Uint32 => T_UI | VK_Uint64 => T_U64 | VK_Url => T_UR | VK_Utf8 => T_U8 | VK_Uuid => T_UU
  | VK_Refer => T_RF | VK_Image => T_IM | VK_Other => T_Other
  end.

(* from_db_valueset_v2: the loader each variant is handed to (None = Err); repaired tree *)
Definition dispatch (t : dbtag) : option vskind :=
  match t with
  | T_U8 => Some VK_Utf8 | T_I8 => Some VK_Iutf8 | T_N8 => Some VK_Iname | T_UU => Some VK_Uuid
  | T_RF => Some VK_Refer | T_BO => Some VK_Bool | T_UI => Some VK_Uint32 | T_I64 => Some VK_Int64
  | T_U64 => Some VK_Uint64 | T_SY => Some VK_Syntax | T_IN => Some VK_Index | T_RU => Some VK_Secret
  | T_RS => Some VK_Restricted | T_SP => Some VK_Spn | T_CI => Some VK_Cid | T_JF => Some VK_JsonFilter
  | T_NU => Some VK_NsUniqueId | T_UR => Some VK_Url | T_DT => Some VK_DateTime
  | T_E2 => Some VK_PrivateBinary | T_OS => Some VK_OauthScope | T_AD => Some VK_Address
  | T_CR => Some VK_Credential | T_SK => Some VK_SshKey | T_OM => Some VK_OauthScopeMap
  | T_PB => Some VK_PublicBinary | T_IT => Some VK_IntentToken | T_EM => Some VK_EmailAddress
  | T_PK => Some VK_Passkey | T_DK => Some VK_AttestedPasskey | T_AS => Some VK_Session
  | T_AT => Some VK_ApiTokenSet | T_OZ => Some VK_Oauth2Session | T_JE => Some VK_JwsKeyEs256
  | T_JR => Some VK_JwsKeyRs256
  | T_UH => Some VK_UiHint | T_TO => Some VK_TotpSecret | T_SA => Some VK_AuditLogString
  | T_PN | T_TE => None
  | T_IM => Some VK_Image | T_CT => Some VK_CredentialType | T_WC => Some VK_WebauthnAttestationCaList
  | T_OC => Some VK_OauthClaimMap | T_KI => Some VK_KeyInternal | T_HS => Some VK_HexString
  | T_X509 => Some VK_Certificate | T_AP => Some VK_ApplicationPassword | T_JO => Some VK_Json
  | T_S256 => Some VK_Sha256 | T_MS => Some VK_Message | T_EK => None
  | T_Other => None
  end.
(* THE CODE BEFORE THE FIX (documentation, not the current code), valueset/mod.rs:1049 was
   JwsKeyRs256(set) => ValueSetJwsKeyEs256::from_dbvs2(&set) *)
Definition dispatch_prefix (t : dbtag) : option vskind :=
  match t with T_JR => Some VK_JwsKeyEs256 | _ => dispatch t end.

Definition vskind_eqb (a b : vskind) : bool :=
  match a, b with
  | VK_Address, VK_Address | VK_EmailAddress, VK_EmailAddress
  | VK_ApplicationPassword, VK_ApplicationPassword | VK_AuditLogString, VK_AuditLogString
  | VK_PrivateBinary, VK_PrivateBinary | VK_PublicBinary, VK_PublicBinary | VK_Bool, VK_Bool
  | VK_Certificate, VK_Certificate | VK_Cid, VK_Cid | VK_Credential, VK_Credential
  | VK_IntentToken, VK_IntentToken | VK_Passkey, VK_Passkey | VK_AttestedPasskey, VK_AttestedPasskey
  | VK_CredentialType, VK_CredentialType
  | VK_WebauthnAttestationCaList, VK_WebauthnAttestationCaList | VK_DateTime, VK_DateTime
  | VK_HexString, VK_HexString | VK_Iname, VK_Iname | VK_Index, VK_Index | VK_Int64, VK_Int64
  | VK_Iutf8, VK_Iutf8 | VK_JsonFilter, VK_JsonFilter | VK_Json, VK_Json
  | VK_JwsKeyEs256, VK_JwsKeyEs256 | VK_JwsKeyRs256, VK_JwsKeyRs256 | VK_KeyInternal, VK_KeyInternal
  | VK_Message, VK_Message | VK_NsUniqueId, VK_NsUniqueId | VK_OauthScope, VK_OauthScope
  | VK_OauthScopeMap, VK_OauthScopeMap | VK_OauthClaimMap, VK_OauthClaimMap
  | VK_Restricted, VK_Restricted | VK_Sha256, VK_Sha256 | VK_Secret, VK_Secret
  | VK_Session, VK_Session | VK_Oauth2Session, VK_Oauth2Session | VK_ApiTokenSet, VK_ApiTokenSet
  | VK_Spn, VK_Spn | VK_SshKey, VK_SshKey | VK_Syntax, VK_Syntax | VK_TotpSecret, VK_TotpSecret
  | VK_UiHint, VK_UiHint | VK_Uint32, VK_Uint32 | VK_Uint64, VK_Uint64 | VK_Url, VK_Url
  | VK_Utf8, VK_Utf8 | VK_Uuid, VK_Uuid | VK_Refer, VK_Refer | VK_Image, VK_Image
  | VK_Other, VK_Other => true
  | _, _ => false
  end.
Definition dbtag_eqb (a b : dbtag) : bool :=
  match a, b with
  | T_U8, T_U8 | T_I8, T_I8 | T_N8, T_N8 | T_UU, T_UU | T_BO, T_BO | T_SY, T_SY | T_IN, T_IN
  | T_RF, T_RF | T_JF, T_JF | T_CR, T_CR | T_RU, T_RU | T_SK, T_SK | T_SP, T_SP | T_UI, T_UI
  | T_I64, T_I64 | T_U64, T_U64 | T_CI, T_CI | T_NU, T_NU | T_DT, T_DT | T_EM, T_EM | T_PN, T_PN
  | T_AD, T_AD | T_UR, T_UR | T_OS, T_OS | T_OM, T_OM | T_OC, T_OC | T_E2, T_E2 | T_PB, T_PB
  | T_RS, T_RS | T_IT, T_IT | T_PK, T_PK | T_DK, T_DK | T_TE, T_TE | T_AS, T_AS | T_JE, T_JE
  | T_JR, T_JR | T_OZ, T_OZ | T_UH, T_UH | T_TO, T_TO | T_AT, T_AT | T_SA, T_SA | T_EK, T_EK
  | T_IM, T_IM | T_CT, T_CT | T_WC, T_WC | T_KI, T_KI | T_HS, T_HS | T_X509, T_X509 | T_AP, T_AP
  | T_JO, T_JO | T_MS, T_MS | T_S256, T_S256 | T_Other, T_Other => true
  | _, _ => false
  end.

(* Loading the stored form of a valueset of type k. A loader only accepts the payload written by
   its own type (before the fix an RSA private key DER was given to the ES256 key parser, which
   rejects it). *)
Definition vs_reload_with (disp : dbtag -> option vskind) (k : vskind) : option vskind :=
  match disp (tag_of k) with
  | Some p => if vskind_eqb p k then Some p else None
  | None => None
  end.
Definition vs_reload := vs_reload_with dispatch.

(* The mark list of a valueset: KDF constructors (0..14) of embedded passwords (informative
   only), and MARK_MSG_SUBSEC for a Message whose expiry_time has a sub-second part.
   OutboundMessage::CredentialResetV1 stores expiry_time with time::serde::timestamp, i.e. whole
   seconds (proto/src/v1/message.rs:13), so the reloaded message carries the truncated time and
   compares unequal; it stores to the same bytes again (Part D). *)
Definition MARK_MSG_SUBSEC : N := 100.
Definition has_mark (m : N) (marks : list N) : bool := existsb (N.eqb m) marks.
(* does the reloaded valueset compare equal (ValueSetT::equal)? *)
Definition expect_equal (k : vskind) (marks : list N) : bool :=
  match k with
  | VK_Message => negb (has_mark MARK_MSG_SUBSEC marks)
  | _ => true
  end.
(* does the reloaded valueset store to the same bytes again? always *)
Definition expect_restore (k : vskind) (marks : list N) : bool := true.

(* ================================================================== Part D: message expiry *)
(* time::serde::timestamp: OffsetDateTime <-> whole unix seconds; times in ns since the epoch *)
Definition NS : N := 1000000000.
Definition msg_time_store (t : N) : N := t / NS.
Definition msg_time_load (sec : N) : N := sec * NS.
Definition msg_time_reload (t : N) : N := msg_time_load (msg_time_store t).

(* ================================================================== Part C: entry frames *)
Definition cid := (N * N)%type.      (* (timestamp ns, server id) *)
Definition cid_eqb (a b : cid) := (fst a =? fst b) && (snd a =? snd b).

(* one attribute of an entry: attribute id, valueset id, is the set empty, and what the VALUE
   round trip of that valueset yields on its own (None = the loader fails; Some id' = the id of
   the reloaded valueset, id' = id iff it compares equal), is the reloaded set a single uuid;
   a_kind / a_pw: the valueset's type and the KDF constructors of passwords embedded in it *)
Record aval := mkaval { a_attr : N; a_vid : N; a_kind : vskind; a_pw : list N; a_empty : bool;
                        a_back : option N; a_uuid1 : bool }.

Inductive estate :=
| Live (at_ : cid) (changes : list (N * cid))
| Tomb (at_ : cid).

Inductive eout := EOut (st : estate) (attrs : list (N * N)) | EErr.

Fixpoint mapM {A B} (f : A -> option B) (l : list A) : option (list B) :=
  match l with
  | [] => Some []
  | x :: r => match f x, mapM f r with Some y, Some ys => Some (y :: ys) | _, _ => None end
  end.
Definition load_attr (a : aval) : option (N * N) :=
  match a_back a with Some v => Some (a_attr a, v) | None => None end.
Fixpoint find_attr (n : N) (l : list aval) : option aval :=
  match l with [] => None | a :: r => if a_attr a =? n then Some a else find_attr n r end.

Definition ATTR_UUID : N := 0.       (* the harness interns Attribute::Uuid first *)

(* Two notions of "empty": ValueSetT::is_empty (len() == 0, used by replication) is a_empty;
   DbValueSetV2::is_empty (used by from_dbentry) counts Json / Message as one element whatever
   they hold (be/dbvalue.rs:946), every other variant by its element count. *)
Definition db_empty (a : aval) : bool :=
  a_empty a && negb (match a_kind a with VK_Json | VK_Message => true | _ => false end).
Definition stored (l : list aval) : list aval := filter (fun a => negb (db_empty a)) l.

(* Entry::to_dbentry ; serde ; Entry::from_dbentry.
   to_db_changestate / from_db_changestate copy the change state field by field. *)
Definition db_trip (st : estate) (attrs : list aval) : eout :=
  let kept := stored attrs in                                  (* "Skip anything empty" *)
  match mapM load_attr kept with
  | None => EErr                                               (* a loader failed: .ok()? *)
  | Some l =>
      match find_attr ATTR_UUID kept with                      (* attrs.get(Uuid).to_uuid_single()? *)
      | Some u => if a_uuid1 u then EOut st l else EErr
      | None => EErr
      end
  end.

Definition mem (n : N) (l : list N) : bool := existsb (N.eqb n) l.
(* the value sent for one change record: live_attrs.get(name) unless empty *)
Definition sent (attrs : list aval) (n : N) : list aval :=
  match find_attr n attrs with
  | Some a => if a_empty a then [] else [a]
  | None => []
  end.

(* ReplEntryV1::new ; serde ; rehydrate.  repl = attributes for which schema.is_replicated;
   tomb = the three attributes rehydrate fabricates for a tombstone (uuid, class, last-mod cid) *)
Definition refresh_trip (repl : list N) (tomb : list (N * N)) (st : estate) (attrs : list aval) : eout :=
  match st with
  | Tomb a => EOut (Tomb a) tomb
  | Live a changes =>
      let chg := filter (fun c => mem (fst c) repl) changes in
      match mapM load_attr (flat_map (fun c => sent attrs (fst c)) chg) with
      | Some l => EOut (Live a chg) l
      | None => EErr
      end
  end.

Fixpoint lookup_range (s : N) (r : list (N * (N * N))) : option (N * N) :=
  match r with [] => None | (k, v) :: t => if k =? s then Some v else lookup_range s t end.
(* cid.ts <= ts_max && cid.ts > ts_min for the range of cid.s_uuid; absent => false *)
Definition within (ranges : list (N * (N * N))) (c : cid) : bool :=
  match lookup_range (snd c) ranges with
  | Some (mn, mx) => (fst c <=? mx) && (mn <? fst c)
  | None => false
  end.
(* ReplIncrementalEntryV1::new ; serde ; rehydrate *)
Definition incr_trip (repl : list N) (ranges : list (N * (N * N))) (st : estate) (attrs : list aval) : eout :=
  match st with
  | Tomb a => EOut (Tomb a) []
  | Live a changes =>
      let chg := filter (fun c => mem (fst c) repl && within ranges (snd c)) changes in
      match mapM load_attr (flat_map (fun c => sent attrs (fst c)) chg) with
      | Some l => EOut (Live a chg) l
      | None => EErr
      end
  end.

Fixpoint changes_eqb (a b : list (N * cid)) : bool :=
  match a, b with
  | [], [] => true
  | (n, c) :: a', (n', c') :: b' => (n =? n') && cid_eqb c c' && changes_eqb a' b'
  | _, _ => false
  end.
Definition estate_eqb (a b : estate) : bool :=
  match a, b with
  | Live x c, Live y d => cid_eqb x y && changes_eqb c d
  | Tomb x, Tomb y => cid_eqb x y
  | _, _ => false
  end.
Fixpoint pairs_eqb (a b : list (N * N)) : bool :=
  match a, b with
  | [], [] => true
  | (n, v) :: a', (n', v') :: b' => (n =? n') && (v =? v') && pairs_eqb a' b'
  | _, _ => false
  end.
Definition eout_eqb (a b : eout) : bool :=
  match a, b with
  | EOut s l, EOut s' l' => estate_eqb s s' && pairs_eqb l l'
  | EErr, EErr => true
  | _, _ => false
  end.

(* ---- the property's own sentences for entries (stated without the trip functions) *)
Definition ids (l : list aval) : list (N * N) := map (fun a => (a_attr a, a_vid a)) l.
Definition nonempty (l : list aval) : list aval := filter (fun a => negb (a_empty a)) l.
(* database / backup: an entry that carries exactly one uuid reads back with the same change
   state and exactly its stored (non-empty) attributes, each equal; an entry without a single
   uuid is not an entry and is refused *)
Definition has_uuid (attrs : list aval) : bool :=
  match find_attr ATTR_UUID (stored attrs) with Some u => a_uuid1 u | None => false end.
Definition db_spec (st : estate) (attrs : list aval) (o : eout) : bool :=
  match o with
  | EOut st' l => has_uuid attrs && estate_eqb st st' && pairs_eqb l (ids (stored attrs))
  | EErr => negb (has_uuid attrs)
  end.
Fixpoint strictly_sorted (l : list N) : bool :=
  match l with
  | x :: ((y :: _) as r) => (x <? y) && strictly_sorted r
  | _ => true
  end.
(* replication: the receiver learns exactly the change records selected by `sel`; every value it
   receives is the sender's current non-empty value of a selected attribute, equal; and every
   selected attribute with a non-empty value is received *)
Definition repl_spec (sel : N * cid -> bool) (tomb : list (N * N)) (st : estate) (attrs : list aval) (o : eout) : bool :=
  match st, o with
  | Tomb a, EOut (Tomb a') l => cid_eqb a a' && pairs_eqb l tomb
  | Live a changes, EOut (Live a' chg') l =>
      cid_eqb a a' && changes_eqb chg' (filter sel changes) &&
      forallb (fun nv => existsb (fun c => sel c && (fst c =? fst nv)) changes &&
                 match find_attr (fst nv) attrs with
                 | Some x => negb (a_empty x) && (a_vid x =? snd nv)
                 | None => false end) l &&
      forallb (fun c => negb (sel c) ||
                 match find_attr (fst c) attrs with
                 | Some x => a_empty x || existsb (fun nv => (fst nv =? fst c) && (snd nv =? a_vid x)) l
                 | None => true end) changes &&
      strictly_sorted (map fst l)
  | _, _ => false
  end.

(* ================================================================== cases *)
Inductive case :=
(* one password: constructor of the original Kdf (from Debug), its stored form, constructor of
   the reloaded Kdf, the stored form of the reloaded password, `reloaded == original`, and
   Password::verify on the same cleartexts before / after (0 false, 1 true, 2 Err) *)
| CPw (kt : N) (d : dbpw) (kt2 : N) (d2 : dbpw) (eq : bool) (vb va : list N)
(* one stored password loaded and stored again: TryFrom<DbPasswordV1> then to_dbpasswordv1 *)
| CLoad (d : dbpw) (kt2 : N) (d2 : dbpw)
(* expiry_time (ns) of a queued CredentialResetV1 message before / after the round trip *)
| CMsg (t t2 : N)
(* one valueset: its type, KDF constructors of embedded passwords, the DbValueSetV2 tag written,
   type of the reloaded valueset (None = Err), `reloaded == original`, reloaded stores to the
   same bytes, other observations unchanged: len, proto strings, index keys, credential verify and
   the behavioural probes (contains / substring / startswith / endswith / lessthan on every own
   partial value, every referenced uuid and absent ones; remove-by-reference on session types) *)
| CVs (k : vskind) (pwtags : list N) (tag : dbtag) (res : option vskind) (same restore obs : bool)
(* one entry through the database encoding *)
| CDb (st : estate) (attrs : list aval) (out : eout)
(* one entry through the refresh replication encoding *)
| CRefresh (repl : list N) (tomb : list (N * N)) (st : estate) (attrs : list aval) (out : eout)
(* one entry through the incremental replication encoding *)
| CIncr (repl : list N) (ranges : list (N * (N * N))) (st : estate) (attrs : list aval) (out : eout).

Definition opt_kind_eqb (a b : option vskind) : bool :=
  match a, b with Some x, Some y => vskind_eqb x y | None, None => true | _, _ => false end.
Fixpoint nlist_eqb (a b : list N) : bool :=
  match a, b with [] , [] => true | x :: a', y :: b' => (x =? y) && nlist_eqb a' b' | _, _ => false end.

Definition agree (c : case) : bool :=
  match c with
  | CPw kt d kt2 d2 eq _ _ =>
      (dtag d =? kt) &&                                      (* to_dbpasswordv1 keeps the constructor *)
      match kdf_of_db d with
      | Some k2 => (ktag k2 =? kt2) && dbpw_eqb (db_of_kdf k2) d2 && Bool.eqb eq (ktag k2 =? kt)
      | None => false
      end
  | CLoad d kt2 d2 =>
      match kdf_of_db d with
      | Some k2 => (ktag k2 =? kt2) && dbpw_eqb (db_of_kdf k2) d2
      | None => false
      end
  | CMsg t t2 => msg_time_reload t =? t2
  | CVs k pw tag res same restore _ =>
      dbtag_eqb (tag_of k) tag && opt_kind_eqb (vs_reload k) res &&
      match res with
      | Some _ => Bool.eqb same (expect_equal k pw) && Bool.eqb restore (expect_restore k pw)
      | None => negb same && negb restore
      end
  | CDb st attrs out => eout_eqb (db_trip st attrs) out
  | CRefresh repl tomb st attrs out => eout_eqb (refresh_trip repl tomb st attrs) out
  | CIncr repl ranges st attrs out => eout_eqb (incr_trip repl ranges st attrs) out
  end.

(* structural part of the password sentence: same constructor, same stored bytes, equal *)
Definition pcheck_pw_struct (kt : N) (d : dbpw) (kt2 : N) (d2 : dbpw) (eq : bool) : bool :=
  eq && (kt2 =? kt) && dbpw_eqb d d2.

Definition pcheck (c : case) : bool :=
  match c with
  | CPw kt d kt2 d2 eq vb va => pcheck_pw_struct kt d kt2 d2 eq && nlist_eqb vb va
  | CLoad d kt2 d2 => (kt2 =? dtag d) && dbpw_eqb d d2
  | CMsg t t2 => t2 =? t
  | CVs k _ _ res same restore obs => opt_kind_eqb res (Some k) && same && restore && obs
  | CDb st attrs out => db_spec st attrs out
  | CRefresh repl tomb st attrs out => repl_spec (fun c => mem (fst c) repl) tomb st attrs out
  | CIncr repl ranges st attrs out =>
      repl_spec (fun c => mem (fst c) repl && within ranges (snd c)) [] st attrs out
  end.

(* KNOWN CLASS (KNOWN_FINDINGS.txt class=message-subsecond-expiry, confirmed on the real code):
   a Message valueset whose expiry_time has a sub-second part. Nothing else is excused. *)
Definition value_known (k : vskind) (marks : list N) : bool :=
  match k with
  | VK_Message => has_mark MARK_MSG_SUBSEC marks
  | _ => false
  end.
Definition attr_known (a : aval) : bool := negb (a_empty a) && value_known (a_kind a) (a_pw a).
Definition known (c : case) : bool :=
  match c with
  | CPw _ _ _ _ _ _ _ => false
  | CLoad _ _ _ => false
  | CMsg t _ => negb (t mod NS =? 0)
  | CVs k marks _ _ _ _ _ => value_known k marks
  | CDb _ attrs _ | CRefresh _ _ _ attrs _ | CIncr _ _ _ attrs _ => existsb attr_known attrs
  end.
