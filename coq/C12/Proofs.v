(* KV.C12.Proofs — lemmas and proofs for C12. *)
From Coq Require Import List NArith Bool Lia.
Import ListNotations.
Require Import KV.C12.Model.
Open Scope N_scope.
Arguments N.add : simpl never.
Arguments N.sub : simpl never.
Arguments N.ltb : simpl never.
Arguments N.leb : simpl never.
Arguments N.eqb : simpl never.

(* ------------------------------------------------------------------ equality tests *)
Lemma bytes_eqb_refl : forall a, bytes_eqb a a = true.
Proof. induction a as [|x a IH]; cbn [bytes_eqb]; [reflexivity|]. rewrite N.eqb_refl, IH. reflexivity. Qed.
Lemma bytes_eqb_eq : forall a b, bytes_eqb a b = true -> a = b.
Proof.
  induction a as [|x a IH]; intros [|y b] H; cbn [bytes_eqb] in H; try discriminate; [reflexivity|].
  apply andb_true_iff in H as [H1 H2]. apply N.eqb_eq in H1. apply IH in H2. subst. reflexivity.
Qed.
Ltac split_ands H :=
  repeat match type of H with
  | (_ && _) = true => let H1 := fresh H in apply andb_true_iff in H as [H H1]; split_ands H1
  end.
Ltac eq_hyps :=
  repeat match goal with
  | H : (_ && _) = true |- _ => let H1 := fresh H in apply andb_true_iff in H as [H H1]
  | H : (_ =? _) = true |- _ => apply N.eqb_eq in H
  | H : bytes_eqb _ _ = true |- _ => apply bytes_eqb_eq in H
  end.
Lemma dbpw_eqb_eq : forall a b, dbpw_eqb a b = true -> a = b.
Proof. intros a b H. destruct a, b; cbn [dbpw_eqb] in H; try discriminate; eq_hyps; subst; reflexivity. Qed.
Lemma dbpw_eqb_refl : forall a, dbpw_eqb a a = true.
Proof. destruct a; cbn [dbpw_eqb]; rewrite ?N.eqb_refl, ?bytes_eqb_refl; reflexivity. Qed.

(* ================================================================== Part A *)
Lemma reload_ok : forall k, reload k = Some k.
Proof. destruct k; reflexivity. Qed.

Lemma db_of_kdf_tag : forall k, dtag (db_of_kdf k) = ktag k.
Proof. destruct k; reflexivity. Qed.

Lemma db_of_kdf_inj : forall a b, db_of_kdf a = db_of_kdf b -> a = b.
Proof. intros a b H. destruct a, b; cbn [db_of_kdf] in H; try discriminate; injection H; intros; subst; reflexivity. Qed.

Lemma verify_stable : forall o k pw k', reload k = Some k' -> verify o k' pw = verify o k pw.
Proof. intros o k pw k' H. rewrite reload_ok in H. injection H as <-. reflexivity. Qed.

(* load then store: the stored form is reproduced (so a backup of a restored database is equal) *)
Lemma load_store : forall d, exists k, kdf_of_db d = Some k /\ db_of_kdf k = d /\ ktag k = dtag d.
Proof. destruct d; eexists; repeat split; reflexivity. Qed.

(* ---- the code before the fix *)
Lemma prefix_reload_sha512 : forall h, reload_prefix (K_CRYPT_SHA512 h) = Some (K_CRYPT_SHA256 h).
Proof. reflexivity. Qed.
Lemma prefix_reload_other : forall k, ktag k <> TAG_CRYPT_SHA512 -> reload_prefix k = Some k.
Proof. intros k H. destruct k; try reflexivity. exfalso. apply H. reflexivity. Qed.
Lemma prefix_pw_refuted : ~ (forall k, reload_prefix k = Some k).
Proof. intros H. specialize (H (K_CRYPT_SHA512 [])). discriminate H. Qed.
Lemma prefix_verify_refuted :
  ~ (forall o k pw k', reload_prefix k = Some k' -> verify o k' pw = verify o k pw).
Proof.
  intros H. specialize (H toy_oracle (K_CRYPT_SHA512 []) [] (K_CRYPT_SHA256 []) eq_refl).
  vm_compute in H. discriminate H.
Qed.
(* what exactly happened: the reloaded password was checked by the SHA256-crypt routine against
   a SHA512-crypt ("$6$...") string *)
Lemma prefix_verify_sha512 : forall o h pw,
  N.of_nat (length pw) <= PW_MAX_LENGTH_CHECK ->
  option_map (fun k' => verify o k' pw) (reload_prefix (K_CRYPT_SHA512 h)) = Some (Some (o_sha256_check o h pw)) /\
  verify o (K_CRYPT_SHA512 h) pw = Some (o_sha512_check o h pw).
Proof.
  intros o h pw Hl. unfold reload_prefix, verify. cbn [db_of_kdf kdf_of_db_prefix option_map].
  assert (E : (PW_MAX_LENGTH_CHECK <? N.of_nat (length pw)) = false) by (apply N.ltb_ge; exact Hl).
  rewrite E. split; reflexivity.
Qed.

(* ================================================================== Part B *)
Lemma vskind_eqb_refl : forall k, vskind_eqb k k = true.
Proof. destruct k; reflexivity. Qed.
Lemma vskind_eqb_eq : forall a b, vskind_eqb a b = true -> a = b.
Proof. intros a b H. destruct a; destruct b; try discriminate H; reflexivity. Qed.
Lemma dbtag_eqb_eq : forall a b, dbtag_eqb a b = true -> a = b.
Proof. intros a b H. destruct a; destruct b; try discriminate H; reflexivity. Qed.

Lemma vs_reload_ok : forall k, k <> VK_Other -> vs_reload k = Some k.
Proof. intros k H. destruct k; try reflexivity; contradiction. Qed.
Lemma vs_reload_only_self : forall k k', vs_reload k = Some k' -> k' = k.
Proof.
  intros k k' H. unfold vs_reload, vs_reload_with in H.
  destruct (dispatch (tag_of k)) as [p|]; [|discriminate].
  destruct (vskind_eqb p k) eqn:E; [|discriminate]. injection H as <-. apply vskind_eqb_eq. exact E.
Qed.
Lemma tag_of_inj : forall a b, tag_of a = tag_of b -> a = b.
Proof. intros a b H. destruct a; destruct b; try discriminate H; reflexivity. Qed.
(* a stored variant is only ever handed to the loader of the type that writes it *)
Lemma dispatch_sound : forall t k, dispatch t = Some k -> t = tag_of k.
Proof. intros t k H. destruct t; cbn [dispatch] in H; try discriminate H; injection H as <-; reflexivity. Qed.
Lemma dispatch_refused : forall t, dispatch t = None <-> (t = T_PN \/ t = T_TE \/ t = T_EK \/ t = T_Other).
Proof.
  intros t. split.
  - intros H. destruct t; cbn [dispatch] in H; try discriminate H; auto.
  - intros [->|[->|[->| ->]]]; reflexivity.
Qed.
(* ---- the code before the fix *)
Lemma prefix_vs_rs256 : vs_reload_with dispatch_prefix VK_JwsKeyRs256 = None.
Proof. reflexivity. Qed.
Lemma prefix_vs_other : forall k, k <> VK_JwsKeyRs256 -> k <> VK_Other -> vs_reload_with dispatch_prefix k = Some k.
Proof. intros k H1 H2. destruct k; try reflexivity; contradiction. Qed.
Lemma prefix_vs_refuted : ~ (forall k, k <> VK_Other -> vs_reload_with dispatch_prefix k = Some k).
Proof. intros H. specialize (H VK_JwsKeyRs256). discriminate H. discriminate. Qed.

(* ================================================================== Part D *)
Lemma NS_pos : NS <> 0.
Proof. discriminate. Qed.
Lemma msg_reload_le : forall t, msg_time_reload t <= t /\ t < msg_time_reload t + NS.
Proof.
  intros t. unfold msg_time_reload, msg_time_load, msg_time_store.
  pose proof (N.div_mod t NS NS_pos) as E. pose proof (N.mod_lt t NS NS_pos) as L.
  set (q := t / NS) in *. set (r := t mod NS) in *. clearbody q r. unfold NS in *. lia.
Qed.
Lemma msg_reload_exact : forall t, msg_time_reload t = t <-> t mod NS = 0.
Proof.
  intros t. unfold msg_time_reload, msg_time_load, msg_time_store.
  pose proof (N.div_mod t NS NS_pos) as E.
  set (q := t / NS) in *. set (r := t mod NS) in *. clearbody q r. unfold NS in *. split; intros H; lia.
Qed.
Lemma msg_store_idem : forall t, msg_time_store (msg_time_reload t) = msg_time_store t.
Proof.
  intros t. unfold msg_time_reload, msg_time_load, msg_time_store. apply N.div_mul. exact NS_pos.
Qed.
Lemma msg_refuted : ~ (forall t, msg_time_reload t = t).
Proof. intros H. specialize (H 1). vm_compute in H. discriminate H. Qed.

(* ================================================================== Part C *)
Lemma cid_eqb_refl : forall c, cid_eqb c c = true.
Proof. intros [a b]. unfold cid_eqb. cbn [fst snd]. rewrite !N.eqb_refl. reflexivity. Qed.
Lemma cid_eqb_eq : forall a b, cid_eqb a b = true -> a = b.
Proof. intros [a1 a2] [b1 b2] H. unfold cid_eqb in H. cbn [fst snd] in H. eq_hyps. subst. reflexivity. Qed.
Lemma changes_eqb_refl : forall l, changes_eqb l l = true.
Proof. induction l as [|[n c] l IH]; cbn [changes_eqb]; [reflexivity|]. rewrite N.eqb_refl, cid_eqb_refl, IH. reflexivity. Qed.
Lemma changes_eqb_eq : forall a b, changes_eqb a b = true -> a = b.
Proof.
  induction a as [|[n c] a IH]; intros [|[n' c'] b] H; cbn [changes_eqb] in H; try discriminate; [reflexivity|].
  apply andb_true_iff in H as [H H3]. apply andb_true_iff in H as [H1 H2].
  apply N.eqb_eq in H1. apply cid_eqb_eq in H2. apply IH in H3. subst. reflexivity.
Qed.
Lemma estate_eqb_refl : forall s, estate_eqb s s = true.
Proof. destruct s; cbn [estate_eqb]; rewrite ?cid_eqb_refl, ?changes_eqb_refl; reflexivity. Qed.
Lemma estate_eqb_eq : forall a b, estate_eqb a b = true -> a = b.
Proof.
  intros [x c|x] [y d|y] H; cbn [estate_eqb] in H; try discriminate.
  - apply andb_true_iff in H as [H1 H2]. apply cid_eqb_eq in H1. apply changes_eqb_eq in H2. subst. reflexivity.
  - apply cid_eqb_eq in H. subst. reflexivity.
Qed.
Lemma pairs_eqb_refl : forall l, pairs_eqb l l = true.
Proof. induction l as [|[n v] l IH]; cbn [pairs_eqb]; [reflexivity|]. rewrite !N.eqb_refl, IH. reflexivity. Qed.
Lemma pairs_eqb_eq : forall a b, pairs_eqb a b = true -> a = b.
Proof.
  induction a as [|[n v] a IH]; intros [|[n' v'] b] H; cbn [pairs_eqb] in H; try discriminate; [reflexivity|].
  apply andb_true_iff in H as [H H3]. apply andb_true_iff in H as [H1 H2].
  apply N.eqb_eq in H1. apply N.eqb_eq in H2. apply IH in H3. subst. reflexivity.
Qed.
Lemma eout_eqb_eq : forall a b, eout_eqb a b = true -> a = b.
Proof.
  intros [s l|] [s' l'|] H; cbn [eout_eqb] in H; try discriminate; [|reflexivity].
  apply andb_true_iff in H as [H1 H2]. apply estate_eqb_eq in H1. apply pairs_eqb_eq in H2. subst. reflexivity.
Qed.

(* every non-empty value of the entry reads back as itself *)
Definition values_ok (attrs : list aval) : Prop :=
  forall a, In a attrs -> db_empty a = false -> a_back a = Some (a_vid a).
Lemma db_empty_of_nonempty : forall a, a_empty a = false -> db_empty a = false.
Proof. intros a H. unfold db_empty. rewrite H. reflexivity. Qed.

Lemma mapM_load_ok : forall l,
  (forall a, In a l -> a_back a = Some (a_vid a)) -> mapM load_attr l = Some (ids l).
Proof.
  induction l as [|a l IH]; intros H; [reflexivity|].
  cbn [mapM ids map]. unfold load_attr at 1. rewrite (H a (or_introl eq_refl)).
  unfold ids in IH. rewrite IH by (intros b Hb; apply H; right; exact Hb). reflexivity.
Qed.
Lemma mapM_load_none : forall l, mapM load_attr l = None <-> exists a, In a l /\ a_back a = None.
Proof.
  induction l as [|a l IH]; cbn [mapM].
  - split; [discriminate | intros [a [[] _]]].
  - unfold load_attr at 1. destruct (a_back a) as [v|] eqn:E.
    + destruct (mapM load_attr l) as [ys|] eqn:E2.
      * split; [discriminate|]. intros [b [[<-|Hb] Hn]]; [congruence|].
        destruct IH as [_ X]. discriminate X. exists b. split; assumption.
      * split; [|reflexivity]. intros _. destruct IH as [IH _]. destruct (IH eq_refl) as [b [Hb Hn]].
        exists b. split; [right; exact Hb | exact Hn].
    + split; [|reflexivity]. intros _. exists a. split; [left; reflexivity | exact E].
Qed.

Lemma stored_in : forall attrs a, In a (stored attrs) <-> In a attrs /\ db_empty a = false.
Proof. intros attrs a. unfold stored. rewrite filter_In. rewrite negb_true_iff. reflexivity. Qed.

Lemma db_trip_ok : forall st attrs,
  values_ok attrs -> has_uuid attrs = true ->
  db_trip st attrs = EOut st (ids (stored attrs)).
Proof.
  intros st attrs Hv Hu. unfold db_trip. unfold has_uuid in Hu.
  rewrite mapM_load_ok.
  - destruct (find_attr ATTR_UUID (stored attrs)) as [u|]; [|discriminate]. rewrite Hu. reflexivity.
  - intros a Ha. apply stored_in in Ha as [Ha He]. apply Hv; assumption.
Qed.

(* the database path refuses an entry only for the reasons the code names *)
Lemma db_trip_err : forall st attrs, db_trip st attrs = EErr ->
  (exists a, In a attrs /\ db_empty a = false /\ a_back a = None) \/ has_uuid attrs = false.
Proof.
  intros st attrs H. unfold db_trip in H. unfold has_uuid.
  destruct (mapM load_attr (stored attrs)) as [l|] eqn:E.
  - right. destruct (find_attr ATTR_UUID (stored attrs)) as [u|]; [|reflexivity].
    destruct (a_uuid1 u); [discriminate | reflexivity].
  - left. apply mapM_load_none in E as [a [Ha Hn]]. apply stored_in in Ha as [Ha He].
    exists a. repeat split; assumption.
Qed.
Lemma db_trip_no_uuid : forall st attrs, has_uuid attrs = false -> db_trip st attrs = EErr.
Proof.
  intros st attrs H. unfold db_trip. unfold has_uuid in H.
  destruct (mapM load_attr (stored attrs)); [|reflexivity].
  destruct (find_attr ATTR_UUID (stored attrs)) as [u|]; [|reflexivity]. rewrite H. reflexivity.
Qed.

Lemma db_spec_ok : forall st attrs, values_ok attrs -> db_spec st attrs (db_trip st attrs) = true.
Proof.
  intros st attrs Hv. destruct (has_uuid attrs) eqn:Hu.
  - rewrite (db_trip_ok st attrs Hv Hu). cbn [db_spec]. rewrite Hu, estate_eqb_refl, pairs_eqb_refl. reflexivity.
  - rewrite (db_trip_no_uuid st attrs Hu). cbn [db_spec]. rewrite Hu. reflexivity.
Qed.

(* ---- replication: both encodings are the same function of a selection predicate *)
Definition live_trip (sel : N * cid -> bool) (a : cid) (changes : list (N * cid)) (attrs : list aval) : eout :=
  let chg := filter sel changes in
  match mapM load_attr (flat_map (fun c => sent attrs (fst c)) chg) with
  | Some l => EOut (Live a chg) l
  | None => EErr
  end.
Definition sel_refresh (repl : list N) : N * cid -> bool := fun c => mem (fst c) repl.
Definition sel_incr (repl : list N) (ranges : list (N * (N * N))) : N * cid -> bool :=
  fun c => mem (fst c) repl && within ranges (snd c).
Lemma refresh_is_live_trip : forall repl tomb a changes attrs,
  refresh_trip repl tomb (Live a changes) attrs = live_trip (sel_refresh repl) a changes attrs.
Proof. reflexivity. Qed.
Lemma incr_is_live_trip : forall repl ranges a changes attrs,
  incr_trip repl ranges (Live a changes) attrs = live_trip (sel_incr repl ranges) a changes attrs.
Proof. reflexivity. Qed.

Definition sent_all (attrs : list aval) (chg : list (N * cid)) : list aval :=
  flat_map (fun c => sent attrs (fst c)) chg.

Lemma find_attr_in : forall n l a, find_attr n l = Some a -> In a l /\ a_attr a = n.
Proof.
  induction l as [|x l IH]; intros a H; cbn [find_attr] in H; [discriminate|].
  destruct (a_attr x =? n) eqn:E.
  - injection H as <-. apply N.eqb_eq in E. split; [left; reflexivity | exact E].
  - destruct (IH a H) as [Hi Hn]. split; [right; exact Hi | exact Hn].
Qed.
Lemma sent_in : forall attrs n a, In a (sent attrs n) ->
  find_attr n attrs = Some a /\ a_empty a = false.
Proof.
  intros attrs n a H. unfold sent in H. destruct (find_attr n attrs) as [x|] eqn:E; [|destruct H].
  destruct (a_empty x) eqn:E2; [destruct H|]. destruct H as [<-|[]]. split; [reflexivity | exact E2].
Qed.
Lemma sent_all_in : forall attrs chg a, In a (sent_all attrs chg) ->
  exists c, In c chg /\ find_attr (fst c) attrs = Some a /\ a_empty a = false.
Proof.
  intros attrs chg a H. unfold sent_all in H. apply in_flat_map in H as [c [Hc Ha]].
  exists c. split; [exact Hc|]. apply sent_in. exact Ha.
Qed.

Lemma live_trip_ok : forall sel a changes attrs,
  values_ok attrs ->
  live_trip sel a changes attrs = EOut (Live a (filter sel changes)) (ids (sent_all attrs (filter sel changes))).
Proof.
  intros sel a changes attrs Hv. unfold live_trip. fold (sent_all attrs (filter sel changes)).
  rewrite mapM_load_ok; [reflexivity|].
  intros x Hx. apply sent_all_in in Hx as [c [_ [Hf He]]].
  apply find_attr_in in Hf as [Hi _]. apply Hv; [assumption | apply db_empty_of_nonempty; assumption].
Qed.
Lemma live_trip_err : forall sel a changes attrs, live_trip sel a changes attrs = EErr ->
  exists c x, In c changes /\ sel c = true /\ find_attr (fst c) attrs = Some x /\
              a_empty x = false /\ a_back x = None.
Proof.
  intros sel a changes attrs H. unfold live_trip in H.
  destruct (mapM load_attr _) as [l|] eqn:E; [discriminate|].
  apply mapM_load_none in E as [x [Hx Hn]]. apply sent_all_in in Hx as [c [Hc [Hf He]]].
  apply filter_In in Hc as [Hc Hs]. exists c, x. repeat split; assumption.
Qed.

(* ---- the replication result satisfies the membership form of the sentence *)
Definition keys_sorted {A} (l : list (N * A)) : Prop := strictly_sorted (map fst l) = true.

Lemma strictly_sorted_cons : forall x l, strictly_sorted (x :: l) = true ->
  strictly_sorted l = true /\ forall y, In y l -> x < y.
Proof.
  intros x l. revert x. induction l as [|y l IH]; intros x H.
  - split; [reflexivity | intros y []].
  - cbn [strictly_sorted] in H. apply andb_true_iff in H as [H1 H2]. apply N.ltb_lt in H1.
    split; [exact H2|]. intros z [<-|Hz]; [exact H1|].
    destruct (IH y H2) as [_ Hy]. specialize (Hy z Hz). lia.
Qed.
Lemma strictly_sorted_intro : forall x l, strictly_sorted l = true -> (forall y, In y l -> x < y) ->
  strictly_sorted (x :: l) = true.
Proof.
  intros x [|y l] Hs Hy; [reflexivity|]. cbn [strictly_sorted]. apply andb_true_iff. split; [|exact Hs].
  apply N.ltb_lt. apply Hy. left. reflexivity.
Qed.

Lemma sent_all_keys : forall attrs chg a, In a (sent_all attrs chg) -> In (a_attr a) (map fst chg).
Proof.
  intros attrs chg a H. apply sent_all_in in H as [c [Hc [Hf _]]].
  apply find_attr_in in Hf as [_ Hn]. rewrite Hn. apply in_map. exact Hc.
Qed.
Lemma sent_all_sorted : forall attrs chg, strictly_sorted (map fst chg) = true ->
  strictly_sorted (map fst (ids (sent_all attrs chg))) = true.
Proof.
  intros attrs. induction chg as [|c chg IH]; intros Hs; [reflexivity|].
  cbn [map] in Hs. apply strictly_sorted_cons in Hs as [Hs Hlt].
  unfold sent_all. cbn [flat_map]. fold (sent_all attrs chg).
  unfold sent at 1. destruct (find_attr (fst c) attrs) as [x|] eqn:E; [|apply IH; exact Hs].
  destruct (a_empty x); [apply IH; exact Hs|].
  cbn [app ids map]. apply strictly_sorted_intro; [apply IH; exact Hs|].
  intros y Hy. unfold ids in Hy. rewrite map_map in Hy. cbn [fst] in Hy.
  apply in_map_iff in Hy as [z [<- Hz]]. apply find_attr_in in E as [_ ->].
  apply Hlt. apply (sent_all_keys attrs chg z Hz).
Qed.
Lemma filter_sorted : forall (sel : N * cid -> bool) chg, strictly_sorted (map fst chg) = true ->
  strictly_sorted (map fst (filter sel chg)) = true.
Proof.
  intros sel. induction chg as [|c chg IH]; intros Hs; [reflexivity|].
  cbn [map] in Hs. apply strictly_sorted_cons in Hs as [Hs Hlt]. cbn [filter].
  destruct (sel c); [|apply IH; exact Hs]. cbn [map]. apply strictly_sorted_intro; [apply IH; exact Hs|].
  intros y Hy. apply Hlt. apply in_map_iff in Hy as [z [<- Hz]]. apply filter_In in Hz as [Hz _].
  apply in_map. exact Hz.
Qed.

Lemma live_spec_ok : forall sel tomb a changes attrs,
  strictly_sorted (map fst changes) = true ->
  repl_spec sel tomb (Live a changes) attrs
    (EOut (Live a (filter sel changes)) (ids (sent_all attrs (filter sel changes)))) = true.
Proof.
  intros sel tomb a changes attrs Hs. cbn [repl_spec].
  rewrite cid_eqb_refl, changes_eqb_refl. cbn [andb].
  apply andb_true_iff. split; [apply andb_true_iff; split|].
  - apply forallb_forall. intros [n v] Hnv. cbn [fst snd].
    unfold ids in Hnv. apply in_map_iff in Hnv as [x [Hx Hin]]. injection Hx as <- <-.
    apply sent_all_in in Hin as [c [Hc [Hf He]]]. apply filter_In in Hc as [Hc Hsel].
    pose proof (find_attr_in _ _ _ Hf) as [_ Hn].
    apply andb_true_iff. split.
    + apply existsb_exists. exists c. split; [exact Hc|]. rewrite Hsel. cbn [andb]. apply N.eqb_eq. symmetry. exact Hn.
    + rewrite Hn, Hf, He. cbn [negb andb]. apply N.eqb_refl.
  - apply forallb_forall. intros c Hc. destruct (sel c) eqn:Hsel; [|reflexivity]. cbn [negb orb].
    destruct (find_attr (fst c) attrs) as [x|] eqn:Hf; [|reflexivity].
    destruct (a_empty x) eqn:He; [reflexivity|]. cbn [orb].
    apply existsb_exists. exists (a_attr x, a_vid x). split.
    + unfold ids. apply in_map_iff. exists x. split; [reflexivity|].
      unfold sent_all. apply in_flat_map. exists c. split; [apply filter_In; split; assumption|].
      unfold sent. rewrite Hf, He. left. reflexivity.
    + cbn [fst snd]. apply find_attr_in in Hf as [_ ->]. rewrite !N.eqb_refl. reflexivity.
  - apply sent_all_sorted. apply filter_sorted. exact Hs.
Qed.

Lemma tomb_spec_ok : forall sel tomb a attrs,
  repl_spec sel tomb (Tomb a) attrs (EOut (Tomb a) tomb) = true.
Proof. intros. cbn [repl_spec]. rewrite cid_eqb_refl, pairs_eqb_refl. reflexivity. Qed.

(* ================================================================== bridges *)
Lemma bridge_pw : forall kt d kt2 d2 eq vb va,
  agree (CPw kt d kt2 d2 eq vb va) = true -> pcheck_pw_struct kt d kt2 d2 eq = true.
Proof.
  intros kt d kt2 d2 eq vb va H. cbn [agree] in H. apply andb_true_iff in H as [H1 H2].
  apply N.eqb_eq in H1. subst kt.
  destruct (load_store d) as [k [E [E1 E2]]]. rewrite E in H2.
  apply andb_true_iff in H2 as [H2 H4]. apply andb_true_iff in H2 as [H2 H3].
  apply N.eqb_eq in H2. apply dbpw_eqb_eq in H3. rewrite E1 in H3. subst d2. rewrite E2 in H2. subst kt2.
  rewrite E2, N.eqb_refl in H4. apply eqb_prop in H4. subst eq.
  unfold pcheck_pw_struct. rewrite N.eqb_refl, dbpw_eqb_refl. reflexivity.
Qed.
Lemma bridge_load : forall d kt2 d2, agree (CLoad d kt2 d2) = true -> pcheck (CLoad d kt2 d2) = true.
Proof.
  intros d kt2 d2 H. cbn [agree] in H. destruct (load_store d) as [k [E [E1 E2]]]. rewrite E in H.
  apply andb_true_iff in H as [H1 H2]. apply N.eqb_eq in H1. apply dbpw_eqb_eq in H2.
  rewrite E1 in H2. subst d2. rewrite E2 in H1. subst kt2. cbn [pcheck].
  rewrite N.eqb_refl, dbpw_eqb_refl. reflexivity.
Qed.
Lemma bridge_msg : forall t t2, agree (CMsg t t2) = true -> known (CMsg t t2) = false -> pcheck (CMsg t t2) = true.
Proof.
  intros t t2 H Hk. cbn [agree] in H. apply N.eqb_eq in H. subst t2. cbn [known] in Hk.
  apply negb_false_iff in Hk. apply N.eqb_eq in Hk. cbn [pcheck]. apply N.eqb_eq.
  apply msg_reload_exact. exact Hk.
Qed.
Lemma opt_kind_eqb_eq : forall a b, opt_kind_eqb a b = true -> a = b.
Proof.
  intros [x|] [y|] H; cbn [opt_kind_eqb] in H; try discriminate; [|reflexivity].
  apply vskind_eqb_eq in H. subst. reflexivity.
Qed.
(* everything of the valueset sentence except the extra observations follows from agreement *)
Lemma bridge_vs : forall k pw tag res same restore obs,
  agree (CVs k pw tag res same restore obs) = true -> k <> VK_Other ->
  value_known k pw = false ->
  res = Some k /\ same = true /\ restore = true.
Proof.
  intros k pw tag res same restore obs H Ho Hk. cbn [agree] in H.
  apply andb_true_iff in H as [H H3]. apply andb_true_iff in H as [_ H2].
  apply opt_kind_eqb_eq in H2. rewrite (vs_reload_ok k Ho) in H2. subst res.
  apply andb_true_iff in H3 as [H3 H4]. apply eqb_prop in H3. apply eqb_prop in H4.
  split; [reflexivity|]. subst same restore. unfold expect_restore.
  destruct k; cbn [expect_equal]; cbn [value_known] in Hk; try (split; reflexivity).
  rewrite Hk. split; reflexivity.
Qed.
