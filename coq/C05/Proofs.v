(* KV.C05.Proofs — lemmas and proofs. *)
From Coq Require Import List NArith Bool Lia.
Import ListNotations.
Require Import KV.C05.Model.
Require KV.C07.Proofs KV.C04.Proofs.
Open Scope N_scope.

(* value committed by a bracket body r started with private copy x *)
Fixpoint commit_val (r : list stmt) (x : dstate) : dstate :=
  match r with
  | [] => x
  | SCommit :: _ => x
  | s :: r' => commit_val r' (write s x)
  end.

Lemma posts_noop : forall r x n, forallb is_post r = true -> fst (exec_all (x, None) (firstn n r)) = x.
Proof.
  induction r as [|s r IH]; intros x n H; destruct n; cbn; try reflexivity.
  cbn in H. apply andb_prop in H as [Hs Hr]. destruct s; try discriminate. cbn. apply IH. exact Hr.
Qed.

Lemma btc_prefix : forall r d x n, body_then_commit r = true ->
  fst (exec_all (d, Some x) (firstn n r)) = d \/ fst (exec_all (d, Some x) (firstn n r)) = commit_val r x.
Proof.
  induction r as [|s r IH]; intros d x n H; [discriminate|].
  destruct n; [left; reflexivity|].
  cbn [firstn]. unfold exec_all. cbn [fold_left]. fold (exec_all (exec (d, Some x) s) (firstn n r)).
  destruct s; cbn in H; try discriminate;
    try (cbn [exec commit_val]; apply IH; exact H).
  (* SCommit *)
  right. cbn [exec commit_val]. apply posts_noop. exact H.
Qed.

Lemma crash_before_or_after : forall l d k, single_txn l = true ->
  crash_disk k l d = d \/ crash_disk k l d = commit_val (tl l) d.
Proof.
  intros l d k H. destruct l as [|s r]; [discriminate|]. destruct s; try discriminate.
  unfold crash_disk. destruct (pred k) as [|n]; [left; reflexivity|].
  cbn [firstn tl]. unfold exec_all. cbn [fold_left exec]. apply btc_prefix. exact H.
Qed.

(* a crash point after the whole trace = the transaction completed *)
Lemma btc_full : forall r d x, body_then_commit r = true -> fst (exec_all (d, Some x) r) = commit_val r x.
Proof.
  induction r as [|s r IH]; intros d x H; [discriminate|].
  unfold exec_all. cbn [fold_left]. fold (exec_all (exec (d, Some x) s) r).
  destruct s; cbn in H; try discriminate; try (cbn [exec commit_val]; apply IH; exact H).
  cbn [exec commit_val]. rewrite <- (firstn_all r). apply posts_noop. exact H.
Qed.
Lemma crash_after_end : forall l d k, single_txn l = true -> (length l < k)%nat ->
  crash_disk k l d = commit_val (tl l) d.
Proof.
  intros l d k H Hk. destruct l as [|s r]; [discriminate|]. destruct s; try discriminate.
  unfold crash_disk. rewrite firstn_all2 by (cbn in *; lia).
  unfold exec_all. cbn [fold_left exec tl]. apply btc_full. exact H.
Qed.
(* a crash point up to and including COMMIT itself: nothing reached the file *)
Fixpoint commit_pos (r : list stmt) : nat := match r with SCommit :: _ => 0 | _ :: r' => S (commit_pos r') | [] => 0 end.
Lemma btc_before : forall r d x n, body_then_commit r = true -> (n <= commit_pos r)%nat ->
  fst (exec_all (d, Some x) (firstn n r)) = d.
Proof.
  induction r as [|s r IH]; intros d x n H Hn; [discriminate|].
  destruct n; [reflexivity|].
  cbn [firstn]. unfold exec_all. cbn [fold_left]. fold (exec_all (exec (d, Some x) s) (firstn n r)).
  destruct s; cbn in H; try discriminate; cbn [commit_pos] in Hn; try lia;
    cbn [exec]; apply IH; try exact H; lia.
Qed.

(* ------------------------------------------------------------------ effect of a server transaction *)
Lemma nins_idem : forall c l, nins c (nins c l) = nins c l.
Proof.
  intros c. induction l as [|x t IH]; cbn.
  - rewrite N.ltb_irrefl, N.eqb_refl. reflexivity.
  - destruct (c <? x) eqn:E1.
    + cbn. rewrite N.ltb_irrefl, N.eqb_refl. reflexivity.
    + destruct (c =? x) eqn:E2.
      * cbn. rewrite E1, E2. reflexivity.
      * cbn. rewrite E1, E2, IH. reflexivity.
Qed.

Definition uniform (a : cells) (c : N) (s : stmt) : Prop :=
  match s with
  | SWTs c' => c' = c | SWRuv c' => c' = c | SWEntries a' c' => a' = a /\ c' = c | _ => True
  end.
(* state after the body, flag by flag *)
Definition eff (a : cells) (c : N) (ft fr fe : bool) (x : dstate) : dstate :=
  mkd (if fe then a else d_cells x) (if fe then nins c (d_cids x) else d_cids x)
      (if fr then nins c (d_ruv x) else d_ruv x) (if ft then c else d_ts x).

Lemma commit_val_eff : forall a c r x, Forall (uniform a c) r ->
  commit_val r x = eff a c (existsb is_ts (upto_commit r)) (existsb is_ruv (upto_commit r)) (existsb is_ent (upto_commit r)) x.
Proof.
  intros a c. induction r as [|s r IH]; intros x HF.
  - destruct x; reflexivity.
  - inversion HF as [|s' r' Hs Hr]; subst.
    destruct s; cbn [commit_val upto_commit existsb is_ts is_ruv is_ent orb];
      try (rewrite (IH _ Hr); destruct x; reflexivity);
      try (destruct x; reflexivity).
    + (* SWTs *) cbn in Hs. subst c0. rewrite (IH _ Hr). unfold eff, write. cbn.
      destruct (existsb is_ts (upto_commit r)); reflexivity.
    + (* SWRuv *) cbn in Hs. subst c0. rewrite (IH _ Hr). unfold eff, write. cbn.
      destruct (existsb is_ruv (upto_commit r)); [rewrite nins_idem|]; reflexivity.
    + (* SWEntries *) cbn in Hs. destruct Hs as [-> ->]. rewrite (IH _ Hr). unfold eff, write. cbn.
      destruct (existsb is_ent (upto_commit r)); [rewrite nins_idem|]; reflexivity.
Qed.

Lemma stmt_of_uniform : forall a c l, uniform a c (stmt_of a c l).
Proof.
  intros a c l. unfold stmt_of.
  destruct l as [|p]; [exact I|].
  destruct p as [p|p|]; try destruct p as [p|p|]; try destruct p as [p|p|]; try destruct p as [p|p|];
    cbn; auto.
Qed.
Lemma stmts_of_uniform : forall a c tr, Forall (uniform a c) (stmts_of a c tr).
Proof. intros a c tr. unfold stmts_of. induction tr; cbn; constructor; [apply stmt_of_uniform|assumption]. Qed.

(* ------------------------------------------------------------------ consistency *)
Lemma forallb_nins : forall (f : N -> bool) c l, f c = true -> forallb f l = true -> forallb f (nins c l) = true.
Proof.
  intros f c. induction l as [|x t IH]; intros Hc Hl; cbn.
  - rewrite Hc. reflexivity.
  - cbn in Hl. apply andb_prop in Hl as [Hx Ht].
    destruct (c <? x); [cbn; rewrite Hc, Hx, Ht; reflexivity|].
    destruct (c =? x); cbn; rewrite Hx; [exact Ht|apply IH; assumption].
Qed.
Lemma forallb_weaken : forall (f g : N -> bool) l, (forall x, f x = true -> g x = true) -> forallb f l = true -> forallb g l = true.
Proof.
  intros f g l H. induction l as [|x t IH]; cbn; [reflexivity|]. intros Hl. apply andb_prop in Hl as [Hx Ht].
  rewrite (H _ Hx), (IH Ht). reflexivity.
Qed.

Lemma consistent_after : forall d a c, consistent d = true -> d_ts d < c -> consistent (after_disk d a c) = true.
Proof.
  intros d a c H Hc. unfold consistent in *. apply andb_prop in H as [H1 H2].
  apply KV.C04.Proofs.nl_eqb_eq in H1. cbn [after_disk d_ruv d_cids d_ts]. rewrite H1.
  assert (E : nl_eqb (nins c (d_cids d)) (nins c (d_cids d)) = true) by (apply KV.C04.Proofs.nl_eqb_eq; reflexivity).
  rewrite E. cbn [andb]. apply forallb_nins; [apply N.leb_refl|].
  apply (forallb_weaken (fun x => x <=? d_ts d)); [|exact H2].
  intros x Hx. apply N.leb_le in Hx. apply N.leb_le. lia.
Qed.

(* ------------------------------------------------------------------ histories *)
Definition Inv (p : proc) : Prop := consistent (p_disk p) = true /\ d_ts (p_disk p) <= p_cidmax p.

Definition valid_hop (h : hop) : Prop :=
  match h with
  | HCrash ct ops tr k ct2 => forall a c, single_txn (stmts_of a c tr) = true /\ complete_stmts (stmts_of a c tr) = true
  | _ => True
  end.

Lemma lamport_gt : forall ct mx, mx < lamport ct mx.
Proof. exact KV.C07.Proofs.lamport_gt. Qed.

(* the whole transaction's effect on the file *)
Lemma txn_effect : forall a c tr d,
  single_txn (stmts_of a c tr) = true -> complete_stmts (stmts_of a c tr) = true ->
  commit_val (tl (stmts_of a c tr)) d = after_disk d a c.
Proof.
  intros a c tr d _ Hc. unfold complete_stmts in Hc.
  apply andb_prop in Hc as [Hc H3]. apply andb_prop in Hc as [H1 H2].
  assert (HF : Forall (uniform a c) (tl (stmts_of a c tr))).
  { pose proof (stmts_of_uniform a c tr) as H. destruct (stmts_of a c tr); [constructor|]. inversion H; assumption. }
  rewrite (commit_val_eff a c _ d HF). rewrite H1, H2, H3. reflexivity.
Qed.

Lemma recover_before_or_after : forall a c tr d k,
  single_txn (stmts_of a c tr) = true -> complete_stmts (stmts_of a c tr) = true ->
  crash_disk k (stmts_of a c tr) d = d \/ crash_disk k (stmts_of a c tr) d = after_disk d a c.
Proof.
  intros a c tr d k H1 H2. rewrite <- (txn_effect a c tr d H1 H2). apply crash_before_or_after. exact H1.
Qed.

Lemma restart_inv : forall ct d, consistent d = true -> Inv (restart ct d).
Proof. intros ct d H. split; [exact H|]. cbn. pose proof (lamport_gt ct (d_ts d)). lia. Qed.

Lemma hstep_inv : forall p h, Inv p -> valid_hop h -> Inv (hstep p h).
Proof.
  intros p h [Hc Ht] Hv. destruct h as [ct ops|ct ops tr k ct2|ct]; cbn [hstep].
  - destruct (apply_ops (d_cells (p_disk p)) ops) as [a|]; [|split; assumption].
    pose proof (lamport_gt ct (p_cidmax p)) as Hl. split; cbn [p_disk p_cidmax].
    + apply consistent_after; [exact Hc|lia].
    + cbn. lia.
  - destruct (apply_ops (d_cells (p_disk p)) ops) as [a|]; [|apply restart_inv; exact Hc].
    apply restart_inv. set (c := lamport ct (p_cidmax p)).
    destruct (Hv a c) as [V1 V2].
    destruct (recover_before_or_after a c tr (p_disk p) k V1 V2) as [-> | ->]; [exact Hc|].
    apply consistent_after; [exact Hc|]. pose proof (lamport_gt ct (p_cidmax p)). unfold c. lia.
  - apply restart_inv. exact Hc.
Qed.

Lemma hrun_inv : forall h p, Inv p -> Forall valid_hop h -> Inv (hrun p h).
Proof.
  induction h as [|x r IH]; intros p Hi Hv; [exact Hi|].
  inversion Hv; subst. unfold hrun. cbn [fold_left]. apply IH; [apply hstep_inv|]; assumption.
Qed.

(* under the invariant the next change id exceeds every committed one and the persisted maximum *)
Lemma next_cid_greater : forall p ct, Inv p ->
  Forall (fun x => x < lamport ct (p_cidmax p)) (d_ts (p_disk p) :: d_cids (p_disk p)).
Proof.
  intros p ct [Hc Ht]. pose proof (lamport_gt ct (p_cidmax p)) as Hl.
  constructor; [lia|]. unfold consistent in Hc. apply andb_prop in Hc as [_ Hc].
  rewrite forallb_forall in Hc. apply Forall_forall. intros x Hx. apply Hc in Hx. apply N.leb_le in Hx. lia.
Qed.

(* pcheck is the property *)
Lemma pcheck_sound : forall before ops trace k aborted ts_rel ruv_has verr view cid_ok,
  pcheck (CCrash before ops trace k aborted ts_rel ruv_has verr view cid_ok) = true ->
  verr = 0 /\ cid_ok = true /\
  ((view = before /\ ruv_has = false /\ ts_rel = 0) \/
   (apply_ops before ops = Some view /\ ruv_has = true /\ ts_rel = 1)).
Proof.
  intros before ops trace k aborted ts_rel ruv_has verr view cid_ok H. cbn in H.
  apply andb_prop in H as [H H3]. apply andb_prop in H as [H1 H2]. apply N.eqb_eq in H1.
  split; [exact H1|]. split; [exact H2|]. apply orb_true_iff in H3 as [H|H].
  - left. apply andb_prop in H as [H Hc]. apply andb_prop in H as [Ha Hb].
    apply KV.C04.Proofs.cells_eqb_eq in Ha. apply negb_true_iff in Hb. apply N.eqb_eq in Hc. auto.
  - right. destruct (apply_ops before ops) as [a|]; [|discriminate].
    apply andb_prop in H as [H Hc]. apply andb_prop in H as [Ha Hb].
    apply KV.C04.Proofs.cells_eqb_eq in Ha. apply N.eqb_eq in Hc. subst. auto.
Qed.

(* the run-time bridge *)
Lemma agree_pcheck : forall c, agree c = true -> pcheck c = true.
Proof.
  intros [before ops trace k aborted ts_rel ruv_has verr view cid_ok] H. unfold agree in H.
  destruct (apply_ops before ops) as [a|] eqn:Ha; [|discriminate].
  repeat (apply andb_prop in H as [H ?]).
  rename H into V1.
  match goal with X : complete_stmts _ = true |- _ => rename X into V2 end.
  destruct (recover_before_or_after a 1 trace (base_disk before) (N.to_nat k) V1 V2) as [E|E];
    rewrite E in *; cbn [base_disk after_disk d_cells d_ts d_ruv d_cids nhas nins] in *.
  - (* before *)
    repeat match goal with X : Bool.eqb _ _ = true |- _ => apply Bool.eqb_prop in X end.
    repeat match goal with X : (_ =? _) = true |- _ => apply N.eqb_eq in X end.
    subst. cbn. rewrite Ha. 
    match goal with X : cells_eqb view before = true |- _ => rewrite X end. reflexivity.
  - repeat match goal with X : Bool.eqb _ _ = true |- _ => apply Bool.eqb_prop in X end.
    repeat match goal with X : (_ =? _) = true |- _ => apply N.eqb_eq in X end.
    subst. cbn. rewrite Ha.
    match goal with X : cells_eqb view a = true |- _ => rewrite X end.
    rewrite orb_true_r. reflexivity.
Qed.
