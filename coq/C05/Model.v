(* KV.C05.Model — a crash at any point recovers to the before or after state (executable definitions only).

   Transcribes, at the level of SQLite statements, what a server write transaction issues
   (be/idl_sqlite.rs: BEGIN EXCLUSIVE in IdlSqliteWriteTransaction::new; reads during the
   operations; at commit: set_db_ts_max (server/mod.rs:3043), write_db_ruv (be/mod.rs:2110),
   id2entry / index / name-table rows (be/idl_arc_sqlite.rs:649-707), COMMIT (idl_sqlite.rs:729)),
   what is left on disk when the process dies before statement k, and start-up
   (Backend::new + ruv_reload, QueryServer::new: cid_max = lamport(now, db_ts_max)).
   ASSUMED (trusted base, named `sqlite_atomic` in the texts): the statements between BEGIN and
   COMMIT of one connection reach the file all together when COMMIT has completed, and not at
   all otherwise; a statement outside BEGIN..COMMIT reaches the file at once (autocommit).
   That is how `exec` is written; what is PROVED is kanidm's own part: its statement sequence
   is a single BEGIN..COMMIT bracket, so every crash point yields before or after. *)
From Coq Require Import List NArith Bool.
Import ListNotations.
Require Export KV.C04.Model.
Require KV.C07.Model.
Open Scope N_scope.

Definition lamport := KV.C07.Model.lamport.

(* the database file: content, the change ids carried by stored entries (ascending set),
   the persisted RUV, the persisted maximum change time *)
Record dstate := mkd { d_cells : cells; d_cids : list N; d_ruv : list N; d_ts : N }.

Inductive stmt :=
| SBegin | SRead
| SWTs (c : N)                      (* db_op_ts row := c *)
| SWRuv (c : N)                     (* ruv += c *)
| SWEntries (a : cells) (c : N)     (* id2entry rows of the transaction (entries stamped with c) *)
| SWIdx | SWName                    (* index / name-table rows (derived data) *)
| SCommit | SPost.                  (* COMMIT; the point after COMMIT returned *)

Definition write (s : stmt) (d : dstate) : dstate :=
  match s with
  | SWTs c => mkd (d_cells d) (d_cids d) (d_ruv d) c
  | SWRuv c => mkd (d_cells d) (d_cids d) (nins c (d_ruv d)) (d_ts d)
  | SWEntries a c => mkd a (nins c (d_cids d)) (d_ruv d) (d_ts d)
  | _ => d
  end.

(* SQLite: (file, open transaction's private copy) *)
Definition sq := (dstate * option dstate)%type.
Definition exec (q : sq) (s : stmt) : sq :=
  let '(d, p) := q in
  match s, p with
  | SBegin, _ => (d, Some d)
  | SCommit, Some x => (x, None)
  | SCommit, None => (d, None)
  | _, Some x => (d, Some (write s x))
  | _, None => (write s d, None)         (* autocommit *)
  end.
Definition exec_all (q : sq) (l : list stmt) : sq := fold_left exec l q.

(* the process dies right BEFORE statement k (1-based): statements 1..k-1 ran; the open
   transaction is lost with the process *)
Definition crash_disk (k : nat) (l : list stmt) (d : dstate) : dstate :=
  fst (exec_all (d, None) (firstn (pred k) l)).

(* the effect of the whole transaction *)
Definition after_disk (d : dstate) (a : cells) (c : N) : dstate :=
  mkd a (nins c (d_cids d)) (nins c (d_ruv d)) c.

(* the bracket shape: BEGIN, then neither BEGIN nor COMMIT, then COMMIT, then only post points *)
Definition is_body (s : stmt) : bool := match s with SBegin | SCommit | SPost => false | _ => true end.
Definition is_post (s : stmt) : bool := match s with SPost => true | _ => false end.
Fixpoint body_then_commit (l : list stmt) : bool :=
  match l with
  | [] => false
  | SCommit :: r => forallb is_post r
  | s :: r => is_body s && body_then_commit r
  end.
Definition single_txn (l : list stmt) : bool :=
  match l with SBegin :: r => body_then_commit r | _ => false end.

(* statements of one server transaction with change id c and resulting content a, given the
   label trace of the storage points (codes as in KV.C04.Model) *)
Definition stmt_of (a : cells) (c : N) (l : label) : stmt :=
  match l with
  | 8 => SBegin | 1 => SWTs c | 2 => SWRuv c | 3 => SWEntries a c | 4 => SWIdx | 5 => SWName
  | 6 => SCommit | 7 => SPost | _ => SRead
  end.
Definition stmts_of (a : cells) (c : N) (tr : list label) : list stmt := map (stmt_of a c) tr.

(* a complete transaction writes ts_max, its ruv row and its entries inside the bracket *)
Definition is_ts (s : stmt) := match s with SWTs _ => true | _ => false end.
Definition is_ruv (s : stmt) := match s with SWRuv _ => true | _ => false end.
Definition is_ent (s : stmt) := match s with SWEntries _ _ => true | _ => false end.
Fixpoint upto_commit (r : list stmt) : list stmt :=
  match r with [] => [] | SCommit :: _ => [] | s :: r' => s :: upto_commit r' end.
Definition complete_stmts (l : list stmt) : bool :=
  existsb is_ts (upto_commit (tl l)) && existsb is_ruv (upto_commit (tl l)) && existsb is_ent (upto_commit (tl l)).

(* consistency of the file: RUV = change ids of the stored entries, none above the persisted maximum *)
Definition consistent (d : dstate) : bool :=
  nl_eqb (d_ruv d) (d_cids d) && forallb (fun c => c <=? d_ts d) (d_cids d).

(* ------------------------------------------------------------------ processes and restarts *)
Record proc := mkproc { p_disk : dstate; p_cidmax : N }.
Definition restart (ct : N) (d : dstate) : proc := mkproc d (lamport ct (d_ts d)).

Inductive hop :=
| HCommit (ct : N) (ops : list op)                      (* a transaction that runs to the end *)
| HCrash (ct : N) (ops : list op) (tr : list label) (k : nat) (ct2 : N)
                                                         (* dies before storage point k of trace tr, then restarts at clock ct2 *)
| HRestart (ct : N).

Definition hstep (p : proc) (h : hop) : proc :=
  match h with
  | HCommit ct ops =>
      match apply_ops (d_cells (p_disk p)) ops with
      | Some a => let c := lamport ct (p_cidmax p) in mkproc (after_disk (p_disk p) a c) c
      | None => p
      end
  | HCrash ct ops tr k ct2 =>
      match apply_ops (d_cells (p_disk p)) ops with
      | Some a => let c := lamport ct (p_cidmax p) in
                  restart ct2 (crash_disk k (stmts_of a c tr) (p_disk p))
      | None => restart ct2 (p_disk p)
      end
  | HRestart ct => restart ct (p_disk p)
  end.
Definition hrun (p : proc) (h : list hop) : proc := fold_left hstep h p.

(* ------------------------------------------------------------------ correspondence *)
(* ts_rel: persisted db_ts_max read by QueryServer::new compared with the crashed transaction's
   change id: 0 below, 1 equal, 2 above *)
Inductive case :=
| CCrash (before : cells) (ops : list op) (trace : list label) (k : N)
         (aborted : bool) (ts_rel : N) (ruv_has : bool) (verr : N) (view : cells) (cid_ok : bool).

(* the base file: change ids below the transaction's (abstractly 0 < 1) *)
Definition base_disk (before : cells) : dstate := mkd before [0] [0] 0.

Definition agree (c : case) : bool :=
  match c with
  | CCrash before ops trace k aborted ts_rel ruv_has verr view cid_ok =>
      match apply_ops before ops with
      | None => false
      | Some a =>
          let l := stmts_of a 1 trace in
          let d := crash_disk (N.to_nat k) l (base_disk before) in
          let p := restart 0 d in
          single_txn l && complete_stmts l
          && Bool.eqb aborted (k <=? N.of_nat (length trace))
          && cells_eqb view (d_cells d)
          && (ts_rel =? (if d_ts d =? 1 then 1 else 0))
          && Bool.eqb ruv_has (nhas 1 (d_ruv d))
          && (verr =? 0)
          && Bool.eqb cid_ok (forallb (fun x => x <? lamport 0 (p_cidmax p)) (d_ts d :: d_cids d))
      end
  end.

(* the property on the implementation's own observations *)
Definition pcheck (c : case) : bool :=
  match c with
  | CCrash before ops trace k aborted ts_rel ruv_has verr view cid_ok =>
      (verr =? 0) && cid_ok &&
      ((cells_eqb view before && negb ruv_has && (ts_rel =? 0))
       || match apply_ops before ops with
          | Some a => cells_eqb view a && ruv_has && (ts_rel =? 1)
          | None => false
          end)
  end.

Definition known (_ : case) : bool := false.
