(* KV.C05.Witness — non-vacuity. *)
From Coq Require Import List NArith Bool.
Import ListNotations.
Require Import KV.C05.Model KV.C05.Proofs.
Open Scope N_scope.

Definition w0 : cells := mkcells [(0, 2); (1, 3)] false 0 [].
Definition wa : cells := mkcells [(0, 4)] false 5 [].
Definition wtr : list label := [8; 0; 0; 0; 1; 2; 3; 3; 4; 4; 4; 5; 5; 6; 7].
Definition wd : dstate := mkd w0 [3; 7] [3; 7] 7.

(* the traced shape meets the hypotheses *)
Example C05_witness_shape :
  single_txn (stmts_of wa 9 wtr) = true /\ complete_stmts (stmts_of wa 9 wtr) = true /\ consistent wd = true.
Proof. vm_compute. repeat split; reflexivity. Qed.

(* crash before COMMIT (point 14): before; crash at the point after COMMIT (15) or later: complete after state *)
Example C05_witness_points :
  crash_disk 14 (stmts_of wa 9 wtr) wd = wd /\
  crash_disk 15 (stmts_of wa 9 wtr) wd = mkd wa [3; 7; 9] [3; 7; 9] 9 /\
  crash_disk 16 (stmts_of wa 9 wtr) wd = after_disk wd wa 9.
Proof. vm_compute. repeat split; reflexivity. Qed.

(* why the single bracket matters: the same writes with db_ts_max issued OUTSIDE the bracket
   give a crash point that is neither before nor after *)
Example C05_witness_why_single_bracket :
  let l := [SWTs 9; SBegin; SWRuv 9; SWEntries wa 9; SCommit; SPost] in
  single_txn l = false /\ crash_disk 3 l wd <> wd /\ crash_disk 3 l wd <> after_disk wd wa 9.
Proof. vm_compute. repeat split; intros H; discriminate H. Qed.

(* a history with regressing clocks: crash before commit, crash after commit, restarts *)
Example C05_witness_history :
  let p0 := restart 100 wd in
  let h := [HCommit 50 [OModify 0 9]; HCrash 10 [ODelete 1] wtr 9 5; HCrash 4 [ODelete 1] wtr 15 3; HRestart 1; HCommit 2 [OCreate 3 3]] in
  Inv p0 /\ Forall valid_hop h /\
  d_cids (p_disk (hrun p0 h)) = [3; 7; 101; 103; 105] /\ d_ts (p_disk (hrun p0 h)) = 105 /\
  d_cells (p_disk (hrun p0 h)) = mkcells [(0, 9); (3, 3)] false 0 [].
Proof.
  cbn zeta. split; [apply restart_inv; reflexivity|]. split.
  - repeat constructor; intros a c; split; reflexivity.
  - vm_compute. repeat split; reflexivity.
Qed.

Example C05_witness_agree :
  agree (CCrash w0 [OModify 0 3; ODelete 1; ODomain 5] wtr 14 true 0 false 0 w0 true) = true /\
  agree (CCrash w0 [OModify 0 3; ODelete 1; ODomain 5] wtr 15 true 1 true 0 (mkcells [(0, 3)] false 5 []) true) = true /\
  agree (CCrash w0 [OModify 0 3; ODelete 1; ODomain 5] wtr 16 false 1 true 0 (mkcells [(0, 3)] false 5 []) true) = true /\
  agree (CCrash w0 [OModify 0 3; ODelete 1; ODomain 5] wtr 14 true 0 false 0 (mkcells [(0, 3)] false 5 []) true) = false /\
  pcheck (CCrash w0 [OModify 0 3; ODelete 1; ODomain 5] wtr 9 true 0 false 0 (mkcells [(0, 3); (1, 3)] false 0 []) true) = false.
Proof. vm_compute. repeat split; reflexivity. Qed.
