(* KV.C05.Props — property theorems only. PARTIAL by design: SQLite's atomic commit is assumed
   (it is how `exec` is written: statements between BEGIN and COMMIT reach the file together at
   COMMIT or not at all; statements outside a bracket reach it at once). *)
From Coq Require Import List NArith Bool.
Import ListNotations.
Require Import KV.C05.Model KV.C05.Proofs.
Open Scope N_scope.

(* kanidm's part, general form: ANY statement sequence of the shape BEGIN body COMMIT post*
   (one bracket, nothing outside) leaves, for a crash before ANY statement k and from ANY file
   state, either the file as it was or the file with the complete body applied. *)
Theorem C05_single_bracket_before_or_after_partial : forall l d k, single_txn l = true ->
  crash_disk k l d = d \/ crash_disk k l d = commit_val (tl l) d.
Proof. exact crash_before_or_after. Qed.

(* For the statement sequence of a server write transaction (as traced from the real code:
   it must be one bracket and contain the db_ts_max, RUV and id2entry writes), every crash
   point yields the state before or the COMPLETE state after: content, change ids of the
   entries, RUV and persisted maximum change time all together. *)
Theorem C05_recover_before_or_after_partial : forall a c tr d k,
  single_txn (stmts_of a c tr) = true -> complete_stmts (stmts_of a c tr) = true ->
  crash_disk k (stmts_of a c tr) d = d \/ crash_disk k (stmts_of a c tr) d = after_disk d a c.
Proof. exact recover_before_or_after. Qed.

(* which one: nothing before COMMIT has run, everything once the trace is complete *)
Theorem C05_crash_up_to_commit_is_before : forall r d k, body_then_commit r = true ->
  (pred k <= S (commit_pos r))%nat -> crash_disk k (SBegin :: r) d = d.
Proof.
  intros r d k H Hk. unfold crash_disk. destruct (pred k) as [|n]; [reflexivity|].
  cbn [firstn]. unfold exec_all. cbn [fold_left exec]. apply btc_before; [exact H|]. apply le_S_n. exact Hk.
Qed.
Theorem C05_crash_after_end_is_after : forall l d k, single_txn l = true -> (length l < k)%nat ->
  crash_disk k l d = commit_val (tl l) d.
Proof. exact crash_after_end. Qed.

(* The recovered file is consistent (RUV = change ids of the stored entries, none above the
   persisted maximum) after every history of completed transactions, crashes at arbitrary
   points followed by restarts, and plain restarts, with ARBITRARY clock readings; and the
   next change id the (re)started server issues is greater than every change id it had
   committed and than the persisted maximum. *)
Theorem C05_recovered_consistent_and_cid_after_restart : forall h p ct,
  Inv p -> Forall valid_hop h ->
  Inv (hrun p h) /\
  Forall (fun x => x < lamport ct (p_cidmax (hrun p h))) (d_ts (p_disk (hrun p h)) :: d_cids (p_disk (hrun p h))).
Proof.
  intros h p ct Hi Hv. pose proof (hrun_inv h p Hi Hv) as H. split; [exact H|]. apply next_cid_greater. exact H.
Qed.
(* a freshly (re)started server on a consistent file satisfies the invariant *)
Theorem C05_restart_establishes_invariant : forall ct d, consistent d = true -> Inv (restart ct d).
Proof. exact restart_inv. Qed.

(* pcheck states the property on the observations, and agreement with the model implies it *)
Theorem C05_pcheck_sound : forall before ops trace k aborted ts_rel ruv_has verr view cid_ok,
  pcheck (CCrash before ops trace k aborted ts_rel ruv_has verr view cid_ok) = true ->
  verr = 0 /\ cid_ok = true /\
  ((view = before /\ ruv_has = false /\ ts_rel = 0) \/
   (apply_ops before ops = Some view /\ ruv_has = true /\ ts_rel = 1)).
Proof. exact pcheck_sound. Qed.
Theorem C05_agree_implies_property : forall c : case, agree c = true -> pcheck c = true.
Proof. exact agree_pcheck. Qed.
