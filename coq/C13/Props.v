(* KV.C13.Props — property theorems only.
   Vocabulary: a [dump] is the database as observed: the three identifiers (server uuid, domain
   uuid, maximum change time), the key handles, the id2entry rows (id, uuid, body, change ids),
   the in-memory replication update vector (change id -> entry ids, and per-server time
   ranges), the persisted `ruv` table and the cached maximum entry id.  [cont r] is a row
   without its id (what a backup stores).  [src_wf] is what every source database looks like
   (ids ascending from 1 or more, RUV keys ascending, ranges = the RUV keys grouped by server);
   it is checked on every source dump of every run.  [backup here], [restore_commit here tm]
   (restore followed by commit into a target whose cached maximum id was [tm]), [reopen]
   (close the database and open it again: the RUV is reloaded from the `ruv` table and rebuilt
   from the entries) and [create] transcribe the kanidm code. *)
From Coq Require Import List NArith Bool.
Import ListNotations.
Require Import KV.C13.Model KV.C13.Proofs.
Require KV.Base.Filter.
Require KV.C03.Model KV.C03.Proofs.
Open Scope N_scope.

(* ROUND TRIP. For EVERY well-formed source database that has its identifiers, every server
   version string and every target: the backup succeeds, restoring it succeeds, and both right
   after the restore (m) and after the database has been closed and opened again (reopen m)
   the target has the same server uuid, domain uuid, maximum change time and key handles, the
   same entries in the same order (only the ids are renumbered 1..n), the same RUV change
   ids, the same per-server ranges and the same persisted `ruv` table.  Right after the
   restore the id lists of the RUV are empty; after the re-open every change id lists exactly
   the restored entries whose change state carries it, and the cached maximum id is n. *)
Theorem C13_roundtrip : forall here src tm, src_wf src = true -> has_ids src ->
  exists b m, backup here src = Some b /\ restore_commit here tm b = Ok m /\
    SameDb src m /\ SameDb src (reopen m) /\
    g_ruv m = map (fun k => (k, [])) (map fst (g_ruv src)) /\
    g_ruv (reopen m) = map (fun k => (k, idl_spec (g_rows (reopen m)) k)) (map fst (g_ruv src)) /\
    g_maxid (reopen m) = N.of_nat (length (g_rows src)).
Proof.
  intros here src tm Hwf Hids.
  destruct (restore_ok here src tm Hwf Hids) as [b [m [H1 [H2 [H3 [H4 [H5 [H6 [_ [_ [_ H7]]]]]]]]]]].
  exists b, m. exact (conj H1 (conj H2 (conj H3 (conj H4 (conj H5 (conj H6 H7)))))).
Qed.

(* The same rule governs the source's own restart: re-opening ANY database whose rows and
   persisted change ids ascend gives every change id exactly the entries that carry it.  With
   the theorem above: the restored server's RUV is the one the source itself would have after
   a restart, entry for entry (next theorem), modulo the new ids. *)
Theorem C13_reopen_ruv : forall d, asc (map rid (g_rows d)) = true -> casc (g_dbruv d) = true ->
  g_ruv (reopen d) = map (fun k => (k, idl_spec (g_rows d) k)) (g_dbruv d).
Proof. exact reopen_ruv. Qed.

(* EVERY SEARCH IS ANSWERED AS BEFORE. For any predicate on entry contents — in particular
   `ematch (sem (cont r)) f` for any filter f of KV.Base.Filter and any leaf semantics that
   reads the entry's content — selecting from the restored rows gives the same entries in the
   same order as selecting from the source rows. (That a real search answers exactly the
   stored entries matching the filter is C01_search_exact; that the index rows reindex builds
   are the exact ones is C03, below.) *)
Theorem C13_search_same : forall here src tm b m (p : content -> bool),
  src_wf src = true -> backup here src = Some b -> restore_commit here tm b = Ok m ->
  map cont (filter (fun r => p (cont r)) (g_rows (reopen m))) =
  map cont (filter (fun r => p (cont r)) (g_rows src)).
Proof.
  intros here src tm b m p Hwf Hb Hr.
  destruct (restore_ok here src tm Hwf (backup_some_ids _ _ _ Hb)) as [b' [m' [H1 [H2 [_ [S2 _]]]]]].
  rewrite Hb in H1. inversion H1. subst b'. rewrite Hr in H2. inversion H2. subst m'.
  apply answers_same. apply (sd_rows _ _ S2).
Qed.
Corollary C13_search_same_filter : forall here src tm b m
    (sem : content -> KV.Base.Filter.leafsem) (f : KV.Base.Filter.filt),
  src_wf src = true -> backup here src = Some b -> restore_commit here tm b = Ok m ->
  map cont (filter (fun r => KV.Base.Filter.ematch (sem (cont r)) f) (g_rows (reopen m))) =
  map cont (filter (fun r => KV.Base.Filter.ematch (sem (cont r)) f) (g_rows src)).
Proof.
  intros here src tm b m sem f. exact (C13_search_same here src tm b m (fun c => KV.Base.Filter.ematch (sem c) f)).
Qed.

(* The same holds per change id: the entries replication would send for a change id are the
   same entries before and after. *)
Theorem C13_same_entries_per_cid : forall here src tm b m c,
  src_wf src = true -> backup here src = Some b -> restore_commit here tm b = Ok m ->
  map cont (filter (fun r => cmem c (rcids r)) (g_rows (reopen m))) =
  map cont (filter (fun r => cmem c (rcids r)) (g_rows src)).
Proof.
  intros here src tm b m c. exact (C13_search_same here src tm b m (fun x => cmem c (snd x))).
Qed.

(* VERSION GATE. A backup whose version field is not exactly this server's version string —
   or that has no version field at all (the older shapes) — is refused, whatever it contains
   and whatever the target holds. *)
Theorem C13_version_gate : forall here tm b, b_ver b <> Some here ->
  restore_commit here tm b = Err 1 \/ restore_commit here tm b = Err 2.
Proof. exact gate_refuses. Qed.

(* THE RESTORED DATABASE PASSES THE INDEX CONSISTENCY CHECK AFTER REINDEX (link to C03): for
   any reading [view] of a stored entry as what indexing looks at, if the restored entries are
   unique (ids, uuids, names, external ids — ids are 1..n by C13_roundtrip, the rest depends on
   the contents only) then the reindex that follows a restore succeeds and leaves every index
   row and name table an exact mirror of the restored entries. *)
Theorem C13_restored_mirror : forall (view : row -> KV.C03.Model.ent) (rows : list row) s,
  KV.C03.Model.ents s = map (fun r => (rid r, view r)) rows ->
  KV.C03.Proofs.Uniq (map view rows) -> KV.C03.Proofs.Wf (map view rows) ->
  exists s', KV.C03.Model.reindex s = Some s' /\ KV.C03.Proofs.Mirror (map view rows) s'.
Proof.
  intros view rows s He Hu Hw.
  assert (E : map snd (KV.C03.Model.ents s) = map view rows).
  { rewrite He, map_map. reflexivity. }
  destruct (KV.C03.Proofs.reindex_mirror s) as [s' [H1 [H2 _]]].
  - rewrite E. exact Hu.
  - rewrite E. exact Hw.
  - exists s'. rewrite E in H2. auto.
Qed.

(* THE RESTORING PROCESS MAY GO ON WRITING. An entry created after the restore in the same
   process (the migrations that restore_server_core runs on the same Backend create built-in
   entries that the backup lacks) leaves every restored entry in place, for every source,
   every target (whatever its cached maximum id was) and every new entry: restore hands out
   the ids 1..n and sets the cached maximum id to n, so the new entry gets n+1. *)
Theorem C13_create_keeps : forall here src tm c b m, src_wf src = true ->
  backup here src = Some b -> restore_commit here tm b = Ok m ->
  forall r, In r (g_rows m) -> In r (g_rows (create c m)).
Proof. exact create_keeps. Qed.

(* ... and likewise once the database has been closed and opened again. *)
Theorem C13_create_keeps_after_reopen : forall here src tm c b m, src_wf src = true ->
  backup here src = Some b -> restore_commit here tm b = Ok m ->
  forall r, In r (g_rows (reopen m)) -> In r (g_rows (create c (reopen m))).
Proof.
  intros here src tm c b m Hwf Hb Hr r Hin.
  destruct (restore_ok here src tm Hwf (backup_some_ids _ _ _ Hb)) as [b' [m' [H1 [H2 [_ [_ [_ [_ [Hrows [Hnum [_ Hmax]]]]]]]]]]].
  rewrite Hb in H1. inversion H1. subst b'. rewrite Hr in H2. inversion H2. subst m'.
  unfold create. cbn [g_rows]. apply put_keeps; auto.
  intros x Hx. cbn [rid]. rewrite Hmax. rewrite Hrows, Hnum in Hx.
  apply number_range in Hx. rewrite map_length in Hx.
  intro E. rewrite E in Hx. destruct Hx as [_ Hx]. revert Hx. apply N.le_ngt.
  rewrite N.add_comm. apply N.le_refl.
Qed.

(* DOCUMENTATION OF THE REPAIRED DEFECT (fix 5cb740a in /repo, found by this check). Before the
   fix restore left the cached maximum id at the value the target had before (0 for a new
   database): [prefix_restore_commit].  For that function the statement above is FALSE — the
   new entry is numbered from the stale value and replaces a restored row.  Confirmed on the
   code before the fix (props/C13.json): a source in which the built-in group system_admins
   had been deleted and purged; after restore + reindex the start-up migration re-created it
   with id 1, the restored key_provider_internal entry was gone, verify() = [Err(Unknown)]. *)
Theorem C13_prefix_refuted : ~ create_keeps_all_for prefix_restore_commit.
Proof. exact prefix_create_refuted. Qed.

(* Soundness of the run-time tie: whenever the implementation's observations agree with the
   model, the property's executable predicate holds on them. *)
Theorem C13_agree_implies_property : forall c : case, agree c = true -> pcheck c = true.
Proof. exact agree_pcheck. Qed.


(* ... and pcheck means what it says: a CRound case that passes has, on the implementation's
   own dumps, the same identifiers, entries, RUV change ids, ranges and persisted ruv table
   after the restore and after the re-open. *)
Theorem C13_pcheck_sound : forall gz src bc sj tm rc mid re ve before after se,
  pcheck (CRound gz src bc sj tm rc mid re ve before after se) = true -> has_idsb src = true ->
  same_db src mid = true /\ same_db src re = true /\ ve = 0 /\ before = after /\
  (forall c x, In (c, x) (g_ruv re) -> x = idl_spec (g_rows re) c).
Proof.
  intros gz src bc sj tm rc mid re ve before after se H Hi. cbn [pcheck] in H. rewrite Hi in H.
  rewrite !andb_true_iff in H.
  destruct H as [[[[[[[[[_ _] _] Hm] Hr] Hf] _] Hv] Ha] _].
  repeat split; auto.
  - apply N.eqb_eq. exact Hv.
  - apply (list_eqb_eq _ _ leqb_eq). exact Ha.
  - intros c x Hin. rewrite forallb_forall in Hf. specialize (Hf _ Hin). cbn [fst snd] in Hf.
    apply leqb_eq. exact Hf.
Qed.
