(* KV.C13.Proofs — lemmas about backup / restore / re-open. *)
From Coq Require Import List NArith Bool Lia.
Import ListNotations.
Require Import KV.C13.Model.
Open Scope N_scope.
Arguments N.add : simpl never.
Arguments N.sub : simpl never.
Arguments N.ltb : simpl never.
Arguments N.leb : simpl never.
Arguments N.eqb : simpl never.
Arguments N.compare : simpl never.

(* ------------------------------------------------------------------ boolean equalities *)
Lemma list_eqb_eq : forall A (eqb : A -> A -> bool),
  (forall x y, eqb x y = true -> x = y) -> forall a b, list_eqb eqb a b = true -> a = b.
Proof.
  intros A eqb H a. induction a as [|x r IH]; intros [|y t] E; cbn in E; try discriminate; auto.
  apply andb_true_iff in E. destruct E as [E1 E2]. f_equal; auto.
Qed.
Lemma list_eqb_refl : forall A (eqb : A -> A -> bool),
  (forall x, eqb x x = true) -> forall a, list_eqb eqb a a = true.
Proof. intros A eqb H a. induction a as [|x r IH]; cbn; auto. rewrite H, IH. reflexivity. Qed.

Lemma cid_eqb_eq : forall a b, cid_eqb a b = true -> a = b.
Proof.
  intros [a1 a2] [b1 b2] E. unfold cid_eqb in E. cbn [fst snd] in E.
  apply andb_true_iff in E. destruct E as [E1 E2].
  apply N.eqb_eq in E1. apply N.eqb_eq in E2. subst. reflexivity.
Qed.
Lemma cid_eqb_refl : forall a, cid_eqb a a = true.
Proof. intros [a1 a2]. unfold cid_eqb. cbn [fst snd]. rewrite !N.eqb_refl. reflexivity. Qed.
Lemma cid_eqb_neq : forall a b, a <> b -> cid_eqb a b = false.
Proof.
  intros a b H. destruct (cid_eqb a b) eqn:E; auto. apply cid_eqb_eq in E. contradiction.
Qed.

Lemma leqb_eq : forall a b, leqb a b = true -> a = b.
Proof. apply list_eqb_eq. intros x y E. apply N.eqb_eq. exact E. Qed.
Lemma leqb_refl : forall a, leqb a a = true.
Proof. apply list_eqb_refl. apply N.eqb_refl. Qed.
Lemma cids_eqb_eq : forall a b, cids_eqb a b = true -> a = b.
Proof. apply list_eqb_eq. apply cid_eqb_eq. Qed.
Lemma cids_eqb_refl : forall a, cids_eqb a a = true.
Proof. apply list_eqb_refl. apply cid_eqb_refl. Qed.

Lemma oeqb_eq : forall a b, oeqb a b = true -> a = b.
Proof. intros [x|] [y|] E; cbn in E; try discriminate; auto. apply N.eqb_eq in E. subst. auto. Qed.
Lemma oeqb_refl : forall a, oeqb a a = true.
Proof. intros [x|]; cbn; auto. apply N.eqb_refl. Qed.

Lemma row_eqb_eq : forall a b, row_eqb a b = true -> a = b.
Proof.
  intros [i u b c] [i' u' b' c'] E. unfold row_eqb in E. cbn [rid ruuid rbody rcids] in E.
  repeat (apply andb_true_iff in E; destruct E as [E ?]).
  apply N.eqb_eq in E. apply N.eqb_eq in H0. apply N.eqb_eq in H1. apply cids_eqb_eq in H. subst.
  reflexivity.
Qed.
Lemma cont_eqb_refl : forall a, cont_eqb a a = true.
Proof. intros [[u b] c]. unfold cont_eqb. cbn [fst snd]. rewrite !N.eqb_refl, cids_eqb_refl. reflexivity. Qed.
Lemma ruv_eqb_eq : forall a b, ruv_eqb a b = true -> a = b.
Proof.
  apply list_eqb_eq. intros [c x] [c' x'] E. cbn [fst snd] in E.
  apply andb_true_iff in E. destruct E as [E1 E2].
  apply cid_eqb_eq in E1. apply leqb_eq in E2. subst. reflexivity.
Qed.
Lemma ranges_eqb_eq : forall a b, ranges_eqb a b = true -> a = b.
Proof.
  apply list_eqb_eq. intros [c x] [c' x'] E. cbn [fst snd] in E.
  apply andb_true_iff in E. destruct E as [E1 E2].
  apply N.eqb_eq in E1. apply leqb_eq in E2. subst. reflexivity.
Qed.
Lemma ranges_eqb_refl : forall a, ranges_eqb a a = true.
Proof. apply list_eqb_refl. intros [c x]. cbn [fst snd]. rewrite N.eqb_refl, leqb_refl. reflexivity. Qed.

Lemma dump_eqb_eq : forall a b, dump_eqb a b = true -> a = b.
Proof.
  intros [s d t k r u g p m] [s' d' t' k' r' u' g' p' m'] E. unfold dump_eqb in E.
  cbn [g_s g_d g_ts g_kh g_rows g_ruv g_ranged g_dbruv g_maxid] in E.
  repeat (apply andb_true_iff in E; destruct E as [E ?]).
  apply oeqb_eq in E. apply oeqb_eq in H6. apply oeqb_eq in H5. apply N.eqb_eq in H4.
  apply (list_eqb_eq _ _ row_eqb_eq) in H3. apply ruv_eqb_eq in H2. apply ranges_eqb_eq in H1.
  apply cids_eqb_eq in H0. apply N.eqb_eq in H. subst. reflexivity.
Qed.

(* ------------------------------------------------------------------ the order of change ids *)
Lemma cid_lt_iff : forall a b,
  cid_cmp a b = Lt <-> fst a < fst b \/ (fst a = fst b /\ snd a < snd b).
Proof.
  intros [a1 a2] [b1 b2]. unfold cid_cmp. cbn [fst snd].
  destruct (a1 ?= b1) eqn:C.
  - apply N.compare_eq_iff in C. rewrite N.compare_lt_iff. lia.
  - apply N.compare_lt_iff in C. split; auto.
  - apply N.compare_gt_iff in C. split; [discriminate | lia].
Qed.
Lemma cid_gt_iff : forall a b, cid_cmp a b = Gt <-> cid_cmp b a = Lt.
Proof.
  intros [a1 a2] [b1 b2]. unfold cid_cmp. cbn [fst snd].
  rewrite (N.compare_antisym a1 b1), (N.compare_antisym a2 b2).
  destruct (a1 ?= b1); destruct (a2 ?= b2); cbn [CompOpp]; split; intro H; try discriminate; auto.
Qed.
Lemma cid_lt_trans : forall a b c, cid_cmp a b = Lt -> cid_cmp b c = Lt -> cid_cmp a c = Lt.
Proof. intros a b c H1 H2. apply cid_lt_iff in H1. apply cid_lt_iff in H2. apply cid_lt_iff. lia. Qed.
Lemma cid_lt_irrefl : forall a, cid_cmp a a <> Lt.
Proof. intros a H. apply cid_lt_iff in H. lia. Qed.
Lemma cid_ltb_lt : forall a b, cid_ltb a b = true <-> cid_cmp a b = Lt.
Proof. intros a b. unfold cid_ltb. destruct (cid_cmp a b); split; intro H; try discriminate; auto. Qed.

(* ascending lists: everything before a point is below it *)
Lemma casc_app_lt : forall l x r, casc (l ++ x :: r) = true -> forall y, In y l -> cid_cmp y x = Lt.
Proof.
  induction l as [|a l IH]; intros x r H y Hy; [destruct Hy|].
  cbn [app] in H. assert (Hc : casc (l ++ x :: r) = true /\ (forall h t, l ++ x :: r = h :: t -> cid_cmp a h = Lt)).
  { cbn [casc] in H. destruct (l ++ x :: r) as [|h t] eqn:E.
    - destruct l; discriminate.
    - apply andb_true_iff in H. destruct H as [H1 H2]. split; auto.
      intros h' t' E'. inversion E'. subst. apply cid_ltb_lt. exact H1. }
  destruct Hc as [Hc1 Hc2]. destruct Hy as [->|Hy].
  - destruct l as [|b l'].
    + apply (Hc2 x r). reflexivity.
    + apply cid_lt_trans with b.
      * apply (Hc2 b (l' ++ x :: r)). reflexivity.
      * apply (IH x r Hc1). left. reflexivity.
  - apply (IH x r Hc1). exact Hy.
Qed.
Lemma casc_tail : forall a l, casc (a :: l) = true -> casc l = true.
Proof. intros a [|b l] H; auto. cbn [casc] in H. apply andb_true_iff in H. tauto. Qed.
Lemma casc_app_r : forall l r, casc (l ++ r) = true -> casc r = true.
Proof. induction l as [|a l IH]; intros r H; auto. apply IH. apply casc_tail with a. exact H. Qed.
Lemma casc_nodup : forall l, casc l = true -> NoDup l.
Proof.
  induction l as [|a l IH]; intro H; constructor.
  - intro Hin. apply in_split in Hin. destruct Hin as [l1 [l2 ->]].
    assert (Hlt : cid_cmp a a = Lt).
    { apply (casc_app_lt (a :: l1) a l2); [exact H | left; reflexivity]. }
    exact (cid_lt_irrefl a Hlt).
  - apply IH. apply casc_tail with a. exact H.
Qed.

Lemma asc_app_lt : forall l x r, asc (l ++ x :: r) = true -> forall y, In y l -> y < x.
Proof.
  induction l as [|a l IH]; intros x r H y Hy; [destruct Hy|].
  cbn [app] in H. assert (Hc : asc (l ++ x :: r) = true /\ (forall h t, l ++ x :: r = h :: t -> a < h)).
  { cbn [asc] in H. destruct (l ++ x :: r) as [|h t] eqn:E.
    - destruct l; discriminate.
    - apply andb_true_iff in H. destruct H as [H1 H2]. split; auto.
      intros h' t' E'. inversion E'. subst. apply N.ltb_lt. exact H1. }
  destruct Hc as [Hc1 Hc2]. destruct Hy as [->|Hy].
  - destruct l as [|b l'].
    + apply (Hc2 x r). reflexivity.
    + apply N.lt_trans with b.
      * apply (Hc2 b (l' ++ x :: r)). reflexivity.
      * apply (IH x r Hc1). left. reflexivity.
  - apply (IH x r Hc1). exact Hy.
Qed.
Lemma asc_tail : forall a l, asc (a :: l) = true -> asc l = true.
Proof. intros a [|b l] H; auto. cbn [asc] in H. apply andb_true_iff in H. tauto. Qed.

(* ------------------------------------------------------------------ id lists *)
Lemma ins_snoc : forall i l, (forall x, In x l -> x < i) -> ins i l = l ++ [i].
Proof.
  intros i l. induction l as [|a l IH]; intro H; cbn [ins app]; auto.
  assert (Ha : a < i) by (apply H; left; reflexivity).
  destruct (i <? a) eqn:E1; [apply N.ltb_lt in E1; lia|].
  destruct (i =? a) eqn:E2; [apply N.eqb_eq in E2; lia|].
  f_equal. apply IH. intros x Hx. apply H. right. exact Hx.
Qed.
Lemma ins_idem : forall i l, ins i (ins i l) = ins i l.
Proof.
  intros i l. induction l as [|a l IH]; cbn [ins].
  - rewrite N.ltb_irrefl, N.eqb_refl. reflexivity.
  - destruct (i <? a) eqn:E1.
    + cbn [ins]. rewrite N.ltb_irrefl, N.eqb_refl. reflexivity.
    + destruct (i =? a) eqn:E2.
      * cbn [ins]. rewrite E1, E2. reflexivity.
      * cbn [ins]. rewrite E1, E2, IH. reflexivity.
Qed.

(* ------------------------------------------------------------------ RUV restore *)
Lemma cins_snoc : forall c m, (forall k, In k (map fst m) -> cid_cmp k c = Lt) -> cins c m = m ++ [(c, [])].
Proof.
  intros c m. induction m as [|[k x] m IH]; intro H; cbn [cins app]; auto.
  assert (Hk : cid_cmp k c = Lt) by (apply H; left; reflexivity).
  apply cid_gt_iff in Hk. rewrite Hk. f_equal. apply IH. intros k' Hk'. apply H. right. exact Hk'.
Qed.
Lemma fold_cins : forall cs m, casc (map fst m ++ cs) = true ->
  fold_left (fun m c => cins c m) cs m = m ++ map (fun c => (c, [])) cs.
Proof.
  induction cs as [|c cs IH]; intros m H; cbn [fold_left map].
  - rewrite app_nil_r. reflexivity.
  - rewrite cins_snoc by (intros k Hk; apply (casc_app_lt (map fst m) c cs H k Hk)).
    rewrite IH.
    + rewrite <- app_assoc. reflexivity.
    + rewrite map_app. cbn [map fst]. rewrite <- app_assoc. exact H.
Qed.
Lemma ruv_restore_data : forall cs, casc cs = true ->
  fst (ruv_restore cs) = map (fun c => (c, [])) cs.
Proof. intros cs H. unfold ruv_restore. cbn [fst]. rewrite fold_cins; auto. Qed.
Lemma map_fst_empty : forall cs : list cid, map fst (map (fun c => (c, @nil N)) cs) = cs.
Proof. intro cs. rewrite map_map. cbn [fst]. apply map_id. Qed.

(* ------------------------------------------------------------------ RUV rebuild *)
Lemma idl_add_map : forall c i (g : cid -> list N) ks, NoDup ks ->
  idl_add c i (map (fun k => (k, g k)) ks) =
  map (fun k => (k, if cid_eqb c k then ins i (g k) else g k)) ks.
Proof.
  intros c i g ks. induction ks as [|k ks IH]; intro H; cbn [map idl_add]; auto.
  inversion H as [|? ? Hn Hd]. subst.
  destruct (cid_eqb c k) eqn:E.
  - f_equal. apply cid_eqb_eq in E. subst k. apply map_ext_in. intros k' Hk'.
    rewrite cid_eqb_neq; auto. intro. subst. contradiction.
  - f_equal. apply IH. exact Hd.
Qed.
Lemma cmem_cons : forall k c cs, cmem k (c :: cs) = cid_eqb c k || cmem k cs.
Proof.
  intros k c cs. unfold cmem. cbn [existsb]. f_equal.
  destruct (cid_eqb k c) eqn:E.
  - apply cid_eqb_eq in E. subst. symmetry. apply cid_eqb_refl.
  - symmetry. apply cid_eqb_neq. intro. subst. rewrite cid_eqb_refl in E. discriminate.
Qed.
Lemma fold_idl_add : forall i cs (g : cid -> list N) ks, NoDup ks ->
  fold_left (fun d c => idl_add c i d) cs (map (fun k => (k, g k)) ks) =
  map (fun k => (k, if cmem k cs then ins i (g k) else g k)) ks.
Proof.
  intros i cs. induction cs as [|c cs IH]; intros g ks H; cbn [fold_left].
  - reflexivity.
  - rewrite idl_add_map by exact H.
    rewrite (IH (fun k => if cid_eqb c k then ins i (g k) else g k) ks H).
    apply map_ext. intro k. rewrite cmem_cons.
    destruct (cid_eqb c k); destruct (cmem k cs); cbn [orb]; auto. rewrite ins_idem. reflexivity.
Qed.

Lemma idl_spec_app : forall P r c,
  idl_spec (P ++ [r]) c = idl_spec P c ++ (if cmem c (rcids r) then [rid r] else []).
Proof.
  intros P r c. unfold idl_spec. rewrite filter_app, map_app. f_equal. cbn [filter].
  destruct (cmem c (rcids r)); reflexivity.
Qed.
Lemma idl_spec_in : forall P c x, In x (idl_spec P c) -> In x (map rid P).
Proof.
  intros P c x H. unfold idl_spec in H. apply in_map_iff in H. destruct H as [r [E Hr]].
  apply filter_In in Hr. apply in_map_iff. exists r. tauto.
Qed.

Lemma rebuild_spec : forall R P ks, NoDup ks -> asc (map rid P ++ map rid R) = true ->
  rebuild R (map (fun k => (k, idl_spec P k)) ks) = map (fun k => (k, idl_spec (P ++ R) k)) ks.
Proof.
  induction R as [|r R IH]; intros P ks Hk Ha.
  - rewrite app_nil_r. reflexivity.
  - change (rebuild (r :: R) (map (fun k => (k, idl_spec P k)) ks))
      with (rebuild R (fold_left (fun d c => idl_add c (rid r) d) (rcids r) (map (fun k => (k, idl_spec P k)) ks))).
    rewrite fold_idl_add by exact Hk.
    assert (E : map (fun k => (k, if cmem k (rcids r) then ins (rid r) (idl_spec P k) else idl_spec P k)) ks
              = map (fun k => (k, idl_spec (P ++ [r]) k)) ks).
    { apply map_ext. intro k. rewrite idl_spec_app. destruct (cmem k (rcids r)).
      - rewrite ins_snoc; auto. intros x Hx. apply idl_spec_in in Hx.
        cbn [map] in Ha. apply (asc_app_lt _ _ _ Ha x Hx).
      - rewrite app_nil_r. reflexivity. }
    rewrite E. rewrite (IH (P ++ [r]) ks Hk).
    + rewrite <- app_assoc. reflexivity.
    + rewrite map_app. cbn [map]. rewrite <- app_assoc. exact Ha.
Qed.

(* re-opening ANY database whose rows and persisted change ids ascend: every change id lists
   exactly the entries that carry it *)
Lemma reopen_ruv : forall d, asc (map rid (g_rows d)) = true -> casc (g_dbruv d) = true ->
  g_ruv (reopen d) = map (fun k => (k, idl_spec (g_rows d) k)) (g_dbruv d).
Proof.
  intros d Ha Hc. unfold reopen. cbn [g_ruv]. rewrite ruv_restore_data by exact Hc.
  apply (rebuild_spec (g_rows d) [] (g_dbruv d)).
  - apply casc_nodup. exact Hc.
  - exact Ha.
Qed.

(* ------------------------------------------------------------------ renumbering *)
Lemma number_cont : forall l i, map cont (number i l) = l.
Proof.
  induction l as [|[[u b] c] l IH]; intro i; cbn [number map]; auto.
  rewrite IH. reflexivity.
Qed.
Lemma number_length : forall l i, length (number i l) = length l.
Proof. induction l as [|[[u b] c] l IH]; intro i; cbn [number length]; auto. Qed.
Lemma number_ids : forall l i, ids_from i (map rid (number i l)) = true.
Proof.
  induction l as [|[[u b] c] l IH]; intro i; cbn [number map ids_from rid]; auto.
  rewrite N.eqb_refl, IH. reflexivity.
Qed.
Lemma number_range : forall l i x, In x (number i l) -> i <= rid x /\ rid x < i + N.of_nat (length l).
Proof.
  induction l as [|[[u b] c] l IH]; intros i x H; cbn [number] in H; [destruct H|].
  cbn [length]. rewrite Nat2N.inj_succ. destruct H as [<-|H].
  - cbn [rid]. lia.
  - apply IH in H. lia.
Qed.
Lemma number_asc : forall l i j, j < i -> asc (j :: map rid (number i l)) = true.
Proof.
  induction l as [|[[u b] c] l IH]; intros i j H; cbn [number map rid]; auto.
  cbn [asc]. apply andb_true_iff. split.
  - apply N.ltb_lt. exact H.
  - apply IH. lia.
Qed.
Lemma number_last : forall l i d, last_id (number i l) d = if (N.of_nat (length l) =? 0) then d else i + N.of_nat (length l) - 1.
Proof.
  induction l as [|[[u b] c] l IH]; intros i d; cbn [number last_id length]; auto.
  rewrite IH. cbn [rid]. rewrite Nat2N.inj_succ.
  destruct (N.of_nat (length l) =? 0) eqn:E.
  - apply N.eqb_eq in E. rewrite E. replace (N.succ 0 =? 0) with false by reflexivity. lia.
  - apply N.eqb_neq in E. destruct (N.succ (N.of_nat (length l)) =? 0) eqn:E2.
    + apply N.eqb_eq in E2. lia.
    + lia.
Qed.

(* ------------------------------------------------------------------ the round trip *)
Definition has_ids (d : dump) : Prop := exists s dd t, g_s d = Some s /\ g_d d = Some dd /\ g_ts d = Some t.

Lemma ex_ids : forall here d b, backup here d = Some b -> has_ids d.
Proof.
  intros here d b H. unfold backup in H. unfold has_ids.
  destruct (g_s d) as [s|], (g_d d) as [dd|], (g_ts d) as [t|]; try discriminate.
  exists s, dd, t. auto.
Qed.

Record SameDb (src tgt : dump) : Prop := mkSameDb {
  sd_s : g_s tgt = g_s src; sd_d : g_d tgt = g_d src; sd_ts : g_ts tgt = g_ts src;
  sd_kh : g_kh tgt = g_kh src;
  sd_rows : map cont (g_rows tgt) = map cont (g_rows src);
  sd_ids : ids_from 1 (map rid (g_rows tgt)) = true;
  sd_keys : map fst (g_ruv tgt) = map fst (g_ruv src);
  sd_ranged : g_ranged tgt = g_ranged src;
  sd_dbruv : g_dbruv tgt = map fst (g_ruv src) }.

Lemma src_wf_parts : forall d, src_wf d = true ->
  asc (0 :: map rid (g_rows d)) = true /\ casc (map fst (g_ruv d)) = true /\
  g_ranged d = snd (ruv_restore (map fst (g_ruv d))).
Proof.
  intros d H. unfold src_wf in H. repeat (apply andb_true_iff in H; destruct H as [H ?]).
  repeat split; auto. apply ranges_eqb_eq. assumption.
Qed.

Lemma restore_ok : forall here src tm, src_wf src = true -> has_ids src ->
  exists b m, backup here src = Some b /\ restore_commit here tm b = Ok m /\
    SameDb src m /\ SameDb src (reopen m) /\
    g_ruv m = map (fun k => (k, [])) (map fst (g_ruv src)) /\
    g_ruv (reopen m) = map (fun k => (k, idl_spec (g_rows (reopen m)) k)) (map fst (g_ruv src)) /\
    g_rows (reopen m) = g_rows m /\ g_rows m = number 1 (map cont (g_rows src)) /\
    g_maxid m = restored_maxid tm (N.of_nat (length (g_rows src))) /\
    g_maxid (reopen m) = N.of_nat (length (g_rows src)).
Proof.
  intros here src tm Hwf [s [dd [t [Es [Ed Et]]]]].
  destruct (src_wf_parts src Hwf) as [Ha [Hc Hr]].
  unfold backup. rewrite Es, Ed, Et. eexists. eexists. split; [reflexivity|].
  unfold restore_commit. cbn [b_ver b_s b_d b_ts b_kh b_ruv b_ents].
  assert (Hh : list_eqb N.eqb here here = true) by apply leqb_refl. rewrite Hh.
  split; [reflexivity|].
  set (rows := number 1 (map cont (g_rows src))).
  assert (Hd : fst (ruv_restore (map fst (g_ruv src))) = map (fun c => (c, [])) (map fst (g_ruv src)))
    by (apply ruv_restore_data; exact Hc).
  assert (Hk : map fst (fst (ruv_restore (map fst (g_ruv src)))) = map fst (g_ruv src))
    by (rewrite Hd; apply map_fst_empty).
  assert (Hra : asc (map rid rows) = true).
  { apply asc_tail with 0. apply number_asc. lia. }
  split; [|split; [|split; [|split; [|split; [|split; [|split]]]]]].
  - constructor; cbn [g_s g_d g_ts g_kh g_rows g_ruv g_ranged g_dbruv]; auto.
    + apply number_cont. + apply number_ids.
  - constructor; unfold reopen; cbn [g_s g_d g_ts g_kh g_rows g_ruv g_ranged g_dbruv]; auto.
    + apply number_cont. + apply number_ids.
    + rewrite Hk. rewrite Hd. fold rows.
      change (map (fun c : cid => (c, @nil N)) (map fst (g_ruv src)))
        with (map (fun k : cid => (k, idl_spec [] k)) (map fst (g_ruv src))).
      rewrite (rebuild_spec rows [] (map fst (g_ruv src)) (casc_nodup _ Hc) Hra).
      rewrite map_map. cbn [fst]. apply map_id.
    + rewrite Hk. symmetry. exact Hr.
  - cbn [g_ruv]. exact Hd.
  - rewrite reopen_ruv; cbn [g_rows g_dbruv]; try rewrite Hk; auto.
  - reflexivity.
  - reflexivity.
  - cbn [g_maxid]. fold rows. unfold rows. rewrite number_length, map_length. reflexivity.
  - unfold reopen. cbn [g_maxid g_rows]. unfold rows. rewrite number_last. rewrite map_length.
    destruct (N.of_nat (length (g_rows src)) =? 0) eqn:E.
    + apply N.eqb_eq in E. lia.
    + apply N.eqb_neq in E. lia.
Qed.

(* ------------------------------------------------------------------ searches *)
Lemma filter_map_comm : forall A B (g : A -> B) (p : B -> bool) l,
  map g (filter (fun x => p (g x)) l) = filter p (map g l).
Proof.
  intros A B g p l. induction l as [|x l IH]; cbn [filter map]; auto.
  destruct (p (g x)); cbn [map]; rewrite IH; reflexivity.
Qed.
Lemma answers_same : forall (p : content -> bool) rowsA rowsB,
  map cont rowsB = map cont rowsA ->
  map cont (filter (fun r => p (cont r)) rowsB) = map cont (filter (fun r => p (cont r)) rowsA).
Proof. intros p a b H. rewrite !filter_map_comm, H. reflexivity. Qed.

(* ------------------------------------------------------------------ the version gate *)
Lemma gate_refuses : forall here tm b, b_ver b <> Some here ->
  restore_commit here tm b = Err 1 \/ restore_commit here tm b = Err 2.
Proof.
  intros here tm b H. unfold restore_commit. destruct (b_ver b) as [v|]; [|right; reflexivity].
  destruct (list_eqb N.eqb v here) eqn:E; [|left; reflexivity].
  apply leqb_eq in E. subst. contradiction.
Qed.

(* ------------------------------------------------------------------ creating an entry after a restore *)
Lemma put_keeps : forall r l, (forall x, In x l -> rid x <> rid r) -> forall x, In x l -> In x (put r l).
Proof.
  intros r l. induction l as [|a l IH]; intros H x Hx; [destruct Hx|].
  cbn [put]. destruct (rid a =? rid r) eqn:E.
  - apply N.eqb_eq in E. exfalso. apply (H a); [left; reflexivity | exact E].
  - destruct Hx as [->|Hx]; [left; reflexivity | right]. apply IH; auto.
    intros y Hy. apply H. right. exact Hy.
Qed.
Lemma put_loses : forall r a l, rid a = rid r -> a <> r -> ~ In a l -> ~ In a (put r (a :: l)).
Proof.
  intros r a l E Hn Hl H. cbn [put] in H. rewrite E, N.eqb_refl in H.
  destruct H as [H|H]; [symmetry in H; contradiction | contradiction].
Qed.

(* parametrised by the restore function so that the repaired code and the code before the fix
   can be stated side by side *)
Definition create_keeps_all_for (restore : list N -> N -> bak -> res dump) : Prop :=
  forall here src tm c b m, src_wf src = true ->
    backup here src = Some b -> restore here tm b = Ok m ->
    forall r, In r (g_rows m) -> In r (g_rows (create c m)).

Lemma create_keeps_when : forall here src tm c b m, src_wf src = true ->
  backup here src = Some b -> restore_commit here tm b = Ok m ->
  N.of_nat (length (g_rows src)) <= g_maxid m ->
  forall r, In r (g_rows m) -> In r (g_rows (create c m)).
Proof.
  intros here src tm c b m Hwf Hb Hr Hle r Hin.
  unfold backup in Hb. destruct (g_s src), (g_d src), (g_ts src); try discriminate.
  inversion Hb. subst b. clear Hb. unfold restore_commit in Hr. cbn [b_ver b_ents] in Hr.
  destruct (list_eqb N.eqb here here); [|discriminate]. inversion Hr. subst m. clear Hr.
  cbn [g_rows g_maxid create] in *. apply put_keeps; auto.
  intros x Hx. cbn [rid]. apply number_range in Hx. rewrite map_length in Hx.
  unfold restored_maxid in *. rewrite number_length, map_length in *. lia.
Qed.

Lemma create_keeps : create_keeps_all_for restore_commit.
Proof.
  intros here src tm c b m Hwf Hb Hr. apply (create_keeps_when here src tm c b m Hwf Hb Hr).
  destruct (restore_ok here src tm Hwf (ex_ids _ _ _ Hb)) as [b' [m' [H1 [H2 [_ [_ [_ [_ [_ [_ [Hmax _]]]]]]]]]]].
  rewrite Hb in H1. inversion H1. subst b'. rewrite Hr in H2. inversion H2. subst m'.
  rewrite Hmax. unfold restored_maxid. apply N.le_refl.
Qed.

(* before the fix: refuted *)
Lemma prefix_create_refuted : ~ create_keeps_all_for prefix_restore_commit.
Proof.
  intro H.
  set (src := mkdump (Some 1) (Some 2) (Some 3) 0 [mkrow 1 10 20 [(1, 1)]] [((1, 1), [1])] [(1, [1])] [(1, 1)] 1).
  specialize (H [] src 0 (11, 21, [(2, 1)])). cbn in H.
  specialize (H _ _ eq_refl eq_refl eq_refl (mkrow 1 10 20 [(1, 1)]) (or_introl eq_refl)).
  cbn in H. destruct H as [H|H]; [discriminate H | exact H].
Qed.

(* ------------------------------------------------------------------ agreement implies the property *)
Lemma same_db_complete : forall src tgt, has_ids src -> SameDb src tgt -> same_db src tgt = true.
Proof.
  intros src tgt [s [dd [t [Es [Ed Et]]]]] [H1 H2 H3 H4 H5 H6 H7 H8 H9]. unfold same_db.
  rewrite H1, H2, H3, H4, H5, H6, H7, H8, H9, Es, Ed, Et. cbn [is_some].
  rewrite !oeqb_refl, N.eqb_refl, cids_eqb_refl, ranges_eqb_refl.
  rewrite (list_eqb_refl _ _ cont_eqb_refl). reflexivity.
Qed.

Lemma backup_some_ids : forall here d b, backup here d = Some b -> has_ids d.
Proof.
  intros here d b H. unfold backup in H. unfold has_ids.
  destruct (g_s d) as [s|], (g_d d) as [dd|], (g_ts d) as [t|]; try discriminate.
  exists s, dd, t. auto.
Qed.

Lemma agree_pcheck : forall c, agree c = true -> pcheck c = true.
Proof.
  intros [gz src bc sj tm rc mid re ve before after se | n mx cached created new_id lost | wf ver here rc unch] H.
  - cbn [agree] in H. apply andb_true_iff in H. destruct H as [Hwf H].
    destruct (backup [] src) as [b|] eqn:Eb.
    + pose proof (backup_some_ids _ _ _ Eb) as Hids.
      destruct (restore_ok [] src tm Hwf Hids) as [b' [m [Eb' [Er [S1 [S2 [_ [Hruv [Hrows [_ [_ Hmax]]]]]]]]]]].
      rewrite Eb in Eb'. inversion Eb'. subst b'. rewrite Er in H.
      rewrite !andb_true_iff in H.
      destruct H as [[Hbc Hsj] [[[[[Hrc Hmid] Hre] Hve] Hans] Hse]].
      apply dump_eqb_eq in Hmid. apply dump_eqb_eq in Hre. subst mid re.
      cbn [pcheck]. replace (has_idsb src) with true
        by (destruct Hids as [s0 [d0 [t0 [E1 [E2 E3]]]]]; unfold has_idsb; rewrite E1, E2, E3; reflexivity).
      rewrite Hbc, Hsj, Hrc, Hve, Hans, Hse.
      rewrite (same_db_complete _ _ Hids S1), (same_db_complete _ _ Hids S2).
      rewrite Hmax, N.eqb_refl. cbn [andb]. rewrite !andb_true_r.
      apply forallb_forall. intros p Hp. rewrite Hruv in Hp. apply in_map_iff in Hp.
      destruct Hp as [k [<- _]]. cbn [fst snd]. apply leqb_refl.
    + cbn [pcheck]. unfold backup in Eb. unfold has_idsb.
      destruct (g_s src), (g_d src), (g_ts src); try discriminate; cbn [is_some andb]; exact H.
  - cbn [agree] in H. cbn [pcheck].
    rewrite !andb_true_iff in H. destruct H as [[[[Hc Hmx] Hca] Hnew] Hlost].
    apply N.eqb_eq in Hmx. apply N.eqb_eq in Hca. apply N.eqb_eq in Hnew. apply N.eqb_eq in Hlost.
    unfold restored_maxid in Hca. subst mx cached new_id. rewrite Hc. cbn [andb].
    apply andb_true_iff. split.
    + rewrite Hlost. destruct (n + 1 <=? n) eqn:E; [apply N.leb_le in E; lia | reflexivity].
    + apply N.ltb_lt. lia.
  - cbn [agree] in H. cbn [pcheck]. apply andb_true_iff in H. destruct H as [H1 H2]. rewrite H2.
    apply N.eqb_eq in H1. subst rc. cbn [andb]. unfold gate.
    destruct ver as [v|]; destruct wf; cbn [negb orb]; auto.
    + unfold leqb. destruct (list_eqb N.eqb v here); reflexivity.
    + unfold leqb. destruct (list_eqb N.eqb v here); reflexivity.
Qed.
