(* KV.C13.Witness — non-vacuity: concrete databases meeting the hypotheses of the theorems. *)
From Coq Require Import List NArith Bool.
Import ListNotations.
Require Import KV.C13.Model KV.C13.Proofs.
Open Scope N_scope.

(* A source with gaps in its ids (5, 9, 12), a tombstone-like entry with a single change id,
   two servers, an RUV anchor (3,2) that no entry carries, an entry change id (1,1) that has
   been trimmed from the RUV, and id lists that still mention purged ids (7). *)
Definition w_src : dump :=
  mkdump (Some 100) (Some 200) (Some 777) 5
    [mkrow 5 50 500 [(1, 1); (2, 1)]; mkrow 9 51 501 [(4, 2)]; mkrow 12 52 502 [(2, 1); (4, 2)]]
    [((2, 1), [5; 7; 12]); ((3, 2), []); ((4, 2), [9; 12])]
    [(1, [2]); (2, [3; 4])]
    [(2, 1); (3, 2); (4, 2)]
    12.

Example C13_witness_src_wf : src_wf w_src = true /\ has_ids w_src.
Proof. split; [vm_compute; reflexivity | exists 100, 200, 777; auto]. Qed.

(* what the round trip computes on it (target whose cached max id was 40) *)
Example C13_witness_roundtrip :
  match backup [49; 46; 49] w_src with
  | Some b =>
      match restore_commit [49; 46; 49] 40 b with
      | Ok m =>
          map rid (g_rows m) = [1; 2; 3] /\ map cont (g_rows m) = map cont (g_rows w_src) /\
          g_ruv m = [((2, 1), []); ((3, 2), []); ((4, 2), [])] /\
          g_ruv (reopen m) = [((2, 1), [1; 3]); ((3, 2), []); ((4, 2), [2; 3])] /\
          g_ranged (reopen m) = g_ranged w_src /\ g_maxid m = 3 /\ g_maxid (reopen m) = 3
      | Err _ => False
      end
  | None => False
  end.
Proof. vm_compute. repeat split; reflexivity. Qed.

(* the source's own restart gives the same RUV modulo the ids (5,9,12 -> 1,2,3) *)
Example C13_witness_own_restart :
  g_ruv (reopen w_src) = [((2, 1), [5; 12]); ((3, 2), []); ((4, 2), [9; 12])].
Proof. vm_compute. reflexivity. Qed.

(* version gate: other version, older shape *)
Example C13_witness_gate :
  restore_commit [49; 46; 49] 0 (mkbak (Some [49; 46; 56]) 1 2 3 4 [] []) = Err 1 /\
  restore_commit [49; 46; 49] 0 (mkbak None 1 2 3 4 [] []) = Err 2 /\
  (Some [49; 46; 56] <> Some [49; 46; 49]).
Proof. vm_compute. repeat split; try reflexivity. discriminate. Qed.

(* an entry created right after the restore gets id 4 and nothing is lost ... *)
Example C13_witness_create :
  match backup [] w_src with
  | Some b =>
      match restore_commit [] 0 b with
      | Ok m => map ruuid (g_rows (create (99, 999, [(5, 1)]) m)) = [50; 51; 52; 99] /\
                map ruuid (g_rows (create (99, 999, [(5, 1)]) (reopen m))) = [50; 51; 52; 99]
      | Err _ => False
      end
  | None => False
  end.
Proof. vm_compute. split; reflexivity. Qed.

(* ... whereas before the fix (new database: cached max id 0) it replaced the entry with id 1 *)
Example C13_witness_prefix_refuted :
  match backup [] w_src with
  | Some b =>
      match prefix_restore_commit [] 0 b with
      | Ok m => map ruuid (g_rows (create (99, 999, [(5, 1)]) m)) = [99; 51; 52]
      | Err _ => False
      end
  | None => False
  end.
Proof. vm_compute. reflexivity. Qed.

(* cases of each kind on which model and property predicate agree; the pre-fix observation is rejected by both *)
Example C13_witness_agree :
  let b := match backup [] w_src with Some b => b | None => mkbak None 0 0 0 0 [] [] end in
  let m := match restore_commit [] 40 b with Ok m => m | Err _ => w_src end in
  agree (CRound true w_src 0 true 40 0 m (reopen m) 0 [[50; 51]; []] [[50; 51]; []] true) = true /\
  pcheck (CRound true w_src 0 true 40 0 m (reopen m) 0 [[50; 51]; []] [[50; 51]; []] true) = true /\
  agree (CGate true (Some [49]) [50] 1 true) = true /\ pcheck (CGate true (Some [49]) [50] 1 true) = true /\
  agree (CInproc 98 98 98 true 99 0) = true /\ pcheck (CInproc 98 98 98 true 99 0) = true /\
  agree (CInproc 98 98 0 true 1 1) = false /\ pcheck (CInproc 98 98 0 true 1 1) = false.
Proof. vm_compute. repeat split; reflexivity. Qed.
