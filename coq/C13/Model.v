(* KV.C13.Model — backup, restore, commit and re-open of the kanidm database (executable only).
   Transcribes:
     BackendTransaction::backup                                (server/lib/src/be/mod.rs:991)
     BackendWriteTransaction::restore / danger_delete_all_db_content / commit / ruv_reload
                                                               (server/lib/src/be/mod.rs:1866-2116)
     Backend::new (ruv_reload in its own committed transaction) (server/lib/src/be/mod.rs:2207)
     ReplicationUpdateVectorWriteTransaction::restore / rebuild / added / removed,
     ReplicationUpdateVectorTransaction::to_db_backup_ruv      (server/lib/src/repl/ruv.rs)
     IdlArcSqliteWriteTransaction::write_identries_raw / danger_purge_id2entry / set_id2entry_max_id,
     BackendWriteTransaction::create (id assignment)           (be/idl_arc_sqlite.rs, be/mod.rs:1180)
     enum DbBackup (untagged, newest first)                    (server/lib/src/be/dbentry.rs:43)
   A stored entry is abstracted to (uuid, body, change ids): `body` is the interned byte string
   of the id2entry row, the change ids are `EntryChangeState::cid_iter` of the parsed row. The
   JSON / gzip layers are byte-level wrappers checked only differentially. Index tables are not
   part of a backup (they are rebuilt by reindex: KV.C03). *)
From Coq Require Import List NArith Bool.
Import ListNotations.
Open Scope N_scope.

(* `#[derive(Ord)] struct Cid { ts, s_uuid }`: (timestamp, server) compared lexicographically *)
Definition cid := (N * N)%type.
Definition cid_cmp (a b : cid) : comparison :=
  match fst a ?= fst b with Eq => snd a ?= snd b | c => c end.
Definition cid_eqb (a b : cid) : bool := (fst a =? fst b) && (snd a =? snd b).
Definition cid_ltb (a b : cid) : bool := match cid_cmp a b with Lt => true | _ => false end.

Record row := mkrow { rid : N; ruuid : N; rbody : N; rcids : list cid }.
(* what a backup stores of an entry (a DbEntry): everything but the id *)
Definition content := (N * N * list cid)%type.
Definition cont (r : row) : content := (ruuid r, rbody r, rcids r).

Definition ruvdata := list (cid * list N).      (* BptreeMap<Cid, IDLBitRange>, ascending *)
Definition ranges := list (N * list N).          (* BptreeMap<Uuid, BTreeSet<Duration>>, ascending *)

(* the database as the dumps show it *)
Record dump := mkdump {
  g_s : option N; g_d : option N; g_ts : option N;   (* db_s_uuid, db_d_uuid, db_ts_max *)
  g_kh : N;                                          (* key handles (interned blob) *)
  g_rows : list row;                                 (* id2entry, ascending id *)
  g_ruv : ruvdata; g_ranged : ranges;                (* in-memory RUV *)
  g_dbruv : list cid;                                (* the persisted `ruv` table, ascending *)
  g_maxid : N }.                                     (* cached id2entry max id *)

(* IDLBitRange::insert_id / BTreeSet::insert on ascending duplicate-free lists *)
Fixpoint ins (i : N) (l : list N) : list N :=
  match l with
  | [] => [i]
  | x :: r => if i <? x then i :: l else if i =? x then l else x :: ins i r
  end.

(* ruv.rs restore: `if !rebuild_ruv.contains_key(&cid) { insert(cid, empty) }` *)
Fixpoint cins (c : cid) (l : ruvdata) : ruvdata :=
  match l with
  | [] => [(c, [])]
  | (c', x) :: r =>
      match cid_cmp c c' with
      | Lt => (c, []) :: l
      | Eq => l
      | Gt => (c', x) :: cins c r
      end
  end.
(* ruv.rs restore: the per-server set of timestamps *)
Fixpoint rins (s t : N) (l : ranges) : ranges :=
  match l with
  | [] => [(s, [t])]
  | (s', x) :: r =>
      match s ?= s' with
      | Lt => (s, [t]) :: l
      | Eq => (s', ins t x) :: r
      | Gt => (s', x) :: rins s t r
      end
  end.
(* ReplicationUpdateVectorWriteTransaction::restore on a cleared RUV *)
Definition ruv_restore (cs : list cid) : ruvdata * ranges :=
  (fold_left (fun m c => cins c m) cs [], fold_left (fun m c => rins (snd c) (fst c) m) cs []).

(* ruv.rs rebuild: `if let Some(idl) = self.data.get_mut(cid) { idl.insert_id(eid) }` *)
Fixpoint idl_add (c : cid) (i : N) (l : ruvdata) : ruvdata :=
  match l with
  | [] => []
  | (c', x) :: r => if cid_eqb c c' then (c', ins i x) :: r else (c', x) :: idl_add c i r
  end.
Definition rebuild (rows : list row) (d : ruvdata) : ruvdata :=
  fold_left (fun d r => fold_left (fun d c => idl_add c (rid r) d) (rcids r) d) rows d.

(* ------------------------------------------------------------------ backup *)
(* DbBackup: b_ver = None stands for the V1..V4 shapes (no version field) *)
Record bak := mkbak {
  b_ver : option (list N); b_s : N; b_d : N; b_ts : N; b_kh : N;
  b_ruv : list cid; b_ents : list content }.

(* None = Err(InvalidDbState): one of the three database identifiers is missing *)
Definition backup (here : list N) (d : dump) : option bak :=
  match g_s d, g_d d, g_ts d with
  | Some s, Some dd, Some t =>
      Some (mkbak (Some here) s dd t (g_kh d) (map fst (g_ruv d)) (map cont (g_rows d)))
  | _, _, _ => None
  end.

(* ------------------------------------------------------------------ restore *)
Inductive res (A : Type) := Ok (a : A) | Err (code : N).
Arguments Ok {A} a. Arguments Err {A} code.
(* error codes: 1 DB0001MismatchedRestoreVersion, 2 DB0002MismatchedRestoreVersion,
   3 SerdeJsonError, 4 InvalidDbState *)

Fixpoint list_eqb {A} (eqb : A -> A -> bool) (a b : list A) : bool :=
  match a, b with
  | [], [] => true
  | x :: r, y :: t => eqb x y && list_eqb eqb r t
  | _, _ => false
  end.

(* "Now, we setup all the entries with new ids": id_max += 1 per entry, in backup order *)
Fixpoint number (i : N) (l : list content) : list row :=
  match l with
  | [] => []
  | (u, b, c) :: r => mkrow i u b c :: number (i + 1) r
  end.

(* The cached max id after `restore`: write_identries_raw refreshes `allids` and then reads
   `get_id2entry_max_id()` (SELECT MAX(id)) back into `maxid`, i.e. n, whatever the target
   held before (fix 5cb740a).  Before that fix `maxid` was only loaded by `setup` when the
   database is opened, so the value the TARGET had before the restore survived: *)
Definition prefix_restored_maxid (tgt_maxid : N) (n : N) : N := tgt_maxid.
Definition restored_maxid (tgt_maxid : N) (n : N) : N := n.

(* restore followed by the caller's commit (restore_server_core: `.and_then(|_| commit())`).
   Everything the target held is purged first; the version gate comes after the writes, but an
   error makes the caller drop the transaction, so nothing of it is kept.  The RUV was cleared
   in this transaction (`added = None`), so commit rewrites the whole `ruv` table from `data`. *)
Definition restore_commit (here : list N) (tgt_maxid : N) (b : bak) : res dump :=
  match b_ver b with
  | None => Err 2
  | Some v =>
      if list_eqb N.eqb v here then
        let rows := number 1 (b_ents b) in
        let rv := ruv_restore (b_ruv b) in
        Ok (mkdump (Some (b_s b)) (Some (b_d b)) (Some (b_ts b)) (b_kh b) rows
                   (fst rv) (snd rv) (map fst (fst rv))
                   (restored_maxid tgt_maxid (N.of_nat (length rows))))
      else Err 1
  end.

(* what reading the backup file gives: not JSON of any DbBackup shape -> SerdeJsonError *)
Definition gate (wellformed : bool) (ver : option (list N)) (here : list N) : N :=
  if wellformed then
    match ver with
    | None => 2
    | Some v => if list_eqb N.eqb v here then 0 else 1
    end
  else 3.

(* ------------------------------------------------------------------ closing and opening the database *)
Fixpoint last_id (l : list row) (d : N) : N :=
  match l with [] => d | r :: t => last_id t (rid r) end.

(* Backend::new: setup (max id from `SELECT MAX(id)`), then ruv_reload = restore(db ruv) +
   rebuild(all entries), committed (`added` is empty and nothing precedes the first key, so
   the `ruv` table is left as it is). *)
Definition reopen (d : dump) : dump :=
  let rv := ruv_restore (g_dbruv d) in
  mkdump (g_s d) (g_d d) (g_ts d) (g_kh d) (g_rows d)
         (rebuild (g_rows d) (fst rv)) (snd rv) (g_dbruv d) (last_id (g_rows d) 0).

(* ------------------------------------------------------------------ creating an entry afterwards *)
(* BackendWriteTransaction::create: `id_max = get_id2entry_max_id() + 1`; write_identries +
   commit = INSERT OR REPLACE of that id2entry row *)
Fixpoint put (r : row) (l : list row) : list row :=
  match l with
  | [] => [r]
  | x :: t => if rid x =? rid r then r :: t else x :: put r t
  end.
Definition create (c : content) (d : dump) : dump :=
  let i := g_maxid d + 1 in
  mkdump (g_s d) (g_d d) (g_ts d) (g_kh d)
         (put (mkrow i (fst (fst c)) (snd (fst c)) (snd c)) (g_rows d))
         (g_ruv d) (g_ranged d) (g_dbruv d) i.

(* ------------------------------------------------------------------ correspondence *)
Inductive case :=
(* gzip?; source dump; backup result code; gunzip(gzip backup) = plain backup of the same read
   transaction; cached max id of the target before; restore+commit result code; target after
   restore+commit+reindex; target after close and re-open; number of QueryServer::verify()
   errors of a server started on it; search answers (uuids, in answer order) before on the
   source / after on the target; answered entries equal *)
| CRound (gz : bool) (src : dump) (bak_code : N) (same_json : bool) (tgt_maxid : N) (rc : N)
         (mid re : dump) (verify_errs : N) (before after : list (list N)) (same_entries : bool)
(* restore into a new database, reindex, start a QueryServer on the same Backend, create one
   entry: restored rows, their largest id, cached max id before the create, create succeeded,
   id the new entry got, restored entries that are gone afterwards *)
| CInproc (n_rows max_row_id cached_maxid : N) (created : bool) (new_id lost : N)
(* a re-written backup offered to restore (not committed): parses as some DbBackup shape,
   its version field, this server's version, result code, target untouched afterwards *)
| CGate (wellformed : bool) (ver : option (list N)) (here : list N) (rc : N) (unchanged : bool).

Definition oeqb (a b : option N) : bool :=
  match a, b with Some x, Some y => x =? y | None, None => true | _, _ => false end.
Definition leqb := list_eqb N.eqb.
Definition cids_eqb := list_eqb cid_eqb.
Definition row_eqb (a b : row) : bool :=
  (rid a =? rid b) && (ruuid a =? ruuid b) && (rbody a =? rbody b) && cids_eqb (rcids a) (rcids b).
Definition cont_eqb (a b : content) : bool :=
  (fst (fst a) =? fst (fst b)) && (snd (fst a) =? snd (fst b)) && cids_eqb (snd a) (snd b).
Definition ruv_eqb := list_eqb (fun a b : cid * list N => cid_eqb (fst a) (fst b) && leqb (snd a) (snd b)).
Definition ranges_eqb := list_eqb (fun a b : N * list N => (fst a =? fst b) && leqb (snd a) (snd b)).
Definition dump_eqb (a b : dump) : bool :=
  oeqb (g_s a) (g_s b) && oeqb (g_d a) (g_d b) && oeqb (g_ts a) (g_ts b) && (g_kh a =? g_kh b) &&
  list_eqb row_eqb (g_rows a) (g_rows b) && ruv_eqb (g_ruv a) (g_ruv b) &&
  ranges_eqb (g_ranged a) (g_ranged b) && cids_eqb (g_dbruv a) (g_dbruv b) && (g_maxid a =? g_maxid b).

Fixpoint asc (l : list N) : bool :=
  match l with x :: ((y :: _) as r) => (x <? y) && asc r | _ => true end.
Fixpoint casc (l : list cid) : bool :=
  match l with x :: ((y :: _) as r) => cid_ltb x y && casc r | _ => true end.

(* what every source dump must look like for the model to apply: ids ascending from >= 1,
   RUV keys ascending, and the in-memory ranges are exactly the keys grouped by server *)
Definition src_wf (d : dump) : bool :=
  asc (0 :: map rid (g_rows d)) && casc (map fst (g_ruv d)) &&
  ranges_eqb (g_ranged d) (snd (ruv_restore (map fst (g_ruv d)))).

Definition agree (c : case) : bool :=
  match c with
  | CRound gz src bak_code same_json tm rc mid re ve before after same_entries =>
      src_wf src &&
      match backup [] src with
      | None => bak_code =? 4
      | Some b =>
          (bak_code =? 0) && same_json &&
          match restore_commit [] tm b with
          | Err e => rc =? e
          | Ok m =>
              (rc =? 0) && dump_eqb m mid && dump_eqb (reopen m) re &&
              (* predictions that follow from the theorems: a consistent database that
                 answers every search as the source did *)
              (ve =? 0) && list_eqb leqb before after && same_entries
          end
      end
  | CInproc n mx cached created new_id lost =>
      created && (mx =? n) && (cached =? restored_maxid 0 n) && (new_id =? cached + 1) &&
      (lost =? if new_id <=? mx then 1 else 0)
  | CGate wf ver here rc unchanged => (rc =? gate wf ver here) && unchanged
  end.

(* ------------------------------------------------------------------ the property, on the implementation's dumps *)
Definition cmem (c : cid) (l : list cid) : bool := existsb (cid_eqb c) l.
Fixpoint ids_from (i : N) (l : list N) : bool :=
  match l with [] => true | x :: r => (x =? i) && ids_from (i + 1) r end.
Definition is_some (o : option N) : bool := match o with Some _ => true | None => false end.
(* the id list an RUV key must carry: the entries whose change state mentions it *)
Definition idl_spec (rows : list row) (c : cid) : list N :=
  map rid (filter (fun r => cmem c (rcids r)) rows).

Definition same_db (src tgt : dump) : bool :=
  is_some (g_s src) && oeqb (g_s tgt) (g_s src) &&
  is_some (g_d src) && oeqb (g_d tgt) (g_d src) &&
  is_some (g_ts src) && oeqb (g_ts tgt) (g_ts src) &&
  (g_kh tgt =? g_kh src) &&
  list_eqb cont_eqb (map cont (g_rows tgt)) (map cont (g_rows src)) &&
  ids_from 1 (map rid (g_rows tgt)) &&
  cids_eqb (map fst (g_ruv tgt)) (map fst (g_ruv src)) &&
  ranges_eqb (g_ranged tgt) (g_ranged src) &&
  cids_eqb (g_dbruv tgt) (map fst (g_ruv src)).

Definition has_idsb (d : dump) : bool := is_some (g_s d) && is_some (g_d d) && is_some (g_ts d).

Definition pcheck (c : case) : bool :=
  match c with
  | CRound gz src bak_code same_json tm rc mid re ve before after same_entries =>
      if has_idsb src then
        (bak_code =? 0) && (rc =? 0) && same_json &&
        same_db src mid && same_db src re &&
        (* after the re-open every change id lists exactly the restored entries that carry it *)
        forallb (fun p => leqb (snd p) (idl_spec (g_rows re) (fst p))) (g_ruv re) &&
        (g_maxid re =? N.of_nat (length (g_rows src))) &&
        (ve =? 0) && list_eqb leqb before after && same_entries
      else
        (* a database without its identifiers cannot be backed up at all *)
        bak_code =? 4
  | CInproc n mx cached created new_id lost =>
      created && (lost =? 0) && (mx <? new_id)
  | CGate wf ver here rc unchanged =>
      unchanged &&
      match ver with
      | Some v => if leqb v here then negb wf || (rc =? 0) else negb (rc =? 0)
      | None => negb (rc =? 0)
      end
  end.

(* No known-finding class. (Before fix 5cb740a every CInproc case was one: the restoring
   process created an entry while the cached max id was still below the ids restore had
   handed out — see C13_prefix_refuted.) *)
Definition known (_ : case) : bool := false.

(* Documentation of the repaired defect: restore + commit as it was before the fix. *)
Definition prefix_restore_commit (here : list N) (tgt_maxid : N) (b : bak) : res dump :=
  match restore_commit here tgt_maxid b with
  | Ok m => Ok (mkdump (g_s m) (g_d m) (g_ts m) (g_kh m) (g_rows m) (g_ruv m) (g_ranged m) (g_dbruv m)
                       (prefix_restored_maxid tgt_maxid (N.of_nat (length (g_rows m)))))
  | Err e => Err e
  end.
