(* KV.C17.Props — property theorems only.
   Vocabulary (KV.C17.Proofs): isparent s g u = g is a live group whose Member or DynMember lists u;
   reach s g u = chain of >= 1 such links through live groups; Exact s = every live entry has
   DirectMemberOf = {g | isparent s g e} and MemberOf = {g | reach s g e};
   LC s = every live entry equals its recomputation from its direct groups' stored MemberOf;
   DynWF s = only dynamic groups carry DynMember; Ranked s = the live group graph has a topological
   ranking (is acyclic); run s ops = the model's step folded over an op list (None = some
   apply_memberof loop did not come to an end). Ops: create / modify+batch modify / delete / revive with
   ARBITRARY DynMember changes as input. *)
From Coq Require Import List NArith Bool.
Import ListNotations.
Require Import KV.C17.Model KV.C17.Proofs.
Open Scope N_scope.

(* The full statement: every operation on an exact state comes to an end in an exact state. *)
Definition C17_full_statement : Prop :=
  forall s o s1, DynWF s -> Exact s -> step s o = Some s1 -> Exact s1.
Definition C17_termination_statement : Prop :=
  forall s o, DynWF s -> Exact s -> exists fuel s1, step_fuel fuel s o = Some s1.

(* REFUTED (confirmed on the real server): groups A in B in C in A and A in G; after G.member := []
   A, B and C keep G in MemberOf - every recomputation reads a neighbour's stale MemberOf. *)
Theorem C17_refuted : ~ C17_full_statement.
Proof.
  intros F. apply stale_post_not_exact.
  destruct stale_pre_exact as [E [W _]].
  exact (F stale_pre stale_op stale_post (dynwfb_sound _ W) (exactb_sound _ E) stale_step).
Qed.

(* REFUTED (confirmed on the real server: the write transaction never returns): A in G1, B in G2; one
   batch modify A.member=[B], B.member=[A], G1.member=[], G2.member=[] makes the passes of
   apply_memberof alternate between two states for ever - for EVERY amount of fuel. *)
Theorem C17_oscillation : forall fuel, step_fuel fuel osc_pre osc_op = None.
Proof. exact osc_diverges. Qed.
Theorem C17_termination_refuted : ~ C17_termination_statement.
Proof.
  intros T. destruct osc_pre_exact as [E [W _]].
  destruct (T osc_pre osc_op (dynwfb_sound _ W) (exactb_sound _ E)) as [fuel [s1 H]].
  rewrite C17_oscillation in H. discriminate H.
Qed.

(* What holds for ALL graphs (cycles included), all op lists, all DynMember inputs: *)

(* The core of apply_memberof: whenever every live entry outside the affected set is locally consistent
   in the changed graph, a finished run leaves every live entry locally consistent. *)
Theorem C17_apply_memberof_restores : forall fuel s aff s1,
  Covered s aff -> apply_memberof fuel s aff = Some s1 -> LC s1.
Proof. exact apply_lc. Qed.

(* Every operation that finishes preserves local consistency (the affected sets of create, modify,
   delete and revive cover every entry whose direct groups changed). *)
Theorem C17_lc_step : forall fuel s o s1,
  DynWF s -> LC s -> step_fuel fuel s o = Some s1 -> DynWF s1 /\ LC s1.
Proof.
  intros fuel s o s1 W H E. split; [eapply step_fuel_dynwf | eapply step_fuel_lc]; eassumption.
Qed.

Theorem C17_lc_invariant : forall ops s, run [] ops = Some s -> DynWF s /\ LC s.
Proof. intros ops s E. destruct lc_nil as [L W]. eapply run_lc; eassumption. Qed.

(* After any finished history, DirectMemberOf of every live entry is exactly the set of live groups
   that list it directly. *)
Theorem C17_dmo_exact : forall ops s, run [] ops = Some s ->
  forall e, In e s -> elive e = true -> forall g, In g (edmo e) <-> isparent s g (eid e).
Proof. intros ops s E. apply lc_dmo_exact. apply (C17_lc_invariant ops s E). Qed.

(* After any finished history MemberOf never misses a group: every live group from which the entry
   can be reached is in it ... *)
Theorem C17_mo_complete : forall ops s, run [] ops = Some s ->
  forall e, In e s -> elive e = true -> forall g, reach s g (eid e) -> In g (emo e).
Proof. intros ops s E. apply lc_mo_complete. apply (C17_lc_invariant ops s E). Qed.

(* ... in particular a group on a cycle is a member of itself. *)
Theorem C17_cycle_self_member : forall ops s, run [] ops = Some s ->
  forall e, In e s -> elive e = true -> reach s (eid e) (eid e) -> In (eid e) (emo e).
Proof. intros ops s E e He Le R. eapply C17_mo_complete; eassumption. Qed.

(* PARTIAL (the full statement restricted to acyclic CURRENT graphs; missing: states with a cycle, where
   it is refuted above): after any finished history - even one that went through cyclic graphs and
   stale values - a state whose live group graph is acyclic is exact. *)
Theorem C17_exact_acyclic_partial : forall ops s, run [] ops = Some s -> Ranked s -> Exact s.
Proof. intros ops s E R. apply lc_exact_ranked; [apply (C17_lc_invariant ops s E) | exact R]. Qed.

Theorem C17_lc_acyclic_exact : forall s, LC s -> Ranked s -> Exact s.
Proof. exact lc_exact_ranked. Qed.

(* The executable predicates used at run time are sound for the declarative notions. *)
Theorem C17_exactb_sound : forall s, exactb s = true -> Exact s.
Proof. exact exactb_sound. Qed.
Theorem C17_lcb_sound : forall s, lcb s = true -> LC s.
Proof. exact lcb_sound. Qed.
Theorem C17_rankedb_sound : forall s, rankedb s = true -> Ranked s.
Proof. exact rankedb_sound. Qed.

(* pcheck is sound: if it passes, every operation of the observed history returned and every observed
   state is exact. *)
Theorem C17_pcheck_sound : forall l, pcheck (CHist l) = true ->
  forall st, In st l -> scode st < 2 /\ Exact (spost st).
Proof. intros l H. eapply pcheck_sound_aux. exact H. Qed.

(* Soundness of the run-time tie: in a history on which the implementation agrees with the model step
   by step, every observed state is locally consistent - hence has exact DirectMemberOf, a complete
   MemberOf, and is exact as soon as its live group graph is acyclic.
   PARTIAL w.r.t. `agree c -> pcheck c`: that implication is false (C17_refuted, C17_oscillation). *)
Theorem C17_agree_implies_lc : forall l, agree (CHist l) = true ->
  forall st, In st l -> LC (spost st) /\ DynWF (spost st).
Proof. intros l A. destruct lc_nil as [L W]. eapply hist_lc; eassumption. Qed.

Theorem C17_agree_implies_property_partial : forall l, agree (CHist l) = true ->
  forall st, In st l ->
    (forall e, In e (spost st) -> elive e = true ->
       (forall g, In g (edmo e) <-> isparent (spost st) g (eid e))
       /\ (forall g, reach (spost st) g (eid e) -> In g (emo e)))
    /\ (Ranked (spost st) -> Exact (spost st)).
Proof.
  intros l A st Hst. destruct (C17_agree_implies_lc l A st Hst) as [L _]. split.
  - intros e He Le. split; [apply lc_dmo_exact | apply lc_mo_complete]; assumption.
  - apply lc_exact_ranked, L.
Qed.
