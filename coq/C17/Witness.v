(* KV.C17.Witness — non-vacuity: concrete inputs meeting the hypotheses of the theorems, and the
   refuting inputs exactly as the real server produced them (harness/src/bin/c17.rs --probe). *)
From Coq Require Import List NArith Bool.
Import ListNotations.
Require Import KV.C17.Model KV.C17.Proofs.
Open Scope N_scope.

(* nested groups 0 > 1 > 2 > leaf 5, dynamic group 3 with dynmember 6; edits, delete and revive of the
   middle group: the history finishes, the final graph is acyclic (ranked), exact, and leaf 5 is an
   indirect member of 0, 1 and 2 again after the revive *)
Definition w_ops : list op :=
  [OCreate false [mknew 0 true false [1]; mknew 1 true false [2]; mknew 2 true false [5];
            mknew 3 true true []; mknew 5 false false []; mknew 6 false false []] [(3, [6])];
   OMod false [1] [(1, [2; 6])] [];
   ODelete [1];
   OMod false [5] [] [(3, [5; 6])];
   ORevive 1 [];
   OMod false [6] [] [(3, [5])]].
Example C17_witness_run : exists s,
  run [] w_ops = Some s /\ rankedb s = true /\ exactb s = true /\ lcb s = true /\ dynwfb s = true
  /\ existsb (fun e => (eid e =? 5) && leqb (emo e) [0; 1; 2; 3] && leqb (edmo e) [2; 3]) s = true
  /\ existsb (fun e => (eid e =? 6) && leqb (emo e) [0; 1]) s = true.
Proof. eexists. split; [vm_compute; reflexivity | vm_compute; tauto]. Qed.

(* a history that builds a 3-cycle with a tail: it finishes, the state is exact, every group of the cycle
   is a member of itself (hypothesis of C17_cycle_self_member) *)
Definition w_cyc : list op :=
  [OCreate false [mknew 0 true false [1]; mknew 1 true false [2]; mknew 2 true false [7]; mknew 7 false false []] [];
   OMod false [2] [(2, [0; 7])] []].
Example C17_witness_cycle : exists s,
  run [] w_cyc = Some s /\ exactb s = true /\ cyclicb s = true
  /\ forallb (fun e => negb (egrp e) || nmem (eid e) (emo e)) s = true
  /\ existsb (fun e => (eid e =? 7) && leqb (emo e) [0; 1; 2]) s = true.
Proof. eexists. split; [vm_compute; reflexivity | vm_compute; tauto]. Qed.

(* hypotheses of the refuted statements hold of the refuting inputs: both start states are exact,
   well-formed and locally consistent; the first op finishes in the model *)
Example C17_witness_refuted_stale :
  exactb stale_pre = true /\ dynwfb stale_pre = true /\ step stale_pre stale_op = Some stale_post
  /\ exactb stale_post = false /\ lcb stale_post = true /\ cyclicb stale_post = true.
Proof. vm_compute. tauto. Qed.
Example C17_witness_refuted_oscillation :
  exactb osc_pre = true /\ dynwfb osc_pre = true /\ cyclicb osc_pre = false
  /\ step osc_pre osc_op = None.
Proof. vm_compute. tauto. Qed.

(* the two histories as recorded from the REAL server: the model agrees with every step, the property
   fails, and the failure is inside the known classes *)
Definition real_stale : case :=
  CHist [mkstep (OCreate false [mknew 0 true false [2]; mknew 1 true false [0]; mknew 2 true false [1];
                          mknew 3 true false [0]] []) 0 stale_pre;
         mkstep stale_op 0 stale_post].
Example C17_witness_real_stale : agree real_stale = true /\ pcheck real_stale = false /\ known real_stale = true.
Proof. vm_compute. tauto. Qed.
Definition real_osc : case :=
  CHist [mkstep (OCreate false [mknew 0 true false []; mknew 1 true false []; mknew 2 true false [0];
                          mknew 3 true false [1]] []) 0 osc_pre;
         mkstep osc_op 2 osc_pre].
Example C17_witness_real_oscillation : agree real_osc = true /\ pcheck real_osc = false /\ known real_osc = true.
Proof. vm_compute. tauto. Qed.

(* a property failure that is NOT in a known class is reported: an acyclic state with a surplus MemberOf *)
Example C17_witness_unknown_failure :
  let bad := [mkent 0 true false true [1] [] [] [] []; mkent 1 false false true [] [] [0; 9] [0] []] in
  let c := CHist [mkstep (OMod false [] [] []) 0 bad] in
  pcheck c = false /\ known c = false.
Proof. vm_compute. tauto. Qed.

(* the refuting inputs do not depend on which referential-integrity variant the tree has *)
Example C17_witness_refuted_strict_refint :
  step stale_pre (OMod true [3] [(3, [])] []) = Some stale_post
  /\ step osc_pre (OMod true [0; 1; 2; 3] [(0, [1]); (1, [0]); (2, []); (3, [])] []) = None.
Proof. vm_compute. tauto. Qed.
(* the two variants differ exactly on a recycled reference that comes with a live one *)
Example C17_witness_refint_variants :
  let s := [mkent 0 true false true [] [] [] [] []; mkent 1 true false false [] [] [] [] [];
            mkent 2 false false true [] [] [] [] []] in
  (exists s1, step s (OMod false [0] [(0, [1; 2])] []) = Some s1 /\ existsb (fun e => leqb (emem e) [1; 2]) s1 = true)
  /\ step s (OMod true [0] [(0, [1; 2])] []) = Some s
  /\ step s (OMod false [0] [(0, [1])] []) = Some s.
Proof. vm_compute. split; [eexists; split; reflexivity | tauto]. Qed.
