(* KV.C17.Model — MemberOf / DirectMemberOf maintenance (executable definitions only).
   Transcribes server/lib/src/plugins/memberof.rs (as of /repo 76a0ae1):
     do_group_memberof, do_leaf_memberof, apply_memberof (stripes over the affected set),
     post_create_inner / post_modify_inner / pre_delete / post_delete (affected-set computation),
   together with the parts of other code that change the membership graph inside the same operation:
     refint::remove_references on delete (removes the deleted uuids from EVERY reference attribute of
     every entry, recycled ones included: Member, DynMember, MemberOf, DirectMemberOf,
     RecycledDirectMemberOf), revive_recycled (to_revived purges the stash; afterwards one
     internal_modify `member += revived` per stashed group, in uuid order).
   The evolution of DynMember (dyngroup plugin, property C18) is NOT modelled: the new DynMember sets
   are an input of every op (`dynch`), only the affected uuids the dyngroup plugin reports are. *)
From Coq Require Import List NArith Bool.
Import ListNotations.
Open Scope N_scope.

(* ------------------------------------------------------------------ finite sets as sorted lists *)
Fixpoint ninsert (x : N) (l : list N) : list N :=
  match l with
  | [] => [x]
  | y :: r => match x ?= y with Lt => x :: l | Eq => l | Gt => y :: ninsert x r end
  end.
Definition nsort (l : list N) : list N := fold_right ninsert [] l.
(* a ∪ b, canonical when b is *)
Definition nunion (a b : list N) : list N := fold_right ninsert b a.
Definition nmem (x : N) (l : list N) : bool := existsb (N.eqb x) l.
Definition nminus (l d : list N) : list N := filter (fun x => negb (nmem x d)) l.
Definition symdiff (a b : list N) : list N := nminus a b ++ nminus b a.
Definition subset (a b : list N) : bool := forallb (fun x => nmem x b) a.
Fixpoint leqb (a b : list N) : bool :=
  match a, b with
  | [], [] => true
  | x :: r, y :: q => (x =? y) && leqb r q
  | _, _ => false
  end.
Fixpoint assoc (k : N) (l : list (N * list N)) : option (list N) :=
  match l with
  | [] => None
  | (k', v) :: r => if k =? k' then Some v else assoc k r
  end.

(* ------------------------------------------------------------------ state *)
Record ent := mkent {
  eid : N;            (* uuid (interned; uuid order = numeric order) *)
  egrp : bool;        (* class group *)
  edyng : bool;       (* class dyngroup *)
  elive : bool;       (* not recycled *)
  emem : list N;      (* Member *)
  edyn : list N;      (* DynMember *)
  emo : list N;       (* MemberOf *)
  edmo : list N;      (* DirectMemberOf *)
  erdmo : list N      (* RecycledDirectMemberOf *)
}.
Definition state := list ent.

Definition lists (g : ent) (u : N) : bool := nmem u (emem g) || nmem u (edyn g).
(* the search of do_group_memberof / do_leaf_memberof:
   class=group AND (member=u OR dynmember=u), recycled entries excluded *)
Definition isp (u : N) (g : ent) : bool := elive g && egrp g && lists g u.
Definition pgroups (s : state) (u : N) : list ent := filter (isp u) s.

(* do_group_memberof: (DirectMemberOf, MemberOf) of u from the STORED MemberOf of its direct groups *)
Definition recompute (s : state) (u : N) : list N * list N :=
  let pg := pgroups s u in
  let d := nsort (map eid pg) in
  (d, nunion (flat_map emo pg) d).

Definition set_mo (e : ent) (dm : list N * list N) : ent :=
  mkent (eid e) (egrp e) (edyng e) (elive e) (emem e) (edyn e) (snd dm) (fst dm) (erdmo e).
Definition changed (e : ent) (dm : list N * list N) : bool :=
  negb (leqb (emo e) (snd dm) && leqb (edmo e) (fst dm)).

(* one pass of the `while !affected_uuids.is_empty()` loop of apply_memberof: every live group of the
   work list is recomputed from the state at the START of the pass (the writes are applied together at
   the end of the pass); members and dynmembers of the groups that changed form the next work list *)
Definition inwork (W : list N) (e : ent) : bool := elive e && egrp e && nmem (eid e) W.
Definition stripe (s : state) (W : list N) : state * list N :=
  (map (fun e => if inwork W e then set_mo e (recompute s (eid e)) else e) s,
   nsort (flat_map (fun e => if inwork W e && changed e (recompute s (eid e))
                             then emem e ++ edyn e else []) s)).

Fixpoint loop (fuel : nat) (s : state) (W all : list N) : option (state * list N) :=
  match W with
  | [] => Some (s, all)
  | _ => match fuel with
         | O => None
         | S f => let '(s1, W1) := stripe s W in loop f s1 W1 (nunion W1 all)
         end
  end.

(* do_leaf_memberof over all_affected_uuids: same formula, non-group live entries only *)
Definition inleaf (all : list N) (e : ent) : bool := elive e && negb (egrp e) && nmem (eid e) all.
Definition leaves (s : state) (all : list N) : state :=
  map (fun e => if inleaf all e then set_mo e (recompute s (eid e)) else e) s.

Definition fuel_of (s : state) : nat := let n := S (length s) in 2 * n * n + 8.

(* apply_memberof; None = the loop did not finish within the fuel *)
Definition apply_memberof (fuel : nat) (s : state) (aff : list N) : option state :=
  match loop fuel s (nsort aff) (nsort aff) with
  | Some (s1, all) => Some (leaves s1 all)
  | None => None
  end.

(* ------------------------------------------------------------------ operations *)
Record newent := mknew { nid : N; ngrp : bool; ndyng : bool; nmemb : list N }.

Inductive op :=
| OCreate (strict : bool) (l : list newent) (dynch : list (N * list N))
| OMod (strict : bool) (cand : list N) (memch : list (N * list N)) (dynch : list (N * list N))
| ODelete (ids : list N)
| ORevive (id : N) (dynch : list (N * list N)).

Definition with_mem (e : ent) (m : list N) : ent :=
  mkent (eid e) (egrp e) (edyng e) (elive e) m (edyn e) (emo e) (edmo e) (erdmo e).
Definition with_dyn (e : ent) (d : list N) : ent :=
  mkent (eid e) (egrp e) (edyng e) (elive e) (emem e) d (emo e) (edmo e) (erdmo e).

(* new Member of the listed groups *)
Definition upd_mem (memch : list (N * list N)) (e : ent) : ent :=
  match assoc (eid e) memch with Some m => if egrp e then with_mem e m else e | None => e end.
(* new DynMember (input), dynamic groups only *)
Definition upd_dyn (dynch : list (N * list N)) (e : ent) : ent :=
  match assoc (eid e) dynch with Some d => if edyng e && egrp e then with_dyn e d else e | None => e end.

Definition find_ent (s : state) (u : N) : option ent := find (fun e => eid e =? u) s.
Definition is_live (s : state) (u : N) : bool :=
  match find_ent s u with Some e => elive e | None => false end.

(* affected uuids contributed by one (pre, post) pair of the operation:
   - post_modify_inner / post_create_inner: symmetric difference of Member and of DynMember;
   - dyngroup::apply_dyngroup_change for a dynamic group that is itself a candidate: the group, its
     former and its new DynMember;
   - dyngroup::post_create/post_modify for the other dynamic groups: symmetric difference of DynMember *)
Definition pair_aff (cand : list N) (pre post : ent) : list N :=
  symdiff (emem pre) (emem post) ++ symdiff (edyn pre) (edyn post)
  ++ (if edyng pre && egrp pre && nmem (eid pre) cand then eid pre :: edyn pre ++ edyn post else []).

(* the shared tail of post_modify_inner: graph change, affected set, apply_memberof *)
Definition mod_inner (fuel : nat) (s : state) (cand : list N)
           (memch dynch : list (N * list N)) : option state :=
  let f := fun e => upd_dyn dynch (upd_mem memch e) in
  apply_memberof fuel (map f s) (cand ++ flat_map (fun e => pair_aff cand e (f e)) s).

Definition all_live (s : state) (l : list N) : bool := forallb (is_live s) l.
Definition is_group (s : state) (u : N) : bool :=
  match find_ent s u with Some e => egrp e | None => false end.

(* refint::post_modify_inner (runs before memberof): the NEW references of the candidate set - all
   reference attributes but MemberOf (and DynMember of dynamic groups), union over the candidates,
   minus the same union before the change - are checked by check_uuids_exist_fast with
   `filter!(f_inc([uuid eq r ..]))`. As the backend evaluates it (every term must match an entry in ANY
   state, then the recycled ones are masked out of the union) this accepts iff every new reference
   exists and at least ONE of them is live. (Observed on the real server: a recycled entry can be added
   as a member together with a live one. That is property C16's subject; transcribed here as it is.) *)
Definition refs (e : ent) : list N :=
  emem e ++ edmo e ++ erdmo e ++ (if edyng e then [] else edyn e).
Definition exists_ent (s : state) (u : N) : bool := existsb (fun e => eid e =? u) s.
(* strict = true: the variant in which every inclusion term is itself restricted to live entries
   (every new reference must be live). Which variant the tree under test has is determined by the harness
   with a dedicated probe operation at start-up and recorded in every op. *)
Definition refint_ok (strict : bool) (s : state) (newrefs : list N) : bool :=
  if strict then forallb (is_live s) newrefs else
  match newrefs with
  | [] => true
  | _ => forallb (exists_ent s) newrefs && existsb (is_live s) newrefs
  end.

(* modify / batch_modify of live entries. Refused (state unchanged) when a target is not live, a
   Member change names a non-group or a non-candidate, or refint refuses the new references. *)
Definition do_mod (strict : bool) (fuel : nat) (s : state) (cand : list N) (memch dynch : list (N * list N)) : option state :=
  let pre := filter (fun e => nmem (eid e) cand) s in
  if all_live s cand
     && forallb (fun kv => nmem (fst kv) cand && is_group s (fst kv)) memch
     && refint_ok strict s (nminus (flat_map refs (map (upd_mem memch) pre)) (flat_map refs pre))
  then mod_inner fuel s cand memch dynch
  else Some s.

Fixpoint insert_ent (e : ent) (s : state) : state :=
  match s with
  | [] => [e]
  | x :: r => if eid e <? eid x then e :: s else x :: insert_ent e r
  end.
Definition new_ent (n : newent) : ent :=
  mkent (nid n) (ngrp n) (ndyng n && ngrp n) true (if ngrp n then nsort (nmemb n) else []) [] [] [] [].
Fixpoint nodupb (l : list N) : bool :=
  match l with [] => true | x :: r => negb (nmem x r) && nodupb r end.

(* create: post_create_inner. affected = created uuids + dyngroup changes + Member of created groups *)
Definition do_create (strict : bool) (fuel : nat) (s : state) (l : list newent) (dynch : list (N * list N)) : option state :=
  let s1 := fold_right (fun n acc => insert_ent (new_ent n) acc) s l in
  if nodupb (map nid l)
     && forallb (fun n => negb (existsb (fun e => eid e =? nid n) s)) l
     && refint_ok strict s1 (flat_map (fun n => if ngrp n then nmemb n else []) l)
  then
    apply_memberof fuel (map (upd_dyn dynch) s1)
      (map nid l ++ flat_map (fun e => symdiff (edyn e) (edyn (upd_dyn dynch e))) s1
       ++ flat_map (fun n => if ngrp n then nmemb n else []) l)
  else Some s.

(* delete: pre_delete (stash DirectMemberOf, clear MemberOf), recycle, refint::remove_references,
   memberof::post_delete (affected = Member of deleted groups + DynMember of deleted dynamic groups,
   read from the deleted entries as they were before refint ran) *)
Definition recycle (e : ent) : ent :=
  mkent (eid e) (egrp e) (edyng e) false (emem e) (edyn e) [] [] (edmo e).
Definition strip (D : list N) (e : ent) : ent :=
  mkent (eid e) (egrp e) (edyng e) (elive e) (nminus (emem e) D) (nminus (edyn e) D)
        (nminus (emo e) D) (nminus (edmo e) D) (nminus (erdmo e) D).
Definition do_delete (fuel : nat) (s : state) (ids : list N) : option state :=
  let D := filter (is_live s) ids in
  match D with
  | [] => Some s
  | _ =>
    let hit := fun e => elive e && nmem (eid e) D in
    apply_memberof fuel
      (map (fun e => strip D (if hit e then recycle e else e)) s)
      (flat_map (fun e => if hit e && egrp e then emem e ++ (if edyng e then edyn e else []) else []) s)
  end.

(* revive_recycled of one entry: (1) modify_apply of the revived entry: memberof::post_modify_inner with
   a recycled->live pair (76a0ae1: all of its members are affected); (2) for every group of the stash,
   ascending: internal_modify `member += id` *)
Definition revived (e : ent) : ent :=
  mkent (eid e) (egrp e) (edyng e) true (emem e) (edyn e) (emo e) (edmo e) [].
Definition only_key (k : N) (l : list (N * list N)) := filter (fun kv => fst kv =? k) l.
Fixpoint readd (fuel : nat) (s : state) (id : N) (stash : list N) (dynch : list (N * list N)) : option state :=
  match stash with
  | [] => Some s
  | g :: r =>
    match find_ent s g with
    | None => readd fuel s id r dynch
    | Some ge =>
      match mod_inner fuel s [g] [(g, ninsert id (emem ge))] (if g =? id then [] else only_key g dynch) with
      | Some s1 => readd fuel s1 id r dynch
      | None => None
      end
    end
  end.
Definition do_revive (fuel : nat) (s : state) (id : N) (dynch : list (N * list N)) : option state :=
  match find_ent s id with
  | None => Some s
  | Some e =>
    if elive e then Some s else
    let f := fun x => if eid x =? id then upd_dyn (only_key id dynch) (revived x) else x in
    match apply_memberof fuel (map f s)
            (id :: flat_map (fun x => if eid x =? id
                                      then pair_aff [id] x (f x) ++ (if egrp x then emem x else [])
                                      else []) s) with
    | Some s1 => readd fuel s1 id (nsort (erdmo e)) dynch
    | None => None
    end
  end.

(* one operation; None = apply_memberof does not come to an end (within fuel_of of the state) *)
Definition step_fuel (fuel : nat) (s : state) (o : op) : option state :=
  match o with
  | OCreate strict l dynch => do_create strict fuel s l dynch
  | OMod strict cand memch dynch => do_mod strict fuel s cand memch dynch
  | ODelete ids => do_delete fuel s ids
  | ORevive id dynch => do_revive fuel s id dynch
  end.
Definition op_size (o : op) : nat := match o with OCreate _ l _ => length l | _ => O end.
Definition step (s : state) (o : op) : option state :=
  let n := S (length s + op_size o) in step_fuel (2 * n * n + 8) s o.

(* ------------------------------------------------------------------ the property, executable *)
(* live groups that list u directly *)
Definition parents (s : state) (u : N) : list N := nsort (map eid (pgroups s u)).

Fixpoint grow (k : nat) (s : state) (C : list N) : list N :=
  match k with
  | O => C
  | S j => grow j s (nunion (flat_map (parents s) C) C)
  end.
(* breadth-first closure oracle: groups from which u is reachable through >= 1 member/dynmember link
   between live groups *)
Definition closure (s : state) (u : N) : list N := grow (length s) s (parents s u).
(* C contains the direct groups of u and is closed under "direct groups of" *)
Definition closedb (s : state) (u : N) (C : list N) : bool :=
  subset (parents s u) C && forallb (fun p => subset (parents s p) C) C.

Definition exact_ent (s : state) (e : ent) : bool :=
  negb (elive e)
  || (leqb (edmo e) (parents s (eid e))
      && (let C := closure s (eid e) in closedb s (eid e) C && leqb (emo e) C)).
Definition exactb (s : state) : bool := forallb (exact_ent s) s.

(* local consistency: every live entry is a fixed point of the recomputation *)
Definition lc_ent (s : state) (e : ent) : bool :=
  negb (elive e)
  || (let dm := recompute s (eid e) in leqb (edmo e) (fst dm) && leqb (emo e) (snd dm)).
Definition lcb (s : state) : bool := forallb (lc_ent s) s.

(* only dynamic groups carry DynMember *)
Definition dynwfb (s : state) : bool :=
  forallb (fun e => edyng e || match edyn e with [] => true | _ => false end) s.

(* every member / dynmember of a live group has a larger id than the group: a simple sufficient test
   for an acyclic live group graph (used for witnesses) *)
Definition rankedb (s : state) : bool :=
  forallb (fun p => negb (elive p && egrp p) || forallb (fun u => eid p <? u) (emem p ++ edyn p)) s.

(* some live group is reachable from itself *)
Definition cyclicb (s : state) : bool :=
  existsb (fun g => elive g && egrp g && nmem (eid g) (closure s (eid g))) s.

(* ------------------------------------------------------------------ correspondence *)
(* outcome: 0 committed, 1 refused (transaction dropped), 2 no answer (hang) *)
Record ostep := mkstep { sop : op; scode : N; spost : state }.
Inductive case := CHist (steps : list ostep).

Definition ent_eqb (a b : ent) : bool :=
  (eid a =? eid b) && Bool.eqb (egrp a) (egrp b) && Bool.eqb (edyng a) (edyng b)
  && Bool.eqb (elive a) (elive b) && leqb (emem a) (emem b) && leqb (edyn a) (edyn b)
  && leqb (emo a) (emo b) && leqb (edmo a) (edmo b) && leqb (erdmo a) (erdmo b).
Fixpoint state_eqb (a b : state) : bool :=
  match a, b with
  | [], [] => true
  | x :: r, y :: q => ent_eqb x y && state_eqb r q
  | _, _ => false
  end.

(* the model is stepped from the previously OBSERVED state *)
Definition step_agree (pre : state) (st : ostep) : bool :=
  match step pre (sop st) with
  | Some s1 => (scode st <? 2) && state_eqb s1 (spost st)
               && (if scode st =? 1 then state_eqb pre (spost st) else true)
  | None => (scode st =? 2) && state_eqb pre (spost st)
  end.
Fixpoint hist_all (f : state -> ostep -> bool) (pre : state) (l : list ostep) : bool :=
  match l with
  | [] => true
  | st :: r => f pre st && hist_all f (spost st) r
  end.

Definition agree (c : case) : bool := match c with CHist l => hist_all step_agree [] l end.

(* the property on the implementation's own read-back: every operation comes to an end and every
   observed state has exact MemberOf / DirectMemberOf *)
Definition step_prop (_ : state) (st : ostep) : bool := (scode st <? 2) && exactb (spost st).
Definition pcheck (c : case) : bool := match c with CHist l => hist_all step_prop [] l end.

(* known-finding classes (recognised per step, every failing step of the case must be inside):
   - stale-cycle: the observed state is not exact, but its live group graph has a cycle and every live
     entry still equals its recomputation (only a self-sustaining surplus around a cycle);
   - oscillation: the operation did not return and the transcribed loop does not finish either. *)
Definition step_known (pre : state) (st : ostep) : bool :=
  step_prop pre st
  || (if scode st =? 2
      then match step pre (sop st) with None => true | Some _ => false end
      else cyclicb (spost st) && lcb (spost st)).
Definition known (c : case) : bool :=
  match c with CHist l => negb (hist_all step_prop [] l) && hist_all step_known [] l end.
