(* KV.C17.Proofs — lemmas about the MemberOf model. *)
From Coq Require Import List NArith Bool Lia Arith.
Import ListNotations.
Require Import KV.C17.Model.
Open Scope N_scope.

(* ------------------------------------------------------------------ sets *)
Lemma ninsert_in : forall x y l, In x (ninsert y l) <-> x = y \/ In x l.
Proof.
  intros x y l. induction l as [|z r IH]; cbn [ninsert].
  - cbn. intuition.
  - destruct (y ?= z) eqn:E.
    + apply N.compare_eq in E. subst z. cbn. intuition.
    + cbn. intuition.
    + cbn [In]. rewrite IH. intuition.
Qed.
Lemma nsort_in : forall x l, In x (nsort l) <-> In x l.
Proof.
  intros x l. induction l as [|y r IH]; cbn [nsort fold_right]; [tauto|].
  fold (nsort r). rewrite ninsert_in, IH. cbn. intuition.
Qed.
Lemma nunion_in : forall x a b, In x (nunion a b) <-> In x a \/ In x b.
Proof.
  intros x a b. induction a as [|y r IH]; cbn [nunion fold_right]; [cbn; tauto|].
  fold (nunion r b). rewrite ninsert_in, IH. cbn. intuition.
Qed.
Lemma nmem_in : forall x l, nmem x l = true <-> In x l.
Proof.
  intros x l. unfold nmem. rewrite existsb_exists. split.
  - intros [y [Hy E]]. apply N.eqb_eq in E. subst. exact Hy.
  - intros H. exists x. split; [exact H | apply N.eqb_refl].
Qed.
Lemma nmem_false : forall x l, nmem x l = false <-> ~ In x l.
Proof.
  intros x l. rewrite <- nmem_in. destruct (nmem x l); intuition congruence.
Qed.
Lemma nminus_in : forall x l d, In x (nminus l d) <-> In x l /\ ~ In x d.
Proof.
  intros x l d. unfold nminus. rewrite filter_In, negb_true_iff, nmem_false. tauto.
Qed.
Lemma symdiff_in : forall x a b, In x (symdiff a b) <-> (In x a /\ ~ In x b) \/ (In x b /\ ~ In x a).
Proof. intros x a b. unfold symdiff. rewrite in_app_iff, !nminus_in. tauto. Qed.
Lemma subset_in : forall a b, subset a b = true <-> forall x, In x a -> In x b.
Proof.
  intros a b. unfold subset. rewrite forallb_forall. split; intros H x Hx.
  - apply nmem_in, H, Hx.
  - apply nmem_in, H, Hx.
Qed.
Lemma leqb_eq : forall a b, leqb a b = true -> a = b.
Proof.
  induction a as [|x r IH]; destruct b as [|y q]; cbn [leqb]; intros H; try discriminate; [reflexivity|].
  apply andb_true_iff in H. destruct H as [E H]. apply N.eqb_eq in E. subst. f_equal. apply IH, H.
Qed.
Lemma leqb_refl : forall a, leqb a a = true.
Proof. induction a as [|x r IH]; cbn [leqb]; [reflexivity|]. rewrite N.eqb_refl, IH. reflexivity. Qed.

(* ------------------------------------------------------------------ declarative spec *)
(* g is a live group that lists u as member or dynmember *)
Definition isparent (s : state) (g u : N) : Prop := exists p, In p s /\ eid p = g /\ isp u p = true.

(* g reaches u through >= 1 member/dynmember link, all intermediate nodes being live groups *)
Inductive reach (s : state) : N -> N -> Prop :=
| r_direct : forall g u, isparent s g u -> reach s g u
| r_step : forall g p u, reach s g p -> isparent s p u -> reach s g u.

Definition Exact (s : state) : Prop :=
  forall e, In e s -> elive e = true ->
    (forall g, In g (edmo e) <-> isparent s g (eid e)) /\ (forall g, In g (emo e) <-> reach s g (eid e)).

(* (d, m) is what do_group_memberof computes for u in state s *)
Definition fits (s : state) (u : N) (d m : list N) : Prop :=
  (forall g, In g d <-> isparent s g u)
  /\ (forall g, In g m <-> isparent s g u \/ exists p, In p s /\ isp u p = true /\ In g (emo p)).
Definition cons (s : state) (e : ent) : Prop := fits s (eid e) (edmo e) (emo e).
(* local consistency: every live entry is a fixed point of the recomputation (as sets) *)
Definition LC (s : state) : Prop := forall e, In e s -> elive e = true -> cons s e.

Lemma parents_in : forall s u g, In g (parents s u) <-> isparent s g u.
Proof.
  intros s u g. unfold parents, pgroups, isparent. rewrite nsort_in, in_map_iff. split.
  - intros [p [E H]]. apply filter_In in H. exists p. tauto.
  - intros [p [H [E I]]]. exists p. split; [exact E|]. apply filter_In. tauto.
Qed.

Lemma recompute_fits : forall s u, fits s u (fst (recompute s u)) (snd (recompute s u)).
Proof.
  intros s u. unfold recompute. cbn [fst snd]. split; intros g.
  - apply (parents_in s u g).
  - rewrite nunion_in. fold (parents s u). rewrite parents_in, in_flat_map. unfold pgroups. split.
    + intros [[p [H I]]|H]; [right|left; exact H]. apply filter_In in H. exists p. tauto.
    + intros [H|[p [H [I J]]]]; [right; exact H|left]. exists p. split; [apply filter_In; tauto|exact J].
Qed.

(* maps that leave the membership graph alone *)
Definition gp (f : ent -> ent) : Prop :=
  forall e, eid (f e) = eid e /\ egrp (f e) = egrp e /\ elive (f e) = elive e
            /\ emem (f e) = emem e /\ edyn (f e) = edyn e.
Lemma gp_isp : forall f, gp f -> forall u e, isp u (f e) = isp u e.
Proof.
  intros f G u e. destruct (G e) as [_ [A [B [C D]]]]. unfold isp, lists. rewrite A, B, C, D. reflexivity.
Qed.
Lemma gp_set_mo : forall (c : ent -> bool) (r : ent -> list N * list N),
  gp (fun e => if c e then set_mo e (r e) else e).
Proof. intros c r e. destruct (c e); cbn; auto. Qed.

Lemma isparent_map : forall f s g u, gp f -> (isparent (map f s) g u <-> isparent s g u).
Proof.
  intros f s g u G. unfold isparent. split.
  - intros [p' [H [E I]]]. apply in_map_iff in H. destruct H as [p [<- H]].
    exists p. rewrite (gp_isp f G) in I. destruct (G p) as [A _]. rewrite A in E. tauto.
  - intros [p [H [E I]]]. exists (f p). split; [apply in_map, H|].
    rewrite (gp_isp f G). destruct (G p) as [A _]. rewrite A. tauto.
Qed.

Lemma fits_map : forall f s u d m, gp f ->
  (forall p, In p s -> isp u p = true -> emo (f p) = emo p) ->
  fits s u d m -> fits (map f s) u d m.
Proof.
  intros f s u d m G K [F1 F2]. split; intros g.
  - rewrite F1. symmetry. apply isparent_map, G.
  - rewrite F2, (isparent_map f s g u G). split.
    + intros [H|[p [H [I J]]]]; [left; exact H|right]. exists (f p).
      split; [apply in_map, H|]. rewrite (gp_isp f G), (K p H I). tauto.
    + intros [H|[p' [H [I J]]]]; [left; exact H|right]. apply in_map_iff in H. destruct H as [p [<- H]].
      rewrite (gp_isp f G) in I. rewrite (K p H I) in J. exists p. tauto.
Qed.

(* ------------------------------------------------------------------ apply_memberof restores LC *)
Definition Inv (s : state) (W all : list N) : Prop :=
  (forall x, In x W -> In x all) /\
  forall e, In e s -> elive e = true ->
    (egrp e = true -> ~ In (eid e) W -> cons s e) /\ (egrp e = false -> ~ In (eid e) all -> cons s e).

Lemma stripe_inv : forall s W all s1 W1,
  Inv s W all -> stripe s W = (s1, W1) -> Inv s1 W1 (nunion W1 all).
Proof.
  intros s W all s1 W1 [Hsub HI] E. unfold stripe in E. injection E as <- <-.
  set (f := fun e => if inwork W e then set_mo e (recompute s (eid e)) else e).
  set (W1 := nsort (flat_map (fun e => if inwork W e && changed e (recompute s (eid e))
                                         then emem e ++ edyn e else []) s)).
  assert (G : gp f) by apply gp_set_mo.
  assert (K : forall u, ~ In u W1 -> forall p, In p s -> isp u p = true -> emo (f p) = emo p).
  { intros u Hu p Hp Ip. unfold f. destruct (inwork W p) eqn:Wp; [|reflexivity].
    destruct (changed p (recompute s (eid p))) eqn:C.
    - exfalso. apply Hu. unfold W1. apply nsort_in, in_flat_map. exists p. split; [exact Hp|].
      rewrite Wp, C. cbn [andb]. unfold isp, lists in Ip. apply andb_true_iff in Ip. destruct Ip as [_ L].
      apply orb_true_iff in L. apply in_app_iff. destruct L as [L|L]; apply nmem_in in L; tauto.
    - unfold changed in C. apply negb_false_iff, andb_true_iff in C. destruct C as [C _].
      apply leqb_eq in C. cbn. symmetry. exact C. }
  split.
  - intros x Hx. apply nunion_in. left. exact Hx.
  - intros e' He' Le'. apply in_map_iff in He'. destruct He' as [e [<- He]].
    destruct (G e) as [Gid [Ggrp [Glive _]]]. rewrite Glive in Le'. rewrite Gid, Ggrp.
    destruct (HI e He Le') as [Hg Hl]. split.
    + intros Eg Nw. unfold cons. rewrite Gid.
      unfold f at 2 3. destruct (inwork W e) eqn:We.
      * cbn [set_mo edmo emo]. apply fits_map; [exact G | apply K, Nw | apply recompute_fits].
      * apply fits_map; [exact G | apply K, Nw |]. apply Hg; [exact Eg|].
        unfold inwork in We. rewrite Le', Eg in We. cbn in We. apply nmem_false, We.
    + intros Eg Nw. unfold cons. rewrite Gid. rewrite nunion_in in Nw.
      assert (Fe : f e = e). { unfold f, inwork. rewrite Eg, andb_false_r. reflexivity. }
      rewrite Fe. apply fits_map; [exact G | apply K; tauto | apply Hl; tauto].
Qed.

Lemma loop_inv : forall fuel s W all s1 all1,
  Inv s W all -> loop fuel s W all = Some (s1, all1) -> Inv s1 [] all1.
Proof.
  induction fuel as [|f IH]; intros s W all s1 all1 HI E.
  - destruct W; cbn in E; [injection E as <- <-; exact HI | discriminate].
  - destruct W as [|w W'].
    + cbn in E. injection E as <- <-. exact HI.
    + cbn [loop] in E. destruct (stripe s (w :: W')) as [s2 W2] eqn:S.
      eapply IH; [|exact E]. eapply stripe_inv; eassumption.
Qed.

Lemma leaves_lc : forall s all, Inv s [] all -> LC (leaves s all).
Proof.
  intros s all [_ HI]. unfold leaves.
  set (h := fun e => if inleaf all e then set_mo e (recompute s (eid e)) else e).
  assert (G : gp h) by apply gp_set_mo.
  assert (K : forall u p, In p s -> isp u p = true -> emo (h p) = emo p).
  { intros u p _ Ip. unfold h, inleaf. unfold isp in Ip. apply andb_true_iff in Ip. destruct Ip as [Ip _].
    apply andb_true_iff in Ip. destruct Ip as [_ Gp]. rewrite Gp. cbn. rewrite andb_false_r. reflexivity. }
  intros e' He' Le'. apply in_map_iff in He'. destruct He' as [e [<- He]].
  destruct (G e) as [Gid [_ [Glive _]]]. rewrite Glive in Le'.
  destruct (HI e He Le') as [Hg Hl]. unfold cons. rewrite Gid. unfold h at 2 3.
  destruct (inleaf all e) eqn:Il.
  - cbn [set_mo edmo emo]. apply fits_map; [exact G | apply K | apply recompute_fits].
  - apply fits_map; [exact G | apply K |]. destruct (egrp e) eqn:Eg.
    + apply Hg; [reflexivity | intros []].
    + apply Hl; [reflexivity|]. unfold inleaf in Il. rewrite Le', Eg in Il. cbn in Il. apply nmem_false, Il.
Qed.

(* every live entry outside the affected set is consistent in the (already changed) graph *)
Definition Covered (s : state) (aff : list N) : Prop :=
  forall e, In e s -> elive e = true -> ~ In (eid e) aff -> cons s e.

Lemma apply_lc : forall fuel s aff s1,
  Covered s aff -> apply_memberof fuel s aff = Some s1 -> LC s1.
Proof.
  intros fuel s aff s1 C E. unfold apply_memberof in E.
  destruct (loop fuel s (nsort aff) (nsort aff)) as [[s2 all]|] eqn:L; [|discriminate].
  injection E as <-. apply leaves_lc. eapply loop_inv; [|exact L].
  split; [auto|]. intros e He Le. split; intros _ Nw; apply C; auto; intros H; apply Nw, nsort_in, H.
Qed.

(* ------------------------------------------------------------------ consequences of LC *)
Lemma lc_dmo_exact : forall s, LC s -> forall e, In e s -> elive e = true ->
  forall g, In g (edmo e) <-> isparent s g (eid e).
Proof. intros s H e He Le. destruct (H e He Le) as [D _]. exact D. Qed.

Lemma isp_live : forall u p, isp u p = true -> elive p = true.
Proof. intros u p H. unfold isp in H. destruct (elive p); [reflexivity | discriminate]. Qed.

Lemma lc_mo_complete_aux : forall s, LC s -> forall g u, reach s g u ->
  forall e, In e s -> eid e = u -> elive e = true -> In g (emo e).
Proof.
  intros s H g u R. induction R as [g u P | g p u R IH P]; intros e He Ee Le;
    destruct (H e He Le) as [_ M]; apply M; rewrite Ee.
  - left. exact P.
  - right. destruct P as [pe [Hp [Ep Ip]]]. exists pe. split; [exact Hp|]. split; [exact Ip|].
    apply IH; [exact Hp | exact Ep | eapply isp_live, Ip].
Qed.
Lemma lc_mo_complete : forall s, LC s -> forall e, In e s -> elive e = true ->
  forall g, reach s g (eid e) -> In g (emo e).
Proof. intros s H e He Le g R. eapply lc_mo_complete_aux; eauto. Qed.

(* acyclic graphs, stated with a topological ranking *)
Definition Ranked (s : state) : Prop :=
  exists rank : N -> nat, forall p u, isparent s p u -> (rank p < rank u)%nat.

Lemma lc_mo_sound_ranked : forall s (rank : N -> nat), LC s ->
  (forall p u, isparent s p u -> (rank p < rank u)%nat) ->
  forall n e, (rank (eid e) < n)%nat -> In e s -> elive e = true ->
  forall g, In g (emo e) -> reach s g (eid e).
Proof.
  intros s rank H Rk. induction n as [|n IH]; intros e Hn He Le g Hg; [lia|].
  destruct (H e He Le) as [_ M]. apply M in Hg. destruct Hg as [P|[p [Hp [Ip Jp]]]].
  - apply r_direct, P.
  - assert (P : isparent s (eid p) (eid e)) by (exists p; tauto).
    apply r_step with (p := eid p); [|exact P].
    apply IH; [|exact Hp|eapply isp_live, Ip|exact Jp]. specialize (Rk _ _ P). lia.
Qed.

Lemma lc_exact_ranked : forall s, LC s -> Ranked s -> Exact s.
Proof.
  intros s H [rank Rk] e He Le. split.
  - apply lc_dmo_exact; assumption.
  - intros g. split.
    + apply (lc_mo_sound_ranked s rank H Rk (S (rank (eid e)))); auto.
    + apply lc_mo_complete; assumption.
Qed.

(* ------------------------------------------------------------------ the executable predicates are sound *)
Lemma grow_sound : forall s u k C, (forall x, In x C -> reach s x u) ->
  forall x, In x (grow k s C) -> reach s x u.
Proof.
  intros s u. induction k as [|k IH]; intros C HC x Hx; cbn [grow] in Hx; [auto|].
  eapply IH; [|exact Hx]. intros y Hy. apply nunion_in in Hy. destruct Hy as [Hy|Hy]; [|auto].
  apply in_flat_map in Hy. destruct Hy as [p [Hp Hy]]. apply parents_in in Hy.
  (* y is a direct group of p, p reaches u: y reaches u — by induction on the chain p ~> u *)
  specialize (HC p Hp). clear - HC Hy. induction HC as [p u P | p q u R IH P].
  - eapply r_step; [apply r_direct, Hy | exact P].
  - eapply r_step; [apply IH, Hy | exact P].
Qed.

Lemma closed_complete : forall s u C, closedb s u C = true -> forall g, reach s g u -> In g C.
Proof.
  intros s u C H. unfold closedb in H. apply andb_true_iff in H. destruct H as [H1 H2].
  rewrite subset_in in H1. rewrite forallb_forall in H2.
  assert (A : forall g x, isparent s g x -> x = u \/ In x C -> In g C).
  { intros g x P [->|Hx]; [apply H1, parents_in, P|].
    specialize (H2 x Hx). rewrite subset_in in H2. apply H2, parents_in, P. }
  assert (B : forall g x, reach s g x -> x = u \/ In x C -> In g C).
  { intros g x R. induction R as [g x P | g p x R IH P]; intros Hx; [eapply A; eauto|].
    apply IH. right. eapply A; eauto. }
  intros g R. eapply B; eauto.
Qed.

Lemma closure_sound : forall s u x, In x (closure s u) -> reach s x u.
Proof.
  intros s u x. unfold closure. apply grow_sound. intros y Hy. apply r_direct, parents_in, Hy.
Qed.

Lemma exactb_sound : forall s, exactb s = true -> Exact s.
Proof.
  intros s H e He Le. unfold exactb in H. rewrite forallb_forall in H. specialize (H e He).
  unfold exact_ent in H. rewrite Le in H. cbn [negb orb] in H.
  apply andb_true_iff in H. destruct H as [D H]. apply andb_true_iff in H. destruct H as [C M].
  apply leqb_eq in D. apply leqb_eq in M. split; intros g.
  - rewrite D. apply parents_in.
  - rewrite M. split; [apply closure_sound | apply closed_complete, C].
Qed.

Lemma lcb_sound : forall s, lcb s = true -> LC s.
Proof.
  intros s H e He Le. unfold lcb in H. rewrite forallb_forall in H. specialize (H e He).
  unfold lc_ent in H. rewrite Le in H. cbn [negb orb] in H. apply andb_true_iff in H. destruct H as [D M].
  apply leqb_eq in D. apply leqb_eq in M. unfold cons. rewrite D, M. apply recompute_fits.
Qed.

(* ------------------------------------------------------------------ per-operation coverage *)
(* maps that change Member / DynMember only *)
Definition mp (f : ent -> ent) : Prop :=
  forall e, eid (f e) = eid e /\ egrp (f e) = egrp e /\ elive (f e) = elive e
            /\ emo (f e) = emo e /\ edmo (f e) = edmo e.

Lemma fits_mp : forall f s u d m, mp f ->
  (forall p, In p s -> lists (f p) u = lists p u) -> fits s u d m -> fits (map f s) u d m.
Proof.
  intros f s u d m G K [F1 F2].
  assert (I : forall p, In p s -> isp u (f p) = isp u p).
  { intros p Hp. destruct (G p) as [_ [A [B _]]]. unfold isp. rewrite A, B, (K p Hp). reflexivity. }
  assert (P : forall g, isparent (map f s) g u <-> isparent s g u).
  { intros g. unfold isparent. split.
    - intros [p' [H [E J]]]. apply in_map_iff in H. destruct H as [p [<- H]]. exists p.
      rewrite (I p H) in J. destruct (G p) as [A _]. rewrite A in E. tauto.
    - intros [p [H [E J]]]. exists (f p). split; [apply in_map, H|]. rewrite (I p H).
      destruct (G p) as [A _]. rewrite A. tauto. }
  split; intros g.
  - rewrite F1. symmetry. apply P.
  - rewrite F2, P. split.
    + intros [H|[p [H [J L]]]]; [left; exact H|right]. exists (f p). split; [apply in_map, H|].
      rewrite (I p H). destruct (G p) as [_ [_ [_ [A _]]]]. rewrite A. tauto.
    + intros [H|[p' [H [J L]]]]; [left; exact H|right]. apply in_map_iff in H. destruct H as [p [<- H]].
      rewrite (I p H) in J. destruct (G p) as [_ [_ [_ [A _]]]]. rewrite A in L. exists p. tauto.
Qed.

Lemma lists_same : forall a b u,
  ~ In u (symdiff (emem a) (emem b)) -> ~ In u (symdiff (edyn a) (edyn b)) -> lists b u = lists a u.
Proof.
  intros a b u H1 H2. unfold lists. rewrite symdiff_in in H1, H2.
  assert (E1 : nmem u (emem b) = nmem u (emem a)).
  { destruct (nmem u (emem b)) eqn:X, (nmem u (emem a)) eqn:Y; try reflexivity;
      try apply nmem_in in X; try apply nmem_in in Y; try apply nmem_false in X; try apply nmem_false in Y; tauto. }
  assert (E2 : nmem u (edyn b) = nmem u (edyn a)).
  { destruct (nmem u (edyn b)) eqn:X, (nmem u (edyn a)) eqn:Y; try reflexivity;
      try apply nmem_in in X; try apply nmem_in in Y; try apply nmem_false in X; try apply nmem_false in Y; tauto. }
  rewrite E1, E2. reflexivity.
Qed.

Lemma covered_mp : forall f s aff, mp f -> LC s ->
  (forall p u, In p s ->
     In u (symdiff (emem p) (emem (f p))) \/ In u (symdiff (edyn p) (edyn (f p))) -> In u aff) ->
  Covered (map f s) aff.
Proof.
  intros f s aff G H A e' He' Le' Na. apply in_map_iff in He'. destruct He' as [e [<- He]].
  destruct (G e) as [Gid [_ [Gl [Gmo Gdmo]]]]. rewrite Gl in Le'. rewrite Gid in Na.
  unfold cons. rewrite Gid, Gmo, Gdmo. apply fits_mp; [exact G | | apply H; assumption].
  intros p Hp. apply lists_same; intros X; apply Na, (A p (eid e) Hp); tauto.
Qed.

Lemma mp_upd : forall memch dynch, mp (fun e => upd_dyn dynch (upd_mem memch e)).
Proof.
  intros memch dynch e. unfold upd_dyn, upd_mem.
  destruct (assoc (eid e) memch) as [m|]; [destruct (egrp e) eqn:Eg|]; cbn;
    repeat match goal with |- context [match ?x with _ => _ end] => destruct x; cbn end; auto.
Qed.

Lemma mod_inner_lc : forall fuel s cand memch dynch s1,
  LC s -> mod_inner fuel s cand memch dynch = Some s1 -> LC s1.
Proof.
  intros fuel s cand memch dynch s1 H E. unfold mod_inner in E.
  eapply apply_lc; [|exact E]. apply covered_mp; [apply mp_upd | exact H |].
  intros p u Hp Hu. apply in_app_iff. right. apply in_flat_map. exists p. split; [exact Hp|].
  unfold pair_aff. rewrite !in_app_iff. tauto.
Qed.

Lemma do_mod_lc : forall strict fuel s cand memch dynch s1,
  LC s -> do_mod strict fuel s cand memch dynch = Some s1 -> LC s1.
Proof.
  intros strict fuel s cand memch dynch s1 H E. unfold do_mod in E.
  match type of E with (if ?c then _ else _) = _ => destruct c end.
  - eapply mod_inner_lc; eassumption.
  - injection E as <-. exact H.
Qed.

(* delete *)
(* only dynamic groups carry DynMember *)
Definition DynWF (s : state) : Prop := forall e, In e s -> edyng e = false -> edyn e = [].

Lemma nmem_nminus : forall u l D, ~ In u D -> nmem u (nminus l D) = nmem u l.
Proof.
  intros u l D H. destruct (nmem u l) eqn:X.
  - apply nmem_in. apply nminus_in. apply nmem_in in X. tauto.
  - apply nmem_false. intros Y. apply nminus_in in Y. apply nmem_false in X. tauto.
Qed.

Lemma do_delete_lc : forall fuel s ids s1,
  DynWF s -> LC s -> do_delete fuel s ids = Some s1 -> LC s1.
Proof.
  intros fuel s ids s1 WF H E. unfold do_delete in E.
  remember (filter (is_live s) ids) as D eqn:ED.
  destruct D as [|d0 D']; [injection E as <-; exact H|].
  remember (d0 :: D') as D eqn:ED2. clear ED ED2 d0 D'.
  set (hit := fun e => elive e && nmem (eid e) D) in *.
  set (f := fun e => strip D (if hit e then recycle e else e)) in *.
  eapply apply_lc; [|exact E].
  assert (Fid : forall e, eid (f e) = eid e) by (intros e; unfold f; destruct (hit e); reflexivity).
  assert (Fgrp : forall e, egrp (f e) = egrp e) by (intros e; unfold f; destruct (hit e); reflexivity).
  assert (Flive : forall e, elive (f e) = elive e && negb (hit e)).
  { intros e. unfold f. destruct (hit e) eqn:X; cbn; [rewrite andb_false_r; reflexivity|].
    rewrite andb_true_r. reflexivity. }
  assert (Fmem : forall e, emem (f e) = nminus (emem e) D) by (intros e; unfold f; destruct (hit e); reflexivity).
  assert (Fdyn : forall e, edyn (f e) = nminus (edyn e) D) by (intros e; unfold f; destruct (hit e); reflexivity).
  assert (Fmo : forall e, hit e = false -> emo (f e) = nminus (emo e) D /\ edmo (f e) = nminus (edmo e) D).
  { intros e X. unfold f. rewrite X. split; reflexivity. }
  intros e' He' Le' Na. apply in_map_iff in He'. destruct He' as [e [Ee He]].
  change (f e = e') in Ee. subst e'.
  rewrite Flive in Le'. apply andb_true_iff in Le'. destruct Le' as [Le Nh]. apply negb_true_iff in Nh.
  rewrite Fid in Na. set (u := eid e) in *.
  assert (ND : ~ In u D).
  { unfold hit in Nh. rewrite Le in Nh. cbn in Nh. apply nmem_false, Nh. }
  assert (L : forall p, lists (f p) u = lists p u).
  { intros p. unfold lists. rewrite Fmem, Fdyn, !nmem_nminus by exact ND. reflexivity. }
  (* a group that lists u was not deleted: u would be in the affected set *)
  assert (NH : forall p, In p s -> isp u p = true -> hit p = false).
  { intros p Hp Ip. destruct (hit p) eqn:X; [exfalso|reflexivity]. apply Na.
    apply in_flat_map. exists p. split; [exact Hp|]. cbv beta. fold (hit p). rewrite X.
    unfold isp in Ip. apply andb_true_iff in Ip. destruct Ip as [Ip Lp].
    apply andb_true_iff in Ip. destruct Ip as [_ Gp]. rewrite Gp. cbn [andb].
    unfold lists in Lp. apply orb_true_iff in Lp. apply in_app_iff.
    destruct Lp as [Lp|Lp]; apply nmem_in in Lp; [left; exact Lp|right].
    destruct (edyng p) eqn:Dg; [exact Lp|]. rewrite (WF p Hp Dg) in Lp. destruct Lp. }
  assert (I : forall p, In p s -> isp u (f p) = isp u p).
  { intros p Hp. unfold isp. rewrite Flive, Fgrp, L. destruct (hit p) eqn:X; cbn.
    - rewrite andb_false_r. cbn. symmetry. destruct (elive p && egrp p && lists p u) eqn:Y; [|reflexivity].
      assert (Z : isp u p = true) by exact Y. rewrite (NH p Hp Z) in X. discriminate.
    - rewrite andb_true_r. reflexivity. }
  assert (P : forall g, isparent (map f s) g u <-> isparent s g u).
  { intros g. unfold isparent. split.
    - intros [p' [Hp [Eg J]]]. apply in_map_iff in Hp. destruct Hp as [p [<- Hp]]. exists p.
      rewrite (I p Hp) in J. rewrite Fid in Eg. tauto.
    - intros [p [Hp [Eg J]]]. exists (f p). split; [apply in_map, Hp|]. rewrite (I p Hp), Fid. tauto. }
  assert (PD : forall g, isparent s g u -> ~ In g D).
  { intros g [p [Hp [Eg J]]]. pose proof (NH p Hp J) as X. unfold hit in X.
    rewrite (isp_live u p J) in X. cbn in X. rewrite Eg in X. apply nmem_false, X. }
  destruct (Fmo e Nh) as [Emo Edmo]. destruct (H e He Le) as [F1 F2]. fold u in F1, F2.
  unfold cons. rewrite Fid, Emo, Edmo. fold u. split; intros g.
  - split.
    + intros X. apply nminus_in in X. destruct X as [X _]. apply P, F1, X.
    + intros X. apply P in X. apply nminus_in. split; [apply F1, X | apply PD, X].
  - split.
    + intros X. apply nminus_in in X. destruct X as [X Ng]. apply F2 in X.
      destruct X as [X|[p [Hp [J K]]]]; [left; apply P, X|right]. exists (f p).
      split; [apply in_map, Hp|]. rewrite (I p Hp). split; [exact J|].
      destruct (Fmo p (NH p Hp J)) as [Y _]. rewrite Y. apply nminus_in. tauto.
    + intros [X|[p' [Hp [J K]]]].
      * apply P in X. apply nminus_in. split; [apply F2; left; exact X | apply PD, X].
      * apply in_map_iff in Hp. destruct Hp as [p [Ep Hp]]. change (f p = p') in Ep. subst p'.
        rewrite (I p Hp) in J.
        destruct (Fmo p (NH p Hp J)) as [Y _]. rewrite Y in K. apply nminus_in in K.
        apply nminus_in. split; [apply F2; right; exists p; tauto | tauto].
Qed.

(* a general transfer: entries keep their id, their role as direct group of u and their MemberOf *)
Lemma fits_gen : forall f s u d m,
  (forall p, In p s -> eid (f p) = eid p /\ isp u (f p) = isp u p /\ emo (f p) = emo p) ->
  fits s u d m -> fits (map f s) u d m.
Proof.
  intros f s u d m K [F1 F2].
  assert (P : forall g, isparent (map f s) g u <-> isparent s g u).
  { intros g. unfold isparent. split.
    - intros [p' [H [E J]]]. apply in_map_iff in H. destruct H as [p [<- H]]. exists p.
      destruct (K p H) as [A [B _]]. rewrite A in E. rewrite B in J. tauto.
    - intros [p [H [E J]]]. exists (f p). split; [apply in_map, H|].
      destruct (K p H) as [A [B _]]. rewrite A, B. tauto. }
  split; intros g.
  - rewrite F1. symmetry. apply P.
  - rewrite F2, P. split.
    + intros [H|[p [H [J L]]]]; [left; exact H|right]. exists (f p). split; [apply in_map, H|].
      destruct (K p H) as [_ [B C]]. rewrite B, C. tauto.
    + intros [H|[p' [H [J L]]]]; [left; exact H|right]. apply in_map_iff in H. destruct H as [p [<- H]].
      destruct (K p H) as [_ [B C]]. rewrite B in J. rewrite C in L. exists p. tauto.
Qed.

Lemma fits_extend : forall s s1 u d m,
  (forall p, In p s1 <-> In p s \/ (In p s1 /\ isp u p = false)) ->
  fits s u d m -> fits s1 u d m.
Proof.
  intros s s1 u d m K [F1 F2].
  assert (P : forall g, isparent s1 g u <-> isparent s g u).
  { intros g. unfold isparent. split.
    - intros [p [H [E J]]]. apply K in H. destruct H as [H|[_ H]]; [|congruence]. exists p. tauto.
    - intros [p [H [E J]]]. exists p. split; [apply K; left; exact H | tauto]. }
  split; intros g.
  - rewrite F1. symmetry. apply P.
  - rewrite F2, P. split.
    + intros [H|[p [H [J L]]]]; [left; exact H|right]. exists p. split; [apply K; left; exact H | tauto].
    + intros [H|[p [H [J L]]]]; [left; exact H|right]. apply K in H. destruct H as [H|[_ H]]; [|congruence].
      exists p. tauto.
Qed.

(* revive *)
Lemma upd_dyn_fields : forall dynch e,
  eid (upd_dyn dynch e) = eid e /\ egrp (upd_dyn dynch e) = egrp e /\ elive (upd_dyn dynch e) = elive e
  /\ emem (upd_dyn dynch e) = emem e /\ emo (upd_dyn dynch e) = emo e /\ edmo (upd_dyn dynch e) = edmo e
  /\ edyng (upd_dyn dynch e) = edyng e
  /\ (edyng e && egrp e = false -> edyn (upd_dyn dynch e) = edyn e).
Proof.
  intros dynch e. unfold upd_dyn. destruct (assoc (eid e) dynch) as [d|]; [|cbn; tauto].
  destruct (edyng e && egrp e) eqn:X; cbn; repeat split; auto; discriminate.
Qed.

Lemma readd_lc : forall fuel stash s id dynch s1,
  LC s -> readd fuel s id stash dynch = Some s1 -> LC s1.
Proof.
  intros fuel stash. induction stash as [|g r IH]; intros s id dynch s1 H E; cbn [readd] in E.
  - injection E as <-. exact H.
  - destruct (find_ent s g) as [ge|]; [|eapply IH; eassumption].
    match type of E with match ?m with _ => _ end = _ => destruct m as [s2|] eqn:M end; [|discriminate].
    eapply IH; [|exact E]. eapply mod_inner_lc; eassumption.
Qed.

Lemma not_in_symdiff_same : forall u a, ~ In u (symdiff a a).
Proof. intros u a H. apply symdiff_in in H. tauto. Qed.

Lemma do_revive_lc : forall fuel s id dynch s1,
  DynWF s -> LC s -> do_revive fuel s id dynch = Some s1 -> LC s1.
Proof.
  intros fuel s id dynch s1 WF H E. unfold do_revive in E.
  destruct (find_ent s id) as [e0|]; [|injection E as <-; exact H].
  destruct (elive e0); [injection E as <-; exact H|].
  set (dk := only_key id dynch) in *.
  set (f := fun x => if eid x =? id then upd_dyn dk (revived x) else x) in *.
  match type of E with match ?m with _ => _ end = _ => destruct m as [s2|] eqn:M end; [|discriminate].
  eapply readd_lc; [|exact E]. eapply apply_lc; [|exact M]. clear M E.
  match goal with |- Covered _ ?a => set (AFF := a) end.
  assert (Q : forall v x, In x s -> (eid x =? id) = true ->
            In v (pair_aff [id] x (f x) ++ (if egrp x then emem x else [])) -> In v AFF).
  { intros v x Hx Ex Hv. unfold AFF. right. apply in_flat_map. exists x. split; [exact Hx|].
    cbv beta. unfold f in Hv. rewrite Ex in Hv. rewrite Ex. exact Hv. }
  assert (Qid : In id AFF) by (left; reflexivity).
  clearbody AFF.
  intros e' He' Le' Na. apply in_map_iff in He'. destruct He' as [e [Ee He]].
  change (f e = e') in Ee. subst e'.
  assert (Nid : (eid e =? id) = false).
  { destruct (eid e =? id) eqn:X; [|reflexivity]. exfalso. apply Na.
    unfold f. rewrite X. destruct (upd_dyn_fields dk (revived e)) as [A _]. rewrite A. cbn.
    apply N.eqb_eq in X. rewrite X. exact Qid. }
  assert (Fe : f e = e) by (unfold f; rewrite Nid; reflexivity).
  rewrite Fe in *. set (u := eid e) in *.
  assert (Naff : forall x, In x s -> (eid x =? id) = true ->
            ~ In u (symdiff (edyn x) (edyn (f x)))
            /\ (edyng x && egrp x = true -> ~ In u (edyn x) /\ ~ In u (edyn (f x)))
            /\ (egrp x = true -> ~ In u (emem x))).
  { intros x Hx Ex. split; [|split].
    - intros X. apply Na, (Q u x Hx Ex). apply in_app_iff. left. unfold pair_aff. rewrite !in_app_iff. tauto.
    - intros Dg. assert (Y : forall v, In v (edyn x ++ edyn (f x)) -> In v AFF).
      { intros v Hv. apply (Q v x Hx Ex). apply in_app_iff. left. unfold pair_aff. rewrite !in_app_iff.
        right. right. rewrite Dg. apply N.eqb_eq in Ex. rewrite Ex. cbn [nmem existsb]. rewrite N.eqb_refl.
        cbn [orb andb]. right. exact Hv. }
      split; intros X; apply Na, Y, in_app_iff; tauto.
    - intros Eg X. apply Na, (Q u x Hx Ex). apply in_app_iff. right. rewrite Eg. exact X. }
  unfold cons. apply fits_gen; [|apply H; assumption].
  intros p Hp. destruct (eid p =? id) eqn:Ep; [|unfold f; rewrite Ep; tauto].
  destruct (Naff p Hp Ep) as [N1 [N2 N3]].
  assert (Fp : f p = upd_dyn dk (revived p)) by (unfold f; rewrite Ep; reflexivity).
  destruct (upd_dyn_fields dk (revived p)) as [A [B [C [D [F' [_ [_ G]]]]]]]. cbn in A, B, C, D, F', G.
  rewrite Fp in N1, N2. rewrite Fp. split; [exact A|]. split; [|exact F'].
  unfold isp. rewrite B, C.
  assert (L : lists (upd_dyn dk (revived p)) u = lists p u).
  { apply lists_same; [rewrite D; apply not_in_symdiff_same | exact N1]. }
  fold u. rewrite L. destruct (elive p) eqn:Lp; [reflexivity|]. cbn.
  destruct (egrp p) eqn:Eg; [|reflexivity]. cbn. unfold lists.
  rewrite (proj2 (nmem_false u (emem p)) (N3 eq_refl)). cbn.
  destruct (edyng p) eqn:Dg.
  - destruct (N2 eq_refl) as [X _]. apply nmem_false, X.
  - rewrite (WF p Hp Dg). reflexivity.
Qed.

(* create *)
Lemma insert_ent_in : forall x e s, In x (insert_ent e s) <-> x = e \/ In x s.
Proof.
  intros x e s. induction s as [|y r IH]; cbn [insert_ent]; [cbn; intuition|].
  destruct (eid e <? eid y); cbn [In]; [intuition|]. rewrite IH. intuition.
Qed.
Lemma fold_insert_in : forall x l s,
  In x (fold_right (fun n acc => insert_ent (new_ent n) acc) s l) <-> In x (map new_ent l) \/ In x s.
Proof.
  intros x l s. induction l as [|n r IH]; cbn [fold_right map]; [cbn; tauto|].
  rewrite insert_ent_in, IH. cbn. intuition.
Qed.

Lemma do_create_lc : forall strict fuel s l dynch s1,
  LC s -> do_create strict fuel s l dynch = Some s1 -> LC s1.
Proof.
  intros strict fuel s l dynch s1 H E. unfold do_create in E.
  set (s0 := fold_right (fun n acc => insert_ent (new_ent n) acc) s l) in *.
  match type of E with (if ?c then _ else _) = _ => destruct c end; [|injection E as <-; exact H].
  eapply apply_lc; [|exact E]. clear E.
  intros e' He' Le' Na. apply in_map_iff in He'. destruct He' as [e [Ee He]]. subst e'.
  destruct (upd_dyn_fields dynch e) as [A [B [C [D [F' [G _]]]]]].
  rewrite A in Na. rewrite C in Le'. rewrite !in_app_iff in Na.
  apply fold_insert_in in He. destruct He as [He|He].
  { exfalso. apply Na. left. apply in_map_iff in He. destruct He as [n [<- Hn]]. cbn. apply in_map, Hn. }
  unfold cons. rewrite A, F', G. set (u := eid e) in *.
  apply fits_mp.
  - intros p. destruct (upd_dyn_fields dynch p) as [A1 [B1 [C1 [_ [F1 [G1 _]]]]]]. repeat split; assumption.
  - intros p Hp. apply lists_same.
    + destruct (upd_dyn_fields dynch p) as [_ [_ [_ [D1 _]]]]. rewrite D1. apply not_in_symdiff_same.
    + intros X. apply Na. right. left. apply in_flat_map. exists p. tauto.
  - apply fits_extend with (s := s); [|apply H; assumption].
    intros p. split.
    + intros Hp. pose proof Hp as Hp'. apply fold_insert_in in Hp. destruct Hp as [Hp|Hp]; [right|left; exact Hp].
      split; [exact Hp'|]. apply in_map_iff in Hp. destruct Hp as [n [<- Hn]].
      unfold isp, new_ent, lists. cbn. destruct (ngrp n) eqn:Gn; [|reflexivity]. cbn.
      rewrite orb_false_r. apply nmem_false. intros X. apply (proj1 (nsort_in _ _)) in X. apply Na. right. right.
      apply in_flat_map. exists n. rewrite Gn. split; [exact Hn | exact X].
    + intros [Hp|[Hp _]]; [apply fold_insert_in; right|]; exact Hp.
Qed.

(* ------------------------------------------------------------------ DynWF is preserved *)
Definition dk (e : ent) : Prop := edyng e = false -> edyn e = [].
Lemma dynwf_map : forall f s, (forall e, dk e -> dk (f e)) -> DynWF s -> DynWF (map f s).
Proof.
  intros f s K H e' He'. apply in_map_iff in He'. destruct He' as [e [<- He]]. apply K. exact (H e He).
Qed.
Lemma dk_set_mo : forall (c : ent -> bool) (r : ent -> list N * list N) e,
  dk e -> dk (if c e then set_mo e (r e) else e).
Proof. intros c r e H. destruct (c e); [exact H | exact H]. Qed.

Lemma loop_dynwf : forall fuel s W all s1 all1,
  DynWF s -> loop fuel s W all = Some (s1, all1) -> DynWF s1.
Proof.
  induction fuel as [|f IH]; intros s W all s1 all1 H E.
  - destruct W; cbn in E; [injection E as <- <-; exact H | discriminate].
  - destruct W as [|w W'].
    + cbn in E. injection E as <- <-. exact H.
    + cbn [loop] in E. unfold stripe in E. eapply IH; [|exact E].
      apply dynwf_map; [|exact H]. intros e.
      apply (dk_set_mo (inwork (w :: W')) (fun e => recompute s (eid e))).
Qed.
Lemma apply_dynwf : forall fuel s aff s1, DynWF s -> apply_memberof fuel s aff = Some s1 -> DynWF s1.
Proof.
  intros fuel s aff s1 H E. unfold apply_memberof in E.
  destruct (loop fuel s (nsort aff) (nsort aff)) as [[s2 all]|] eqn:L; [|discriminate].
  injection E as <-. unfold leaves.
  apply dynwf_map; [intros e; apply (dk_set_mo (inleaf all) (fun e => recompute s2 (eid e)))|].
  eapply loop_dynwf; eassumption.
Qed.

Lemma dk_upd : forall memch dynch e, dk e -> dk (upd_dyn dynch (upd_mem memch e)).
Proof.
  intros memch dynch e H. unfold upd_dyn, upd_mem, dk in *.
  destruct (assoc (eid e) memch) as [m|]; [destruct (egrp e) eqn:Eg|]; cbn;
    repeat match goal with |- context [match ?x with _ => _ end] => destruct x eqn:?; cbn end; auto;
    try (intros; congruence);
    try (intros Z; apply andb_true_iff in Heqb; destruct Heqb; congruence).
Qed.
Lemma dk_upd_dyn : forall dynch e, dk e -> dk (upd_dyn dynch e).
Proof.
  intros dynch e H. unfold upd_dyn, dk in *. destruct (assoc (eid e) dynch) as [d|]; [|exact H].
  destruct (edyng e && egrp e) eqn:X; [|exact H]. cbn. apply andb_true_iff in X. destruct X. congruence.
Qed.

Lemma mod_inner_dynwf : forall fuel s cand memch dynch s1,
  DynWF s -> mod_inner fuel s cand memch dynch = Some s1 -> DynWF s1.
Proof.
  intros fuel s cand memch dynch s1 H E. unfold mod_inner in E. eapply apply_dynwf; [|exact E].
  apply dynwf_map; [intros e; apply dk_upd | exact H].
Qed.
Lemma readd_dynwf : forall fuel stash s id dynch s1,
  DynWF s -> readd fuel s id stash dynch = Some s1 -> DynWF s1.
Proof.
  intros fuel stash. induction stash as [|g r IH]; intros s id dynch s1 H E; cbn [readd] in E.
  - injection E as <-. exact H.
  - destruct (find_ent s g) as [ge|]; [|eapply IH; eassumption].
    match type of E with match ?m with _ => _ end = _ => destruct m as [s2|] eqn:M end; [|discriminate].
    eapply IH; [|exact E]. eapply mod_inner_dynwf; eassumption.
Qed.

Lemma step_fuel_dynwf : forall fuel s o s1, DynWF s -> step_fuel fuel s o = Some s1 -> DynWF s1.
Proof.
  intros fuel s o s1 H E. destruct o as [strict l dynch|strict cand memch dynch|ids|id dynch]; cbn [step_fuel] in E.
  - unfold do_create in E.
    match type of E with (if ?c then _ else _) = _ => destruct c end; [|injection E as <-; exact H].
    eapply apply_dynwf; [|exact E]. apply dynwf_map; [intros e; apply dk_upd_dyn|].
    intros e He. apply fold_insert_in in He. destruct He as [He|He]; [|exact (H e He)].
    apply in_map_iff in He. destruct He as [n [<- _]]. intros _. reflexivity.
  - unfold do_mod in E.
    match type of E with (if ?c then _ else _) = _ => destruct c end; [|injection E as <-; exact H].
    eapply mod_inner_dynwf; eassumption.
  - unfold do_delete in E. destruct (filter (is_live s) ids) as [|d0 D']; [injection E as <-; exact H|].
    eapply apply_dynwf; [|exact E]. apply dynwf_map; [|exact H].
    intros e K. unfold dk in *.
    match goal with |- context [if ?c then _ else _] => destruct c end; cbn; intros Z; rewrite (K Z); reflexivity.
  - unfold do_revive in E. destruct (find_ent s id) as [e0|]; [|injection E as <-; exact H].
    destruct (elive e0); [injection E as <-; exact H|].
    match type of E with match ?m with _ => _ end = _ => destruct m as [s2|] eqn:M end; [|discriminate].
    eapply readd_dynwf; [|exact E]. eapply apply_dynwf; [|exact M]. apply dynwf_map; [|exact H].
    intros e K. destruct (eid e =? id); [|exact K]. apply dk_upd_dyn. exact K.
Qed.

Lemma step_fuel_lc : forall fuel s o s1, DynWF s -> LC s -> step_fuel fuel s o = Some s1 -> LC s1.
Proof.
  intros fuel s o s1 WF H E. destruct o as [strict l dynch|strict cand memch dynch|ids|id dynch]; cbn [step_fuel] in E.
  - eapply do_create_lc; eassumption.
  - eapply do_mod_lc; eassumption.
  - eapply do_delete_lc; eassumption.
  - eapply do_revive_lc; eassumption.
Qed.

(* histories *)
Fixpoint run (s : state) (ops : list op) : option state :=
  match ops with
  | [] => Some s
  | o :: r => match step s o with Some s1 => run s1 r | None => None end
  end.

Lemma run_lc : forall ops s s1, DynWF s -> LC s -> run s ops = Some s1 -> DynWF s1 /\ LC s1.
Proof.
  induction ops as [|o r IH]; intros s s1 WF H E; cbn [run] in E.
  - injection E as <-. tauto.
  - destruct (step s o) as [s2|] eqn:S; [|discriminate]. unfold step in S.
    eapply IH; [| |exact E]; [eapply step_fuel_dynwf | eapply step_fuel_lc]; eassumption.
Qed.

Lemma lc_nil : LC [] /\ DynWF [].
Proof. split; intros e []. Qed.

Lemma dynwfb_sound : forall s, dynwfb s = true -> DynWF s.
Proof.
  intros s H e He Dg. unfold dynwfb in H. rewrite forallb_forall in H. specialize (H e He).
  rewrite Dg in H. cbn in H. destruct (edyn e); [reflexivity | discriminate].
Qed.

(* ------------------------------------------------------------------ the run-time tie transfers LC *)
Lemma ent_eqb_eq : forall a b, ent_eqb a b = true -> a = b.
Proof.
  intros [a1 a2 a3 a4 a5 a6 a7 a8 a9] [b1 b2 b3 b4 b5 b6 b7 b8 b9] H. unfold ent_eqb in H. cbn in H.
  repeat (apply andb_true_iff in H; destruct H as [H ?]).
  apply N.eqb_eq in H.
  repeat match goal with
         | X : Bool.eqb _ _ = true |- _ => apply Bool.eqb_prop in X
         | X : leqb _ _ = true |- _ => apply leqb_eq in X
         end.
  subst. reflexivity.
Qed.
Lemma state_eqb_eq : forall a b, state_eqb a b = true -> a = b.
Proof.
  induction a as [|x r IH]; destruct b as [|y q]; cbn [state_eqb]; intros H; try discriminate; [reflexivity|].
  apply andb_true_iff in H. destruct H as [E H]. apply ent_eqb_eq in E. subst. f_equal. apply IH, H.
Qed.

Lemma hist_lc : forall l pre, DynWF pre -> LC pre -> hist_all step_agree pre l = true ->
  forall st, In st l -> LC (spost st) /\ DynWF (spost st).
Proof.
  induction l as [|st0 r IH]; intros pre WF H A st Hst; [destruct Hst|].
  cbn [hist_all] in A. apply andb_true_iff in A. destruct A as [A0 A].
  assert (P : LC (spost st0) /\ DynWF (spost st0)).
  { unfold step_agree in A0. destruct (step pre (sop st0)) as [s1|] eqn:S.
    - apply andb_true_iff in A0. destruct A0 as [A0 _]. apply andb_true_iff in A0. destruct A0 as [_ A0].
      apply state_eqb_eq in A0. subst s1. unfold step in S.
      split; [eapply step_fuel_lc | eapply step_fuel_dynwf]; eassumption.
    - apply andb_true_iff in A0. destruct A0 as [_ A0]. apply state_eqb_eq in A0. rewrite <- A0. tauto. }
  destruct Hst as [<-|Hst]; [exact P|]. destruct P as [P1 P2]. eapply IH; eassumption.
Qed.

(* ------------------------------------------------------------------ non-termination *)
Lemma loop_O : forall s w W all, loop 0 s (w :: W) all = None.
Proof. reflexivity. Qed.
Lemma loop_S : forall f s w W all s1 W1,
  stripe s (w :: W) = (s1, W1) -> loop (S f) s (w :: W) all = loop f s1 W1 (nunion W1 all).
Proof. intros f s w W all s1 W1 E. cbn [loop]. rewrite E. reflexivity. Qed.

Lemma loop_periodic : forall sA sB w W,
  stripe sA (w :: W) = (sB, w :: W) -> stripe sB (w :: W) = (sA, w :: W) ->
  forall fuel all, loop fuel sA (w :: W) all = None /\ loop fuel sB (w :: W) all = None.
Proof.
  intros sA sB w W EA EB. induction fuel as [|f IH]; intros all; [split; reflexivity|].
  rewrite (loop_S f sA w W all sB (w :: W) EA), (loop_S f sB w W all sA (w :: W) EB).
  split; apply IH.
Qed.

(* ------------------------------------------------------------------ the two refuting inputs
   (both reproduced on the real server by harness/src/bin/c17.rs --probe) *)
(* A=0 in B=1 in C=2 in A, and A in G=3: as read back from the real server after the create *)
Definition stale_pre : state :=
  [mkent 0 true false true [2] [] [0; 1; 2; 3] [1; 3] []; mkent 1 true false true [0] [] [0; 1; 2; 3] [2] [];
   mkent 2 true false true [1] [] [0; 1; 2; 3] [0] []; mkent 3 true false true [0] [] [] [] []].
(* G.member := [] *)
Definition stale_op : op := OMod false [3] [(3, [])] [].
Definition stale_post : state :=
  [mkent 0 true false true [2] [] [0; 1; 2; 3] [1] []; mkent 1 true false true [0] [] [0; 1; 2; 3] [2] [];
   mkent 2 true false true [1] [] [0; 1; 2; 3] [0] []; mkent 3 true false true [] [] [] [] []].

Lemma stale_step : step stale_pre stale_op = Some stale_post.
Proof. vm_compute. reflexivity. Qed.

Lemma reach_src : forall s g u, reach s g u -> exists x, isparent s g x.
Proof. intros s g u R. induction R as [g u P | g p u R IH P]; [exists u; exact P | exact IH]. Qed.

Lemma stale_post_not_exact : ~ Exact stale_post.
Proof.
  intros H.
  destruct (H (mkent 0 true false true [2] [] [0; 1; 2; 3] [1] [])) as [_ M]; [left; reflexivity | reflexivity |].
  assert (R : reach stale_post 3 0) by (apply M; cbn; tauto).
  apply reach_src in R. destruct R as [x [p [Hp [Ep Ip]]]].
  cbn in Hp. destruct Hp as [<-|[<-|[<-|[<-|[]]]]]; cbn in Ep; try discriminate Ep.
  unfold isp, lists in Ip. cbn in Ip. discriminate Ip.
Qed.

(* A=0 in G1=2, B=1 in G2=3: as read back from the real server *)
Definition osc_pre : state :=
  [mkent 0 true false true [] [] [2] [2] []; mkent 1 true false true [] [] [3] [3] [];
   mkent 2 true false true [0] [] [] [] []; mkent 3 true false true [1] [] [] [] []].
(* one batch: A.member=[B], B.member=[A], G1.member=[], G2.member=[] *)
Definition osc_op : op := OMod false [0; 1; 2; 3] [(0, [1]); (1, [0]); (2, []); (3, [])] [].

Definition osc_f := fun e => upd_dyn [] (upd_mem [(0, [1]); (1, [0]); (2, []); (3, [])] e).
Definition osc_sA := map osc_f osc_pre.
Definition osc_i1 := stripe osc_sA [0; 1; 2; 3].
Definition osc_i2 := stripe (fst osc_i1) [0; 1].
Definition osc_i3 := stripe (fst osc_i2) [0; 1].

Lemma osc_diverges : forall fuel, step_fuel fuel osc_pre osc_op = None.
Proof.
  intros fuel. unfold step_fuel, osc_op, do_mod.
  match goal with |- (if ?c then _ else _) = _ => replace c with true by (vm_compute; reflexivity) end.
  unfold mod_inner, apply_memberof. fold osc_f. fold osc_sA.
  match goal with |- match loop _ _ ?w ?w with _ => _ end = _ =>
    replace w with [0; 1; 2; 3] by (vm_compute; reflexivity) end.
  assert (E1 : stripe osc_sA [0; 1; 2; 3] = (fst osc_i1, [0; 1])) by (vm_compute; reflexivity).
  assert (E2 : stripe (fst osc_i1) [0; 1] = (fst osc_i2, [0; 1])) by (vm_compute; reflexivity).
  assert (E3 : stripe (fst osc_i2) [0; 1] = (fst osc_i3, [0; 1])) by (vm_compute; reflexivity).
  assert (E4 : stripe (fst osc_i3) [0; 1] = (fst osc_i2, [0; 1])) by (vm_compute; reflexivity).
  assert (L : forall f all, loop f osc_sA [0; 1; 2; 3] all = None).
  { intros f all. destruct f as [|f]; [reflexivity|]. rewrite (loop_S _ _ _ _ _ _ _ E1).
    destruct f as [|f]; [reflexivity|]. rewrite (loop_S _ _ _ _ _ _ _ E2).
    apply (loop_periodic _ _ _ _ E3 E4). }
  rewrite L. reflexivity.
Qed.

Lemma osc_pre_exact : exactb osc_pre = true /\ dynwfb osc_pre = true /\ lcb osc_pre = true.
Proof. vm_compute. tauto. Qed.
Lemma stale_pre_exact : exactb stale_pre = true /\ dynwfb stale_pre = true /\ lcb stale_pre = true.
Proof. vm_compute. tauto. Qed.

Lemma rankedb_sound : forall s, rankedb s = true -> Ranked s.
Proof.
  intros s H. exists N.to_nat. intros p u [pe [Hp [Ep Ip]]].
  unfold rankedb in H. rewrite forallb_forall in H. specialize (H pe Hp).
  unfold isp in Ip. apply andb_true_iff in Ip. destruct Ip as [LG L]. rewrite LG in H. cbn in H.
  rewrite forallb_forall in H. assert (X : In u (emem pe ++ edyn pe)).
  { unfold lists in L. apply orb_true_iff in L. apply in_app_iff.
    destruct L as [L|L]; apply nmem_in in L; tauto. }
  specialize (H u X). apply N.ltb_lt in H. subst p. lia.
Qed.

Lemma pcheck_sound_aux : forall l pre, hist_all step_prop pre l = true ->
  forall st, In st l -> scode st < 2 /\ Exact (spost st).
Proof.
  induction l as [|st0 r IH]; intros pre A st Hst; [destruct Hst|].
  cbn [hist_all] in A. apply andb_true_iff in A. destruct A as [A0 A].
  destruct Hst as [<-|Hst]; [|eapply IH; eassumption].
  unfold step_prop in A0. apply andb_true_iff in A0. destruct A0 as [C E].
  split; [apply N.ltb_lt, C | apply exactb_sound, E].
Qed.
