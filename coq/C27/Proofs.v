(* KV.C27.Proofs — lemmas about the authentication session machine. *)
From Coq Require Import List NArith Bool Lia.
Import ListNotations.
Require Import KV.C27.Model.
Open Scope N_scope.

(* ------------------------------------------------------------------ generic list facts *)
Lemma last_opt_cons : forall {A} (o : A) l,
  last_opt (o :: l) = match l with [] => Some o | _ => last_opt l end.
Proof. intros A o l. destruct l; reflexivity. Qed.

Lemma last_opt_none : forall {A} (l : list A), last_opt l = None -> l = [].
Proof.
  induction l as [|x r IH]; [reflexivity|]. rewrite last_opt_cons. destruct r as [|y r'].
  - discriminate.
  - intros H. apply IH in H. discriminate H.
Qed.

Lemma last_opt_in : forall {A} (l : list A) x, last_opt l = Some x -> In x l.
Proof.
  induction l as [|y r IH]; intros x H; [discriminate|]. rewrite last_opt_cons in H.
  destruct r as [|z r']; [injection H as ->; left; reflexivity|]. right. apply IH. exact H.
Qed.

Lemma last_filter_some : forall {A} (p : A -> bool) l h,
  last_opt (filter p l) = Some h -> In h l /\ p h = true.
Proof. intros A p l h H. apply last_opt_in in H. apply filter_In in H. exact H. Qed.

Lemma last_filter_none : forall {A} (p : A -> bool) l,
  last_opt (filter p l) = None -> forall h, In h l -> p h = false.
Proof.
  intros A p l H h Hin. apply last_opt_none in H. destruct (p h) eqn:E; [|reflexivity].
  assert (Hf : In h (filter p l)) by (apply filter_In; split; assumption).
  rewrite H in Hf. destruct Hf.
Qed.

Lemma last_firstn_nth : forall {A} (l : list A) k, (k < length l)%nat ->
  last_opt (firstn (S k) l) = nth_error l k.
Proof.
  induction l as [|x r IH]; intros k Hk; [cbn in Hk; lia|].
  destruct k as [|k'].
  - cbn. destruct r; reflexivity.
  - cbn [length] in Hk. change (firstn (S (S k')) (x :: r)) with (x :: firstn (S k') r).
    rewrite last_opt_cons. cbn [nth_error]. rewrite <- IH by lia.
    destruct r as [|y r']; [cbn in Hk; lia|]. reflexivity.
Qed.

Lemma forall2b_Forall2 : forall {A B} (p : A -> B -> bool) x y,
  forall2b p x y = true -> Forall2 (fun u v => p u v = true) x y.
Proof.
  induction x as [|u x IH]; intros [|v y] H; cbn in H; try discriminate; [constructor|].
  apply andb_true_iff in H as [H1 H2]. constructor; [exact H1 | apply IH; exact H2].
Qed.

(* ------------------------------------------------------------------ equality tests *)
Lemma mech_code_inj : forall x y, mech_code x = mech_code y -> x = y.
Proof. intros x y H. destruct x, y; try reflexivity; discriminate H. Qed.
Lemma allowed_code_inj : forall x y, allowed_code x = allowed_code y -> x = y.
Proof. intros x y H. destruct x, y; try reflexivity; discriminate H. Qed.
Lemma authtype_code_inj : forall x y, authtype_code x = authtype_code y -> x = y.
Proof. intros x y H. destruct x, y; try reflexivity; discriminate H. Qed.
Lemma scope_code_inj : forall x y, scope_code x = scope_code y -> x = y.
Proof. intros x y H. destruct x, y; try reflexivity; discriminate H. Qed.
Lemma reason_code_inj : forall x y, reason_code x = reason_code y -> x = y.
Proof. intros x y H. destruct x, y; try reflexivity; discriminate H. Qed.
Lemma err_code_inj : forall x y, err_code x = err_code y -> x = y.
Proof. intros x y H. destruct x, y; try reflexivity; discriminate H. Qed.

Lemma mech_eqb_eq : forall x y, mech_eqb x y = true <-> x = y.
Proof.
  intros x y. unfold mech_eqb. rewrite N.eqb_eq. split; [apply mech_code_inj | intros ->; reflexivity].
Qed.
Lemma mech_eqb_refl : forall x, mech_eqb x x = true.
Proof. intros x. apply mech_eqb_eq. reflexivity. Qed.

Lemma mem_mech_In : forall m l, mem_mech m l = true <-> In m l.
Proof.
  intros m l. unfold mem_mech. rewrite existsb_exists. split.
  - intros [x [Hin He]]. apply mech_eqb_eq in He. subst x. exact Hin.
  - intros Hin. exists m. split; [exact Hin | apply mech_eqb_refl].
Qed.

Lemma list_eqb_eq : forall {A} (e : A -> A -> bool), (forall u v, e u v = true -> u = v) ->
  forall x y, list_eqb e x y = true -> x = y.
Proof.
  intros A e He. induction x as [|u x IH]; intros [|v y] H; cbn in H; try discriminate; [reflexivity|].
  apply andb_true_iff in H as [H1 H2]. apply He in H1. apply IH in H2. subst. reflexivity.
Qed.
Lemma list_eqb_refl : forall {A} (e : A -> A -> bool), (forall u, e u u = true) ->
  forall x, list_eqb e x x = true.
Proof. intros A e He. induction x as [|u x IH]; cbn; [reflexivity|]. rewrite He, IH. reflexivity. Qed.

Lemma rec_eqb_eq : forall x y, rec_eqb x y = true -> x = y.
Proof.
  intros [[[t s] b]|] [[[t' s'] b']|] H; cbn in H; try discriminate; [|reflexivity].
  apply andb_true_iff in H as [H H3]. apply andb_true_iff in H as [H1 H2].
  apply N.eqb_eq in H1, H2. apply authtype_code_inj in H1. apply scope_code_inj in H2.
  apply Bool.eqb_prop in H3. subst. reflexivity.
Qed.
Lemma rec_eqb_refl : forall x, rec_eqb x x = true.
Proof. intros [[[t s] b]|]; cbn; [|reflexivity]. rewrite !N.eqb_refl, Bool.eqb_reflx. reflexivity. Qed.

Lemma out_eqb_eq : forall x y, out_eqb x y = true -> x = y.
Proof.
  intros x y H. destruct x, y; cbn in H; try discriminate.
  - f_equal. apply (list_eqb_eq mech_eqb); [intros u v; apply mech_eqb_eq | exact H].
  - apply andb_true_iff in H as [H1 H2]. apply Bool.eqb_prop in H2. subst. f_equal.
    apply (list_eqb_eq _ (fun u v Hu => allowed_code_inj u v (proj1 (N.eqb_eq _ _) Hu))). exact H1.
  - apply N.eqb_eq in H. apply reason_code_inj in H. subst. reflexivity.
  - apply rec_eqb_eq in H. subst. reflexivity.
  - apply N.eqb_eq in H. apply err_code_inj in H. subst. reflexivity.
Qed.
Lemma out_eqb_refl : forall x, out_eqb x x = true.
Proof.
  intros x. destruct x; cbn.
  - apply list_eqb_refl. apply mech_eqb_refl.
  - rewrite Bool.eqb_reflx, andb_true_r. apply list_eqb_refl. intros u. apply N.eqb_refl.
  - apply N.eqb_refl.
  - apply rec_eqb_refl.
  - apply N.eqb_refl.
Qed.
Lemma oout_eqb_refl : forall x, oout_eqb x x = true.
Proof. intros [x|]; cbn; [apply out_eqb_refl | reflexivity]. Qed.

(* ------------------------------------------------------------------ handlers *)
Lemma can_proceed_allows : forall h m, can_proceed h m = true <-> allows_mech h = m.
Proof.
  intros h m. split.
  - intros H. destruct h, m; cbn in H; try discriminate; reflexivity.
  - intros <-. destruct h; reflexivity.
Qed.

(* what a handler still needs, in order; None = a state from which every step is denied *)
Definition remaining (h : handler) : option (list factor) :=
  match h with
  | HAnonymous => Some [FAnon]
  | HPassword _ => Some [FPw]
  | HPwTotp VInit VInit => Some [FTotp; FPw]
  | HPwTotp VSuccess VInit => Some [FPw]
  | HPwBackup VInit VInit => Some [FBackup; FPw]
  | HPwBackup VSuccess VInit => Some [FPw]
  | HPwSecKey VInit VInit => Some [FSecKey; FPw]
  | HPwSecKey VSuccess VInit => Some [FPw]
  | HPasskey VInit => Some [FPasskey]
  | HAttested VInit => Some [FAttested]
  | _ => None
  end.
(* the authentication type a handler reports on success *)
Definition htype (h : handler) : authtype :=
  match h with
  | HAnonymous => TAnonymous
  | HPassword g => if g then TGeneratedPassword else TPassword
  | HPwTotp _ _ => TPasswordTotp
  | HPwBackup _ _ => TPasswordBackupCode
  | HPwSecKey _ _ => TPasswordSecurityKey
  | HPasskey _ => TPasskey
  | HAttested _ => TAttestedPasskey
  end.

Section Acct.
Variable a : account.
Variable pr : bool.
Let pb := a_pwbad a.

Lemma validate_last : forall h f c, remaining h = Some [f] -> verifies a f c = true ->
  exists h' b, validate pb h c = (h', CSSuccess (htype h), b).
Proof.
  intros h f c Hr Hv. subst pb. unfold verifies in Hv.
  destruct h as [|g|m p|m p|m p|s|s]; try destruct m; try destruct p; try destruct s;
    cbn in Hr; try discriminate; injection Hr as <-;
    destruct c as [|r|k|r|o|r]; try destruct r; try destruct o; try discriminate;
    cbn; try (destruct (a_pwbad a); try discriminate); try rewrite Hv; eauto.
Qed.

Lemma validate_more : forall h f f' fs c, remaining h = Some (f :: f' :: fs) -> verifies a f c = true ->
  exists h' al b, validate pb h c = (h', CSContinue al, b) /\ remaining h' = Some (f' :: fs)
                  /\ htype h' = htype h /\ softlockable h' = softlockable h.
Proof.
  intros h f f' fs c Hr Hv. subst pb. unfold verifies in Hv.
  destruct h as [|g|m p|m p|m p|s|s]; try destruct m; try destruct p; try destruct s;
    cbn in Hr; try discriminate; injection Hr as <- <- <-;
    destruct c as [|r|k|r|o|r]; try destruct r; try destruct o; try discriminate;
    cbn; try rewrite Hv; eauto 8.
Qed.

Lemma validate_bad : forall h f fs c, remaining h = Some (f :: fs) -> verifies a f c = false ->
  exists h' r b, validate pb h c = (h', CSDenied r, b).
Proof.
  intros h f fs c Hr Hv. subst pb. unfold verifies in Hv.
  destruct h as [|g|m p|m p|m p|s|s]; try destruct m; try destruct p; try destruct s;
    cbn in Hr; try discriminate; injection Hr as <- <-;
    destruct c as [|r|k|r|o|r]; try destruct r; try destruct o; try discriminate;
    cbn; try (destruct (a_pwbad a); try discriminate); try rewrite Hv; eauto.
Qed.

(* ------------------------------------------------------------------ absorbing states *)
Definition absorbing (st : sstate) : bool :=
  match st with SNone | SSuccess | SDenied => true | _ => false end.

Lemma step_absorbing : forall st s, absorbing st = true ->
  exists e, auth_step pb pr st s = (st, OErr e).
Proof. intros st s H. destruct st; try discriminate; destruct s; cbn; eauto. Qed.

Lemma run_absorbing : forall l st, absorbing st = true -> forallb is_err (run pb pr st l) = true.
Proof.
  induction l as [|s r IH]; intros st H; [reflexivity|]. cbn [run].
  destruct (step_absorbing st s H) as [e ->]. cbn. apply IH. exact H.
Qed.

Lemma errs_no_token : forall l, forallb is_err l = true -> token_of (last_opt l) = None.
Proof.
  intros l H. destruct (last_opt l) as [o|] eqn:E; [|reflexivity].
  apply last_opt_in in E. rewrite forallb_forall in H. apply H in E. destruct o; try discriminate; reflexivity.
Qed.

(* a Denied or Success answer leaves the session in an absorbing state *)
Lemma final_absorbing : forall st s st' o, auth_step pb pr st s = (st', o) -> is_final o = true ->
  absorbing st' = true.
Proof.
  intros st s st' o H Hf. destruct s as [m lk|c lk]; cbn in H.
  - unfold auth_begin in H. destruct st as [|hs|h| |]; cbn in H;
      try (injection H as <- <-; discriminate Hf).
    + destruct (last_opt _) as [h|]; cbn in H.
      * destruct (softlockable h && lk); injection H as <- <-; [reflexivity | discriminate Hf].
      * injection H as <- <-. reflexivity.
    + destruct (softlockable h && lk); injection H as <- <-; [reflexivity | discriminate Hf].
  - unfold auth_cred in H. destruct st as [|hs|h| |]; cbn in H;
      try (injection H as <- <-; discriminate Hf).
    destruct (softlockable h && lk); [injection H as <- <-; reflexivity|].
    destruct (validate pb h c) as [[h' [t|al|r]] b]; injection H as <- <-;
      [reflexivity | discriminate Hf | reflexivity].
Qed.

Lemma run_final_ok : forall l st, final_ok (run pb pr st l) = true.
Proof.
  induction l as [|s r IH]; intros st; [reflexivity|]. cbn [run].
  destruct (auth_step pb pr st s) as [st' o] eqn:E. cbn [final_ok].
  destruct (is_final o) eqn:Ef; [|apply IH].
  apply run_absorbing. exact (final_absorbing _ _ _ _ E Ef).
Qed.

Lemma run_length : forall l st, length (run pb pr st l) = length l.
Proof.
  induction l as [|s r IH]; intros st; [reflexivity|]. cbn [run].
  destruct (auth_step pb pr st s) as [st' o]. cbn. rewrite IH. reflexivity.
Qed.

Lemma run_firstn : forall l st n, run pb pr st (firstn n l) = firstn n (run pb pr st l).
Proof.
  induction l as [|s r IH]; intros st n; [destruct n; reflexivity|].
  destruct n as [|n']; [reflexivity|]. cbn [firstn run].
  destruct (auth_step pb pr st s) as [st' o]. cbn [firstn]. rewrite IH. reflexivity.
Qed.

Lemma run_nth : forall l st k, (k < length l)%nat ->
  nth_error (run pb pr st l) k = last_opt (run pb pr st (firstn (S k) l)).
Proof.
  intros l st k Hk. rewrite run_firstn. symmetry. apply last_firstn_nth. rewrite run_length. exact Hk.
Qed.

(* token of the last answer of `o :: run st r` *)
Lemma token_cons : forall o st r,
  token_of (last_opt (o :: run pb pr st r)) =
  match r with [] => token_of (Some o) | _ => token_of (last_opt (run pb pr st r)) end.
Proof.
  intros o st r. rewrite last_opt_cons. destruct r as [|s r']; [reflexivity|].
  cbn [run]. destruct (auth_step pb pr st s). reflexivity.
Qed.

Lemma token_cons_absorbing : forall o st r, absorbing st = true -> token_of (Some o) = None ->
  token_of (last_opt (o :: run pb pr st r)) = None.
Proof.
  intros o st r Ha Ho. rewrite token_cons. destruct r; [exact Ho|].
  apply errs_no_token. apply run_absorbing. exact Ha.
Qed.

Lemma creds_nil_last : forall r, creds_of r = [] -> last_is_cred r = false.
Proof.
  induction r as [|s r IH]; intros H; [reflexivity|]. destruct s as [m lk|c lk]; [|discriminate H].
  cbn in H. destruct r as [|s2 r']; [reflexivity|]. apply IH. exact H.
Qed.

Lemma last_is_cred_cons : forall s s2 r, last_is_cred (s :: s2 :: r) = last_is_cred (s2 :: r).
Proof. reflexivity. Qed.

(* ------------------------------------------------------------------ the in-progress phase *)
Lemma inprogress_token : forall rest h fs, remaining h = Some fs -> fs <> [] ->
  token_of (last_opt (run pb pr (SInProgress h) rest)) =
  if forall2b (verifies a) fs (creds_of rest)
     && negb (softlockable h && existsb locked_of rest) && last_is_cred rest
  then Some (OSuccess (record_of (htype h) pr)) else None.
Proof.
  induction rest as [|s r IH]; intros h fs Hr Hne.
  - cbn. rewrite andb_false_r. reflexivity.
  - cbn [run]. destruct s as [m lk|c lk].
    + (* a Begin while in progress: refused, state unchanged unless the lock ends the session *)
      cbn [auth_step auth_begin start_session cred_uuid].
      destruct (softlockable h && lk) eqn:El.
      * rewrite token_cons_absorbing by reflexivity.
        apply andb_true_iff in El as [-> ->]. cbn. rewrite andb_false_r. reflexivity.
      * rewrite token_cons. cbn [creds_of existsb locked_of].
        assert (Hl : softlockable h && (lk || existsb locked_of r) = softlockable h && existsb locked_of r).
        { destruct (softlockable h), lk; try discriminate; reflexivity. }
        rewrite Hl. destruct r as [|s2 r'].
        -- cbn. rewrite andb_false_r. reflexivity.
        -- rewrite last_is_cred_cons. apply IH; assumption.
    + cbn [auth_step auth_cred cred_uuid].
      destruct (softlockable h && lk) eqn:El.
      * rewrite token_cons_absorbing by reflexivity.
        apply andb_true_iff in El as [-> ->]. cbn. rewrite andb_false_r. reflexivity.
      * assert (Hl : softlockable h && (lk || existsb locked_of r) = softlockable h && existsb locked_of r).
        { destruct (softlockable h), lk; try discriminate; reflexivity. }
        cbn [creds_of existsb locked_of validate_creds]. rewrite Hl.
        destruct fs as [|f fs']; [contradiction|]. cbn [forall2b].
        destruct (verifies a f c) eqn:Ev.
        -- destruct fs' as [|f' fs''].
           ++ destruct (validate_last h f c Hr Ev) as [h' [b ->]].
              rewrite token_cons. destruct r as [|s2 r'].
              ** cbn. rewrite andb_false_r. reflexivity.
              ** rewrite errs_no_token by (apply run_absorbing; reflexivity).
                 rewrite last_is_cred_cons. cbn [andb].
                 destruct (creds_of (s2 :: r')) eqn:Ec.
                 --- rewrite (creds_nil_last _ Ec). rewrite andb_false_r. reflexivity.
                 --- reflexivity.
           ++ destruct (validate_more h f f' fs'' c Hr Ev) as [h' [al [b [-> [Hr' [Ht Hs]]]]]].
              rewrite token_cons. destruct r as [|s2 r'].
              ** reflexivity.
              ** rewrite last_is_cred_cons. cbn [andb]. rewrite <- Ht, <- Hs.
                 apply IH; [exact Hr' | discriminate].
        -- destruct (validate_bad h f fs' c Hr Ev) as [h' [rr [b ->]]].
           rewrite token_cons_absorbing by reflexivity. reflexivity.
Qed.

(* ------------------------------------------------------------------ facts about handlers a *)
Lemma offered_eq : offered_spec a = map allows_mech (handlers a).
Proof.
  destruct a as [vf ex an p pk at_ po pw]. unfold offered_spec, handlers, primary_handlers, passkey_handlers.
  cbn [a_anon a_primary a_passkeys a_attested a_attpolicy].
  destruct an; [reflexivity|].
  destruct p as [| | |t s b]; try destruct t, s, b; destruct po, pk, at_; reflexivity.
Qed.

Lemma handlers_remaining : forall h, In h (handlers a) ->
  remaining h = Some (required a (allows_mech h)) /\ htype h = authtype_of_mech a (allows_mech h).
Proof.
  destruct a as [vf ex an p pk at_ po pw]. unfold handlers, primary_handlers, passkey_handlers.
  cbn [a_anon a_primary a_passkeys a_attested a_attpolicy].
  intros h H.
  destruct an; [cbn in H; destruct H as [<-|[]]; split; reflexivity|].
  destruct p as [| | |t s b]; try destruct t, s, b; destruct po, pk, at_; cbn in H;
    repeat (destruct H as [<-|H]; [split; reflexivity|]); destruct H.
Qed.

Lemma softlockable_mech_eq : forall h, softlockable h = softlockable_mech (allows_mech h).
Proof. intros h. destruct h; reflexivity. Qed.

Lemma required_nonempty : forall m, required a m <> [].
Proof. intros m. destruct m; discriminate. Qed.

(* ------------------------------------------------------------------ the Init phase *)
Definition spec_after (l : list step) : option out :=
  match split_begin l with
  | Some (m, lk, rest) =>
      if mem_mech m (offered_spec a)
         && forall2b (verifies a) (required a m) (creds_of rest)
         && negb (softlockable_mech m && (lk || existsb locked_of rest))
         && last_is_cred rest
      then Some (OSuccess (record_of (authtype_of_mech a m) pr))
      else None
  | None => None
  end.

Lemma init_token : forall l,
  token_of (last_opt (run pb pr (SInit (handlers a)) l)) = spec_after l.
Proof.
  induction l as [|s r IH]; [reflexivity|]. cbn [run]. destruct s as [m lk|c lk].
  - cbn [auth_step auth_begin start_session]. unfold spec_after. cbn [split_begin].
    destruct (last_opt (filter (fun h => can_proceed h m) (handlers a))) as [h|] eqn:El.
    + apply last_filter_some in El as [Hin Hc]. apply can_proceed_allows in Hc.
      destruct (handlers_remaining h Hin) as [Hr Ht]. rewrite Hc in Hr, Ht.
      assert (Hm : mem_mech m (offered_spec a) = true).
      { apply mem_mech_In. rewrite offered_eq, <- Hc. apply in_map. exact Hin. }
      rewrite Hm. cbn [cred_uuid andb]. rewrite <- Hc, <- softlockable_mech_eq, Hc.
      destruct (softlockable h && lk) eqn:Esl.
      * rewrite token_cons_absorbing by reflexivity.
        apply andb_true_iff in Esl as [-> ->]. cbn. rewrite andb_false_r. reflexivity.
      * assert (Hl : softlockable h && (lk || existsb locked_of r) = softlockable h && existsb locked_of r).
        { destruct (softlockable h), lk; try discriminate; reflexivity. }
        rewrite Hl. rewrite token_cons. destruct r as [|s2 r'].
        -- cbn. rewrite andb_false_r. reflexivity.
        -- rewrite (inprogress_token (s2 :: r') h _ Hr (required_nonempty m)). rewrite Ht. reflexivity.
    + assert (Hm : mem_mech m (offered_spec a) = false).
      { destruct (mem_mech m (offered_spec a)) eqn:E; [|reflexivity].
        apply mem_mech_In in E. rewrite offered_eq in E. apply in_map_iff in E as [h [Hh Hin]].
        pose proof (last_filter_none _ _ El h Hin) as Hf. cbn in Hf.
        apply can_proceed_allows in Hh. rewrite Hh in Hf. discriminate Hf. }
      rewrite Hm. cbn [cred_uuid andb]. apply token_cons_absorbing; reflexivity.
  - cbn [auth_step auth_cred cred_uuid]. rewrite token_cons. unfold spec_after. cbn [split_begin].
    destruct r as [|s2 r']; [reflexivity|]. exact IH.
Qed.

End Acct.

(* ------------------------------------------------------------------ whole sessions *)
Theorem token_last : forall a ct pr l,
  token_of (last_opt (run_session a ct pr l)) = spec_token a ct pr l.
Proof.
  intros a ct pr l. unfold run_session, new_session, spec_token.
  destruct (within ct a).
  - destruct (handlers a) as [|h0 hs] eqn:Eh.
    + cbn [fst]. rewrite errs_no_token by (apply run_absorbing; reflexivity).
      destruct (split_begin l) as [[[m lk] rest]|]; [|reflexivity].
      rewrite offered_eq, Eh. reflexivity.
    + cbn [fst]. rewrite <- Eh. apply init_token.
  - cbn [fst]. apply errs_no_token. apply run_absorbing. reflexivity.
Qed.

Theorem token_nth : forall a ct pr l k, (k < length l)%nat ->
  token_of (nth_error (run_session a ct pr l) k) = spec_token a ct pr (firstn (S k) l).
Proof.
  intros a ct pr l k Hk. unfold run_session. rewrite run_nth by exact Hk. apply token_last.
Qed.

Lemma split_begin_app : forall l m lk rest, split_begin l = Some (m, lk, rest) ->
  exists pre, l = pre ++ SBegin m lk :: rest /\ forallb is_cred pre = true.
Proof.
  induction l as [|s r IH]; intros m lk rest H; [discriminate|]. destruct s as [m' lk'|c lk'].
  - injection H as -> -> ->. exists []. split; reflexivity.
  - cbn in H. destruct (IH _ _ _ H) as [pre [-> Hp]]. exists (SCred c lk' :: pre). split; [reflexivity|exact Hp].
Qed.

Lemma mfa_no_password : forall a, mfa_configured a = true -> mem_mech MPassword (offered_spec a) = false.
Proof.
  intros [vf ex an p pk at_ po pw] H. unfold mfa_configured in H. cbn in H.
  destruct p as [| | |t s b]; try discriminate. unfold offered_spec. cbn.
  destruct an; [reflexivity|]. destruct t, s, b, po, pk, at_; reflexivity.
Qed.

(* every state reachable from an absorbing one *)
Lemma run_session_invalid : forall a ct pr l, within ct a = false ->
  forall o, In o (run_session a ct pr l) -> o = OErr EInvalidSessionState.
Proof.
  intros a ct pr l Hw. unfold run_session, new_session. rewrite Hw. cbn [fst].
  induction l as [|s r IH]; intros o H; [destruct H|].
  cbn [run] in H. destruct s; cbn in H; destruct H as [<-|H]; try reflexivity; apply IH; exact H.
Qed.

(* ------------------------------------------------------------------ the bridge *)
Lemma init_ok_model : forall a ct, init_ok a ct (snd (new_session ct a)) = true.
Proof.
  intros a ct. unfold new_session. destruct (within ct a) eqn:Ew; [|cbn; rewrite Ew; reflexivity].
  destruct (handlers a) as [|h0 hs] eqn:Eh; [cbn; rewrite Ew, offered_eq, Eh; reflexivity|].
  cbn [snd init_ok]. rewrite Ew.
  rewrite <- Eh, <- offered_eq. rewrite list_eqb_refl by apply mech_eqb_refl. cbn [andb].
  assert (Hn : (match offered_spec a with [] => true | _ => false end) = false).
  { rewrite offered_eq, Eh. reflexivity. }
  rewrite Hn. destruct (mfa_configured a) eqn:Em; [|reflexivity].
  rewrite (mfa_no_password a Em). reflexivity.
Qed.

Lemma tokens_ok_model : forall a ct pr l, tokens_ok a ct pr l (run_session a ct pr l) = true.
Proof.
  intros a ct pr l. unfold tokens_ok. apply andb_true_iff. split.
  - unfold run_session. rewrite run_length. apply N.eqb_refl.
  - apply forallb_forall. intros k Hk. apply in_seq in Hk. rewrite token_nth by lia. apply oout_eqb_refl.
Qed.

Lemma final_ok_model : forall a ct pr l,
  final_ok (match snd (new_session ct a) with ODenied r => [ODenied r] | _ => [] end ++ run_session a ct pr l) = true.
Proof.
  intros a ct pr l. unfold run_session, new_session. destruct (within ct a).
  - destruct (handlers a) as [|h0 hs]; cbn [fst snd app final_ok is_final].
    + apply run_absorbing. reflexivity.
    + apply run_final_ok.
  - cbn [fst snd app final_ok is_final]. apply run_absorbing. reflexivity.
Qed.

Lemma agree_sess_pcheck : forall a s, agree_sess a s = true -> pcheck_sess a s = true.
Proof.
  intros a [ct pr ini evs] H. unfold agree_sess in H. cbn [s_ct s_priv s_init s_evs] in H.
  apply andb_true_iff in H as [H1 H2]. apply out_eqb_eq in H1.
  apply (list_eqb_eq out_eqb out_eqb_eq) in H2.
  unfold pcheck_sess. cbn [s_ct s_priv s_init s_evs]. rewrite <- H1, <- H2.
  rewrite init_ok_model, tokens_ok_model, final_ok_model. reflexivity.
Qed.

Theorem agree_pcheck : forall c, agree c = true -> pcheck c = true.
Proof.
  intros [a s|a s0 s1 ord] H; cbn in *.
  - apply agree_sess_pcheck. exact H.
  - apply andb_true_iff in H as [H0 H1]. rewrite (agree_sess_pcheck _ _ H0), (agree_sess_pcheck _ _ H1). reflexivity.
Qed.

(* ------------------------------------------------------------------ finality over answer lists *)
Definition is_token (o : out) : bool := match o with OSuccess _ => true | _ => false end.

Lemma final_ok_nth : forall l i j o o', final_ok l = true -> (i < j)%nat ->
  nth_error l i = Some o -> is_final o = true -> nth_error l j = Some o' -> is_err o' = true.
Proof.
  induction l as [|x r IH]; intros i j o o' Hf Hij Hi Hfin Hj; [destruct i; discriminate Hi|].
  destruct j as [|j']; [lia|]. cbn [nth_error] in Hj. cbn [final_ok] in Hf.
  destruct (is_final x) eqn:Ex.
  - rewrite forallb_forall in Hf. apply Hf. eapply nth_error_In. exact Hj.
  - destruct i as [|i']; [cbn in Hi; injection Hi as ->; rewrite Hfin in Ex; discriminate Ex|].
    cbn [nth_error] in Hi. apply (IH i' j' o o' Hf); [lia | exact Hi | exact Hfin | exact Hj].
Qed.

Lemma final_ok_one_token : forall l, final_ok l = true -> (length (filter is_token l) <= 1)%nat.
Proof.
  induction l as [|x r IH]; intros Hf; [cbn; lia|]. cbn [final_ok] in Hf. cbn [filter].
  destruct (is_final x) eqn:Ex.
  - assert (Hn : filter is_token r = []).
    { clear IH. induction r as [|y r IH]; [reflexivity|]. cbn [forallb] in Hf. apply andb_true_iff in Hf as [Hy Hr].
      cbn [filter]. destruct y; try discriminate Hy. cbn. apply IH. exact Hr. }
    rewrite Hn. destruct (is_token x); cbn; lia.
  - destruct x; try discriminate Ex; cbn; apply IH; exact Hf.
Qed.
