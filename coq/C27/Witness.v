(* KV.C27.Witness — non-vacuity: concrete sessions meeting the hypotheses of the theorems. *)
From Coq Require Import List NArith Bool.
Import ListNotations.
Require Import KV.C27.Model KV.C27.Proofs.
Open Scope N_scope.

(* password + TOTP + backup codes + a passkey, valid from 100 to 900 *)
Definition acct_mfa := mkacct (Some 100) (Some 900) false (PMfa true false true) true false false false.
Definition acct_pw := mkacct None None false PPw false false false false.

(* hypothesis of C27_success_needs_all / C27_token_exactly: a token at step 4, after an ignored
   credential step before the choice, a previous-window TOTP, an ignored second Begin, the password *)
Example C27_witness_token :
  run_session acct_mfa 100 false
    [SCred (CPassword true) false; SBegin MPasswordTotp false; SCred (CTotp KPrev) false;
     SBegin MPassword false; SCred (CPassword true) false; SCred (CPassword true) false]
  = [OErr EInvalidState; OContinue [ATotp] false; OContinue [APassword] false;
     OErr EInvalidAuthState; OSuccess (Some (TPasswordTotp, ScPrivilegeCapable, true));
     OErr EInvalidState].
Proof. vm_compute. reflexivity. Qed.

(* the offer of that account: no password-only mechanism (hypothesis mfa_configured = true) *)
Example C27_witness_mfa_offer :
  mfa_configured acct_mfa = true /\
  snd (new_session 500 acct_mfa) = OChoose [MPasswordTotp; MPasswordBackupCode; MPasskey].
Proof. vm_compute. split; reflexivity. Qed.

(* trying to skip the second factor: choosing Password is refused and kills the session;
   presenting the password first is denied; both are final *)
Example C27_witness_skip_refused :
  run_session acct_mfa 500 false [SBegin MPassword false; SBegin MPasswordTotp false; SCred (CPassword true) false]
  = [OErr EInvalidState; OErr EInvalidState; OErr EInvalidState] /\
  run_session acct_mfa 500 false [SBegin MPasswordTotp false; SCred (CPassword true) false;
                                  SCred (CTotp KCur) false; SCred (CPassword true) false]
  = [OContinue [ATotp] false; ODenied RBadAuthType; OErr EInvalidState; OErr EInvalidState].
Proof. vm_compute. split; reflexivity. Qed.

(* a TOTP of two windows ago, a wrong backup code, the soft lock: denied *)
Example C27_witness_denials :
  run_session acct_mfa 500 true [SBegin MPasswordTotp false; SCred (CTotp KOld) false] = [OContinue [ATotp] false; ODenied RBadTotp] /\
  run_session acct_mfa 500 true [SBegin MPasswordBackupCode false; SCred (CBackup true) false; SCred (CPassword true) true]
  = [OContinue [ABackupCode] false; OContinue [APassword] true; ODenied RLocked] /\
  run_session acct_mfa 500 true [SBegin MPasswordBackupCode false; SCred (CBackup true) false; SCred (CPassword true) false]
  = [OContinue [ABackupCode] false; OContinue [APassword] true; OSuccess (Some (TPasswordBackupCode, ScReadWrite, true))].
Proof. vm_compute. repeat split; reflexivity. Qed.

(* hypothesis of C27_invalid_window_never: one nanosecond before valid_from / after expire *)
Example C27_witness_outside_window :
  within 99 acct_mfa = false /\ within 901 acct_mfa = false /\ within 100 acct_mfa = true /\ within 900 acct_mfa = true /\
  run_session acct_mfa 901 false [SBegin MPasswordTotp false; SCred (CTotp KCur) false]
  = [OErr EInvalidSessionState; OErr EInvalidSessionState].
Proof. vm_compute. repeat split; reflexivity. Qed.

(* hypotheses of C27_absorbing / C27_denial_is_final: a denied step at position 1 and later steps *)
Example C27_witness_final :
  let outs := run_session acct_pw 5 false
      [SBegin MPassword false; SCred (CPassword false) false; SCred (CPassword true) false; SBegin MPassword false] in
  nth_error outs 1 = Some (ODenied RBadPassword) /\ is_final (ODenied RBadPassword) = true /\
  nth_error outs 2 = Some (OErr EInvalidState) /\ nth_error outs 3 = Some (OErr EInvalidState) /\
  absorbing SDenied = true.
Proof. vm_compute. repeat split; reflexivity. Qed.

(* the declarative condition is not constantly None, and distinguishes position *)
Example C27_witness_spec :
  spec_token acct_pw 5 true [SCred CAnonymous true; SBegin MPassword false; SCred (CPassword true) false]
  = Some (OSuccess (Some (TPassword, ScReadWrite, true))) /\
  spec_token acct_pw 5 true [SBegin MPassword false; SCred (CPassword true) false; SBegin MPassword false] = None /\
  spec_token acct_pw 5 true [SBegin MPassword false; SCred (CPassword true) true] = None /\
  spec_token acct_pw 5 true [SBegin MPasskey false; SCred (CPassword true) false] = None.
Proof. vm_compute. repeat split; reflexivity. Qed.

(* hypothesis of C27_agree_implies_property: a case that agrees *)
Example C27_witness_agree :
  agree (CSess acct_pw (mksess 5 false (OChoose [MPassword])
      [(SBegin MPassword false, OContinue [APassword] false);
       (SCred (CPassword true) false, OSuccess (Some (TPassword, ScPrivilegeCapable, true)));
       (SCred (CPassword true) false, OErr EInvalidState)])) = true.
Proof. vm_compute. reflexivity. Qed.

(* pcheck is not trivially true: a token after a wrong TOTP, a password-only offer to an MFA
   account, and a Continue after Denied are each rejected *)
Example C27_witness_pcheck_rejects :
  pcheck (CSess acct_mfa (mksess 500 false (OChoose [MPasswordTotp; MPasswordBackupCode; MPasskey])
      [(SBegin MPasswordTotp false, OContinue [ATotp] false);
       (SCred (CTotp KWrong) false, OContinue [APassword] false);
       (SCred (CPassword true) false, OSuccess (Some (TPasswordTotp, ScPrivilegeCapable, true)))])) = false /\
  pcheck (CSess acct_mfa (mksess 500 false (OChoose [MPassword; MPasswordTotp; MPasswordBackupCode; MPasskey]) [])) = false /\
  pcheck (CSess acct_pw (mksess 5 false (OChoose [MPassword])
      [(SBegin MPassword false, OContinue [APassword] false);
       (SCred (CPassword false) false, ODenied RBadPassword);
       (SCred (CPassword true) false, OContinue [APassword] false)])) = false /\
  pcheck (CSess acct_mfa (mksess 901 false (OChoose [MPasswordTotp; MPasswordBackupCode; MPasskey]) [])) = false /\
  (* a refusal at Init must be the right one: expired only outside the window *)
  pcheck (CSess acct_mfa (mksess 500 false (ODenied RExpired) [])) = false /\
  pcheck (CSess acct_mfa (mksess 500 false (ODenied RInvalidCredState) [])) = false /\
  pcheck (CSess acct_mfa (mksess 901 false (ODenied RExpired) [(SBegin MPasskey false, OErr EInvalidSessionState)])) = true.
Proof. vm_compute. repeat split; reflexivity. Qed.
