(* KV.C27.Props — property theorems only.
   C27: an authentication session issues a token only after every factor required by the chosen
   mechanism has been presented in order and verified within that session; an account whose
   password credential has a second factor is never offered password-only login; an account
   outside its validity window never succeeds; once a step is denied, or after success, the
   session accepts no further steps.
   All theorems are about `run_session a ct priv steps` (KV.C27.Model): Init at time ct on
   account a, then ANY list of Begin/Cred steps (no length bound), with arbitrary oracle bits. *)
From Coq Require Import List NArith Bool Lia.
Import ListNotations.
Require Import KV.C27.Model KV.C27.Proofs.
Open Scope N_scope.

(* EXACT characterisation: the k-th step is answered with a token if and only if the declarative
   condition `spec_token` holds of the steps up to and including k (session begun inside the
   validity window; first chosen mechanism is offered; the credential steps after it are exactly
   one verifying presentation of each required factor, in order, ending at step k; the soft lock
   refused none of them) — and then the token's session record is the mechanism's. *)
Theorem C27_token_exactly : forall a ct priv steps k, (k < length steps)%nat ->
  token_of (nth_error (run_session a ct priv steps) k) = spec_token a ct priv (firstn (S k) steps).
Proof. exact token_nth. Qed.

(* The "only if" direction in plain logical form. *)
Theorem C27_success_needs_all : forall a ct priv steps k rec,
  nth_error (run_session a ct priv steps) k = Some (OSuccess rec) ->
  within ct a = true /\
  exists pre m lk rest,
    firstn (S k) steps = pre ++ SBegin m lk :: rest /\
    forallb is_cred pre = true /\                      (* nothing but ignored steps before the choice *)
    In m (offered_spec a) /\                           (* the mechanism is one the account is offered *)
    Forall2 (fun f c => verifies a f c = true) (required a m) (creds_of rest) /\
                                                       (* every required factor, in order, each verified,
                                                          and no other credential step *)
    last_is_cred rest = true /\
    softlockable_mech m && (lk || existsb locked_of rest) = false /\
    rec = record_of (authtype_of_mech a m) priv.
Proof.
  intros a ct priv steps k rec H.
  assert (Hk : (k < length steps)%nat).
  { assert (Hs : nth_error (run_session a ct priv steps) k <> None) by (rewrite H; discriminate).
    apply nth_error_Some in Hs. unfold run_session in Hs. rewrite run_length in Hs. exact Hs. }
  pose proof (token_nth a ct priv steps k Hk) as Ht. rewrite H in Ht. cbn [token_of] in Ht.
  unfold spec_token in Ht. destruct (within ct a); [|discriminate Ht]. split; [reflexivity|].
  destruct (split_begin (firstn (S k) steps)) as [[[m lk] rest]|] eqn:Es; [|discriminate Ht].
  destruct (split_begin_app _ _ _ _ Es) as [pre [Hl Hp]].
  destruct (mem_mech m (offered_spec a)) eqn:E1; [|discriminate Ht].
  destruct (forall2b (verifies a) (required a m) (creds_of rest)) eqn:E2; [|discriminate Ht].
  destruct (softlockable_mech m && (lk || existsb locked_of rest)) eqn:E3; [discriminate Ht|].
  destruct (last_is_cred rest) eqn:E4; [|discriminate Ht].
  cbn in Ht. injection Ht as Ht.
  exists pre, m, lk, rest. repeat split; try assumption.
  - apply mem_mech_In. exact E1.
  - apply forall2b_Forall2. exact E2.
Qed.

(* What Init offers is exactly the declarative list, and only inside the validity window. *)
Theorem C27_offered_exactly : forall a ct ms,
  snd (new_session ct a) = OChoose ms -> within ct a = true /\ ms = offered_spec a.
Proof.
  intros a ct ms H. unfold new_session in H. destruct (within ct a); [|discriminate H].
  split; [reflexivity|]. rewrite offered_eq. destruct (handlers a) as [|h hs]; [discriminate H|].
  injection H as <-. reflexivity.
Qed.

(* An account whose password credential has a second factor is never offered password-only
   login, and no run of any session ever issues it a password-only token. *)
Theorem C27_no_pw_only_with_mfa : forall a, mfa_configured a = true ->
  (forall ct ms, snd (new_session ct a) = OChoose ms -> ~ In MPassword ms) /\
  (forall ct priv steps k t sc b,
     nth_error (run_session a ct priv steps) k = Some (OSuccess (Some (t, sc, b))) ->
     t <> TPassword /\ t <> TGeneratedPassword).
Proof.
  intros a Hm. pose proof (mfa_no_password a Hm) as Hn. split.
  - intros ct ms H Hin. apply C27_offered_exactly in H as [_ ->].
    apply mem_mech_In in Hin. rewrite Hin in Hn. discriminate Hn.
  - intros ct priv steps k t sc b H.
    apply C27_success_needs_all in H as [_ [pre [m [lk [rest [_ [_ [Hin [_ [_ [_ Hr]]]]]]]]]]].
    assert (Hne : m <> MPassword).
    { intros ->. apply mem_mech_In in Hin. rewrite Hin in Hn. discriminate Hn. }
    unfold record_of in Hr. destruct m; cbn in Hr; try contradiction; try discriminate Hr;
      try (injection Hr as -> _ _; split; discriminate).
    destruct (a_attpolicy a); injection Hr as -> _ _; split; discriminate.
Qed.

(* An account outside its validity window at Init never succeeds: Init answers Denied(expired),
   no session exists, and every later step is answered with an error. *)
Theorem C27_invalid_window_never : forall a ct, within ct a = false ->
  snd (new_session ct a) = ODenied RExpired /\
  forall priv steps o, In o (run_session a ct priv steps) -> o = OErr EInvalidSessionState.
Proof.
  intros a ct H. split.
  - unfold new_session. rewrite H. reflexivity.
  - intros priv steps o. apply run_session_invalid. exact H.
Qed.

(* Denied, Success (and "no session") are absorbing: every further step is refused with an
   error and the state is unchanged ... *)
Theorem C27_absorbing : forall a priv st s, absorbing st = true ->
  exists e, auth_step (a_pwbad a) priv st s = (st, OErr e).
Proof. exact step_absorbing. Qed.

(* ... and a Denied or Success answer always puts the session into such a state. *)
Theorem C27_final_answer_absorbs : forall a priv st s st' o,
  auth_step (a_pwbad a) priv st s = (st', o) -> is_final o = true -> absorbing st' = true.
Proof. exact final_absorbing. Qed.

(* Hence in every run: after a Denied or Success answer all later answers are errors (no
   Continue, no token) ... *)
Theorem C27_denial_is_final : forall a ct priv steps i j o o', (i < j)%nat ->
  nth_error (run_session a ct priv steps) i = Some o -> is_final o = true ->
  nth_error (run_session a ct priv steps) j = Some o' -> is_err o' = true.
Proof.
  intros a ct priv steps i j o o' Hij Hi Hf Hj.
  exact (final_ok_nth _ i j o o' (run_final_ok a priv steps _) Hij Hi Hf Hj).
Qed.

(* ... and a session issues at most one token. *)
Theorem C27_at_most_one_token : forall a ct priv steps,
  (length (filter is_token (run_session a ct priv steps)) <= 1)%nat.
Proof. intros a ct priv steps. apply final_ok_one_token. apply run_final_ok. Qed.

(* Soundness of the run-time tie: when the real server's answers agree with the model on a
   case, the property's executable predicate (exact token condition at every position, offered
   mechanisms, finality) holds of those answers. *)
Theorem C27_agree_implies_property : forall c : case, agree c = true -> pcheck c = true.
Proof. exact agree_pcheck. Qed.
