(* KV.C27.Model — the authentication session state machine.  Executable definitions only.

   Transcribes (server/lib/src/idm/authsession/mod.rs, server/lib/src/idm/server.rs):
     AuthSession::new            -> new_session      (validity gate, handler list)
     CredHandler::can_proceed / allows_mech / next_auth_state
     AuthSession::start_session  -> start_session    (Vec::pop of the matching handlers)
     AuthSession::get_credential_uuid -> cred_uuid
     CredHandler::validate_*     -> validate         (per-handler sub-machines)
     AuthSession::validate_creds -> validate_creds
     AuthSession::issue_uat      -> scope_of         (session scope of the queued record)
     IdmServerAuthTransaction::auth, arms Begin / Cred -> auth_begin / auth_cred

   Oracles (inputs, not modelled): whether a presented password / TOTP window / backup code /
   WebAuthn assertion is the right one, and whether the credential's soft lock (C28) refuses
   the step at its time (`locked`).  OAuth2-trust handlers are not modelled (no provider). *)
From Coq Require Import List NArith Bool.
Import ListNotations.
Open Scope N_scope.

(* ------------------------------------------------------------------ vocabulary *)
Inductive mech := MAnonymous | MPassword | MPasswordTotp | MPasswordBackupCode
                | MPasswordSecurityKey | MPasskey | MOAuth2Trust.           (* v1::AuthMech *)
Inductive allowed := AAnonymous | APassword | ATotp | ABackupCode | ASecurityKey | APasskey.
Inductive authtype := TAnonymous | TPassword | TGeneratedPassword | TPasswordTotp
                    | TPasswordBackupCode | TPasswordSecurityKey | TPasskey | TAttestedPasskey.
Inductive scope := ScReadOnly | ScReadWrite | ScPrivilegeCapable.
Inductive reason := RExpired | RInvalidCredState | RBadCredentials | RBadPassword | RBadTotp
                  | RBadWebauthn | RBadAccountPolicy | RBadBackupCode | RBadAuthType | RBadlist
                  | RLocked | ROther.
Inductive err := EInvalidAuthState      (* OperationError::InvalidAuthState("session already finalised!") *)
               | EInvalidState          (* OperationError::AU0001InvalidState *)
               | EInvalidSessionState   (* no session stored under this id *)
               | EOther.

(* what AuthSession::new sees of the account *)
Inductive primary := PNone | PPw | PGen | PMfa (totp seckey backup : bool).
Record account := mkacct {
  a_vf : option N;          (* valid_from, ns since the epoch *)
  a_ex : option N;          (* expire *)
  a_anon : bool;            (* uuid == UUID_ANONYMOUS *)
  a_primary : primary;
  a_passkeys : bool;        (* passkeys non-empty *)
  a_attested : bool;        (* attested_passkeys non-empty *)
  a_attpolicy : bool;       (* account policy has a webauthn attestation CA list *)
  a_pwbad : bool            (* the (right) password is in the system badlist *)
}.

Inductive totp_kind := KCur | KPrev | KOld | KNext | KWrong.   (* code of window c, c-1, c-2, c+1, none *)
(* Totp::verify: `digest(counter) == chal || digest(counter - 1) == chal` *)
Definition totp_ok (k : totp_kind) : bool := match k with KCur | KPrev => true | _ => false end.
(* webauthn-rs oracle: assertion ok and id known / ok but id unknown / error / ok but attestation fails *)
Inductive pkres := PkOk | PkUnknownId | PkError | PkAttestFail.

Inductive cred := CAnonymous | CPassword (right : bool) | CTotp (k : totp_kind)
                | CBackup (right : bool) | CSecurityKey (ok : bool) | CPasskey (r : pkres).
Inductive step := SBegin (m : mech) (locked : bool) | SCred (c : cred) (locked : bool).

Inductive out :=
| OChoose (ms : list mech)
| OContinue (al : list allowed) (bkrm : bool)     (* bkrm: a BackupCodeRemoval was queued *)
| ODenied (r : reason)
| OSuccess (rec : option (authtype * scope * bool))
     (* a token was issued; the queued AuthSessionRecord (type, scope, target+cred id are the
        account's) — none for anonymous *)
| OErr (e : err).

(* ------------------------------------------------------------------ handlers *)
Inductive vstate := VInit | VSuccess | VFail.                 (* CredVerifyState *)
Inductive handler := HAnonymous | HPassword (generated : bool)
                   | HPwTotp (mfa pw : vstate) | HPwBackup (mfa pw : vstate)
                   | HPwSecKey (mfa pw : vstate) | HPasskey (s : vstate) | HAttested (s : vstate).
Inductive credstate := CSSuccess (t : authtype) | CSContinue (al : list allowed) | CSDenied (r : reason).

Inductive sstate := SNone                       (* AuthSession::new returned no session *)
                  | SInit (hs : list handler) | SInProgress (h : handler) | SSuccess | SDenied.

Definition within (ct : N) (a : account) : bool :=
  match a_vf a with Some v => v <=? ct | None => true end &&
  match a_ex a with Some e => ct <=? e | None => true end.

(* build_from_password_totp / _backup_code / _security_key / _password_only *)
Definition build_totp (p : primary) : list handler :=
  match p with PMfa true _ _ => [HPwTotp VInit VInit] | _ => [] end.
Definition build_backup (p : primary) : list handler :=
  match p with PMfa _ _ true => [HPwBackup VInit VInit] | _ => [] end.
Definition build_seckey (p : primary) : list handler :=
  match p with PMfa _ true _ => [HPwSecKey VInit VInit] | _ => [] end.
Definition build_pwonly (p : primary) : list handler :=
  match p with PPw => [HPassword false] | PGen => [HPassword true] | _ => [] end.

Definition primary_handlers (p : primary) : list handler :=
  match p with
  | PNone => []
  | _ => match build_totp p ++ build_backup p ++ build_seckey p with
         | [] => build_pwonly p          (* `if handlers.is_empty()` *)
         | hs => hs
         end
  end.
(* "Important - if attested is present, don't use passkeys" *)
Definition passkey_handlers (a : account) : list handler :=
  if a_attpolicy a then (if a_attested a then [HAttested VInit] else [])
  else (if a_passkeys a || a_attested a then [HPasskey VInit] else []).
Definition handlers (a : account) : list handler :=
  if a_anon a then [HAnonymous] else primary_handlers (a_primary a) ++ passkey_handlers a.

Definition allows_mech (h : handler) : mech :=
  match h with
  | HAnonymous => MAnonymous | HPassword _ => MPassword | HPwTotp _ _ => MPasswordTotp
  | HPwBackup _ _ => MPasswordBackupCode | HPwSecKey _ _ => MPasswordSecurityKey
  | HPasskey _ => MPasskey | HAttested _ => MPasskey
  end.
Definition can_proceed (h : handler) (m : mech) : bool :=
  match h, m with
  | HAnonymous, MAnonymous | HPassword _, MPassword | HPwTotp _ _, MPasswordTotp
  | HPwBackup _ _, MPasswordBackupCode | HPwSecKey _ _, MPasswordSecurityKey
  | HPasskey _, MPasskey | HAttested _, MPasskey => true
  | _, _ => false
  end.
Definition next_auth_state (h : handler) : out :=
  OContinue [match h with
             | HAnonymous => AAnonymous | HPassword _ => APassword | HPwTotp _ _ => ATotp
             | HPwBackup _ _ => ABackupCode | HPwSecKey _ _ => ASecurityKey
             | HPasskey _ => APasskey | HAttested _ => APasskey
             end] false.

(* AuthSession::new *)
Definition new_session (ct : N) (a : account) : sstate * out :=
  if within ct a then
    match handlers a with
    | [] => (SNone, ODenied RInvalidCredState)
    | hs => (SInit hs, OChoose (map allows_mech hs))
    end
  else (SNone, ODenied RExpired).

Fixpoint last_opt {A} (l : list A) : option A :=
  match l with [] => None | [x] => Some x | _ :: r => last_opt r end.

(* AuthSession::start_session: `allowed_handlers.pop()` takes the LAST matching handler *)
Definition start_session (st : sstate) (m : mech) : sstate * out :=
  match st with
  | SInit hs =>
      match last_opt (filter (fun h => can_proceed h m) hs) with
      | Some h => (SInProgress h, next_auth_state h)
      | None => (SDenied, ODenied RBadCredentials)
      end
  | _ => (st, OErr EInvalidAuthState)
  end.

(* AuthSession::get_credential_uuid: Err | Ok(Some _) (soft-lockable) | Ok(None) *)
Definition softlockable (h : handler) : bool :=
  match h with HPassword _ | HPwTotp _ _ | HPwBackup _ _ => true | _ => false end.
Definition cred_uuid (st : sstate) : option bool :=
  match st with SInProgress h => Some (softlockable h) | _ => None end.

(* the password stage shared by validate_password_totp / _backup_code / _security_key *)
Definition pw_second (pwbad : bool) (c : cred) (t : authtype) : vstate * credstate :=
  match c with
  | CPassword true => if pwbad then (VFail, CSDenied RBadlist) else (VSuccess, CSSuccess t)
  | CPassword false => (VFail, CSDenied RBadPassword)
  | _ => (VInit, CSDenied RBadAuthType)
  end.

(* CredHandler::validate: new handler, result, "a BackupCodeRemoval was queued" *)
Definition validate (pwbad : bool) (h : handler) (c : cred) : handler * credstate * bool :=
  match h with
  | HAnonymous =>
      match c with
      | CAnonymous => (h, CSSuccess TAnonymous, false)
      | _ => (h, CSDenied RBadAuthType, false)
      end
  | HPassword g =>
      match c with
      | CPassword true =>
          if pwbad then (h, CSDenied RBadlist, false)
          else (h, CSSuccess (if g then TGeneratedPassword else TPassword), false)
      | CPassword false => (h, CSDenied RBadPassword, false)
      | _ => (h, CSDenied RBadAuthType, false)
      end
  | HPwTotp VInit VInit =>
      match c with
      | CTotp k => if totp_ok k then (HPwTotp VSuccess VInit, CSContinue [APassword], false)
                   else (HPwTotp VFail VInit, CSDenied RBadTotp, false)
      | _ => (h, CSDenied RBadAuthType, false)
      end
  | HPwTotp VSuccess VInit =>
      let '(p, r) := pw_second pwbad c TPasswordTotp in (HPwTotp VSuccess p, r, false)
  | HPwTotp _ _ => (h, CSDenied RBadAuthType, false)
  | HPwBackup VInit VInit =>
      match c with
      | CBackup true => (HPwBackup VSuccess VInit, CSContinue [APassword], true)
      | CBackup false => (HPwBackup VFail VInit, CSDenied RBadBackupCode, false)
      | _ => (h, CSDenied RBadAuthType, false)
      end
  | HPwBackup VSuccess VInit =>
      let '(p, r) := pw_second pwbad c TPasswordBackupCode in (HPwBackup VSuccess p, r, false)
  | HPwBackup _ _ => (h, CSDenied RBadAuthType, false)
  | HPwSecKey VInit VInit =>
      match c with
      | CSecurityKey true => (HPwSecKey VSuccess VInit, CSContinue [APassword], false)
      | CSecurityKey false => (HPwSecKey VFail VInit, CSDenied RBadWebauthn, false)
      | _ => (h, CSDenied RBadAuthType, false)
      end
  | HPwSecKey VSuccess VInit =>
      let '(p, r) := pw_second pwbad c TPasswordSecurityKey in (HPwSecKey VSuccess p, r, false)
  | HPwSecKey _ _ => (h, CSDenied RBadAuthType, false)
  | HPasskey VInit =>
      match c with
      | CPasskey PkOk | CPasskey PkAttestFail => (HPasskey VSuccess, CSSuccess TPasskey, false)
      | CPasskey _ => (HPasskey VFail, CSDenied RBadWebauthn, false)
      | _ => (h, CSDenied RBadAuthType, false)
      end
  | HPasskey _ => (h, CSDenied RBadWebauthn, false)
  | HAttested VInit =>
      match c with
      | CPasskey PkOk => (HAttested VSuccess, CSSuccess TAttestedPasskey, false)
      | CPasskey PkAttestFail => (HAttested VFail, CSDenied RBadAccountPolicy, false)
      | CPasskey _ => (HAttested VFail, CSDenied RBadWebauthn, false)
      | _ => (h, CSDenied RBadAuthType, false)
      end
  | HAttested _ => (h, CSDenied RBadWebauthn, false)
  end.

(* AuthSession::issue_uat (InitialAuth): scope of the queued AuthSessionRecord; no record for anonymous *)
Definition scope_of (t : authtype) (privileged : bool) : scope :=
  match t with
  | TAnonymous => ScReadOnly
  | TGeneratedPassword => ScReadWrite
  | _ => if privileged then ScReadWrite else ScPrivilegeCapable
  end.
Definition record_of (t : authtype) (privileged : bool) : option (authtype * scope * bool) :=
  match t with
  | TAnonymous => None
  | _ => Some (t, scope_of t privileged, true)
  end.

(* AuthSession::validate_creds *)
Definition validate_creds (pwbad priv : bool) (st : sstate) (c : cred) : sstate * out :=
  match st with
  | SInProgress h =>
      match validate pwbad h c with
      | (_, CSSuccess t, _) => (SSuccess, OSuccess (record_of t priv))
      | (h', CSContinue al, b) => (SInProgress h', OContinue al b)
      | (_, CSDenied r, _) => (SDenied, ODenied r)
      end
  | _ => (st, OErr EInvalidAuthState)
  end.

(* IdmServerAuthTransaction::auth, arm Begin: start_session, then `get_credential_uuid()?`,
   then the soft lock; a refused lock ends the session ("Account is temporarily locked") *)
Definition auth_begin (st : sstate) (m : mech) (locked : bool) : sstate * out :=
  match st with
  | SNone => (SNone, OErr EInvalidSessionState)
  | _ =>
      let '(st1, res) := start_session st m in
      match cred_uuid st1 with
      | None => (st1, OErr EInvalidState)
      | Some sl => if sl && locked then (SDenied, ODenied RLocked) else (st1, res)
      end
  end.

(* arm Cred: `get_credential_uuid()?`, the soft lock, then validate_creds *)
Definition auth_cred (pwbad priv : bool) (st : sstate) (c : cred) (locked : bool) : sstate * out :=
  match st with
  | SNone => (SNone, OErr EInvalidSessionState)
  | _ =>
      match cred_uuid st with
      | None => (st, OErr EInvalidState)
      | Some sl => if sl && locked then (SDenied, ODenied RLocked)
                   else validate_creds pwbad priv st c
      end
  end.

Definition auth_step (pwbad priv : bool) (st : sstate) (s : step) : sstate * out :=
  match s with
  | SBegin m l => auth_begin st m l
  | SCred c l => auth_cred pwbad priv st c l
  end.

Fixpoint run (pwbad priv : bool) (st : sstate) (l : list step) : list out :=
  match l with
  | [] => []
  | s :: r => let '(st', o) := auth_step pwbad priv st s in o :: run pwbad priv st' r
  end.

(* one whole session: Init at time ct with the `privileged` flag, then the steps *)
Definition run_session (a : account) (ct : N) (priv : bool) (l : list step) : list out :=
  run (a_pwbad a) priv (fst (new_session ct a)) l.

(* ================================================================== the property, declaratively *)
(* the factors a mechanism requires, in order *)
Inductive factor := FAnon | FPw | FTotp | FBackup | FSecKey | FPasskey | FAttested.
Definition required (a : account) (m : mech) : list factor :=
  match m with
  | MAnonymous => [FAnon]
  | MPassword => [FPw]
  | MPasswordTotp => [FTotp; FPw]
  | MPasswordBackupCode => [FBackup; FPw]
  | MPasswordSecurityKey => [FSecKey; FPw]
  | MPasskey => [if a_attpolicy a then FAttested else FPasskey]
  | MOAuth2Trust => [FAnon]      (* never offered: irrelevant *)
  end.
(* "c is a verifying presentation of factor f" *)
Definition verifies (a : account) (f : factor) (c : cred) : bool :=
  match f, c with
  | FAnon, CAnonymous => true
  | FPw, CPassword true => negb (a_pwbad a)
  | FTotp, CTotp k => totp_ok k
  | FBackup, CBackup true => true
  | FSecKey, CSecurityKey true => true
  | FPasskey, CPasskey PkOk | FPasskey, CPasskey PkAttestFail => true
  | FAttested, CPasskey PkOk => true
  | _, _ => false
  end.

Definition mfa_configured (a : account) : bool :=
  match a_primary a with PMfa _ _ _ => true | _ => false end.

(* the mechanisms an account is offered, written from the property's sentence *)
Definition offered_spec (a : account) : list mech :=
  if a_anon a then [MAnonymous] else
  match a_primary a with
  | PPw | PGen => [MPassword]
  | PMfa t s b => (if t then [MPasswordTotp] else []) ++ (if b then [MPasswordBackupCode] else [])
                  ++ (if s then [MPasswordSecurityKey] else [])
  | PNone => []
  end ++
  (if (if a_attpolicy a then a_attested a else a_passkeys a || a_attested a) then [MPasskey] else []).

Definition mech_code (m : mech) : N :=
  match m with MAnonymous => 0 | MPassword => 1 | MPasswordTotp => 2 | MPasswordBackupCode => 3
             | MPasswordSecurityKey => 4 | MPasskey => 5 | MOAuth2Trust => 6 end.
Definition mech_eqb (x y : mech) : bool := mech_code x =? mech_code y.
Definition mem_mech (m : mech) (l : list mech) : bool := existsb (mech_eqb m) l.

Definition softlockable_mech (m : mech) : bool :=
  match m with MPassword | MPasswordTotp | MPasswordBackupCode => true | _ => false end.
Definition authtype_of_mech (a : account) (m : mech) : authtype :=
  match m with
  | MAnonymous => TAnonymous
  | MPassword => match a_primary a with PGen => TGeneratedPassword | _ => TPassword end
  | MPasswordTotp => TPasswordTotp
  | MPasswordBackupCode => TPasswordBackupCode
  | MPasswordSecurityKey => TPasswordSecurityKey
  | MPasskey => if a_attpolicy a then TAttestedPasskey else TPasskey
  | MOAuth2Trust => TAnonymous
  end.

Definition locked_of (s : step) : bool := match s with SBegin _ l => l | SCred _ l => l end.
Definition is_cred (s : step) : bool := match s with SCred _ _ => true | _ => false end.
Fixpoint creds_of (l : list step) : list cred :=
  match l with
  | [] => []
  | SCred c _ :: r => c :: creds_of r
  | SBegin _ _ :: r => creds_of r
  end.
Fixpoint last_is_cred (l : list step) : bool :=
  match l with [] => false | [s] => is_cred s | _ :: r => last_is_cred r end.
Fixpoint forall2b {A B} (p : A -> B -> bool) (x : list A) (y : list B) : bool :=
  match x, y with
  | [], [] => true
  | u :: x', v :: y' => p u v && forall2b p x' y'
  | _, _ => false
  end.
(* the first Begin step: (mechanism, its lock bit, the steps after it) *)
Fixpoint split_begin (l : list step) : option (mech * bool * list step) :=
  match l with
  | [] => None
  | SBegin m lk :: r => Some (m, lk, r)
  | SCred _ _ :: r => split_begin r
  end.

(* A token is issued by the LAST step of `l` exactly when: the session started inside the
   validity window, the first mechanism chosen is one the account is offered, the credential
   steps after it are exactly one verifying presentation of each required factor, in order,
   the last step is that final presentation, and the soft lock refused none of these steps. *)
Definition spec_token (a : account) (ct : N) (priv : bool) (l : list step) : option out :=
  if within ct a then
    match split_begin l with
    | Some (m, lk, rest) =>
        if mem_mech m (offered_spec a)
           && forall2b (verifies a) (required a m) (creds_of rest)
           && negb (softlockable_mech m && (lk || existsb locked_of rest))
           && last_is_cred rest
        then Some (OSuccess (record_of (authtype_of_mech a m) priv))
        else None
    | None => None
    end
  else None.

Definition token_of (o : option out) : option out :=
  match o with Some (OSuccess r) => Some (OSuccess r) | _ => None end.

(* "once a step is denied, or after success, the session accepts no further steps" *)
Definition is_final (o : out) : bool := match o with ODenied _ | OSuccess _ => true | _ => false end.
Definition is_err (o : out) : bool := match o with OErr _ => true | _ => false end.
Fixpoint final_ok (l : list out) : bool :=
  match l with
  | [] => true
  | o :: r => if is_final o then forallb is_err r else final_ok r
  end.

(* ------------------------------------------------------------------ equality tests *)
Definition allowed_code (x : allowed) : N :=
  match x with AAnonymous => 0 | APassword => 1 | ATotp => 2 | ABackupCode => 3 | ASecurityKey => 4 | APasskey => 5 end.
Definition authtype_code (x : authtype) : N :=
  match x with TAnonymous => 0 | TPassword => 1 | TGeneratedPassword => 2 | TPasswordTotp => 3
             | TPasswordBackupCode => 4 | TPasswordSecurityKey => 5 | TPasskey => 6 | TAttestedPasskey => 7 end.
Definition scope_code (x : scope) : N :=
  match x with ScReadOnly => 0 | ScReadWrite => 1 | ScPrivilegeCapable => 2 end.
Definition reason_code (x : reason) : N :=
  match x with RExpired => 0 | RInvalidCredState => 1 | RBadCredentials => 2 | RBadPassword => 3
             | RBadTotp => 4 | RBadWebauthn => 5 | RBadAccountPolicy => 6 | RBadBackupCode => 7
             | RBadAuthType => 8 | RBadlist => 9 | RLocked => 10 | ROther => 11 end.
Definition err_code (x : err) : N :=
  match x with EInvalidAuthState => 0 | EInvalidState => 1 | EInvalidSessionState => 2 | EOther => 3 end.

Fixpoint list_eqb {A} (e : A -> A -> bool) (x y : list A) : bool :=
  match x, y with
  | [], [] => true
  | u :: x', v :: y' => e u v && list_eqb e x' y'
  | _, _ => false
  end.
Definition rec_eqb (x y : option (authtype * scope * bool)) : bool :=
  match x, y with
  | None, None => true
  | Some (t, s, b), Some (t', s', b') =>
      (authtype_code t =? authtype_code t') && (scope_code s =? scope_code s') && Bool.eqb b b'
  | _, _ => false
  end.
Definition out_eqb (x y : out) : bool :=
  match x, y with
  | OChoose a, OChoose b => list_eqb mech_eqb a b
  | OContinue a p, OContinue b q => list_eqb (fun u v => allowed_code u =? allowed_code v) a b && Bool.eqb p q
  | ODenied a, ODenied b => reason_code a =? reason_code b
  | OSuccess a, OSuccess b => rec_eqb a b
  | OErr a, OErr b => err_code a =? err_code b
  | _, _ => false
  end.
Definition oout_eqb (x y : option out) : bool :=
  match x, y with
  | None, None => true
  | Some u, Some v => out_eqb u v
  | _, _ => false
  end.

(* ------------------------------------------------------------------ correspondence *)
(* one observed session: the account, Init time and flag, Init's answer, (step, answer) list *)
Record sess := mksess { s_ct : N; s_priv : bool; s_init : out; s_evs : list (step * out) }.

Inductive case :=
| CSess (a : account) (s : sess)
  (* two live sessions of the same account, steps interleaved (false = first, true = second);
     the lock bits carry the only coupling the server has between them *)
| CInter (a : account) (s0 s1 : sess) (order : list bool).

Definition agree_sess (a : account) (s : sess) : bool :=
  out_eqb (snd (new_session (s_ct s) a)) (s_init s)
  && list_eqb out_eqb (run_session a (s_ct s) (s_priv s) (map fst (s_evs s))) (map snd (s_evs s)).

Definition init_ok (a : account) (ct : N) (o : out) : bool :=
  match o with
  | OChoose ms => within ct a && list_eqb mech_eqb ms (offered_spec a)
                  && negb (mfa_configured a && mem_mech MPassword ms)
                  && negb (match ms with [] => true | _ => false end)
  | ODenied RExpired => negb (within ct a)
  | ODenied RInvalidCredState => within ct a && (match offered_spec a with [] => true | _ => false end)
  | _ => false
  end.

Definition tokens_ok (a : account) (ct : N) (priv : bool) (steps : list step) (outs : list out) : bool :=
  (N.of_nat (length outs) =? N.of_nat (length steps)) &&
  forallb (fun k => oout_eqb (token_of (nth_error outs k)) (spec_token a ct priv (firstn (S k) steps)))
          (seq 0 (length steps)).

Definition pcheck_sess (a : account) (s : sess) : bool :=
  init_ok a (s_ct s) (s_init s)
  && tokens_ok a (s_ct s) (s_priv s) (map fst (s_evs s)) (map snd (s_evs s))
  && final_ok (match s_init s with ODenied r => [ODenied r] | _ => [] end ++ map snd (s_evs s)).

Definition agree (c : case) : bool :=
  match c with
  | CSess a s => agree_sess a s
  | CInter a s0 s1 _ => agree_sess a s0 && agree_sess a s1
  end.
Definition pcheck (c : case) : bool :=
  match c with
  | CSess a s => pcheck_sess a s
  | CInter a s0 s1 _ => pcheck_sess a s0 && pcheck_sess a s1
  end.
Definition known (_ : case) : bool := false.
