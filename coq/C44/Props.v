(* KV.C44.Props — property theorems only.
   C44: while the identity server is unreachable, the client resolver accepts a password for a
   user only if it equals the most recent password verified online for that user on this
   machine, and only if the cached credential was sealed with this machine's hardware-bound key.

   Reading guide.
   * [kdf salt pw] = Argon2id, [hmac key d] = the TPM's HMAC-SHA256; the soundness theorems take
     their collision-freeness ([key_inj_kdf], [key_inj_hmac]) as EXPLICIT premises (a modelling
     assumption about the primitives); the completeness theorems need nothing.
   * [reach kdf hmac k0 k1 ops] = the state of two machines (HMAC keys k0, k1) and the server
     after ANY finite history [ops] of: server password changes / account removals, network
     down/up per machine, mark_offline, mark_next_check_now, invalidate, logins, and the two
     TAMPER ops that move a user's cached credential between the machines' cache databases;
     together with the ghost log [g_ver] of online verifications (machine, user, password; newest
     first — it grows exactly when the server itself verified the password, [C44_ver_log]) and
     the set [g_dirty] of slots a tamper op wrote since their last online verification.
   * [offline_accepts st m u p] = the decision kanidm_check_cached_password takes for the cached
     credential of user u on machine m; [C44_login_accept] shows it is exactly how a login is
     decided when the provider is not online. *)
From Coq Require Import List NArith Bool.
Import ListNotations.
Require Import KV.C44.Model KV.C44.Proofs.
Open Scope N_scope.

(* CREDENTIAL CHECK.  A credential sealed by kanidm_update_cached_password with key k' for
   password p' verifies under key k for candidate p exactly when k = k', p = p' and p is not
   longer than 512 bytes. *)
Theorem C44_check_sealed_iff : forall kdf hmac, key_inj_kdf kdf -> key_inj_hmac hmac ->
  forall k k' s p p',
  check_cached kdf hmac k (Some (seal kdf hmac k' s p')) p = true
  <-> k = k' /\ p = p' /\ too_long p = false.
Proof. intros kdf hmac H1 H2. exact (check_seal_iff kdf hmac H1 H2). Qed.

(* MACHINE BINDING, function level: under any other key the credential verifies for NO password. *)
Theorem C44_other_key_rejects : forall kdf hmac, key_inj_kdf kdf -> key_inj_hmac hmac ->
  forall k k' s p0 p, k <> k' -> check_cached kdf hmac k (Some (seal kdf hmac k' s p0)) p = false.
Proof. intros kdf hmac H1 H2. exact (check_other_key kdf hmac H1 H2). Qed.

(* FUNCTION LEVEL, all op sequences (seal with any key, plant a plain / junk credential, move,
   clear, has, check): the observable answers are those of the symbolic content tracker
   [fspec_run]: a check succeeds iff the slot's content was sealed with the SAME key for the SAME
   password (<= 512 bytes) — or is a planted non-TPM credential for that password, which
   kanidm_check_cached_password also accepts (never written by the resolver itself). *)
Theorem C44_fn_refines_spec : forall kdf hmac, key_inj_kdf kdf -> key_inj_hmac hmac ->
  forall ops, frun kdf hmac ([], 0) ops = fspec_run [] ops.
Proof. intros kdf hmac H1 H2. exact (frun_spec kdf hmac H1 H2). Qed.

(* LAST ONLINE PASSWORD.  After any history, for a slot no tamper op wrote since its last online
   verification: if the offline check accepts p for user u on machine m, then p is the password
   of the MOST RECENT online verification of u on m. *)
Theorem C44_last_online : forall kdf hmac, key_inj_kdf kdf -> key_inj_hmac hmac ->
  forall k0 k1 ops st g m u p,
  reach kdf hmac k0 k1 ops = (st, g) ->
  is_dirty g m u = false ->
  offline_accepts kdf hmac st m u p = true ->
  lastv (g_ver g) m u = Some p.
Proof. intros kdf hmac H1 H2 k0 k1. exact (offline_last_online kdf hmac k0 k1 H1 H2). Qed.

(* VERIFIED HERE, tampering included.  After any history — cached credentials swapped / copied
   between the machines at will — if the offline check accepts p for u on m, then p WAS verified
   online for u on THIS machine at some earlier point, and the credential in the slot is a
   sealing of p under this machine's key. *)
Theorem C44_offline_only_verified_here : forall kdf hmac, key_inj_kdf kdf -> key_inj_hmac hmac ->
  forall k0 k1, k0 <> k1 -> forall ops st g m u p,
  reach kdf hmac k0 k1 ops = (st, g) ->
  offline_accepts kdf hmac st m u p = true ->
  In (m, u, p) (g_ver g) /\
  exists s, cred_of (sel st m) u = Some (seal kdf hmac (keyof k0 k1 m) s p).
Proof. intros kdf hmac H1 H2 k0 k1 Hn. exact (offline_verified_here kdf hmac k0 k1 H1 H2 Hn). Qed.

(* MACHINE BINDING, resolver level.  If the slot of u on m holds a credential sealed by the OTHER
   machine (however it got there), the offline check on m rejects every password. *)
Theorem C44_machine_bound : forall kdf hmac, key_inj_kdf kdf -> key_inj_hmac hmac ->
  forall k0 k1, k0 <> k1 -> forall ops st g m u s p0,
  reach kdf hmac k0 k1 ops = (st, g) ->
  cred_of (sel st m) u = Some (seal kdf hmac (keyof k0 k1 (negb m)) s p0) ->
  forall p, offline_accepts kdf hmac st m u p = false.
Proof. intros kdf hmac H1 H2 k0 k1 Hn. exact (offline_machine_bound kdf hmac k0 k1 H1 H2 Hn). Qed.

(* EVERY ACCEPTED LOGIN, in every reachable state, is of one of two kinds: the server itself
   verified the password just now (it was reachable and holds exactly this password), or the
   login was decided by the offline check — and then the password was verified online for this
   user on this machine before, and is the most recent such password unless the slot was
   tampered with since. *)
Theorem C44_login_accept : forall kdf hmac, key_inj_kdf kdf -> key_inj_hmac hmac ->
  forall k0 k1, k0 <> k1 -> forall ops st g m u p r ev x salt',
  reach kdf hmac k0 k1 ops = (st, g) ->
  login kdf hmac (s_srv st) (s_salt st) (sel st m) u p = (r, ev, x, salt') ->
  r = RSome true ->
  (ev = EvOnlineOk /\ m_net (sel st m) = true /\ aget u (s_srv st) = Some p) \/
  (ev = EvOfflineOk /\ offline_accepts kdf hmac st m u p = true /\
   In (m, u, p) (g_ver g) /\ (is_dirty g m u = false -> lastv (g_ver g) m u = Some p)).
Proof. intros kdf hmac H1 H2 k0 k1 Hn. exact (login_accept kdf hmac k0 k1 H1 H2 Hn). Qed.

(* the ghost log is what it claims to be: one step extends it by (m, u, p) only if the step is a
   login of u with p on m that the SERVER verified (accepted, event EvOnlineOk); otherwise it is
   unchanged *)
Theorem C44_ver_log : forall kdf hmac sg o,
  let sg' := gstep_full kdf hmac sg o in
  (exists m u p salt' x, o = OLogin m u p /\
     login kdf hmac (s_srv (fst sg)) (s_salt (fst sg)) (sel (fst sg) m) u p = (RSome true, EvOnlineOk, x, salt') /\
     g_ver (snd sg') = (m, u, p) :: g_ver (snd sg))
  \/ g_ver (snd sg') = g_ver (snd sg).
Proof. exact ver_log_step. Qed.

(* COMPLETENESS (no assumption on the primitives): an untampered slot that still holds a
   credential accepts the most recent online-verified password, provided it is <= 512 bytes. *)
Theorem C44_offline_complete : forall kdf hmac k0 k1 ops st g m u c p,
  reach kdf hmac k0 k1 ops = (st, g) ->
  is_dirty g m u = false -> cred_of (sel st m) u = Some c ->
  lastv (g_ver g) m u = Some p -> too_long p = false ->
  offline_accepts kdf hmac st m u p = true.
Proof. intros kdf hmac k0 k1. exact (offline_complete kdf hmac k0 k1). Qed.

(* the symbolic instance used by the correspondence satisfies the premises *)
Theorem C44_ideal_instance : key_inj_kdf ideal_kdf /\ key_inj_hmac ideal_hmac.
Proof. split; [exact ideal_kdf_inj|exact ideal_hmac_inj]. Qed.

(* BRIDGE, function level: where the model agrees with the implementation, the implementation's
   answers are those of the symbolic content tracker. *)
Theorem C44_agree_implies_property_fn : forall ops impl,
  agree (CFn ops impl) = true -> pcheck (CFn ops impl) = true.
Proof.
  intros ops impl H. cbn [agree pcheck] in *.
  rewrite (frun_spec ideal_kdf ideal_hmac ideal_kdf_inj ideal_hmac_inj) in H. exact H.
Qed.
