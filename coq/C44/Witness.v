(* KV.C44.Witness — non-vacuity of the implication theorems of Props.v, on the symbolic instance
   (which satisfies the premises key_inj_kdf / key_inj_hmac: C44_ideal_instance). *)
From Coq Require Import List NArith Bool.
Import ListNotations.
Require Import KV.C44.Model.
Open Scope N_scope.

Definition pA : pw := [112; 119; 65].        (* "pwA" *)
Definition pB : pw := [112; 119; 66].        (* "pwB" *)
Definition R := reach ideal_kdf ideal_hmac 7 9.
Definition acc (sg : state * ghost) := offline_accepts ideal_kdf ideal_hmac (fst sg).

(* C44_last_online / C44_offline_complete / C44_login_accept (offline disjunct): alice (0) logs in
   online on machine 0 with pA, the server password changes to pB, the network goes down, the
   cache expires.  Untampered slot; the offline check accepts pA = the most recent verified
   password and rejects the server's NEW password pB and everything else. *)
Definition h_plain : list op :=
  [OSrvSet 0 (Some pA); OLogin false 0 pA; OSrvSet 0 (Some pB); ONet false false; OInvalidate false].
Example C44_witness_last_online :
  is_dirty (snd (R h_plain)) false 0 = false /\
  lastv (g_ver (snd (R h_plain))) false 0 = Some pA /\
  acc (R h_plain) false 0 pA = true /\
  acc (R h_plain) false 0 pB = false /\
  acc (R h_plain) false 0 [] = false /\
  (let st := fst (R h_plain) in
   login ideal_kdf ideal_hmac (s_srv st) (s_salt st) (sel st false) 0 pA)
   = (RSome true, EvOfflineOk,
      mkmach 7 PLater false [(0, mkentry true (Some (seal ideal_kdf ideal_hmac 7 0 pA)))] [], 1).
Proof. vm_compute. repeat split; reflexivity. Qed.

(* a denied online login does NOT clear the cache (as transcribed): after the server moved to pB,
   an online attempt with pA is refused, and once offline pA is still the accepted password —
   it is still the most recent password VERIFIED online on this machine *)
Definition h_denied : list op :=
  [OSrvSet 0 (Some pA); OLogin false 0 pA; OSrvSet 0 (Some pB); OLogin false 0 pA; ONet false false; OInvalidate false].
Example C44_witness_denial_keeps_cache :
  map o_res (run ideal_kdf ideal_hmac (init_k 7 9) h_denied)
    = [None; Some (RSome true); None; Some (RSome false); None; None] /\
  lastv (g_ver (snd (R h_denied))) false 0 = Some pA /\
  acc (R h_denied) false 0 pA = true /\ acc (R h_denied) false 0 pB = false.
Proof. vm_compute. repeat split; reflexivity. Qed.

(* C44_login_accept, online disjunct *)
Example C44_witness_online_accept :
  (let st := fst (R [OSrvSet 0 (Some pA)]) in
   login ideal_kdf ideal_hmac (s_srv st) (s_salt st) (sel st true) 0 pA)
   = (RSome true, EvOnlineOk,
      mkmach 9 POnline true [(0, mkentry true (Some (seal ideal_kdf ideal_hmac 9 0 pA)))] [], 1).
Proof. vm_compute. reflexivity. Qed.

(* C44_machine_bound / C44_offline_only_verified_here: both machines verified pA online; the
   cached credentials are swapped.  Each slot now holds the OTHER machine's sealing of the right
   password: the offline check rejects it (and everything else) on both machines. *)
Definition h_swap : list op :=
  [OSrvSet 0 (Some pA); OLogin false 0 pA; OLogin true 0 pA; OSwap 0; ONet false false; ONet true false;
   OInvalidate false; OInvalidate true].
Example C44_witness_machine_bound :
  cred_of (sel (fst (R h_swap)) false) 0 = Some (seal ideal_kdf ideal_hmac (keyof 7 9 (negb false)) 1 pA) /\
  cred_of (sel (fst (R h_swap)) true) 0 = Some (seal ideal_kdf ideal_hmac (keyof 7 9 (negb true)) 0 pA) /\
  acc (R h_swap) false 0 pA = false /\ acc (R h_swap) true 0 pA = false /\
  map o_res (run ideal_kdf ideal_hmac (init_k 7 9) (h_swap ++ [OLogin false 0 pA; OLogin true 0 pA]))
    = [None; Some (RSome true); Some (RSome true); None; None; None; None; None; Some (RSome false); Some (RSome false)].
Proof. vm_compute. repeat split; reflexivity. Qed.
(* ... and swapped back, each machine accepts again (hypotheses of C44_offline_only_verified_here
   met with a tampered slot) *)
Example C44_witness_swap_back :
  let sg := R (h_swap ++ [OSwap 0]) in
  is_dirty (snd sg) false 0 = true /\ acc sg false 0 pA = true /\ In (false, 0, pA) (g_ver (snd sg)).
Proof. vm_compute. repeat split; try reflexivity. right. left. reflexivity. Qed.

(* the premise "not tampered since the last online verification" of C44_last_online is NEEDED:
   a replay of the machine's OWN older credential (moved away, then moved back after a newer
   online verification) makes the older password acceptable offline although the most recent
   verified password is pB.  Nothing in the cache format protects against rollback. *)
Definition h_rollback : list op :=
  [OSrvSet 0 (Some pA); OLogin false 0 pA; OLogin true 0 pA; OSwap 0;
   OSrvSet 0 (Some pB); OLogin false 0 pB; OSwap 0; ONet false false; OInvalidate false].
Example C44_witness_rollback_needs_clean :
  let sg := R h_rollback in
  is_dirty (snd sg) false 0 = true /\
  lastv (g_ver (snd sg)) false 0 = Some pB /\
  acc sg false 0 pA = true /\ acc sg false 0 pB = false /\
  In (false, 0, pA) (g_ver (snd sg)).
Proof. vm_compute. repeat split; try reflexivity. right. right. left. reflexivity. Qed.

(* function level: C44_fn_refines_spec on a sequence with all kinds of ops; a planted plain
   ARGON2ID credential is accepted under EVERY key (boundary of the machine-binding claim:
   only credentials written by kanidm_update_cached_password are TPM bound) *)
Definition f_ops : list fop :=
  [FSeal 0 1 pA; FCheck 0 1 pA; FCheck 0 2 pA; FCheck 0 1 pB; FMove 0 1; FCheck 1 1 pA; FHas 2;
   FPlant 2 pB; FCheck 2 1 pB; FCheck 2 2 pB; FCheck 2 2 pA; FJunk 0; FHas 0; FCheck 0 1 pA; FClear 1; FHas 1;
   FSeal 1 2 (rep 66 513); FCheck 1 2 (rep 66 513); FSeal 1 2 (rep 66 512); FCheck 1 2 (rep 66 512)].
Example C44_witness_fn :
  frun ideal_kdf ideal_hmac ([], 0) f_ops
    = [true; false; false; true; false; true; true; false; true; false; false; false; true] /\
  fspec_run [] f_ops = frun ideal_kdf ideal_hmac ([], 0) f_ops.
Proof. vm_compute. split; reflexivity. Qed.

(* the case-level predicates accept a consistent recorded run and reject a corrupted one *)
Definition w_obs := run ideal_kdf ideal_hmac (init_k 0 1) h_rollback.
Example C44_witness_pcheck_accepts : agree (CRes h_rollback w_obs) = true /\ pcheck (CRes h_rollback w_obs) = true.
Proof. vm_compute. split; reflexivity. Qed.
(* an implementation that accepted the swapped (foreign) credential offline would be flagged *)
Definition w_bad_obs :=
  map (fun ob => match o_res ob with
                 | Some (RSome false) => mkobs (Some (RSome true)) (o_on0 ob) (o_on1 ob) (o_slots ob)
                 | _ => ob end)
      (run ideal_kdf ideal_hmac (init_k 0 1) (h_swap ++ [OLogin false 0 pA])).
Example C44_witness_pcheck_rejects :
  pcheck (CRes (h_swap ++ [OLogin false 0 pA]) w_bad_obs) = false /\
  pcheck (CFn [FSeal 0 1 pA; FCheck 0 2 pA] [true]) = false.
Proof. vm_compute. split; reflexivity. Qed.
