(* KV.C44.Proofs — lemmas and proofs for the offline credential cache. *)
From Coq Require Import List NArith Bool Lia.
Import ListNotations.
Require Import KV.C44.Model.
Open Scope N_scope.
Arguments N.add : simpl never.
Arguments N.sub : simpl never.
Arguments N.ltb : simpl never.
Arguments N.leb : simpl never.
Arguments N.eqb : simpl never.

(* ------------------------------------------------------------------ basics *)
Lemma leqb_refl : forall a, leqb a a = true.
Proof. induction a as [|x a IH]; cbn [leqb]; [reflexivity|]. rewrite N.eqb_refl, IH. reflexivity. Qed.

Lemma leqb_eq : forall a b, leqb a b = true <-> a = b.
Proof.
  induction a as [|x a IH]; intros [|y b]; cbn [leqb]; split; intro H; try reflexivity; try discriminate.
  - apply andb_true_iff in H as [H1 H2]. apply N.eqb_eq in H1. apply IH in H2. subst. reflexivity.
  - injection H as H1 H2. subst. rewrite N.eqb_refl. cbn. apply IH. reflexivity.
Qed.

Lemma leqb_neq : forall a b, a <> b -> leqb a b = false.
Proof. intros a b H. destruct (leqb a b) eqn:E; [|reflexivity]. apply leqb_eq in E. contradiction. Qed.

Section Assoc.
Context {A : Type}.
Lemma aget_adel_same : forall k (l : list (N * A)), aget k (adel k l) = None.
Proof.
  intros k l. induction l as [|[k' v] r IH]; cbn [adel aget]; [reflexivity|].
  destruct (k =? k') eqn:E; [exact IH|]. cbn [aget]. rewrite E. exact IH.
Qed.
Lemma aget_adel_other : forall k k' (l : list (N * A)), k' <> k -> aget k' (adel k l) = aget k' l.
Proof.
  intros k k' l Hn. induction l as [|[k2 v] r IH]; cbn [adel aget]; [reflexivity|].
  destruct (k =? k2) eqn:E.
  - apply N.eqb_eq in E. subst k2. apply N.eqb_neq in Hn. rewrite Hn. exact IH.
  - cbn [aget]. destruct (k' =? k2); [reflexivity|exact IH].
Qed.
Lemma aget_aput_same : forall k (v : A) l, aget k (aput k v l) = Some v.
Proof. intros. unfold aput. cbn [aget]. rewrite N.eqb_refl. reflexivity. Qed.
Lemma aget_aput_other : forall k k' (v : A) l, k' <> k -> aget k' (aput k v l) = aget k' l.
Proof.
  intros k k' v l Hn. unfold aput. cbn [aget]. apply N.eqb_neq in Hn as Hn'. rewrite Hn'.
  apply aget_adel_other. exact Hn.
Qed.
End Assoc.

Lemma aget_map_entry : forall u (l : list (user * entry)),
  aget u (map (fun '(u, e) => (u, mkentry false (e_cred e))) l)
  = option_map (fun e => mkentry false (e_cred e)) (aget u l).
Proof.
  intros u l. induction l as [|[k e] r IH]; cbn [map aget option_map]; [reflexivity|].
  destruct (u =? k); [reflexivity|exact IH].
Qed.

Definition key_inj_kdf (kdf : N -> pw -> list N) : Prop :=
  forall s p p', kdf s p = kdf s p' -> p = p'.
Definition key_inj_hmac (hmac : N -> list N -> list N) : Prop :=
  forall k k' d d', hmac k d = hmac k' d' -> k = k' /\ d = d'.

Lemma ideal_kdf_inj : key_inj_kdf ideal_kdf.
Proof. intros s p p' H. unfold ideal_kdf in H. injection H as H. exact H. Qed.
Lemma ideal_hmac_inj : key_inj_hmac ideal_hmac.
Proof. intros k k' d d' H. unfold ideal_hmac in H. injection H as H1 H2. split; assumption. Qed.

Section Crypto.
Variable kdf : N -> pw -> list N.
Variable hmac : N -> list N -> list N.
Notation seal := (seal kdf hmac).
Notation plain := (plain kdf).
Notation check_cached := (check_cached kdf hmac).

(* completeness needs no assumption on the primitives *)
Lemma check_seal_refl : forall k s p, too_long p = false -> check_cached k (Some (seal k s p)) p = true.
Proof. intros k s p Hl. unfold check_cached, Model.seal. cbn. rewrite Hl. apply leqb_refl. Qed.

Section Inj.
Hypothesis Hkdf : key_inj_kdf kdf.
Hypothesis Hhmac : key_inj_hmac hmac.

Lemma check_seal_iff : forall k k' s p p',
  check_cached k (Some (seal k' s p')) p = true <-> k = k' /\ p = p' /\ too_long p = false.
Proof.
  intros k k' s p p'. unfold check_cached, Model.seal. cbn. split.
  - intro H. destruct (too_long p) eqn:El; [discriminate|].
    apply leqb_eq in H. apply Hhmac in H as [Hk Hd]. apply Hkdf in Hd. auto.
  - intros [Hk [Hp Hl]]. subst. rewrite Hl. apply leqb_refl.
Qed.

Lemma check_plain_iff : forall k s p p',
  check_cached k (Some (plain s p')) p = true <-> p = p' /\ too_long p = false.
Proof.
  intros k s p p'. unfold check_cached, Model.plain. cbn. split.
  - intro H. destruct (too_long p) eqn:El; [discriminate|].
    apply leqb_eq in H. apply Hkdf in H. auto.
  - intros [Hp Hl]. subst. rewrite Hl. apply leqb_refl.
Qed.

(* a credential sealed under another key never verifies, whatever the password *)
Lemma check_other_key : forall k k' s p0 p, k <> k' -> check_cached k (Some (seal k' s p0)) p = false.
Proof.
  intros k k' s p0 p Hn. destruct (check_cached k (Some (seal k' s p0)) p) eqn:E; [|reflexivity].
  apply check_seal_iff in E as [Hk _]. contradiction.
Qed.

(* ================================================================== function level *)
Definition crel (c : cred) (ct : content) : Prop :=
  match ct with
  | CtSealed k p => exists s, c = seal k s p
  | CtPlain p => exists s, c = plain s p
  | CtJunk => c_kind c = KJunk
  end.
Definition orel (a : option cred) (b : option content) : Prop :=
  match a, b with
  | Some c, Some ct => crel c ct
  | None, None => True
  | _, _ => False
  end.
Definition frel (sl : list (N * cred)) (sp : list (N * content)) : Prop :=
  forall s, orel (aget s sl) (aget s sp).

Lemma bool_eq_iff : forall a b : bool, (a = true <-> b = true) -> a = b.
Proof. intros [|] [|] [H1 H2]; try reflexivity; [symmetry; apply H1|apply H2]; reflexivity. Qed.

Lemma check_content : forall a b k p, orel a b -> check_cached k a p = content_accepts b k p.
Proof.
  intros [c|] [ct|] k p H; cbn [orel] in H; try contradiction; [|reflexivity].
  destruct ct as [k' p'|p'|]; cbn [crel] in H.
  - destruct H as [s Hs]. subst c. apply bool_eq_iff. rewrite check_seal_iff.
    cbn [content_accepts]. rewrite !andb_true_iff, N.eqb_eq, leqb_eq, negb_true_iff. tauto.
  - destruct H as [s Hs]. subst c. apply bool_eq_iff. rewrite check_plain_iff.
    cbn [content_accepts]. rewrite !andb_true_iff, leqb_eq, negb_true_iff. tauto.
  - unfold Model.check_cached. rewrite H. reflexivity.
Qed.

Lemma frel_aput : forall sl sp s c ct, frel sl sp -> crel c ct -> frel (aput s c sl) (aput s ct sp).
Proof.
  intros sl sp s c ct H Hc s'. destruct (N.eq_dec s' s) as [->|Hn].
  - rewrite !aget_aput_same. exact Hc.
  - rewrite !aget_aput_other by exact Hn. apply H.
Qed.
Lemma frel_adel : forall sl sp s, frel sl sp -> frel (adel s sl) (adel s sp).
Proof.
  intros sl sp s H s'. destruct (N.eq_dec s' s) as [->|Hn].
  - rewrite !aget_adel_same. exact I.
  - rewrite !aget_adel_other by exact Hn. apply H.
Qed.

Lemma fstep_rel : forall sl n sp o,
  frel sl sp ->
  frel (fst (fst (fstep kdf hmac (sl, n) o))) (fst (fspec_step sp o))
  /\ snd (fstep kdf hmac (sl, n) o) = snd (fspec_step sp o).
Proof.
  intros sl n sp o H. destruct o as [s k p|s p|s|s d|s|s|s k p]; cbn [fstep fspec_step fst snd].
  - split; [|reflexivity]. apply frel_aput; [exact H|]. exists n. reflexivity.
  - split; [|reflexivity]. apply frel_aput; [exact H|]. exists n. reflexivity.
  - split; [|reflexivity]. apply frel_aput; [exact H|]. reflexivity.
  - split; [|reflexivity]. pose proof (H s) as Hs.
    destruct (aget s sl) as [c|], (aget s sp) as [ct|]; cbn [orel] in Hs; try contradiction.
    + apply frel_aput; assumption.
    + apply frel_adel; assumption.
  - split; [|reflexivity]. apply frel_adel. exact H.
  - split; [exact H|]. pose proof (H s) as Hs.
    destruct (aget s sl), (aget s sp); cbn [orel] in Hs; try contradiction; reflexivity.
  - split; [exact H|]. f_equal. apply check_content. apply H.
Qed.

Lemma frun_spec_gen : forall ops sl n sp, frel sl sp -> frun kdf hmac (sl, n) ops = fspec_run sp ops.
Proof.
  induction ops as [|o r IH]; intros sl n sp H; [reflexivity|].
  cbn [frun fspec_run]. pose proof (fstep_rel sl n sp o H) as [Hr Ho].
  destruct (fstep kdf hmac (sl, n) o) as [[sl' n'] ob].
  destruct (fspec_step sp o) as [sp' ob']. cbn [fst snd] in Hr, Ho. subst ob'.
  rewrite (IH sl' n' sp' Hr). reflexivity.
Qed.

Lemma frun_spec : forall ops, frun kdf hmac ([], 0) ops = fspec_run [] ops.
Proof. intro ops. apply frun_spec_gen. intro s. exact I. Qed.

End Inj.

(* ================================================================== resolver level *)
Notation login := (login kdf hmac).
Notation step := (step kdf hmac).

Definition same_cache (m m' : mach) : Prop :=
  m_key m' = m_key m /\ m_net m' = m_net m /\ m_cache m' = m_cache m.
Lemma same_cache_refl : forall m, same_cache m m.
Proof. intro m. repeat split. Qed.
Lemma same_cache_trans : forall a b c, same_cache a b -> same_cache b c -> same_cache a c.
Proof. intros a b c [H1 [H2 H3]] [H4 [H5 H6]]. repeat split; congruence. Qed.
Lemma same_cache_prov : forall m p, same_cache m (set_prov m p).
Proof. intros m p. repeat split. Qed.
Lemma same_cache_cred : forall m m' u, same_cache m m' -> cred_of m' u = cred_of m u.
Proof. intros m m' u [_ [_ H]]. unfold cred_of. rewrite H. reflexivity. Qed.

Lemma attempt_online_same : forall m, same_cache m (snd (attempt_online m)).
Proof. intro m. unfold attempt_online. destruct (m_net m); apply same_cache_prov. Qed.
Lemma attempt_online_net : forall m, fst (attempt_online m) = m_net m.
Proof. intro m. unfold attempt_online. destruct (m_net m); reflexivity. Qed.
Lemma check_online_same : forall m, same_cache m (snd (check_online m)).
Proof.
  intro m. unfold check_online. destruct (m_prov m); try apply same_cache_refl. apply attempt_online_same.
Qed.
Lemma check_online_rm_same : forall m, same_cache m (snd (check_online_right_meow m)).
Proof.
  intro m. unfold check_online_right_meow. destruct (m_prov m); try apply same_cache_refl; apply attempt_online_same.
Qed.

(* what an operation on user u may do to a machine's credentials: nothing to other users, and
   u's credential is kept or dropped *)
Definition le_mach (u : user) (m m' : mach) : Prop :=
  m_key m' = m_key m /\ m_net m' = m_net m /\
  (forall u', u' <> u -> cred_of m' u' = cred_of m u') /\
  (cred_of m' u = cred_of m u \/ cred_of m' u = None).
Lemma le_mach_same : forall u m m', same_cache m m' -> le_mach u m m'.
Proof.
  intros u m m' H. pose proof H as [H1 [H2 H3]]. repeat split; try assumption.
  - intros u' _. apply same_cache_cred. exact H.
  - left. apply same_cache_cred. exact H.
Qed.

Lemma cred_of_put_same : forall m u e, cred_of (set_cache m (aput u e (m_cache m))) u = e_cred e.
Proof. intros. unfold cred_of, set_cache. cbn [m_cache]. rewrite aget_aput_same. reflexivity. Qed.
Lemma cred_of_put_other : forall m u u' e, u' <> u -> cred_of (set_cache m (aput u e (m_cache m))) u' = cred_of m u'.
Proof. intros. unfold cred_of, set_cache. cbn [m_cache]. rewrite aget_aput_other by assumption. reflexivity. Qed.

Lemma refresh_le : forall srv m u,
  let old := aget u (m_cache m) in
  let r := refresh srv m u old in
  le_mach u m (snd r) /\
  (forall e, fst r = Some e -> e_cred e = cred_of m u /\ cred_of (snd r) u = cred_of m u).
Proof.
  intros srv m u old r. subst r. unfold refresh.
  pose proof (check_online_same m) as Hs.
  destruct (check_online m) as [on m1]. cbn [snd] in Hs.
  destruct on; cbn [negb].
  2:{ cbn [fst snd]. split; [apply le_mach_same; exact Hs|].
      intros e He. subst old. unfold cred_of at 1 3. rewrite (same_cache_cred _ _ u Hs).
      unfold cred_of. rewrite He. auto. }
  destruct (m_net m1) eqn:En; cbn [negb].
  2:{ cbn [fst snd]. pose proof (same_cache_trans _ _ _ Hs (same_cache_prov m1 PLater)) as Hs2.
      split; [apply le_mach_same; exact Hs2|].
      intros e He. subst old. rewrite (same_cache_cred _ _ u Hs2). unfold cred_of. rewrite He. auto. }
  destruct Hs as [Hk [Hn Hc]].
  destruct (aget u srv) as [sp|]; cbn [fst snd].
  - assert (Hcr : (match old with Some o => e_cred o | None => None end) = cred_of m u).
    { subst old. unfold cred_of. destruct (aget u (m_cache m)); reflexivity. }
    split.
    + repeat split; cbn [m_key m_net set_cache]; try assumption.
      * intros u' Hn'. rewrite cred_of_put_other by exact Hn'. unfold cred_of. rewrite Hc. reflexivity.
      * left. rewrite cred_of_put_same. cbn [e_cred]. exact Hcr.
    + intros e He. injection He as He. subst e. cbn [e_cred]. split; [exact Hcr|].
      rewrite cred_of_put_same. cbn [e_cred]. exact Hcr.
  - split; [|intros e He; discriminate].
    repeat split; cbn [m_key m_net set_nx set_cache]; try assumption.
    + intros u' Hn'. unfold cred_of. cbn [m_cache set_nx set_cache]. rewrite aget_adel_other by exact Hn'. rewrite Hc. reflexivity.
    + right. unfold cred_of. cbn [m_cache set_nx set_cache]. rewrite aget_adel_same. reflexivity.
Qed.

Lemma get_usertoken_le : forall srv m u,
  let r := get_usertoken srv m u in
  le_mach u m (snd r) /\
  (forall e, fst r = Some e -> e_cred e = cred_of m u /\ cred_of (snd r) u = cred_of m u).
Proof.
  intros srv m u r. subst r. unfold get_usertoken.
  destruct (nmem u (m_nx m)).
  { cbn [fst snd]. split; [apply le_mach_same, same_cache_refl|intros e He; discriminate]. }
  pose proof (refresh_le srv m u) as Hr. cbn zeta in Hr.
  destruct (aget u (m_cache m)) as [e0|] eqn:Eg.
  - destruct (e_fresh e0).
    + cbn [fst snd]. split; [apply le_mach_same, same_cache_refl|].
      intros e He. injection He as He. subst e. unfold cred_of. rewrite Eg. auto.
    + exact Hr.
  - exact Hr.
Qed.

(* the complete contract of a login *)
Definition login_post (srv : srvmap) (salt : N) (m : mach) (u : user) (p : pw)
  (r : res) (ev : event) (m' : mach) (salt' : N) : Prop :=
  m_key m' = m_key m /\
  (forall u', u' <> u -> cred_of m' u' = cred_of m u') /\
  match ev with
  | EvOnlineOk =>
      r = RSome true /\ cred_of m' u = Some (seal (m_key m) salt p) /\ salt' = salt + 1 /\
      aget u srv = Some p /\ m_net m = true
  | EvOfflineOk =>
      r = RSome true /\ check_cached (m_key m) (cred_of m u) p = true /\
      cred_of m' u = cred_of m u /\ salt' = salt
  | _ => r <> RSome true /\ (cred_of m' u = cred_of m u \/ cred_of m' u = None) /\ salt' = salt
  end.

Lemma login_contract : forall srv salt m u p,
  let '(r, ev, m', salt') := login srv salt m u p in login_post srv salt m u p r ev m' salt'.
Proof.
  intros srv salt m u p. unfold Model.login.
  pose proof (get_usertoken_le srv m u) as [Hle Htok]. cbn zeta in Hle, Htok.
  destruct (get_usertoken srv m u) as [tok m1]. cbn [fst snd] in Hle, Htok.
  destruct Hle as [Hk1 [Hn1 [Ho1 Hu1]]].
  destruct tok as [e|].
  2:{ pose proof (check_online_rm_same m1) as Hs.
      destruct (check_online_right_meow m1) as [b m2]. cbn [snd] in Hs.
      unfold login_post. split; [destruct Hs as [Hs _]; congruence|].
      split; [intros u' Hn; rewrite (same_cache_cred _ _ u' Hs); apply Ho1; exact Hn|].
      split; [discriminate|]. split; [|reflexivity]. rewrite (same_cache_cred _ _ u Hs). exact Hu1. }
  destruct (Htok e eq_refl) as [Hec Hcu]. clear Htok.
  assert (Hs : same_cache m1 (snd (match e_cred e with
                                   | Some _ => (is_online m1, m1)
                                   | None => check_online_right_meow m1 end))).
  { destruct (e_cred e); [apply same_cache_refl|apply check_online_rm_same]. }
  destruct (match e_cred e with Some _ => (is_online m1, m1) | None => check_online_right_meow m1 end) as [on m2].
  cbn [snd] in Hs. pose proof Hs as [Hk2 [Hn2 Hc2]].
  assert (Hcred2 : forall u', cred_of m2 u' = cred_of m1 u') by (intro u'; apply same_cache_cred; exact Hs).
  destruct on.
  - destruct (m_net m2) eqn:En; cbn [negb].
    2:{ unfold login_post. split; [congruence|]. split; [intros u' Hn; rewrite Hcred2; apply Ho1; exact Hn|].
        split; [discriminate|]. split; [|reflexivity]. rewrite Hcred2. left. exact Hcu. }
    destruct (aget u srv) as [sp|] eqn:Es.
    2:{ unfold login_post. split; [congruence|]. split; [intros u' Hn; rewrite Hcred2; apply Ho1; exact Hn|].
        split; [discriminate|]. split; [|reflexivity]. rewrite Hcred2. left. exact Hcu. }
    destruct (leqb p sp) eqn:El.
    + apply leqb_eq in El. subst sp. unfold login_post. cbn [m_key set_cache].
      split; [congruence|]. split.
      { intros u' Hn. rewrite cred_of_put_other by exact Hn. rewrite Hcred2. apply Ho1. exact Hn. }
      split; [reflexivity|]. split.
      { rewrite cred_of_put_same. cbn [e_cred]. rewrite Hk2, Hk1. reflexivity. }
      split; [reflexivity|]. split; [exact Es|]. congruence.
    + unfold login_post. split; [congruence|]. split; [intros u' Hn; rewrite Hcred2; apply Ho1; exact Hn|].
      split; [discriminate|]. split; [|reflexivity]. rewrite Hcred2. left. exact Hcu.
  - destruct (e_cred e) as [c|] eqn:Ec.
    2:{ unfold login_post. split; [congruence|]. split; [intros u' Hn; rewrite Hcred2; apply Ho1; exact Hn|].
        split; [discriminate|]. split; [|reflexivity]. rewrite Hcred2. left. exact Hcu. }
    destruct (check_cached (m_key m2) (Some c) p) eqn:Ech.
    + unfold login_post. cbn [m_key set_cache]. split; [congruence|]. split.
      { intros u' Hn. rewrite cred_of_put_other by exact Hn. rewrite Hcred2. apply Ho1. exact Hn. }
      split; [reflexivity|]. split; [rewrite <- Hec, <- Hk1, <- Hk2; exact Ech|].
      split; [|reflexivity]. rewrite cred_of_put_same. cbn [e_cred]. exact Hec.
    + unfold login_post. split; [congruence|]. split; [intros u' Hn; rewrite Hcred2; apply Ho1; exact Hn|].
      split; [discriminate|]. split; [|reflexivity]. rewrite Hcred2. left. exact Hcu.
Qed.

(* ------------------------------------------------------------------ the invariant *)
Section Keys.
Variables k0 k1 : N.
Notation keyof := (Model.keyof k0 k1).

Definition Inv (sg : state * ghost) : Prop :=
  let '(st, g) := sg in
  (forall m, m_key (sel st m) = keyof m) /\
  (* provenance: every cached credential was sealed, on SOME machine, for an online-verified
     password of the slot's user *)
  (forall m u c, cred_of (sel st m) u = Some c ->
     exists m' s p, In (m', u, p) (g_ver g) /\ c = seal (keyof m') s p) /\
  (* an untampered slot holds this machine's sealing of the most recent verified password *)
  (forall m u c, is_dirty g m u = false -> cred_of (sel st m) u = Some c ->
     exists s p, lastv (g_ver g) m u = Some p /\ c = seal (keyof m) s p).

Lemma sel_upd_same : forall st m x, sel (upd st m x) m = x.
Proof. intros st [|] x; reflexivity. Qed.
Lemma sel_upd_other : forall st m x, sel (upd st m x) (negb m) = sel st (negb m).
Proof. intros st [|] x; reflexivity. Qed.

(* a step that leaves every credential (or drops some), all keys and the ghost unchanged *)
Lemma Inv_weaken : forall st st' g,
  Inv (st, g) ->
  (forall m, m_key (sel st' m) = m_key (sel st m)) ->
  (forall m u, cred_of (sel st' m) u = cred_of (sel st m) u \/ cred_of (sel st' m) u = None) ->
  Inv (st', g).
Proof.
  intros st st' g [Hk [Hp Hc]] Hk' Hcr. split; [|split].
  - intro m. rewrite Hk'. apply Hk.
  - intros m u c H. destruct (Hcr m u) as [E|E]; rewrite E in H; [|discriminate]. eapply Hp; eassumption.
  - intros m u c Hd H. destruct (Hcr m u) as [E|E]; rewrite E in H; [|discriminate]. eapply Hc; eassumption.
Qed.

Lemma same_slot_true : forall m u m' u', same_slot m u (m', u') = true <-> m = m' /\ u = u'.
Proof.
  intros m u m' u'. unfold same_slot. cbn [fst snd]. rewrite andb_true_iff, N.eqb_eq.
  split; intros [H1 H2]; split; try assumption; [apply eqb_prop; exact H1|subst; apply eqb_reflx].
Qed.

Lemma is_dirty_filter : forall dl m u m' u',
  (m, u) <> (m', u') ->
  existsb (same_slot m' u') (filter (fun y => negb (same_slot m u y)) dl) = existsb (same_slot m' u') dl.
Proof.
  intros dl m u m' u' Hn. induction dl as [|[a b] r IH]; [reflexivity|].
  cbn [filter existsb]. destruct (same_slot m u (a, b)) eqn:E1; cbn [negb].
  - rewrite IH. destruct (same_slot m' u' (a, b)) eqn:E2; [|reflexivity].
    apply same_slot_true in E1 as [? ?]. apply same_slot_true in E2 as [? ?]. subst. contradiction Hn. reflexivity.
  - cbn [existsb]. rewrite IH. reflexivity.
Qed.

Lemma In_lastv : forall ver m u p, lastv ver m u = Some p -> In (m, u, p) ver.
Proof.
  induction ver as [|[[m' u'] p'] r IH]; intros m u p H; cbn [lastv] in H; [discriminate|].
  destruct (Bool.eqb m m' && (u =? u')) eqn:E.
  - injection H as H. subst p'. apply andb_true_iff in E as [E1 E2].
    apply eqb_prop in E1. apply N.eqb_eq in E2. subst. left. reflexivity.
  - right. apply IH. exact H.
Qed.

Lemma cred_of_map_invalidate : forall x u,
  cred_of (set_nx (set_cache x (map (fun '(u, e) => (u, mkentry false (e_cred e))) (m_cache x))) []) u = cred_of x u.
Proof.
  intros x u. unfold cred_of. cbn [m_cache set_nx set_cache]. rewrite aget_map_entry.
  destruct (aget u (m_cache x)); reflexivity.
Qed.

Lemma Inv_step : forall sg o, Inv sg -> Inv (gstep_full kdf hmac sg o).
Proof.
  intros [st g] o HI. unfold gstep_full. cbn [fst snd].
  destruct o as [u [p|]|m b|m|m|m|u|m u|m u p].
  - (* OSrvSet Some *) cbn [step gstep]. eapply Inv_weaken; [exact HI| |]; intros [|]; intros; auto.
  - cbn [step gstep]. eapply Inv_weaken; [exact HI| |]; intros [|]; intros; auto.
  - (* ONet *) cbn [step gstep]. eapply Inv_weaken; [exact HI| |].
    + intros m'. destruct m, m'; reflexivity.
    + intros m' u. left. destruct m, m'; reflexivity.
  - cbn [step gstep]. eapply Inv_weaken; [exact HI| |].
    + intros m'. destruct m, m'; reflexivity.
    + intros m' u. left. destruct m, m'; reflexivity.
  - cbn [step gstep]. eapply Inv_weaken; [exact HI| |].
    + intros m'. destruct m, m'; reflexivity.
    + intros m' u. left. destruct m, m'; reflexivity.
  - (* OInvalidate *) cbn [step gstep]. eapply Inv_weaken; [exact HI| |].
    + intros m'. destruct m, m'; reflexivity.
    + intros m' u. left. destruct m, m'; cbn [sel upd s_m0 s_m1]; try reflexivity; apply cred_of_map_invalidate.
  - (* OSwap *)
    cbn [step]. destruct HI as [Hk [Hp Hc]].
    destruct (aget u (m_cache (s_m0 st))) as [ea|] eqn:Ea.
    2:{ cbn [gstep]. split; [exact Hk|]. split; [exact Hp|].
        intros m u' c Hd. unfold is_dirty in Hd. cbn [g_dirty existsb] in Hd.
        apply orb_false_iff in Hd as [_ Hd]. apply orb_false_iff in Hd as [_ Hd]. apply Hc. exact Hd. }
    destruct (aget u (m_cache (s_m1 st))) as [eb|] eqn:Eb.
    2:{ cbn [gstep]. split; [exact Hk|]. split; [exact Hp|].
        intros m u' c Hd. unfold is_dirty in Hd. cbn [g_dirty existsb] in Hd.
        apply orb_false_iff in Hd as [_ Hd]. apply orb_false_iff in Hd as [_ Hd]. apply Hc. exact Hd. }
    cbn [gstep].
    assert (Hca : cred_of (s_m0 st) u = e_cred ea) by (unfold cred_of; rewrite Ea; reflexivity).
    assert (Hcb : cred_of (s_m1 st) u = e_cred eb) by (unfold cred_of; rewrite Eb; reflexivity).
    split; [|split].
    + intros [|]; cbn [sel s_m0 s_m1 set_cache m_key]; [apply (Hk true)|apply (Hk false)].
    + intros m u' c H. cbn [g_ver].
      destruct (N.eq_dec u' u) as [->|Hn].
      * destruct m; cbn [sel s_m0 s_m1] in H; rewrite cred_of_put_same in H; cbn [e_cred] in H.
        -- apply (Hp false u c). cbn [sel]. congruence.
        -- apply (Hp true u c). cbn [sel]. congruence.
      * destruct m; cbn [sel s_m0 s_m1] in H; rewrite cred_of_put_other in H by exact Hn.
        -- apply (Hp true u' c). exact H.
        -- apply (Hp false u' c). exact H.
    + intros m u' c Hd H. unfold is_dirty in Hd. cbn [g_dirty existsb g_ver] in *.
      apply orb_false_iff in Hd as [Hd1 Hd]. apply orb_false_iff in Hd as [Hd2 Hd].
      assert (Hn : u' <> u).
      { intro E. subst u'. destruct m.
        - assert (X : same_slot true u (true, u) = true) by (apply same_slot_true; auto). congruence.
        - assert (X : same_slot false u (false, u) = true) by (apply same_slot_true; auto). congruence. }
      destruct m; cbn [sel s_m0 s_m1] in H; rewrite cred_of_put_other in H by exact Hn.
      * apply (Hc true u' c Hd H).
      * apply (Hc false u' c Hd H).
  - (* OSteal *)
    cbn [step]. destruct HI as [Hk [Hp Hc]].
    destruct (aget u (m_cache (sel st m))) as [em|] eqn:Em.
    2:{ cbn [gstep]. split; [exact Hk|]. split; [exact Hp|].
        intros m' u' c Hd. unfold is_dirty in Hd. cbn [g_dirty existsb] in Hd.
        apply orb_false_iff in Hd as [_ Hd]. apply Hc. exact Hd. }
    destruct (aget u (m_cache (sel st (negb m)))) as [eo|] eqn:Eo.
    2:{ cbn [gstep]. split; [exact Hk|]. split; [exact Hp|].
        intros m' u' c Hd. unfold is_dirty in Hd. cbn [g_dirty existsb] in Hd.
        apply orb_false_iff in Hd as [_ Hd]. apply Hc. exact Hd. }
    cbn [gstep].
    assert (Hco : cred_of (sel st (negb m)) u = e_cred eo) by (unfold cred_of; rewrite Eo; reflexivity).
    split; [|split].
    + intros m'. destruct (Bool.bool_dec m' m) as [->|Hn].
      * rewrite sel_upd_same. cbn [m_key set_cache]. apply Hk.
      * assert (m' = negb m) as -> by (destruct m, m'; try reflexivity; contradiction Hn; reflexivity).
        rewrite sel_upd_other. apply Hk.
    + intros m' u' c H. cbn [g_ver].
      destruct (Bool.bool_dec m' m) as [->|Hnm].
      * rewrite sel_upd_same in H. destruct (N.eq_dec u' u) as [->|Hn].
        -- rewrite cred_of_put_same in H. cbn [e_cred] in H. apply (Hp (negb m) u c). congruence.
        -- rewrite cred_of_put_other in H by exact Hn. apply (Hp m u' c H).
      * assert (m' = negb m) as -> by (destruct m, m'; try reflexivity; contradiction Hnm; reflexivity).
        rewrite sel_upd_other in H. apply (Hp (negb m) u' c H).
    + intros m' u' c Hd H. unfold is_dirty in Hd. cbn [g_dirty existsb g_ver] in *.
      apply orb_false_iff in Hd as [Hd1 Hd].
      destruct (Bool.bool_dec m' m) as [->|Hnm].
      * rewrite sel_upd_same in H.
        assert (Hn : u' <> u).
        { intro E. subst u'. assert (X : same_slot m u (m, u) = true) by (apply same_slot_true; auto). congruence. }
        rewrite cred_of_put_other in H by exact Hn. apply (Hc m u' c Hd H).
      * assert (m' = negb m) as -> by (destruct m, m'; try reflexivity; contradiction Hnm; reflexivity).
        rewrite sel_upd_other in H. apply (Hc (negb m) u' c Hd H).
  - (* OLogin *)
    cbn [step]. destruct HI as [Hk [Hp Hc]].
    pose proof (login_contract (s_srv st) (s_salt st) (sel st m) u p) as Hl.
    destruct (login (s_srv st) (s_salt st) (sel st m) u p) as [[[r ev] x] salt'].
    destruct Hl as [Hkx [Hox Hev]].
    assert (Hsel : forall m', sel (mkstate (s_m0 (upd st m x)) (s_m1 (upd st m x)) (s_srv (upd st m x)) salt') m'
                              = sel (upd st m x) m') by (intros [|]; reflexivity).
    assert (Hother : forall m', m' <> m -> sel (upd st m x) m' = sel st m').
    { intros m' Hn. destruct m, m'; try reflexivity; contradiction Hn; reflexivity. }
    assert (Hkeys : forall m', m_key (sel (mkstate (s_m0 (upd st m x)) (s_m1 (upd st m x)) (s_srv (upd st m x)) salt') m') = keyof m').
    { intro m'. rewrite Hsel. destruct (Bool.bool_dec m' m) as [->|Hn].
      - rewrite sel_upd_same, Hkx. apply Hk.
      - rewrite Hother by exact Hn. apply Hk. }
    cbn [option_map fst].
    destruct ev;
      try (* every event that seals nothing: ghost unchanged, credentials kept or dropped *)
        (cbn [gstep]; destruct Hev as [_ [Hu _]];
         split; [exact Hkeys|];
         assert (Hcr : forall m' u', cred_of (sel (upd st m x) m') u' = cred_of (sel st m') u'
                                     \/ cred_of (sel (upd st m x) m') u' = None);
         [ intros m' u'; destruct (Bool.bool_dec m' m) as [->|Hn];
           [ rewrite sel_upd_same; destruct (N.eq_dec u' u) as [->|Hnu];
             [ exact Hu | left; apply Hox; exact Hnu ]
           | rewrite Hother by exact Hn; left; reflexivity ]
         | split;
           [ intros m' u' c H; rewrite Hsel in H; destruct (Hcr m' u') as [E|E]; rewrite E in H;
             [ eapply Hp; eassumption | discriminate ]
           | intros m' u' c Hd H; rewrite Hsel in H; destruct (Hcr m' u') as [E|E]; rewrite E in H;
             [ eapply Hc; eassumption | discriminate ] ] ]).
    + (* EvOnlineOk *)
      destruct Hev as [_ [Hnew _]]. cbn [gstep]. split; [exact Hkeys|]. split.
      * intros m' u' c H. rewrite Hsel in H. cbn [g_ver].
        destruct (Bool.bool_dec m' m) as [->|Hn].
        -- rewrite sel_upd_same in H. destruct (N.eq_dec u' u) as [->|Hnu].
           ++ rewrite Hnew in H. injection H as H. subst c.
              exists m, (s_salt st), p. split; [left; reflexivity|]. rewrite Hk. reflexivity.
           ++ rewrite Hox in H by exact Hnu. destruct (Hp m u' c H) as [m2 [s2 [p2 [Hin Heq]]]].
              exists m2, s2, p2. split; [right; exact Hin|exact Heq].
        -- rewrite Hother in H by exact Hn. destruct (Hp m' u' c H) as [m2 [s2 [p2 [Hin Heq]]]].
           exists m2, s2, p2. split; [right; exact Hin|exact Heq].
      * intros m' u' c Hd H. rewrite Hsel in H. cbn [g_ver lastv].
        destruct (Bool.bool_dec m' m) as [->|Hn]; [destruct (N.eq_dec u' u) as [->|Hnu]|].
        -- rewrite sel_upd_same, Hnew in H. injection H as H. subst c.
           rewrite eqb_reflx, N.eqb_refl. cbn [andb].
           exists (s_salt st), p. split; [reflexivity|]. rewrite Hk. reflexivity.
        -- rewrite sel_upd_same, Hox in H by exact Hnu.
           assert (E : Bool.eqb m m && (u' =? u) = false).
           { apply N.eqb_neq in Hnu. rewrite Hnu. apply andb_false_r. }
           rewrite E. apply (Hc m u' c); [|exact H].
           unfold is_dirty in *. cbn [g_dirty] in Hd. rewrite is_dirty_filter in Hd; [exact Hd|].
           intro X. injection X as X. congruence.
        -- rewrite Hother in H by exact Hn.
           assert (E : Bool.eqb m' m && (u' =? u) = false).
           { destruct m, m'; try reflexivity; contradiction Hn; reflexivity. }
           rewrite E. apply (Hc m' u' c); [|exact H].
           unfold is_dirty in *. cbn [g_dirty] in Hd. rewrite is_dirty_filter in Hd; [exact Hd|].
           intro X. injection X as X. congruence.
    + (* EvOfflineOk: credential unchanged *)
      cbn [gstep]. destruct Hev as [_ [_ [Hu _]]].
      split; [exact Hkeys|].
      assert (Hcr : forall m' u', cred_of (sel (upd st m x) m') u' = cred_of (sel st m') u').
      { intros m' u'. destruct (Bool.bool_dec m' m) as [->|Hn].
        - rewrite sel_upd_same. destruct (N.eq_dec u' u) as [->|Hnu]; [exact Hu|apply Hox; exact Hnu].
        - rewrite Hother by exact Hn. reflexivity. }
      split.
      * intros m' u' c H. rewrite Hsel, Hcr in H. eapply Hp; eassumption.
      * intros m' u' c Hd H. rewrite Hsel, Hcr in H. eapply Hc; eassumption.
Qed.

Lemma Inv_init : Inv (init_k k0 k1, mkghost [] []).
Proof.
  split; [|split].
  - intros [|]; reflexivity.
  - intros [|] u c H; discriminate.
  - intros [|] u c _ H; discriminate.
Qed.

Lemma Inv_fold : forall ops sg, Inv sg -> Inv (fold_left (gstep_full kdf hmac) ops sg).
Proof. induction ops as [|o r IH]; intros sg H; [exact H|]. cbn [fold_left]. apply IH, Inv_step, H. Qed.

Lemma Inv_reach : forall ops, Inv (reach kdf hmac k0 k1 ops).
Proof. intro ops. unfold reach. apply Inv_fold, Inv_init. Qed.


(* ------------------------------------------------------------------ consequences *)
Lemma keyof_inj : k0 <> k1 -> forall m m', keyof m = keyof m' -> m = m'.
Proof. intros Hn [|] [|] H; cbn [Model.keyof] in H; try reflexivity; [symmetry in H|]; contradiction. Qed.

Lemma offline_accepts_cred : forall st m u p,
  offline_accepts kdf hmac st m u p = true -> exists c, cred_of (sel st m) u = Some c.
Proof.
  intros st m u p H. unfold offline_accepts in H. destruct (cred_of (sel st m) u) as [c|]; [eauto|discriminate].
Qed.

Lemma offline_last_online : key_inj_kdf kdf -> key_inj_hmac hmac ->
  forall ops st g m u p, reach kdf hmac k0 k1 ops = (st, g) ->
  is_dirty g m u = false -> offline_accepts kdf hmac st m u p = true ->
  lastv (g_ver g) m u = Some p.
Proof.
  intros Hkdf Hhmac ops st g m u p Hr Hd Ha. pose proof (Inv_reach ops) as HI. rewrite Hr in HI.
  destruct HI as [Hk [_ Hc]]. destruct (offline_accepts_cred _ _ _ _ Ha) as [c Hcr].
  destruct (Hc m u c Hd Hcr) as [s [p' [Hl Hs]]].
  unfold offline_accepts in Ha. rewrite Hcr, Hk, Hs in Ha.
  apply (check_seal_iff Hkdf Hhmac) in Ha as [_ [Hp _]]. subst p'. exact Hl.
Qed.

Lemma offline_verified_here : key_inj_kdf kdf -> key_inj_hmac hmac -> k0 <> k1 ->
  forall ops st g m u p, reach kdf hmac k0 k1 ops = (st, g) ->
  offline_accepts kdf hmac st m u p = true ->
  In (m, u, p) (g_ver g) /\ exists s, cred_of (sel st m) u = Some (seal (keyof m) s p).
Proof.
  intros Hkdf Hhmac Hn ops st g m u p Hr Ha. pose proof (Inv_reach ops) as HI. rewrite Hr in HI.
  destruct HI as [Hk [Hp _]]. destruct (offline_accepts_cred _ _ _ _ Ha) as [c Hcr].
  destruct (Hp m u c Hcr) as [m' [s [p' [Hin Hs]]]].
  unfold offline_accepts in Ha. rewrite Hcr, Hk, Hs in Ha.
  apply (check_seal_iff Hkdf Hhmac) in Ha as [Hkk [Hpp _]]. subst p'.
  apply (keyof_inj Hn) in Hkk. subst m'. split; [exact Hin|]. exists s. rewrite Hcr, Hs. reflexivity.
Qed.

Lemma offline_machine_bound : key_inj_kdf kdf -> key_inj_hmac hmac -> k0 <> k1 ->
  forall ops st g m u s p0, reach kdf hmac k0 k1 ops = (st, g) ->
  cred_of (sel st m) u = Some (seal (keyof (negb m)) s p0) ->
  forall p, offline_accepts kdf hmac st m u p = false.
Proof.
  intros Hkdf Hhmac Hn ops st g m u s p0 Hr Hcr p. pose proof (Inv_reach ops) as HI. rewrite Hr in HI.
  destruct HI as [Hk _]. unfold offline_accepts. rewrite Hcr, Hk.
  apply (check_other_key Hkdf Hhmac). intro E. apply (keyof_inj Hn) in E. destruct m; discriminate.
Qed.

Lemma offline_complete :
  forall ops st g m u c p, reach kdf hmac k0 k1 ops = (st, g) ->
  is_dirty g m u = false -> cred_of (sel st m) u = Some c ->
  lastv (g_ver g) m u = Some p -> too_long p = false ->
  offline_accepts kdf hmac st m u p = true.
Proof.
  intros ops st g m u c p Hr Hd Hcr Hl Ht. pose proof (Inv_reach ops) as HI. rewrite Hr in HI.
  destruct HI as [Hk [_ Hc]]. destruct (Hc m u c Hd Hcr) as [s [p' [Hl' Hs]]].
  rewrite Hl in Hl'. injection Hl' as Hl'. subst p'.
  unfold offline_accepts. rewrite Hcr, Hk, Hs. apply check_seal_refl. exact Ht.
Qed.

(* every accepted login, in every reachable state *)
Lemma login_accept : key_inj_kdf kdf -> key_inj_hmac hmac -> k0 <> k1 ->
  forall ops st g m u p r ev x salt', reach kdf hmac k0 k1 ops = (st, g) ->
  login (s_srv st) (s_salt st) (sel st m) u p = (r, ev, x, salt') ->
  r = RSome true ->
  (ev = EvOnlineOk /\ m_net (sel st m) = true /\ aget u (s_srv st) = Some p) \/
  (ev = EvOfflineOk /\ offline_accepts kdf hmac st m u p = true /\
   In (m, u, p) (g_ver g) /\ (is_dirty g m u = false -> lastv (g_ver g) m u = Some p)).
Proof.
  intros Hkdf Hhmac Hn ops st g m u p r ev x salt' Hr Hl Hacc.
  pose proof (login_contract (s_srv st) (s_salt st) (sel st m) u p) as Hc. rewrite Hl in Hc.
  destruct Hc as [_ [_ Hev]].
  destruct ev; try (destruct Hev as [Hne _]; contradiction).
  - left. destruct Hev as [_ [_ [_ [Hs Hnet]]]]. auto.
  - right. destruct Hev as [_ [Hch _]]. split; [reflexivity|]. split; [exact Hch|].
    split.
    + apply (offline_verified_here Hkdf Hhmac Hn ops st g m u p Hr Hch).
    + intro Hd. apply (offline_last_online Hkdf Hhmac ops st g m u p Hr Hd Hch).
Qed.

(* the verification log grows exactly at server-verified logins *)
Lemma ver_log_step : forall sg o,
  let sg' := gstep_full kdf hmac sg o in
  (exists m u p salt' x, o = OLogin m u p /\
     login (s_srv (fst sg)) (s_salt (fst sg)) (sel (fst sg) m) u p = (RSome true, EvOnlineOk, x, salt') /\
     g_ver (snd sg') = (m, u, p) :: g_ver (snd sg))
  \/ g_ver (snd sg') = g_ver (snd sg).
Proof.
  intros [st g] o. cbn zeta. unfold gstep_full. cbn [fst snd].
  destruct o as [u [p|]|m b|m|m|m|u|m u|m u p]; cbn [step gstep]; try (right; reflexivity).
  - destruct (aget u (m_cache (s_m0 st))), (aget u (m_cache (s_m1 st))); right; reflexivity.
  - destruct (aget u (m_cache (sel st m))), (aget u (m_cache (sel st (negb m)))); right; reflexivity.
  - pose proof (login_contract (s_srv st) (s_salt st) (sel st m) u p) as Hc.
    destruct (login (s_srv st) (s_salt st) (sel st m) u p) as [[[r ev] x] salt'] eqn:El.
    destruct ev; cbn [gstep]; try (right; reflexivity).
    left. destruct Hc as [_ [_ [Hr _]]]. subst r. exists m, u, p, salt', x. auto.
Qed.

End Keys.
End Crypto.
