(* KV.C44.Model — the offline credential cache of the unix resolver, transcribed.
   Executable definitions only.

   Anchors (kanidm at /repo HEAD):
     unix_integration/resolver_common/src/idprovider/kanidm.rs
        UserToken::kanidm_update_cached_password (:188), kanidm_has_offline_credentials (:227),
        kanidm_check_cached_password (:231), check_online / check_online_right_meow /
        attempt_online (:270..), unix_user_get (:367), unix_user_online_auth_step (:485),
        unix_user_offline_auth_init / _step (:613/:624)
     unix_integration/resolver_common/src/resolver.rs
        get_cached_usertoken (:272), refresh_usertoken (:521), get_usertoken (:679),
        pam_account_authenticate_init / _step / pam_account_authenticate (:997/:1197/:1367)
     libs/crypto/src/lib.rs   Password::new_argon2id_hsm (:897), verify_ctx (:946)

   Cryptography is a PARAMETER of the model: [kdf salt pw] stands for Argon2id(pw, salt) and
   [hmac key d] for the TPM's HMAC-SHA256 under the loaded key; the executable instance used by
   the correspondence is the symbolic one ([ideal_kdf], [ideal_hmac]: the output records its
   inputs).  A password is its UTF-8 byte string. *)
From Coq Require Import List NArith Bool.
Import ListNotations.
Open Scope N_scope.

Definition pw := list N.
Definition user := N.
(* [rep b n]: the byte b repeated n times (long passwords in case files) *)
Definition rep (b n : N) : pw := repeat b (N.to_nat n).

Fixpoint leqb (a b : list N) : bool :=
  match a, b with
  | [], [] => true
  | x :: a', y :: b' => (x =? y) && leqb a' b'
  | _, _ => false
  end.

(* ------------------------------------------------------------------ association lists *)
Fixpoint aget {A} (k : N) (l : list (N * A)) : option A :=
  match l with [] => None | (k', v) :: r => if k =? k' then Some v else aget k r end.
Fixpoint adel {A} (k : N) (l : list (N * A)) : list (N * A) :=
  match l with [] => [] | (k', v) :: r => if k =? k' then adel k r else (k', v) :: adel k r end.
Definition aput {A} (k : N) (v : A) (l : list (N * A)) : list (N * A) := (k, v) :: adel k l.
Definition nmem (x : N) (l : list N) : bool := existsb (N.eqb x) l.

(* ------------------------------------------------------------------ the cached credential *)
(* what sits under extra_keys["kanidm-pw-v1"]: a DbPasswordV1.  KTpm = TPM_ARGON2ID (the only
   variant kanidm_update_cached_password writes); KPlain = ARGON2ID (not bound to any TPM key —
   kanidm_check_cached_password accepts every DbPasswordV1 variant it can parse); KJunk = a JSON
   value that is not a DbPasswordV1.  [c_salt] doubles as the credential's identity: salts are
   fresh (here: a counter). *)
Inductive kind := KTpm | KPlain | KJunk.
Record cred := mkcred { c_kind : kind; c_salt : N; c_tag : list N }.

(* PW_MAX_LENGTH_CHECK = 512: verify_ctx refuses longer candidates (bytes) *)
Definition too_long (p : pw) : bool := 512 <? N.of_nat (length p).

Section Crypto.
Variable kdf : N -> pw -> list N.            (* salt, password  |-> Argon2id digest *)
Variable hmac : N -> list N -> list N.       (* key, digest     |-> TPM HMAC *)

(* Password::new_argon2id_hsm + to_dbpasswordv1 *)
Definition seal (k salt : N) (p : pw) : cred := mkcred KTpm salt (hmac k (kdf salt p)).
(* Password::new_argon2id + to_dbpasswordv1 (never produced by the resolver) *)
Definition plain (salt : N) (p : pw) : cred := mkcred KPlain salt (kdf salt p).
Definition junk : cred := mkcred KJunk 0 [].

(* kanidm_check_cached_password: no key => false; undecodable => false; verify_ctx with the TPM
   context: too long => false; TPM_ARGON2ID => hmac(key, argon2id(pw, salt)) == key field;
   ARGON2ID => argon2id(pw, salt) == key field *)
Definition check_cached (k : N) (c : option cred) (p : pw) : bool :=
  match c with
  | None => false
  | Some c =>
      match c_kind c with
      | KJunk => false
      | KTpm => if too_long p then false else leqb (hmac k (kdf (c_salt c) p)) (c_tag c)
      | KPlain => if too_long p then false else leqb (kdf (c_salt c) p) (c_tag c)
      end
  end.

(* ================================================================== function level *)
Inductive fop :=
| FSeal (s k : N) (p : pw)      (* tokens[s].kanidm_update_cached_password(policy, p, tpm_k, key_k) *)
| FPlant (s : N) (p : pw)       (* a plain ARGON2ID credential written under the cache key *)
| FJunk (s : N)                 (* junk JSON written under the cache key *)
| FMove (s d : N)               (* tokens[d].cache := tokens[s].cache *)
| FClear (s : N)
| FHas (s : N)                  (* observes kanidm_has_offline_credentials *)
| FCheck (s k : N) (p : pw).    (* observes kanidm_check_cached_password(p, tpm_k, key_k) *)

Definition fstate := (list (N * cred) * N)%type.   (* token -> cached credential; salt counter *)

Definition fstep (st : fstate) (o : fop) : fstate * option bool :=
  let '(sl, n) := st in
  match o with
  | FSeal s k p => ((aput s (seal k n p) sl, n + 1), None)
  | FPlant s p => ((aput s (plain n p) sl, n + 1), None)
  | FJunk s => ((aput s junk sl, n), None)
  | FMove s d => ((match aget s sl with Some c => aput d c sl | None => adel d sl end, n), None)
  | FClear s => ((adel s sl, n), None)
  | FHas s => (st, Some (match aget s sl with Some _ => true | None => false end))
  | FCheck s k p => (st, Some (check_cached k (aget s sl) p))
  end.
Fixpoint frun (st : fstate) (ops : list fop) : list bool :=
  match ops with
  | [] => []
  | o :: r => let '(st', ob) := fstep st o in
              match ob with Some b => b :: frun st' r | None => frun st' r end
  end.

(* ================================================================== resolver level *)
(* CacheState of KanidmProviderInternal: OfflineNextCheck(t) is split by whether t has passed
   (PDue: t = "now" at the time it was set; PLater: t = now + ~3 min, never reached in a history) *)
Inductive pstate := POnline | PDue | PLater | POff.
(* a row of account_t: expired? + the token's cached credential (the rest of the token is fixed) *)
Record entry := mkentry { e_fresh : bool; e_cred : option cred }.
Record mach := mkmach {
  m_key : N;                          (* this machine's TPM-bound HMAC key *)
  m_prov : pstate;
  m_net : bool;                       (* can this machine reach the kanidm server *)
  m_cache : list (user * entry);
  m_nx : list user }.                 (* negative cache *)
Definition set_prov (m : mach) (p : pstate) := mkmach (m_key m) p (m_net m) (m_cache m) (m_nx m).
Definition set_net (m : mach) (b : bool) := mkmach (m_key m) (m_prov m) b (m_cache m) (m_nx m).
Definition set_cache (m : mach) (c : list (user * entry)) := mkmach (m_key m) (m_prov m) (m_net m) c (m_nx m).
Definition set_nx (m : mach) (x : list user) := mkmach (m_key m) (m_prov m) (m_net m) (m_cache m) x.
Definition cred_of (m : mach) (u : user) : option cred :=
  match aget u (m_cache m) with Some e => e_cred e | None => None end.
Definition is_online (m : mach) : bool := match m_prov m with POnline => true | _ => false end.

(* attempt_online: whoami answered (even 401) => Online; transport error => OfflineNextCheck(later) *)
Definition attempt_online (m : mach) : bool * mach :=
  if m_net m then (true, set_prov m POnline) else (false, set_prov m PLater).
Definition check_online (m : mach) : bool * mach :=
  match m_prov m with
  | POnline => (true, m)
  | PDue => attempt_online m
  | PLater | POff => (false, m)
  end.
Definition check_online_right_meow (m : mach) : bool * mach :=
  match m_prov m with
  | POnline => (true, m)
  | PDue | PLater => attempt_online m
  | POff => (false, m)
  end.

Definition srvmap := list (user * pw).     (* the server: account -> unix password *)

(* refresh_usertoken + unix_user_get, [old] = the row found in the cache db *)
Definition refresh (srv : srvmap) (m : mach) (u : user) (old : option entry) : option entry * mach :=
  let '(on, m1) := check_online m in
  if negb on then (old, m1)                                       (* UseCached *)
  else if negb (m_net m1) then (old, set_prov m1 PLater)          (* transport error: UseCached *)
  else match aget u srv with
       | Some _ =>                                                (* Update: extra_keys carried over *)
           let e := mkentry true (match old with Some o => e_cred o | None => None end) in
           (Some e, set_cache m1 (aput u e (m_cache m1)))
       | None =>                                                  (* NotFound: purge + nxcache *)
           (None, set_nx (set_cache m1 (adel u (m_cache m1)))
                         (if nmem u (m_nx m1) then m_nx m1 else u :: m_nx m1))
       end.

(* get_usertoken *)
Definition get_usertoken (srv : srvmap) (m : mach) (u : user) : option entry * mach :=
  if nmem u (m_nx m) then (None, m)
  else match aget u (m_cache m) with
       | Some e => if e_fresh e then (Some e, m) else refresh srv m u (Some e)
       | None => refresh srv m u None
       end.

Inductive res := RSome (b : bool) | RNone | RErr.     (* Result<Option<bool>, ()> *)
(* how a login was decided *)
Inductive event :=
| EvUnknown          (* no account record *)
| EvTransport        (* online step: transport error *)
| EvGone             (* online step: the server does not know the account *)
| EvOnlineOk         (* online step: the SERVER verified the password; credential sealed and cached *)
| EvOnlineDenied     (* online step: the server refused the password; cache untouched *)
| EvNoCred           (* offline, nothing cached *)
| EvOfflineOk        (* offline step: the cached credential verified *)
| EvOfflineDenied.

(* pam_account_authenticate(u, p) on machine m; [salt] = next fresh salt *)
Definition login (srv : srvmap) (salt : N) (m : mach) (u : user) (p : pw) : res * event * mach * N :=
  let '(tok, m1) := get_usertoken srv m u in
  match tok with
  | None =>
      let '(_, m2) := check_online_right_meow m1 in (RNone, EvUnknown, m2, salt)
  | Some e =>
      let '(on, m2) :=
        match e_cred e with
        | Some _ => (is_online m1, m1)               (* can proceed offline: do not force a check *)
        | None => check_online_right_meow m1
        end in
      if on then
        if negb (m_net m2) then (RErr, EvTransport, m2, salt)
        else match aget u srv with
             | None => (RNone, EvGone, m2, salt)
             | Some sp =>
                 if leqb p sp then
                   (RSome true, EvOnlineOk,
                    set_cache m2 (aput u (mkentry true (Some (seal (m_key m2) salt p))) (m_cache m2)),
                    salt + 1)
                 else (RSome false, EvOnlineDenied, m2, salt)
             end
      else
        match e_cred e with
        | None => (RErr, EvNoCred, m2, salt)
        | Some c =>
            if check_cached (m_key m2) (Some c) p then
              (RSome true, EvOfflineOk, set_cache m2 (aput u (mkentry true (Some c)) (m_cache m2)), salt)
            else (RSome false, EvOfflineDenied, m2, salt)
        end
  end.

Inductive op :=
| OSrvSet (u : user) (p : option pw)     (* server-side password change / account removal *)
| ONet (m : bool) (up : bool)
| OMarkOffline (m : bool)                (* Resolver::mark_offline *)
| ORecheck (m : bool)                    (* Resolver::mark_next_check_now *)
| OInvalidate (m : bool)                 (* Resolver::invalidate *)
| OSwap (u : user)                       (* TAMPER: u's cached credentials exchanged between the machines *)
| OSteal (m : bool) (u : user)           (* TAMPER: u's cached credential of the OTHER machine copied into m *)
| OLogin (m : bool) (u : user) (p : pw).

Record state := mkstate { s_m0 : mach; s_m1 : mach; s_srv : srvmap; s_salt : N }.
Definition sel (st : state) (m : bool) : mach := if m then s_m1 st else s_m0 st.
Definition upd (st : state) (m : bool) (x : mach) : state :=
  if m then mkstate (s_m0 st) x (s_srv st) (s_salt st) else mkstate x (s_m1 st) (s_srv st) (s_salt st).

Definition step (st : state) (o : op) : state * option (res * event) :=
  match o with
  | OSrvSet u (Some p) => (mkstate (s_m0 st) (s_m1 st) (aput u p (s_srv st)) (s_salt st), None)
  | OSrvSet u None => (mkstate (s_m0 st) (s_m1 st) (adel u (s_srv st)) (s_salt st), None)
  | ONet m b => (upd st m (set_net (sel st m) b), None)
  | OMarkOffline m => (upd st m (set_prov (sel st m) POff), None)
  | ORecheck m => (upd st m (set_prov (sel st m) PDue), None)
  | OInvalidate m =>
      let x := sel st m in
      (upd st m (set_nx (set_cache x (map (fun '(u, e) => (u, mkentry false (e_cred e))) (m_cache x))) []), None)
  | OSwap u =>
      match aget u (m_cache (s_m0 st)), aget u (m_cache (s_m1 st)) with
      | Some ea, Some eb =>
          (mkstate (set_cache (s_m0 st) (aput u (mkentry (e_fresh ea) (e_cred eb)) (m_cache (s_m0 st))))
                   (set_cache (s_m1 st) (aput u (mkentry (e_fresh eb) (e_cred ea)) (m_cache (s_m1 st))))
                   (s_srv st) (s_salt st), None)
      | _, _ => (st, None)
      end
  | OSteal m u =>
      match aget u (m_cache (sel st m)), aget u (m_cache (sel st (negb m))) with
      | Some em, Some eo =>
          (upd st m (set_cache (sel st m) (aput u (mkentry (e_fresh em) (e_cred eo)) (m_cache (sel st m)))), None)
      | _, _ => (st, None)
      end
  | OLogin m u p =>
      let '(r, ev, x, salt') := login (s_srv st) (s_salt st) (sel st m) u p in
      let st1 := upd st m x in
      (mkstate (s_m0 st1) (s_m1 st1) (s_srv st1) salt', Some (r, ev))
  end.

(* what the harness records after every op *)
Record obs := mkobs {
  o_res : option res;
  o_on0 : bool; o_on1 : bool;                       (* IdProvider::is_online of machine 0 / 1 *)
  o_slots : list (option (bool * option N)) }.      (* rows (not expired?, credential id) of
                                                       m0/user0, m0/user1, m1/user0, m1/user1 *)
Definition users : list user := [0; 1].
Definition dump_m (m : mach) : list (option (bool * option N)) :=
  map (fun u => match aget u (m_cache m) with
                | None => None
                | Some e => Some (e_fresh e, option_map c_salt (e_cred e))
                end) users.
Definition observe (st : state) (r : option res) : obs :=
  mkobs r (is_online (s_m0 st)) (is_online (s_m1 st)) (dump_m (s_m0 st) ++ dump_m (s_m1 st)).

Fixpoint run (st : state) (ops : list op) : list obs :=
  match ops with
  | [] => []
  | o :: r => let '(st', x) := step st o in
              observe st' (option_map fst x) :: run st' r
  end.

Definition init_k (k0 k1 : N) : state :=
  mkstate (mkmach k0 PDue true [] []) (mkmach k1 PDue true [] []) [] 0.

(* the HMAC key of machine m when machine 0 / 1 carry k0 / k1 *)
Definition keyof (k0 k1 : N) (m : bool) : N := if m then k1 else k0.

(* ------------------------------------------------------------------ ghost bookkeeping (theorems only) *)
(* g_ver: the log of ONLINE verifications (machine, user, password), newest first;
   g_dirty: the cache slots written by a tamper op since their last online verification *)
Record ghost := mkghost { g_ver : list (bool * user * pw); g_dirty : list (bool * user) }.
Definition same_slot (m : bool) (u : user) (x : bool * user) : bool := Bool.eqb m (fst x) && (u =? snd x).
Definition is_dirty (g : ghost) (m : bool) (u : user) : bool := existsb (same_slot m u) (g_dirty g).
Fixpoint lastv (ver : list (bool * user * pw)) (m : bool) (u : user) : option pw :=
  match ver with
  | [] => None
  | (m', u', p) :: r => if Bool.eqb m m' && (u =? u') then Some p else lastv r m u
  end.
Definition gstep (g : ghost) (o : op) (x : option (res * event)) : ghost :=
  match o, x with
  | OLogin m u p, Some (_, EvOnlineOk) =>
      mkghost ((m, u, p) :: g_ver g) (filter (fun y => negb (same_slot m u y)) (g_dirty g))
  | OSwap u, _ => mkghost (g_ver g) ((false, u) :: (true, u) :: g_dirty g)
  | OSteal m u, _ => mkghost (g_ver g) ((m, u) :: g_dirty g)
  | _, _ => g
  end.
Definition gstep_full (sg : state * ghost) (o : op) : state * ghost :=
  let '(st', x) := step (fst sg) o in (st', gstep (snd sg) o x).
Definition reach (k0 k1 : N) (ops : list op) : state * ghost :=
  fold_left gstep_full ops (init_k k0 k1, mkghost [] []).

(* the decision of the offline path for (machine, user, password) in a state *)
Definition offline_accepts (st : state) (m : bool) (u : user) (p : pw) : bool :=
  check_cached (m_key (sel st m)) (cred_of (sel st m) u) p.

End Crypto.

(* ------------------------------------------------------------------ the symbolic instance *)
Definition ideal_kdf (salt : N) (p : pw) : list N := salt :: p.
Definition ideal_hmac (k : N) (d : list N) : list N := k :: d.

(* ================================================================== the property, stated independently *)
(* ---- function level: what each token's cache slot holds, symbolically *)
Inductive content := CtSealed (k : N) (p : pw) | CtPlain (p : pw) | CtJunk.
Definition content_accepts (c : option content) (k : N) (p : pw) : bool :=
  match c with
  | Some (CtSealed k' p') => (k =? k') && leqb p p' && negb (too_long p)
  | Some (CtPlain p') => leqb p p' && negb (too_long p)
  | _ => false
  end.
Definition fspec_step (sp : list (N * content)) (o : fop) : list (N * content) * option bool :=
  match o with
  | FSeal s k p => (aput s (CtSealed k p) sp, None)
  | FPlant s p => (aput s (CtPlain p) sp, None)
  | FJunk s => (aput s CtJunk sp, None)
  | FMove s d => (match aget s sp with Some c => aput d c sp | None => adel d sp end, None)
  | FClear s => (adel s sp, None)
  | FHas s => (sp, Some (match aget s sp with Some _ => true | None => false end))
  | FCheck s k p => (sp, Some (content_accepts (aget s sp) k p))
  end.
Fixpoint fspec_run (sp : list (N * content)) (ops : list fop) : list bool :=
  match ops with
  | [] => []
  | o :: r => let '(sp', ob) := fspec_step sp o in
              match ob with Some b => b :: fspec_run sp' r | None => fspec_run sp' r end
  end.

(* ---- resolver level: a checker over the ops and the IMPLEMENTATION's observations that knows
   nothing about providers, caches or sealing.  It keeps: the server's passwords and each
   machine's network (from the ops); the log of logins that were accepted while the server was
   reachable and would verify that password (= online verifications, as far as an observer can
   tell); which slots were tampered with since; and, from the dumps, on which machine every
   credential id first appeared. *)
Record pst := mkpst {
  p_srv : srvmap; p_net0 : bool; p_net1 : bool;
  p_ver : list (bool * user * pw); p_dirty : list (bool * user);
  p_origin : list (N * bool);
  p_prev : list (option (bool * option N)) }.
Definition slot_idx (m : bool) (u : user) : N := (if m then 2 else 0) + u.
Definition slot_at (sl : list (option (bool * option N))) (i : N) : option (bool * option N) :=
  nth (N.to_nat i) sl None.
Definition pw_opt_eqb (a : option pw) (b : pw) : bool := match a with Some x => leqb x b | None => false end.
Definition ver_mem (ver : list (bool * user * pw)) (m : bool) (u : user) (p : pw) : bool :=
  existsb (fun '(m', u', p') => Bool.eqb m m' && (u =? u') && leqb p p') ver.
Fixpoint index_from {A} (i : N) (l : list A) : list (N * A) :=
  match l with [] => [] | x :: r => (i, x) :: index_from (N.succ i) r end.
(* (slot index, credential id) of the credentials in a dump that are not yet in [origin] *)
Definition new_creds (origin : list (N * bool)) (sl : list (option (bool * option N))) : list (N * N) :=
  flat_map (fun '(i, s) => match s with
                           | Some (_, Some cid) => match aget cid origin with None => [(i, cid)] | Some _ => [] end
                           | _ => []
                           end) (index_from 0 sl).

Definition pstep (ps : pst) (o : op) (ob : obs) : pst * bool :=
  let srv' := match o with OSrvSet u (Some p) => aput u p (p_srv ps) | OSrvSet u None => adel u (p_srv ps) | _ => p_srv ps end in
  let net0' := match o with ONet false b => b | _ => p_net0 ps end in
  let net1' := match o with ONet true b => b | _ => p_net1 ps end in
  let dirty1 := match o with
                | OSwap u => (false, u) :: (true, u) :: p_dirty ps
                | OSteal m u => (m, u) :: p_dirty ps
                | _ => p_dirty ps
                end in
  (* the login (if any), whether it was accepted, whether the server would verify it right now *)
  let lg := match o with OLogin m u p => Some (m, u, p) | _ => None end in
  let accepted := match o_res ob with Some (RSome true) => true | _ => false end in
  let srv_ok := match lg with
                | Some (m, u, p) => (if m then net1' else net0') && pw_opt_eqb (aget u srv') p
                | None => false
                end in
  let shape_ok := match lg, o_res ob with Some _, Some _ => true | None, None => true | _, _ => false end in
  (* accepted without the server => verified online here before, the most recent one unless the
     slot was tampered with, and the cached credential in place was minted on THIS machine *)
  let login_ok :=
    match lg with
    | Some (m, u, p) =>
        if accepted && negb srv_ok then
          ver_mem (p_ver ps) m u p
          && (existsb (same_slot m u) (p_dirty ps) || pw_opt_eqb (lastv (p_ver ps) m u) p)
          && match slot_at (p_prev ps) (slot_idx m u) with
             | Some (_, Some cid) => match aget cid (p_origin ps) with Some m' => Bool.eqb m m' | None => false end
             | _ => false
             end
        else true
    | None => true
    end in
  (* credentials are minted only by an accepted, server-verifiable login, in that login's slot *)
  let fresh := new_creds (p_origin ps) (o_slots ob) in
  let mint_ok :=
    forallb (fun '(i, _) => match lg with
                            | Some (m, u, _) => accepted && srv_ok && (i =? slot_idx m u)
                            | None => false
                            end) fresh in
  let origin' := p_origin ps ++ map (fun '(i, cid) => (cid, 2 <=? i)) fresh in
  let '(ver', dirty') :=
    match lg with
    | Some (m, u, p) =>
        if accepted && srv_ok then ((m, u, p) :: p_ver ps, filter (fun y => negb (same_slot m u y)) dirty1)
        else (p_ver ps, dirty1)
    | None => (p_ver ps, dirty1)
    end in
  (mkpst srv' net0' net1' ver' dirty' origin' (o_slots ob), shape_ok && login_ok && mint_ok).

Fixpoint prun (ps : pst) (ops : list op) (obl : list obs) : bool :=
  match ops, obl with
  | [], [] => true
  | o :: r, ob :: rb => let '(ps', ok) := pstep ps o ob in ok && prun ps' r rb
  | _, _ => false
  end.
Definition pinit : pst := mkpst [] true true [] [] [] [None; None; None; None].

(* ------------------------------------------------------------------ correspondence *)
Fixpoint blist_eqb (a b : list bool) : bool :=
  match a, b with
  | [], [] => true
  | x :: a', y :: b' => Bool.eqb x y && blist_eqb a' b'
  | _, _ => false
  end.
Definition res_eqb (a b : res) : bool :=
  match a, b with
  | RSome x, RSome y => Bool.eqb x y
  | RNone, RNone => true
  | RErr, RErr => true
  | _, _ => false
  end.
Definition opt_eqb {A} (f : A -> A -> bool) (a b : option A) : bool :=
  match a, b with Some x, Some y => f x y | None, None => true | _, _ => false end.
Definition slot_eqb (a b : option (bool * option N)) : bool :=
  opt_eqb (fun x y => Bool.eqb (fst x) (fst y) && opt_eqb N.eqb (snd x) (snd y)) a b.
Fixpoint list_eqb {A} (f : A -> A -> bool) (a b : list A) : bool :=
  match a, b with
  | [], [] => true
  | x :: a', y :: b' => f x y && list_eqb f a' b'
  | _, _ => false
  end.
Definition obs_eqb (a b : obs) : bool :=
  opt_eqb res_eqb (o_res a) (o_res b) && Bool.eqb (o_on0 a) (o_on0 b) && Bool.eqb (o_on1 a) (o_on1 b)
  && list_eqb slot_eqb (o_slots a) (o_slots b).

Inductive case :=
| CFn (ops : list fop) (impl : list bool)
| CRes (ops : list op) (impl : list obs).

(* the two machines of a resolver case carry the keys 0 and 1 *)
Definition agree (c : case) : bool :=
  match c with
  | CFn ops impl => blist_eqb (frun ideal_kdf ideal_hmac ([], 0) ops) impl
  | CRes ops impl => list_eqb obs_eqb (run ideal_kdf ideal_hmac (init_k 0 1) ops) impl
  end.
Definition pcheck (c : case) : bool :=
  match c with
  | CFn ops impl => blist_eqb (fspec_run [] ops) impl
  | CRes ops impl => prun pinit ops impl
  end.
Definition known (_ : case) : bool := false.
