(* KV.C14.Model — replication wire framing (server/core/src/repl/codec.rs):
   encode_length_checked_json (:83), decode_length_checked_json (:133) transcribed branch by
   branch, and the tokio_util FramedRead poll loop (framed_impl.rs poll_next, Decoder::decode_eof)
   that drives the decoder on a connection. Executable definitions only. *)
From Coq Require Import List NArith Bool.
Import ListNotations.
Open Scope N_scope.

Definition bytes := list N.
Definition len {A} (l : list A) : N := N.of_nat (length l).

(* u64::to_be_bytes: the k low-order bytes of n, most significant first *)
Fixpoint be_bytes (k : nat) (n : N) : bytes :=
  match k with
  | O => []
  | S k' => be_bytes k' (n / 256) ++ [n mod 256]
  end.
Definition be64 (n : N) : bytes := be_bytes 8 n.
(* u64::from_be_bytes *)
Definition from_be (b : bytes) : N := fold_left (fun a x => a * 256 + x) b 0.

(* io::Error values the codec / Framed produce *)
Inductive ekind :=
| EEmpty        (* InvalidInput "empty request" *)
| ETooLarge     (* OutOfMemory "request too large" *)
| EBadJson      (* InvalidInput "JSON decode error" *)
| ERemaining    (* Other "bytes remaining on stream" (Decoder::decode_eof) *)
| EOther.       (* anything else incl. a panic: never produced by the model *)

Section Codec.
  Variable M : Type.                   (* the message type (ConsumerRequest / SupplierResponse) *)
  Variable ser : M -> bytes.           (* serde_json::to_writer *)
  Variable de : bytes -> option M.     (* serde_json::from_slice *)
  Variable max : N.                    (* max_frame_bytes *)

  (* ---- encode_length_checked_json: appends one frame to dst.
     work = 8 zero bytes, json appended behind it, then the zero bytes are overwritten by the
     big-endian length; the "buffer length error" comparison is transcribed (it is dead). *)
  Definition encode (m : M) (dst : bytes) : option bytes :=
    let work := be64 0 in
    let json_buf := ser m in
    let final_len_bytes := be64 (len json_buf) in
    if negb (len final_len_bytes =? len work) then None
    else Some (dst ++ final_len_bytes ++ json_buf).

  Fixpoint encode_all (ms : list M) (dst : bytes) : option bytes :=
    match ms with
    | [] => Some dst
    | m :: r => match encode m dst with Some d => encode_all r d | None => None end
    end.

  (* ---- decode_length_checked_json: result and the buffer afterwards *)
  Inductive dres := DNeed | DErr (e : ekind) | DMsg (m : M).

  Definition decode (src : bytes) : dres * bytes :=
    if len src <? 8 then (DNeed, src) else
    let src_len_bytes := firstn 8 src in
    let json_bytes := skipn 8 src in
    let req_len := from_be src_len_bytes in
    if req_len =? 0 then (DErr EEmpty, src) else
    if max <? req_len then (DErr ETooLarge, src) else
    if len json_bytes <? req_len then (DNeed, src) else
    let payload := firstn (N.to_nat req_len) json_bytes in
    let res := match de payload with Some m => DMsg m | None => DErr EBadJson end in
    (* "Trim to length": the comparison is src.len() == req_len exactly as written *)
    let src' := if len src =? req_len then [] else skipn (N.to_nat (8 + req_len)) src in
    (res, src').

  (* ---- FramedRead: after each read, call decode until it says "need more" or fails *)
  Inductive status := Cont (buf : bytes) | Stop | OutOfFuel.
  Definition tr_entry := (dres * N)%type.      (* result of one decode call, buffer length after it *)

  Fixpoint drain (fuel : nat) (buf : bytes) : list tr_entry * status :=
    match fuel with
    | O => ([], OutOfFuel)
    | S f =>
      let '(r, b') := decode buf in
      match r with
      | DNeed => ([(r, len b')], Cont b')
      | DErr _ => ([(r, len b')], Stop)
      | DMsg _ => let '(tr, s) := drain f b' in ((r, len b') :: tr, s)
      end
    end.
  Definition drain_all (buf : bytes) := drain (S (length buf)) buf.

  Fixpoint feed (buf : bytes) (chunks : list bytes) : list (list tr_entry) * status :=
    match chunks with
    | [] => ([], Cont buf)
    | c :: cs =>
      match drain_all (buf ++ c) with
      | (tr, Cont b') => let '(trs, s) := feed b' cs in (tr :: trs, s)
      | (tr, s) => ([tr], s)
      end
    end.

  (* what the application sees *)
  Inductive item := IMsg (m : M) | IErr (e : ekind).
  Definition item_of (e : tr_entry) : list item :=
    match fst e with DNeed => [] | DErr k => [IErr k] | DMsg m => [IMsg m] end.
  Definition items_of (tr : list tr_entry) : list item := flat_map item_of tr.

  (* read returned 0: Decoder::decode_eof is called while it yields frames *)
  Fixpoint drain_eof (fuel : nat) (buf : bytes) : list item :=
    match fuel with
    | O => []
    | S f =>
      let '(r, b') := decode buf in
      match r with
      | DNeed => match b' with [] => [] | _ => [IErr ERemaining] end
      | DErr k => [IErr k]
      | DMsg m => IMsg m :: drain_eof f b'
      end
    end.

  (* the Stream of a FramedRead whose reads return exactly [chunks] (then EOF if [eof]) *)
  Definition framed (chunks : list bytes) (eof : bool) : list item :=
    let '(trs, s) := feed [] chunks in
    items_of (concat trs) ++
    match s with
    | Cont b => if eof then drain_eof (S (length b)) b else []
    | _ => []
    end.

  (* ------------------------------------------------------------ declarative side (spec) *)
  Definition frame (m : M) : bytes := be64 (len (ser m)) ++ ser m.
  Definition wire (ms : list M) : bytes := concat (map frame ms).
  Definition valid (m : M) : Prop := 0 < len (ser m) /\ len (ser m) <= max /\ len (ser m) < 2 ^ 64.
  Definition validb (m : M) : bool := (0 <? len (ser m)) && (len (ser m) <=? max) && (len (ser m) <? 2 ^ 64).

  (* the 8 byte header read as a number, and what follows it *)
  Definition hdr (s : bytes) : option (N * bytes) :=
    match s with
    | a :: b :: c :: d :: e :: f :: g :: h :: body =>
      Some (((((((a * 256 + b) * 256 + c) * 256 + d) * 256 + e) * 256 + f) * 256 + g) * 256 + h, body)
    | _ => None
    end.

  (* the whole byte stream read as  frame* : the messages, then either the unconsumed tail
     (an incomplete frame, possibly empty) or nothing when a frame was rejected *)
  Fixpoint parse (fuel : nat) (s : bytes) : list item * option bytes :=
    match fuel with
    | O => ([], Some s)
    | S f =>
      match hdr s with
      | None => ([], Some s)
      | Some (n, body) =>
        if n =? 0 then ([IErr EEmpty], None)
        else if max <? n then ([IErr ETooLarge], None)
        else if len body <? n then ([], Some s)
        else match de (firstn (N.to_nat n) body) with
             | Some m => let '(is, t) := parse f (skipn (N.to_nat n) body) in (IMsg m :: is, t)
             | None => ([IErr EBadJson], None)
             end
      end
    end.
  Definition spec_stream (s : bytes) (eof : bool) : list item * option bytes :=
    let '(is, t) := parse (S (length s)) s in
    match t with
    | Some (_ :: _) => if eof then (is ++ [IErr ERemaining], t) else (is, t)
    | _ => (is, t)
    end.
End Codec.

Arguments DNeed {M}. Arguments DErr {M} e. Arguments DMsg {M} m.
Arguments IMsg {M} m. Arguments IErr {M} e.

(* ------------------------------------------------------------------ correspondence cases *)
(* generic boolean equalities *)
Fixpoint list_eqb {A} (eqb : A -> A -> bool) (a b : list A) : bool :=
  match a, b with
  | [], [] => true
  | x :: a', y :: b' => eqb x y && list_eqb eqb a' b'
  | _, _ => false
  end.
Definition bytes_eqb := list_eqb N.eqb.
Definition opt_eqb {A} (eqb : A -> A -> bool) (a b : option A) : bool :=
  match a, b with Some x, Some y => eqb x y | None, None => true | _, _ => false end.
Definition ekind_eqb (a b : ekind) : bool :=
  match a, b with
  | EEmpty, EEmpty | ETooLarge, ETooLarge | EBadJson, EBadJson | ERemaining, ERemaining | EOther, EOther => true
  | _, _ => false
  end.

(* The JSON layer is an oracle filled in by the harness with the REAL serde_json on the real
   message type: payload bytes -> Some id (parses to the message interned as id) | None (rejected).
   A payload missing from the table decodes to the message [None], which the implementation
   can never report, so a model that frames differently from the code always disagrees. *)
Definition jtab := list (bytes * option N).
Fixpoint jlookup (p : bytes) (t : jtab) : option (option N) :=
  match t with
  | [] => None
  | (q, r) :: t' => if bytes_eqb p q then Some r else jlookup p t'
  end.
Definition msg := option N.
Definition de_case (t : jtab) (p : bytes) : option msg :=
  match jlookup p t with
  | Some (Some id) => Some (Some id)
  | Some None => None
  | None => Some None
  end.
(* canonical serialisation of message id: the first table row that parses to it *)
Fixpoint ser_id (t : jtab) (id : N) : bytes :=
  match t with
  | [] => []
  | (q, Some i) :: t' => if i =? id then q else ser_id t' id
  | _ :: t' => ser_id t' id
  end.
Definition ser_case (t : jtab) (m : msg) : bytes :=
  match m with Some id => ser_id t id | None => [] end.

(* the reads: consecutive chunk lengths; whatever is left is the last read *)
Fixpoint split_cuts (cuts : list N) (s : bytes) : list bytes :=
  match cuts with
  | [] => match s with [] => [] | _ => [s] end
  | c :: cs => firstn (N.to_nat c) s :: split_cuts cs (skipn (N.to_nat c) s)
  end.

(* implementation observations *)
Inductive robs := RNeed | RErr (e : ekind) | RMsg (id : N).
Inductive iobs := OMsg (id : N) | OErr (e : ekind).

Inductive case :=
| CStream (max : N) (jt : jtab)
          (msgs : list N)          (* ids of the messages given to the real Encoder, in order *)
          (enc : option bytes)     (* the bytes it produced (None: it returned an error) *)
          (extra : bytes)          (* raw bytes written after them (hand-made frames, junk, truncation) *)
          (cuts : list N)          (* read sizes *)
          (eof : bool)             (* does the FramedRead run end with EOF *)
          (trace : list (list (robs * N)))  (* direct run: per read, each decode call's result and buffer length after *)
          (rest : bytes)           (* direct run: buffer content at the end *)
          (fr : list iobs).        (* items yielded by the real tokio_util FramedRead over the same reads *)

Definition robs_of (d : dres msg) : robs :=
  match d with
  | DNeed => RNeed
  | DErr e => RErr e
  | DMsg (Some id) => RMsg id
  | DMsg None => RErr EOther   (* oracle miss *)
  end.
Definition iobs_of (i : item msg) : iobs :=
  match i with
  | IMsg (Some id) => OMsg id
  | IMsg None => OErr EOther
  | IErr e => OErr e
  end.
Definition robs_eqb (a b : robs) : bool :=
  match a, b with
  | RNeed, RNeed => true
  | RErr x, RErr y => ekind_eqb x y
  | RMsg x, RMsg y => x =? y
  | _, _ => false
  end.
Definition iobs_eqb (a b : iobs) : bool :=
  match a, b with
  | OMsg x, OMsg y => x =? y
  | OErr x, OErr y => ekind_eqb x y
  | _, _ => false
  end.
Definition entry_eqb (a b : robs * N) : bool := robs_eqb (fst a) (fst b) && (snd a =? snd b).
Definition obs_trace (trs : list (list (tr_entry msg))) : list (list (robs * N)) :=
  map (map (fun e => (robs_of (fst e), snd e))) trs.

Definition model_enc (jt : jtab) (msgs : list N) : option bytes :=
  encode_all msg (ser_case jt) (map Some msgs) [].
Definition stream_of (enc : option bytes) (extra : bytes) : bytes :=
  match enc with Some e => e ++ extra | None => extra end.
Definition model_rest (s : status) : bytes := match s with Cont b => b | _ => [] end.

(* after a failed decode the harness keeps the buffer as the codec left it; the model's [Stop]
   does not carry it, so [rest] is compared only when the run did not stop on an error *)
Definition stopped (s : status) : bool := match s with Cont _ => false | _ => true end.

(* sanity of the case encoding itself (a case failing it counts as a disagreement): payloads are
   shorter than 2^64 bytes, and the real serde_json read back every message that was sent as
   the same message (serde's own round trip, checked per case instead of assumed) *)
Definition wf_case (jt : jtab) (msgs : list N) : bool :=
  forallb (fun row => len (fst row) <? 2 ^ 64) jt
  && forallb (fun id => opt_eqb (opt_eqb N.eqb) (de_case jt (ser_id jt id)) (Some (Some id))) msgs.

Definition agree (c : case) : bool :=
  match c with
  | CStream max jt msgs enc extra cuts eof trace rest fr =>
    wf_case jt msgs &&
    let menc := model_enc jt msgs in
    let chunks := split_cuts cuts (stream_of enc extra) in
    let '(trs, s) := feed msg (de_case jt) max [] chunks in
    opt_eqb bytes_eqb menc enc
    && list_eqb (list_eqb entry_eqb) (obs_trace trs) trace
    && (stopped s || bytes_eqb (model_rest s) rest)
    && list_eqb iobs_eqb (map iobs_of (framed msg (de_case jt) max chunks eof)) fr
  end.

(* ---- the property, evaluated on the IMPLEMENTATION's outputs only *)
Definition tr_items (trace : list (list (robs * N))) : list iobs :=
  flat_map (fun e => match fst e with RNeed => [] | RErr k => [OErr k] | RMsg id => [OMsg id] end) (concat trace).
Definition need_bounded (max : N) (e : robs * N) : bool :=
  match fst e with RNeed => snd e <? 8 + max | _ => true end.
(* enc is exactly the frames of msgs: each header reads as the payload length, followed by the payload *)
Fixpoint is_frames (jt : jtab) (msgs : list N) (e : bytes) : bool :=
  match msgs with
  | [] => match e with [] => true | _ => false end
  | id :: r =>
    let p := ser_id jt id in
    match hdr e with
    | Some (n, body) =>
      (n =? len p) && bytes_eqb (firstn (N.to_nat n) body) p && (len p <=? len body)
      && is_frames jt r (skipn (N.to_nat n) body)
    | None => false
    end
  end.
Definition has_err (l : list iobs) : bool := existsb (fun i => match i with OErr _ => true | _ => false end) l.

Definition pcheck (c : case) : bool :=
  match c with
  | CStream max jt msgs enc extra cuts eof trace rest fr =>
    match enc with
    | None => false                                     (* the encoder never fails on these messages *)
    | Some e =>
      let s := e ++ extra in
      let '(sis, st) := spec_stream msg (de_case jt) max s false in
      let '(sise, _) := spec_stream msg (de_case jt) max s eof in
      (* P1 encoder: length-prefixed frames, in order, nothing else *)
      is_frames jt msgs e
      (* P2 the statement itself: in-limit messages and nothing else written => exactly these
            messages in this order, whatever the reads were, nothing left over, no error at EOF *)
      && (if match extra with [] => true | _ => false end
             && forallb (fun id => validb msg (ser_case jt) max (Some id)) msgs
          then list_eqb iobs_eqb (tr_items trace) (map OMsg msgs)
               && list_eqb iobs_eqb fr (map OMsg msgs)
               && match rest with [] => true | _ => false end
          else true)
      (* P3 any byte stream: what is delivered (messages, then possibly one rejection) depends on
            the concatenated bytes only and is what the grammar frame* says; empty and oversize
            headers are rejected *)
      && list_eqb iobs_eqb (tr_items trace) (map iobs_of sis)
      && list_eqb iobs_eqb fr (map iobs_of sise)
      && match st with Some t => bytes_eqb t rest | None => true end
      (* P4 never buffers more than one frame: whenever the codec asks for more data it holds
            fewer than 8 + max bytes *)
      && forallb (need_bounded max) (concat trace)
    end
  end.

Definition known (_ : case) : bool := false.
