(* KV.C14.Props — property theorems only.
   C14: any sequence of replication requests / responses written to a connection is decoded as
   the same sequence in the same order no matter how the bytes are split across reads, and a frame
   that is empty or larger than the configured limit is rejected rather than buffered or misparsed.

   M is the message type, ser / de stand for serde_json::to_writer / from_slice on it; the only
   thing assumed of them is serde's own round trip  de (ser m) = Some m  (an explicit premise).
   Payload lengths are below 2^64 (a usize), which is part of [valid]. *)
From Coq Require Import List NArith Bool Lia.
Import ListNotations.
Require Import KV.C14.Model KV.C14.Proofs.
Open Scope N_scope.

(* the length header is a faithful 8 byte big-endian number *)
Theorem C14_be64_roundtrip : forall n, n < 2 ^ 64 ->
  from_be (be64 n) = n /\ length (be64 n) = 8%nat /\ (forall x, In x (be64 n) -> x < 256).
Proof.
  intros n H. split; [apply from_be_be64; exact H|]. split; [apply length_be64|].
  intros x. apply be_bytes_lt.
Qed.

(* the encoder never fails and appends exactly  length ++ json  behind whatever is already queued;
   a sequence of sends leaves exactly the concatenation of the frames, in order *)
Theorem C14_encoder_writes_frames : forall M (ser : M -> bytes) ms dst,
  encode_all M ser ms dst = Some (dst ++ concat (map (fun m => be64 (len (ser m)) ++ ser m) ms)).
Proof. intros M ser ms dst. apply encode_all_wire. Qed.

(* decode_length_checked_json, arm by arm, is this table (in particular the "trim to length" arm
   whose comparison is src.len() == req_len can never be taken and changes nothing) *)
Theorem C14_decode_table : forall M de max src,
  decode M de max src =
  match hdr src with
  | None => (DNeed, src)
  | Some (n, body) =>
    if n =? 0 then (DErr EEmpty, src)
    else if max <? n then (DErr ETooLarge, src)
    else if len body <? n then (DNeed, src)
    else (match de (firstn (N.to_nat n) body) with Some m => DMsg m | None => DErr EBadJson end,
          skipn (N.to_nat n) body)
  end.
Proof. intros M de max src. apply decode_is_clean. Qed.

(* nothing is misparsed: a delivered message is serde's reading of exactly the announced bytes,
   whose count is within 1..max, and the buffer keeps exactly what followed them *)
Theorem C14_delivered_is_announced : forall M de max src m r,
  decode M de max src = (DMsg m, r) ->
  exists n p, hdr src = Some (n, p ++ r) /\ len p = n /\ 0 < n /\ n <= max /\ de p = Some m.
Proof. exact decode_msg_inv. Qed.

(* THE PROPERTY, first half. For every message type, every list of in-limit messages and EVERY
   way of cutting the bytes the encoder produced into reads (any number of reads, empty reads
   included), the FramedRead stream yields exactly these messages in this order, with no error
   (also when the connection then closes), the direct decode loop yields the same, and nothing
   is left in the buffer. *)
Theorem C14_any_split : forall M (ser : M -> bytes) (de : bytes -> option M) max,
  (forall m, de (ser m) = Some m) ->
  forall msgs enc chunks eof,
  Forall (valid M ser max) msgs ->
  encode_all M ser msgs [] = Some enc ->
  concat chunks = enc ->
  framed M de max chunks eof = map IMsg msgs
  /\ items_of M (concat (fst (feed M de max [] chunks))) = map IMsg msgs
  /\ snd (feed M de max [] chunks) = Cont [].
Proof.
  intros M ser de max Hrt msgs enc chunks eof Hv He Hc.
  rewrite encode_all_wire in He. injection He as <-. cbn [app] in Hc.
  apply (any_split M de max ser msgs chunks eof); [|exact Hc].
  apply Forall_forall. intros m Hm. split; [|apply Hrt].
  rewrite Forall_forall in Hv. apply Hv. exact Hm.
Qed.

(* Fragmentation never matters, for ARBITRARY bytes (valid, hostile or truncated): what a
   FramedRead yields is a function of the concatenated bytes only, namely what the grammar
   frame* says: the messages up to the first rejected frame / the incomplete tail. *)
Theorem C14_stream_is_grammar : forall M de max chunks eof,
  framed M de max chunks eof = fst (spec_stream M de max (concat chunks) eof).
Proof. exact framed_is_spec. Qed.

Theorem C14_fragmentation_irrelevant : forall M de max chunks1 chunks2 eof,
  concat chunks1 = concat chunks2 ->
  framed M de max chunks1 eof = framed M de max chunks2 eof.
Proof. intros M de max c1 c2 eof H. rewrite !framed_is_spec, H. reflexivity. Qed.

(* THE PROPERTY, second half. After any in-limit messages, a frame whose header announces 0 bytes
   or more than max bytes is rejected: whatever follows it and however the bytes are split, the
   stream yields the earlier messages, then the error, and stops. *)
Theorem C14_reject_empty_or_oversize : forall M (ser : M -> bytes) (de : bytes -> option M) max,
  (forall m, de (ser m) = Some m) ->
  forall msgs n junk chunks eof,
  Forall (valid M ser max) msgs -> n < 2 ^ 64 ->
  concat chunks = wire M ser msgs ++ be64 n ++ junk ->
  (n = 0 -> framed M de max chunks eof = map IMsg msgs ++ [IErr EEmpty]
            /\ snd (feed M de max [] chunks) = Stop)
  /\ (max < n -> framed M de max chunks eof = map IMsg msgs ++ [IErr ETooLarge]
                 /\ snd (feed M de max [] chunks) = Stop).
Proof.
  intros M ser de max Hrt msgs n junk chunks eof Hv H64 Hc.
  assert (G : Forall (good M de max ser) msgs).
  { apply Forall_forall. intros m Hm. split; [|apply Hrt]. rewrite Forall_forall in Hv. apply Hv. exact Hm. }
  split; intros Hn.
  - apply (reject_after M de max ser msgs n junk EEmpty chunks eof G H64); [|exact Hc].
    unfold bad_len. subst n. reflexivity.
  - apply (reject_after M de max ser msgs n junk ETooLarge chunks eof G H64); [|exact Hc].
    unfold bad_len. destruct (n =? 0) eqn:E0; [apply N.eqb_eq in E0; lia|].
    apply N.ltb_lt in Hn. rewrite Hn. reflexivity.
Qed.

(* ... and it is rejected on the header alone: the body need not (and for an oversize frame must
   not) be awaited — the decision is taken with nothing but the 8 header bytes in the buffer *)
Theorem C14_rejected_on_header_alone : forall M de max n, n < 2 ^ 64 ->
  (n = 0 -> forall junk, decode M de max (be64 n ++ junk) = (DErr EEmpty, be64 n ++ junk)) /\
  (max < n -> forall junk, decode M de max (be64 n ++ junk) = (DErr ETooLarge, be64 n ++ junk)).
Proof.
  intros M de max n H64. split; intros Hn junk; destruct (decode_bad_header M de max n junk H64) as [A B];
    [apply A | apply B]; exact Hn.
Qed.

(* "rather than buffered": whatever bytes arrive in whatever reads, whenever the codec waits for
   more data it retains fewer than 8 + max bytes (an incomplete header, or a header announcing
   at most max bytes plus an incomplete body); and the loop model never runs out of fuel *)
Theorem C14_retained_bounded : forall M de max chunks,
  (forall b, snd (feed M de max [] chunks) = Cont b -> len b < 8 + max)
  /\ (forall n, In (DNeed, n) (concat (fst (feed M de max [] chunks))) -> n < 8 + max)
  /\ snd (feed M de max [] chunks) <> OutOfFuel.
Proof.
  intros M de max chunks. split; [|split].
  - intros b H. apply (feed_rest_bounded M de max chunks [] b); [|exact H]. unfold len. cbn. lia.
  - intros n. apply feed_need_bounded.
  - apply feed_no_oof.
Qed.

(* every error the decoder reports is one of exactly three situations *)
Theorem C14_error_cases : forall M de max src e r,
  decode M de max src = (DErr e, r) ->
  exists n body, hdr src = Some (n, body) /\
    ((e = EEmpty /\ n = 0 /\ r = src) \/ (e = ETooLarge /\ max < n /\ r = src) \/
     (e = EBadJson /\ 0 < n /\ n <= max /\ n <= len body /\ de (firstn (N.to_nat n) body) = None
      /\ r = skipn (N.to_nat n) body)).
Proof. exact decode_err_inv. Qed.

(* bridge: on every recorded case where the model reproduces the implementation's observations,
   the property's executable predicate holds of the implementation's observations *)
Theorem C14_agree_implies_property : forall c, agree c = true -> pcheck c = true.
Proof. exact agree_implies_pcheck. Qed.
