(* KV.C14.Witness — non-vacuity: concrete non-trivial values meet the hypotheses of the
   implication theorems, and the executable predicate is not trivially true. *)
From Coq Require Import List NArith Bool.
Import ListNotations.
Require Import KV.C14.Model.
Open Scope N_scope.

(* a toy serde with the round-trip property: messages are their own JSON *)
Definition wser (m : bytes) : bytes := m.
Definition wde (p : bytes) : option bytes := Some p.

Ltac all_valid :=
  repeat (apply Forall_cons || apply Forall_nil); (split; [|split]); vm_compute; (reflexivity || discriminate).

Example C14_witness_serde_roundtrip : forall m, wde (wser m) = Some m.
Proof. reflexivity. Qed.

(* hypotheses of C14_any_split: two messages (one of them exactly max = 4 bytes long), five reads
   that cut the first header, contain an empty read, and cut the second header *)
Example C14_witness_any_split :
  let msgs := [[34; 80; 34]; [1; 2; 3; 4]] in
  let chunks := [[0; 0; 0]; [0; 0; 0; 0; 3; 34]; []; [80; 34; 0; 0; 0; 0; 0; 0; 0]; [4; 1; 2; 3; 4]] in
  Forall (valid bytes wser 4) msgs
  /\ encode_all bytes wser msgs [] = Some (concat chunks)
  /\ framed bytes wde 4 chunks true = map IMsg msgs
  /\ feed bytes wde 4 [] chunks =
     ([[(DNeed, 3)]; [(DNeed, 9)]; [(DNeed, 9)]; [(DMsg [34; 80; 34], 7); (DNeed, 7)];
       [(DMsg [1; 2; 3; 4], 0); (DNeed, 0)]], Cont []).
Proof.
  cbv zeta. split; [all_valid|]. vm_compute. repeat split; reflexivity.
Qed.

(* hypotheses of C14_reject_empty_or_oversize, both arms, with bytes after the bad header *)
Example C14_witness_reject_empty :
  let msgs := [[34; 80; 34]] in
  let chunks := [[0; 0; 0; 0; 0; 0; 0; 3; 34; 80]; [34; 0; 0; 0; 0]; [0; 0; 0; 0; 7; 7]] in
  Forall (valid bytes wser 4) msgs
  /\ concat chunks = wire bytes wser msgs ++ be64 0 ++ [7; 7]
  /\ framed bytes wde 4 chunks true = [IMsg [34; 80; 34]; IErr EEmpty].
Proof.
  cbv zeta. split; [all_valid|]. vm_compute. repeat split; reflexivity.
Qed.

Example C14_witness_reject_oversize :
  let msgs := [[34; 80; 34]] in
  let chunks := [[0; 0; 0; 0; 0; 0; 0; 3; 34; 80]; [34; 0; 0; 0; 0]; [0; 0; 0; 5]] in
  Forall (valid bytes wser 4) msgs
  /\ 4 < 5 /\ 5 < 2 ^ 64
  /\ concat chunks = wire bytes wser msgs ++ be64 5 ++ []
  /\ framed bytes wde 4 chunks false = [IMsg [34; 80; 34]; IErr ETooLarge]
  /\ snd (feed bytes wde 4 [] chunks) = Stop.
Proof.
  cbv zeta. split; [all_valid|]. vm_compute. repeat split; reflexivity.
Qed.

(* C14_retained_bounded is not vacuous: a truncated frame is retained (9 < 8 + 4 bytes) and
   reported as "bytes remaining" when the connection closes *)
Example C14_witness_truncated :
  let chunks := [[0; 0; 0; 0; 0; 0; 0]; [4; 1]] in
  snd (feed bytes wde 4 [] chunks) = Cont [0; 0; 0; 0; 0; 0; 0; 4; 1]
  /\ framed bytes wde 4 chunks true = [IErr ERemaining]
  /\ framed bytes wde 4 chunks false = [].
Proof. vm_compute. repeat split; reflexivity. Qed.

(* two cases recorded from the real codec (quick tier, seed 1): "Ping" then "Refresh" with the
   limit one below the second payload: rejected on its header; and the same with read
   boundaries inside both headers. Both satisfy agree and pcheck. *)
Definition w_jt : jtab :=
  [([34; 80; 105; 110; 103; 34], Some 0); ([34; 82; 101; 102; 114; 101; 115; 104; 34], Some 1)].
Definition w_enc : bytes :=
  [0; 0; 0; 0; 0; 0; 0; 6; 34; 80; 105; 110; 103; 34; 0; 0; 0; 0; 0; 0; 0; 9; 34; 82; 101; 102; 114; 101; 115; 104; 34].
Definition w_case_reject : case :=
  CStream 8 w_jt [0; 1] (Some w_enc) [] [8; 9] true
    [[(RNeed, 8)]; [(RMsg 0, 3); (RNeed, 3)]; [(RErr ETooLarge, 17)]]
    [0; 0; 0; 0; 0; 0; 0; 9; 34; 82; 101; 102; 114; 101; 115; 104; 34]
    [OMsg 0; OErr ETooLarge].
Definition w_case_ok : case :=
  CStream 1048576 w_jt [0; 1] (Some w_enc) [] [6; 8] false
    [[(RNeed, 6)]; [(RMsg 0, 0); (RNeed, 0)]; [(RMsg 1, 0); (RNeed, 0)]] [] [OMsg 0; OMsg 1].

Example C14_witness_bridge_hypothesis :
  agree w_case_reject = true /\ pcheck w_case_reject = true /\
  agree w_case_ok = true /\ pcheck w_case_ok = true.
Proof. vm_compute. repeat split; reflexivity. Qed.

(* pcheck is a real test: it is false on observations that reorder messages, that buffer an
   over-limit frame instead of rejecting it, that deliver a frame early, or that lose bytes *)
Example C14_witness_pcheck_refutes_reordering :
  pcheck (CStream 1048576 w_jt [0; 1] (Some w_enc) [] [6; 8] false
    [[(RNeed, 6)]; [(RMsg 1, 0); (RNeed, 0)]; [(RMsg 0, 0); (RNeed, 0)]] [] [OMsg 1; OMsg 0]) = false.
Proof. vm_compute. reflexivity. Qed.
Example C14_witness_pcheck_refutes_buffering :
  pcheck (CStream 8 w_jt [0; 1] (Some w_enc) [] [8; 9] true
    [[(RNeed, 8)]; [(RMsg 0, 3); (RNeed, 3)]; [(RMsg 1, 0); (RNeed, 0)]] [] [OMsg 0; OMsg 1]) = false
  /\ pcheck (CStream 8 w_jt [0; 1] (Some w_enc) [] [8; 9] false
    [[(RNeed, 8)]; [(RMsg 0, 3); (RNeed, 3)]; [(RNeed, 17)]]
    [0; 0; 0; 0; 0; 0; 0; 9; 34; 82; 101; 102; 114; 101; 115; 104; 34] [OMsg 0]) = false.
Proof. vm_compute. split; reflexivity. Qed.
Example C14_witness_pcheck_refutes_lost_message :
  pcheck (CStream 1048576 w_jt [0; 1] (Some w_enc) [] [6; 8] false
    [[(RNeed, 6)]; [(RMsg 0, 0); (RNeed, 0)]; [(RNeed, 0)]] [] [OMsg 0]) = false.
Proof. vm_compute. reflexivity. Qed.
Example C14_witness_pcheck_refutes_bad_encoder :
  (* length header one too large *)
  pcheck (CStream 1048576 w_jt [0] (Some [0; 0; 0; 0; 0; 0; 0; 7; 34; 80; 105; 110; 103; 34]) [] [] false
    [[(RNeed, 14)]] [0; 0; 0; 0; 0; 0; 0; 7; 34; 80; 105; 110; 103; 34] []) = false.
Proof. vm_compute. reflexivity. Qed.
