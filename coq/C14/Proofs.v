(* KV.C14.Proofs — lemmas about the framing model. *)
From Coq Require Import List NArith Bool Lia Arith.
Import ListNotations.
Require Import KV.C14.Model.
Open Scope N_scope.

Arguments N.add : simpl never. Arguments N.sub : simpl never. Arguments N.mul : simpl never.
Arguments N.ltb : simpl never. Arguments N.leb : simpl never. Arguments N.eqb : simpl never.
Arguments N.div : simpl never. Arguments N.modulo : simpl never. Arguments N.pow : simpl never.
Arguments N.of_nat : simpl never. Arguments N.to_nat : simpl never.

(* ------------------------------------------------------------------ big-endian numbers *)
Lemma from_be_app : forall a x, from_be (a ++ [x]) = from_be a * 256 + x.
Proof. intros a x. unfold from_be. rewrite fold_left_app. reflexivity. Qed.

Lemma from_be_be_bytes : forall k n, from_be (be_bytes k n) = n mod 256 ^ N.of_nat k.
Proof.
  induction k as [|k IH]; intros n.
  - cbn [be_bytes]. change (N.of_nat 0) with 0. rewrite N.pow_0_r, N.mod_1_r. reflexivity.
  - cbn [be_bytes]. rewrite from_be_app, IH, Nat2N.inj_succ, N.pow_succ_r'.
    assert (Hp : 256 ^ N.of_nat k <> 0) by (apply N.pow_nonzero; discriminate).
    rewrite (N.mod_mul_r n 256 (256 ^ N.of_nat k)) by (try exact Hp; discriminate). lia.
Qed.

Lemma length_be_bytes : forall k n, length (be_bytes k n) = k.
Proof.
  induction k as [|k IH]; intros n; cbn [be_bytes]; [reflexivity|].
  rewrite app_length, IH. cbn. lia.
Qed.

Lemma length_be64 : forall n, length (be64 n) = 8%nat.
Proof. intros n. apply length_be_bytes. Qed.

Lemma from_be_be64 : forall n, n < 2 ^ 64 -> from_be (be64 n) = n.
Proof.
  intros n Hn. unfold be64. rewrite from_be_be_bytes.
  change (256 ^ N.of_nat 8) with (2 ^ 64). apply N.mod_small. exact Hn.
Qed.

Lemma be_bytes_lt : forall k n x, In x (be_bytes k n) -> x < 256.
Proof.
  induction k as [|k IH]; intros n x Hin; cbn [be_bytes] in Hin; [contradiction|].
  apply in_app_or in Hin as [Hin|[<-|[]]]; [eapply IH; exact Hin|].
  apply N.mod_lt. discriminate.
Qed.

Lemma len_app : forall {A} (a b : list A), len (a ++ b) = len a + len b.
Proof. intros A a b. unfold len. rewrite app_length. lia. Qed.

Lemma len_be64 : forall n, len (be64 n) = 8.
Proof. intros n. unfold len. rewrite length_be64. reflexivity. Qed.

(* ------------------------------------------------------------------ header *)
Lemma hdr_none : forall s, hdr s = None <-> (length s < 8)%nat.
Proof.
  intros s. do 8 (destruct s as [|? s]; [cbn; split; [intros _; lia | reflexivity]|]).
  cbn. split; [discriminate | lia].
Qed.

Lemma hdr_some : forall s n body, hdr s = Some (n, body) ->
  (8 <= length s)%nat /\ n = from_be (firstn 8 s) /\ body = skipn 8 s.
Proof.
  intros s n body H. do 8 (destruct s as [|? s]; [discriminate|]).
  cbn [hdr] in H. injection H as <- <-. split; [cbn; lia|]. split; [|reflexivity].
  cbn [firstn]. unfold from_be. cbn [fold_left]. lia.
Qed.

Lemma hdr_app : forall s n body x, hdr s = Some (n, body) -> hdr (s ++ x) = Some (n, body ++ x).
Proof.
  intros s n body x H. do 8 (destruct s as [|? s]; [discriminate|]).
  cbn [hdr app] in *. injection H as <- <-. reflexivity.
Qed.

Lemma hdr_be64 : forall n x, n < 2 ^ 64 -> hdr (be64 n ++ x) = Some (n, x).
Proof.
  intros n x Hn. destruct (hdr (be64 n ++ x)) as [[n' body]|] eqn:E.
  - apply hdr_some in E as (_ & Hn' & Hb).
    assert (L := length_be64 n).
    rewrite firstn_app, L, Nat.sub_diag, firstn_O, app_nil_r, <- L, firstn_all in Hn'.
    rewrite from_be_be64 in Hn' by exact Hn.
    rewrite skipn_app, L, Nat.sub_diag, <- L, skipn_all in Hb. cbn in Hb. subst. reflexivity.
  - apply hdr_none in E. rewrite app_length, length_be64 in E. lia.
Qed.

Lemma skipn_add : forall {A} y x (l : list A), skipn x (skipn y l) = skipn (y + x) l.
Proof.
  intros A y. induction y as [|y IH]; intros x l; [reflexivity|].
  destruct l as [|a l]; [cbn; destruct x; reflexivity|]. cbn [skipn Nat.add]. apply IH.
Qed.

(* ------------------------------------------------------------------ decode, cleaned up *)
Section P.
  Variable M : Type.
  Variable de : bytes -> option M.
  Variable max : N.
  Notation decode := (Model.decode M de max).
  Notation drain := (Model.drain M de max).
  Notation drain_all := (Model.drain_all M de max).
  Notation feed := (Model.feed M de max).
  Notation parse := (Model.parse M de max).

  (* the same function without the length arithmetic and without the dead "trim" arm *)
  Definition decode_clean (src : bytes) : dres M * bytes :=
    match hdr src with
    | None => (DNeed, src)
    | Some (n, body) =>
      if n =? 0 then (DErr EEmpty, src)
      else if max <? n then (DErr ETooLarge, src)
      else if len body <? n then (DNeed, src)
      else (match de (firstn (N.to_nat n) body) with Some m => DMsg m | None => DErr EBadJson end,
            skipn (N.to_nat n) body)
    end.

  Lemma decode_is_clean : forall src, decode src = decode_clean src.
  Proof.
    intros src. unfold decode_clean. destruct (hdr src) as [[n body]|] eqn:E.
    - apply hdr_some in E as (Hl & Hn & Hb). unfold Model.decode.
      assert (H8 : (len src <? 8) = false) by (apply N.ltb_ge; unfold len; lia).
      rewrite H8. cbv zeta. rewrite <- Hn, <- Hb.
      destruct (n =? 0) eqn:E0; [reflexivity|].
      destruct (max <? n) eqn:E1; [reflexivity|].
      destruct (len body <? n) eqn:E2; [reflexivity|].
      apply N.ltb_ge in E2. apply N.eqb_neq in E0.
      assert (Hlen : len src = 8 + len body).
      { subst body. unfold len. rewrite skipn_length. lia. }
      assert (Hd : (len src =? n) = false) by (apply N.eqb_neq; lia).
      rewrite Hd. f_equal. subst body. rewrite skipn_add. f_equal. lia.
    - apply hdr_none in E. unfold Model.decode.
      assert (H8 : (len src <? 8) = true) by (apply N.ltb_lt; unfold len; lia).
      rewrite H8. reflexivity.
  Qed.

  (* a decode that did not ask for more data behaves the same when more data is already there *)
  Lemma decode_app_msg : forall src x m r,
    decode src = (DMsg m, r) -> decode (src ++ x) = (DMsg m, r ++ x).
  Proof.
    intros src x m r. rewrite !decode_is_clean. unfold decode_clean.
    destruct (hdr src) as [[n body]|] eqn:E; [|discriminate].
    rewrite (hdr_app _ _ _ x E).
    destruct (n =? 0); [discriminate|]. destruct (max <? n); [discriminate|].
    destruct (len body <? n) eqn:E2; [discriminate|]. apply N.ltb_ge in E2.
    assert (E3 : (len (body ++ x) <? n) = false) by (apply N.ltb_ge; rewrite len_app; lia).
    rewrite E3.
    assert (Hn : (N.to_nat n <= length body)%nat) by (unfold len in E2; lia).
    rewrite firstn_app, skipn_app.
    replace (N.to_nat n - length body)%nat with 0%nat by lia.
    rewrite firstn_O, app_nil_r. cbn [skipn].
    destruct (de (firstn (N.to_nat n) body)); [|discriminate].
    intros [= <- <-]. reflexivity.
  Qed.

  Lemma decode_app_err : forall src x e r,
    decode src = (DErr e, r) -> decode (src ++ x) = (DErr e, r ++ x).
  Proof.
    intros src x e r. rewrite !decode_is_clean. unfold decode_clean.
    destruct (hdr src) as [[n body]|] eqn:E; [|discriminate].
    rewrite (hdr_app _ _ _ x E).
    destruct (n =? 0); [intros [= <- <-]; reflexivity|].
    destruct (max <? n); [intros [= <- <-]; reflexivity|].
    destruct (len body <? n) eqn:E2; [discriminate|]. apply N.ltb_ge in E2.
    assert (E3 : (len (body ++ x) <? n) = false) by (apply N.ltb_ge; rewrite len_app; lia).
    rewrite E3.
    assert (Hn : (N.to_nat n <= length body)%nat) by (unfold len in E2; lia).
    rewrite firstn_app, skipn_app.
    replace (N.to_nat n - length body)%nat with 0%nat by lia.
    rewrite firstn_O, app_nil_r. cbn [skipn].
    destruct (de (firstn (N.to_nat n) body)); [discriminate|].
    intros [= <- <-]. reflexivity.
  Qed.

  Lemma decode_need_same : forall src r, decode src = (DNeed, r) -> r = src.
  Proof.
    intros src r. rewrite decode_is_clean. unfold decode_clean.
    destruct (hdr src) as [[n body]|]; [|intros [= <-]; reflexivity].
    destruct (n =? 0); [discriminate|]. destruct (max <? n); [discriminate|].
    destruct (len body <? n); [intros [= <-]; reflexivity|].
    destruct (de _); discriminate.
  Qed.

  (* a delivered message (or a JSON failure) consumes at least 9 bytes from the front *)
  Lemma decode_msg_shrinks : forall src m r, decode src = (DMsg m, r) -> (length r + 9 <= length src)%nat.
  Proof.
    intros src m r. rewrite decode_is_clean. unfold decode_clean.
    destruct (hdr src) as [[n body]|] eqn:E; [|discriminate].
    apply hdr_some in E as (Hl & _ & Hb).
    destruct (n =? 0) eqn:E0; [discriminate|]. destruct (max <? n); [discriminate|].
    destruct (len body <? n) eqn:E2; [discriminate|].
    apply N.ltb_ge in E2. apply N.eqb_neq in E0.
    destruct (de _); [|discriminate]. intros [= _ <-].
    rewrite skipn_length. assert (length body = (length src - 8)%nat) by (subst body; apply skipn_length).
    unfold len in E2. lia.
  Qed.

  (* ------------------------------------------------------------------ the decode loop *)
  Lemma drain_fuel : forall f buf, (length buf < f)%nat ->
    forall f', (length buf < f')%nat -> drain f buf = drain f' buf.
  Proof.
    induction f as [|f IH]; intros buf Hf f' Hf'; [lia|]. destruct f' as [|f']; [lia|].
    cbn [Model.drain]. destruct (decode buf) as [r b'] eqn:E. destruct r as [|e|m]; try reflexivity.
    apply decode_msg_shrinks in E. rewrite (IH b' ltac:(lia) f' ltac:(lia)). reflexivity.
  Qed.

  Lemma drain_fuel_all : forall f buf, (length buf < f)%nat -> drain f buf = drain_all buf.
  Proof. intros f buf Hf. unfold Model.drain_all. apply drain_fuel; lia. Qed.

  Lemma drain_no_oof : forall f buf, (length buf < f)%nat -> snd (drain f buf) <> OutOfFuel.
  Proof.
    induction f as [|f IH]; intros buf Hf; [lia|].
    cbn [Model.drain]. destruct (decode buf) as [r b'] eqn:E. destruct r as [|e|m]; cbn; try discriminate.
    apply decode_msg_shrinks in E. specialize (IH b' ltac:(lia)).
    destruct (drain f b') as [tr s]. exact IH.
  Qed.

  Lemma items_of_app : forall a b, items_of M (a ++ b) = items_of M a ++ items_of M b.
  Proof. intros a b. unfold items_of. apply flat_map_app. Qed.

  (* more data behind the buffer: the loop delivers what it delivered, then goes on with the
     retained bytes followed by the new data *)
  Lemma drain_app : forall f buf x f2, (length buf < f)%nat -> (length (buf ++ x) < f2)%nat ->
    match snd (drain f buf) with
    | Cont b' =>
      items_of M (fst (drain f2 (buf ++ x))) = items_of M (fst (drain f buf)) ++ items_of M (fst (drain_all (b' ++ x)))
      /\ snd (drain f2 (buf ++ x)) = snd (drain_all (b' ++ x))
    | Stop =>
      items_of M (fst (drain f2 (buf ++ x))) = items_of M (fst (drain f buf))
      /\ snd (drain f2 (buf ++ x)) = Stop
    | OutOfFuel => False
    end.
  Proof.
    induction f as [|f IH]; intros buf x f2 Hf Hf2; [lia|]. destruct f2 as [|f2]; [lia|].
    cbn [Model.drain]. destruct (decode buf) as [r b1] eqn:E. destruct r as [|e|m].
    - apply decode_need_same in E as E'. subst b1. cbn [fst snd].
      change (items_of M [(DNeed, len buf)]) with (@nil (item M)). cbn [app].
      rewrite <- (drain_fuel_all (S f2) (buf ++ x)) by lia. cbn [Model.drain]. split; reflexivity.
    - rewrite (decode_app_err _ x _ _ E). cbn [fst snd]. split; reflexivity.
    - rewrite (decode_app_msg _ x _ _ E). apply decode_msg_shrinks in E.
      rewrite app_length in Hf2.
      specialize (IH b1 x f2 ltac:(lia) ltac:(rewrite app_length; lia)).
      destruct (drain f b1) as [tr s]. destruct (drain f2 (b1 ++ x)) as [tr2 s2]. cbn [fst snd] in *.
      destruct s as [b'| |]; [| |exact IH]; destruct IH as [H1 H2]; split; try exact H2;
        change (items_of M ((DMsg m, len (b1 ++ x)) :: tr2)) with (IMsg m :: items_of M tr2);
        change (items_of M ((DMsg m, len b1) :: tr)) with (IMsg m :: items_of M tr);
        rewrite H1; reflexivity.
  Qed.

  (* when the loop stops to wait, decode of the retained buffer says "need more" *)
  Lemma drain_resting : forall f buf b', (length buf < f)%nat ->
    snd (drain f buf) = Cont b' -> decode b' = (DNeed, b').
  Proof.
    induction f as [|f IH]; intros buf b' Hf; [lia|].
    cbn [Model.drain]. destruct (decode buf) as [r b1] eqn:E. destruct r as [|e|m]; cbn [snd].
    - intros [= <-]. apply decode_need_same in E as E'. subst b1. exact E.
    - discriminate.
    - apply decode_msg_shrinks in E. specialize (IH b1 b' ltac:(lia)).
      destruct (drain f b1) as [tr s]. exact IH.
  Qed.

  Lemma drain_all_resting : forall b, decode b = (DNeed, b) -> drain_all b = ([(DNeed, len b)], Cont b).
  Proof. intros b H. unfold Model.drain_all. cbn [Model.drain]. rewrite H. reflexivity. Qed.

  (* ------------------------------------------------------------------ reads do not matter *)
  Lemma feed_is_drain : forall chunks buf, decode buf = (DNeed, buf) ->
    items_of M (concat (fst (feed buf chunks))) = items_of M (fst (drain_all (buf ++ concat chunks)))
    /\ snd (feed buf chunks) = snd (drain_all (buf ++ concat chunks)).
  Proof.
    induction chunks as [|c cs IH]; intros buf Hb.
    - cbn [Model.feed concat fst snd]. rewrite app_nil_r, (drain_all_resting _ Hb). split; reflexivity.
    - cbn [Model.feed concat]. rewrite app_assoc.
      assert (D := drain_app (S (length (buf ++ c))) (buf ++ c) (concat cs)
                     (S (length ((buf ++ c) ++ concat cs))) ltac:(lia) ltac:(lia)).
      fold (drain_all (buf ++ c)) in D. fold (drain_all ((buf ++ c) ++ concat cs)) in D.
      assert (R := drain_resting (S (length (buf ++ c))) (buf ++ c)).
      fold (drain_all (buf ++ c)) in R.
      destruct (drain_all (buf ++ c)) as [tr s]. cbn [fst snd] in D, R.
      destruct s as [b'| |]; [| |contradiction].
      + specialize (IH b' (R b' ltac:(lia) eq_refl)). destruct IH as [I1 I2]. destruct D as [D1 D2].
        destruct (feed b' cs) as [trs s']. cbn [fst snd concat] in *.
        rewrite items_of_app, D1, D2, I1, I2. split; reflexivity.
      + destruct D as [D1 D2]. cbn [fst snd concat]. rewrite app_nil_r, D1, D2. split; reflexivity.
  Qed.

  Lemma decode_nil : decode [] = (DNeed, []).
  Proof. reflexivity. Qed.

  (* ------------------------------------------------------------------ loop = grammar *)
  Lemma drain_is_parse : forall f buf f2, (length buf < f)%nat -> (length buf < f2)%nat ->
    items_of M (fst (drain f buf)) = fst (parse f2 buf)
    /\ match snd (drain f buf) with
       | Cont b' => snd (parse f2 buf) = Some b'
       | Stop => snd (parse f2 buf) = None
       | OutOfFuel => False
       end.
  Proof.
    induction f as [|f IH]; intros buf f2 Hf Hf2; [lia|]. destruct f2 as [|f2]; [lia|].
    cbn [Model.drain Model.parse].
    destruct (decode buf) as [r b1] eqn:E. assert (Sh := decode_msg_shrinks buf).
    rewrite E in Sh. rewrite decode_is_clean in E. unfold decode_clean in E.
    destruct (hdr buf) as [[n body]|].
    2:{ injection E as <- <-. cbn. split; reflexivity. }
    destruct (n =? 0). { injection E as <- <-. cbn. split; reflexivity. }
    destruct (max <? n). { injection E as <- <-. cbn. split; reflexivity. }
    destruct (len body <? n). { injection E as <- <-. cbn. split; reflexivity. }
    destruct (de (firstn (N.to_nat n) body)) as [m|].
    2:{ injection E as <- <-. cbn. split; reflexivity. }
    injection E as <- <-. specialize (Sh m _ eq_refl).
    specialize (IH (skipn (N.to_nat n) body) f2 ltac:(lia) ltac:(lia)).
    destruct (drain f (skipn (N.to_nat n) body)) as [tr s].
    destruct (parse f2 (skipn (N.to_nat n) body)) as [is t]. cbn [fst snd] in *.
    destruct IH as [I1 I2]. split; [|exact I2].
    change (items_of M ((DMsg m, len (skipn (N.to_nat n) body)) :: tr)) with (IMsg m :: items_of M tr).
    rewrite I1. reflexivity.
  Qed.

  Lemma drain_eof_resting : forall b, decode b = (DNeed, b) ->
    drain_eof M de max (S (length b)) b = match b with [] => [] | _ => [IErr ERemaining] end.
  Proof. intros b H. cbn [Model.drain_eof]. rewrite H. reflexivity. Qed.

  (* The Stream a FramedRead yields is a function of the concatenated bytes only: the grammar *)
  Lemma framed_is_spec : forall chunks eof,
    framed M de max chunks eof = fst (spec_stream M de max (concat chunks) eof).
  Proof.
    intros chunks eof. unfold Model.framed, Model.spec_stream.
    destruct (feed_is_drain chunks [] decode_nil) as [F1 F2]. cbn [app] in F1, F2.
    assert (R := drain_resting (S (length (concat chunks))) (concat chunks)).
    destruct (drain_is_parse (S (length (concat chunks))) (concat chunks) (S (length (concat chunks)))
                ltac:(lia) ltac:(lia)) as [P1 P2].
    fold (drain_all (concat chunks)) in P1, P2, R.
    destruct (feed [] chunks) as [trs s]. cbn [fst snd] in F1, F2. rewrite F1, F2, P1.
    destruct (parse (S (length (concat chunks))) (concat chunks)) as [is t]. cbn [fst snd] in *.
    destruct (snd (drain_all (concat chunks))) as [b| |]; [| |contradiction].
    - subst t. specialize (R b ltac:(lia) eq_refl).
      destruct eof.
      + rewrite (drain_eof_resting b R). destruct b; [rewrite app_nil_r|]; reflexivity.
      + rewrite app_nil_r. destruct b; reflexivity.
    - subst t. rewrite app_nil_r. reflexivity.
  Qed.

  (* the direct decode loop over the reads, seen as items / final buffer *)
  Lemma feed_is_parse : forall chunks,
    items_of M (concat (fst (feed [] chunks))) = fst (parse (S (length (concat chunks))) (concat chunks))
    /\ match snd (feed [] chunks) with
       | Cont b => snd (parse (S (length (concat chunks))) (concat chunks)) = Some b
       | Stop => snd (parse (S (length (concat chunks))) (concat chunks)) = None
       | OutOfFuel => False
       end.
  Proof.
    intros chunks. destruct (feed_is_drain chunks [] decode_nil) as [F1 F2]. cbn [app] in F1, F2.
    rewrite F1, F2. apply drain_is_parse; lia.
  Qed.

  (* ------------------------------------------------------------------ bounded retention *)
  Lemma need_bounded_buf : forall b, decode b = (DNeed, b) -> len b < 8 + max.
  Proof.
    intros b. rewrite decode_is_clean. unfold decode_clean.
    destruct (hdr b) as [[n body]|] eqn:E.
    - apply hdr_some in E as (Hl & _ & Hb).
      destruct (n =? 0); [discriminate|]. destruct (max <? n) eqn:E1; [discriminate|].
      destruct (len body <? n) eqn:E2; [|destruct (de _); discriminate].
      intros _. apply N.ltb_ge in E1. apply N.ltb_lt in E2.
      assert (len b = 8 + len body) by (subst body; unfold len; rewrite skipn_length; lia). lia.
    - intros _. apply hdr_none in E. unfold len. lia.
  Qed.

  Lemma drain_need_bounded : forall f buf n, In (DNeed, n) (fst (drain f buf)) -> n < 8 + max.
  Proof.
    induction f as [|f IH]; intros buf n; [intros []|].
    cbn [Model.drain]. destruct (decode buf) as [r b1] eqn:E. destruct r as [|e|m]; cbn [fst].
    - intros [[= <-]|[]]. apply decode_need_same in E as E'. subst b1. apply need_bounded_buf. exact E.
    - intros [[=]|[]].
    - specialize (IH b1 n). destruct (drain f b1) as [tr s]. cbn [fst] in *.
      intros [[=]|H]. apply IH. exact H.
  Qed.

  Lemma feed_need_bounded : forall chunks buf n,
    In (DNeed, n) (concat (fst (feed buf chunks))) -> n < 8 + max.
  Proof.
    induction chunks as [|c cs IH]; intros buf n; cbn [Model.feed]; [intros []|].
    assert (B := drain_need_bounded (S (length (buf ++ c))) (buf ++ c) n).
    fold (drain_all (buf ++ c)) in B.
    destruct (drain_all (buf ++ c)) as [tr s]. cbn [fst] in B.
    destruct s as [b'| |].
    - specialize (IH b' n). destruct (feed b' cs) as [trs s']. cbn [fst concat] in *.
      intros H. apply in_app_or in H as [H|H]; [apply B | apply IH]; exact H.
    - cbn [fst concat]. rewrite app_nil_r. exact B.
    - cbn [fst concat]. rewrite app_nil_r. exact B.
  Qed.

  Lemma feed_rest_bounded : forall chunks buf b, len buf < 8 + max ->
    snd (feed buf chunks) = Cont b -> len b < 8 + max.
  Proof.
    induction chunks as [|c cs IH]; intros buf b Hb; cbn [Model.feed].
    - intros [= <-]. exact Hb.
    - assert (R := drain_resting (S (length (buf ++ c))) (buf ++ c)).
      fold (drain_all (buf ++ c)) in R.
      destruct (drain_all (buf ++ c)) as [tr s]. cbn [snd] in R.
      destruct s as [b'| |]; [|discriminate|discriminate].
      specialize (IH b' b (need_bounded_buf _ (R b' ltac:(lia) eq_refl))).
      destruct (feed b' cs) as [trs s']. exact IH.
  Qed.

  Lemma feed_no_oof : forall chunks buf, snd (feed buf chunks) <> OutOfFuel.
  Proof.
    induction chunks as [|c cs IH]; intros buf; cbn [Model.feed]; [discriminate|].
    assert (O := drain_no_oof (S (length (buf ++ c))) (buf ++ c) ltac:(lia)).
    fold (drain_all (buf ++ c)) in O.
    destruct (drain_all (buf ++ c)) as [tr s]. cbn [snd] in O.
    destruct s as [b'| |]; [|discriminate|contradiction].
    specialize (IH b'). destruct (feed b' cs) as [trs s']. exact IH.
  Qed.

  (* ------------------------------------------------------------------ what the encoder writes comes back *)
  Variable ser : M -> bytes.
  Notation frame := (Model.frame M ser).
  Notation wire := (Model.wire M ser).
  Notation valid := (Model.valid M ser max).

  Lemma encode_total : forall m dst, encode M ser m dst = Some (dst ++ frame m).
  Proof.
    intros m dst. unfold Model.encode, Model.frame. rewrite !len_be64, N.eqb_refl. reflexivity.
  Qed.

  Lemma encode_all_wire : forall ms dst, encode_all M ser ms dst = Some (dst ++ wire ms).
  Proof.
    induction ms as [|m ms IH]; intros dst; cbn [Model.encode_all].
    - unfold Model.wire. cbn. rewrite app_nil_r. reflexivity.
    - rewrite encode_total, IH. unfold Model.wire. cbn [map concat]. rewrite app_assoc. reflexivity.
  Qed.

  Lemma validb_valid : forall m, validb M ser max m = true <-> valid m.
  Proof.
    intros m. unfold Model.validb, Model.valid. rewrite !andb_true_iff, !N.ltb_lt, N.leb_le. tauto.
  Qed.

  (* an in-limit message that serde reads back (serde's own round trip, per message) *)
  Definition good (m : M) : Prop := valid m /\ de (ser m) = Some m.

  Lemma decode_frame : forall m r, good m -> decode (frame m ++ r) = (DMsg m, r).
  Proof.
    intros m r [(H0 & Hmax & H64) de_ser]. rewrite decode_is_clean. unfold decode_clean, Model.frame.
    rewrite <- app_assoc, hdr_be64 by exact H64.
    assert (E0 : (len (ser m) =? 0) = false) by (apply N.eqb_neq; lia).
    assert (E1 : (max <? len (ser m)) = false) by (apply N.ltb_ge; lia).
    assert (E2 : (len (ser m ++ r) <? len (ser m)) = false) by (apply N.ltb_ge; rewrite len_app; lia).
    rewrite E0, E1, E2. unfold len. rewrite Nat2N.id.
    rewrite firstn_app, Nat.sub_diag, firstn_O, app_nil_r, firstn_all.
    rewrite skipn_app, Nat.sub_diag, skipn_all. cbn [skipn app].
    rewrite de_ser. reflexivity.
  Qed.

  Lemma length_frame : forall m, (8 <= length (frame m))%nat.
  Proof. intros m. unfold Model.frame. rewrite app_length, length_be64. lia. Qed.

  Lemma drain_wire : forall ms r, Forall good ms ->
    items_of M (fst (drain_all (wire ms ++ r))) = map IMsg ms ++ items_of M (fst (drain_all r))
    /\ snd (drain_all (wire ms ++ r)) = snd (drain_all r).
  Proof.
    induction ms as [|m ms IH]; intros r Hv.
    - unfold Model.wire. cbn. split; reflexivity.
    - inversion Hv as [|? ? Hm Hms]; subst. specialize (IH r Hms). destruct IH as [I1 I2].
      unfold Model.wire. cbn [map concat]. fold (wire ms). rewrite <- app_assoc.
      unfold Model.drain_all at 1 3. cbn [Model.drain]. rewrite (decode_frame m _ Hm).
      assert (L := length_frame m).
      rewrite (drain_fuel_all _ (wire ms ++ r)) by (rewrite (app_length (frame m)); lia).
      destruct (drain_all (wire ms ++ r)) as [tr s]. cbn [fst snd] in *.
      split; [|exact I2].
      change (items_of M ((DMsg m, len (wire ms ++ r)) :: tr)) with (IMsg m :: items_of M tr).
      rewrite I1. reflexivity.
  Qed.

  (* a header announcing 0 or more than max bytes is refused with nothing but the header present *)
  Lemma decode_bad_header : forall n junk, n < 2 ^ 64 ->
    (n = 0 -> decode (be64 n ++ junk) = (DErr EEmpty, be64 n ++ junk)) /\
    (max < n -> decode (be64 n ++ junk) = (DErr ETooLarge, be64 n ++ junk)).
  Proof.
    intros n junk H64. rewrite decode_is_clean. unfold decode_clean. rewrite hdr_be64 by exact H64.
    split.
    - intros ->. reflexivity.
    - intros Hm. assert (E0 : (n =? 0) = false) by (apply N.eqb_neq; lia).
      assert (E1 : (max <? n) = true) by (apply N.ltb_lt; exact Hm). rewrite E0, E1. reflexivity.
  Qed.

  Definition bad_len (n : N) : option ekind :=
    if n =? 0 then Some EEmpty else if max <? n then Some ETooLarge else None.

  Lemma drain_bad_header : forall n junk e, n < 2 ^ 64 -> bad_len n = Some e ->
    items_of M (fst (drain_all (be64 n ++ junk))) = [IErr e] /\ snd (drain_all (be64 n ++ junk)) = Stop.
  Proof.
    intros n junk e H64 Hb. destruct (decode_bad_header n junk H64) as [D0 D1].
    unfold bad_len in Hb. unfold Model.drain_all. cbn [Model.drain].
    destruct (n =? 0) eqn:E0.
    - injection Hb as <-. apply N.eqb_eq in E0. rewrite (D0 E0). split; reflexivity.
    - destruct (max <? n) eqn:E1; [|discriminate]. injection Hb as <-. apply N.ltb_lt in E1.
      rewrite (D1 E1). split; reflexivity.
  Qed.

  (* MAIN: any sequence of in-limit messages, any reads *)
  Lemma any_split : forall msgs chunks eof, Forall good msgs -> concat chunks = wire msgs ->
    framed M de max chunks eof = map IMsg msgs
    /\ items_of M (concat (fst (feed [] chunks))) = map IMsg msgs
    /\ snd (feed [] chunks) = Cont [].
  Proof.
    intros msgs chunks eof Hv Hc. unfold Model.framed.
    destruct (feed_is_drain chunks [] decode_nil) as [F1 F2]. cbn [app] in F1, F2.
    destruct (drain_wire msgs [] Hv) as [W1 W2]. rewrite app_nil_r in W1, W2.
    rewrite Hc, W1 in F1. rewrite Hc, W2 in F2. cbn in F1, F2. rewrite app_nil_r in F1.
    destruct (feed [] chunks) as [trs s]. cbn [fst snd] in *. subst s. rewrite F1.
    split; [|split; reflexivity]. destruct eof; cbn; apply app_nil_r.
  Qed.

  (* MAIN: the same followed by a frame whose header is 0 or over the limit (and anything after) *)
  Lemma reject_after : forall msgs n junk e chunks eof, Forall good msgs -> n < 2 ^ 64 ->
    bad_len n = Some e -> concat chunks = wire msgs ++ be64 n ++ junk ->
    framed M de max chunks eof = map IMsg msgs ++ [IErr e]
    /\ snd (feed [] chunks) = Stop.
  Proof.
    intros msgs n junk e chunks eof Hv H64 Hb Hc. unfold Model.framed.
    destruct (feed_is_drain chunks [] decode_nil) as [F1 F2]. cbn [app] in F1, F2.
    destruct (drain_wire msgs (be64 n ++ junk) Hv) as [W1 W2].
    destruct (drain_bad_header n junk e H64 Hb) as [B1 B2].
    rewrite Hc, W1, B1 in F1. rewrite Hc, W2, B2 in F2.
    destruct (feed [] chunks) as [trs s]. cbn [fst snd] in *. subst s. rewrite F1, app_nil_r.
    split; reflexivity.
  Qed.
End P.

(* ------------------------------------------------------------------ bridge: agree -> pcheck *)
Lemma list_eqb_eq : forall {A} (eqb : A -> A -> bool), (forall a b, eqb a b = true -> a = b) ->
  forall l1 l2, list_eqb eqb l1 l2 = true -> l1 = l2.
Proof.
  intros A eqb H. induction l1 as [|x l1 IH]; intros [|y l2]; cbn; try discriminate; [reflexivity|].
  intros E. apply andb_true_iff in E as [E1 E2]. f_equal; [apply H; exact E1 | apply IH; exact E2].
Qed.
Lemma list_eqb_refl : forall {A} (eqb : A -> A -> bool), (forall a, eqb a a = true) ->
  forall l, list_eqb eqb l l = true.
Proof. intros A eqb H. induction l as [|x l IH]; cbn; [reflexivity|]. rewrite H, IH. reflexivity. Qed.
Lemma bytes_eqb_eq : forall a b, bytes_eqb a b = true -> a = b.
Proof. apply list_eqb_eq. intros a b. apply N.eqb_eq. Qed.
Lemma bytes_eqb_refl : forall a, bytes_eqb a a = true.
Proof. apply list_eqb_refl. apply N.eqb_refl. Qed.
Lemma ekind_eqb_eq : forall a b, ekind_eqb a b = true -> a = b.
Proof. intros [] []; cbn; try discriminate; reflexivity. Qed.
Lemma ekind_eqb_refl : forall a, ekind_eqb a a = true.
Proof. intros []; reflexivity. Qed.
Lemma iobs_eqb_eq : forall a b, iobs_eqb a b = true -> a = b.
Proof.
  intros [x|x] [y|y]; cbn; try discriminate; intros H; f_equal;
    [apply N.eqb_eq | apply ekind_eqb_eq]; exact H.
Qed.
Lemma iobs_eqb_refl : forall a, iobs_eqb a a = true.
Proof. intros [x|x]; cbn; [apply N.eqb_refl | apply ekind_eqb_refl]. Qed.
Lemma entry_eqb_eq : forall a b, entry_eqb a b = true -> a = b.
Proof.
  intros [r n] [r' n']. unfold entry_eqb. cbn [fst snd]. intros H.
  apply andb_true_iff in H as [H1 H2]. apply N.eqb_eq in H2. subst n'. f_equal.
  destruct r as [|x|x], r' as [|y|y]; cbn in H1; try discriminate; try reflexivity; f_equal;
    [apply ekind_eqb_eq | apply N.eqb_eq]; exact H1.
Qed.

Lemma concat_split_cuts : forall cuts s, concat (split_cuts cuts s) = s.
Proof.
  induction cuts as [|c cs IH]; intros s; cbn [split_cuts].
  - destruct s; cbn; [reflexivity | rewrite app_nil_r; reflexivity].
  - cbn [concat]. rewrite IH. apply firstn_skipn.
Qed.

Definition obs_entry (e : tr_entry msg) : robs * N := (robs_of (fst e), snd e).

Lemma concat_obs_trace : forall trs, concat (obs_trace trs) = map obs_entry (concat trs).
Proof. intros trs. unfold obs_trace. rewrite concat_map. reflexivity. Qed.

Lemma tr_items_obs : forall trs, tr_items (obs_trace trs) = map iobs_of (items_of msg (concat trs)).
Proof.
  intros trs. unfold tr_items. rewrite concat_obs_trace. induction (concat trs) as [|[r n] l IH]; [reflexivity|].
  cbn [map flat_map]. rewrite IH. unfold items_of. cbn [flat_map]. rewrite map_app.
  destruct r as [|e|[id|]]; reflexivity.
Qed.

Lemma need_bounded_obs : forall max trs,
  (forall n, In (DNeed, n) (concat trs) -> n < 8 + max) ->
  forallb (need_bounded max) (concat (obs_trace trs)) = true.
Proof.
  intros max trs H. rewrite concat_obs_trace. apply forallb_forall. intros x Hx.
  apply in_map_iff in Hx as [[r n] [<- Hin]]. unfold need_bounded, obs_entry. cbn [fst snd].
  destruct r as [|e|[id|]]; cbn; try reflexivity. apply N.ltb_lt. apply H. exact Hin.
Qed.

Lemma ser_id_len : forall jt id, forallb (fun row => len (fst row) <? 2 ^ 64) jt = true ->
  len (ser_id jt id) < 2 ^ 64.
Proof.
  induction jt as [|[q r] jt IH]; intros id H; cbn [ser_id].
  - reflexivity.
  - cbn [forallb fst] in H. apply andb_true_iff in H as [H1 H2]. apply N.ltb_lt in H1.
    destruct r as [i|]; [destruct (i =? id); [exact H1|]|]; apply IH; exact H2.
Qed.

Lemma to_nat_len : forall {A} (l : list A), N.to_nat (len l) = length l.
Proof. intros A l. unfold len. apply Nat2N.id. Qed.

Lemma is_frames_wire : forall jt msgs, forallb (fun row => len (fst row) <? 2 ^ 64) jt = true ->
  is_frames jt msgs (wire msg (ser_case jt) (map Some msgs)) = true.
Proof.
  intros jt msgs Hl. induction msgs as [|id r IH]; [reflexivity|].
  unfold wire. cbn [map concat]. fold (wire msg (ser_case jt) (map Some r)).
  unfold frame. cbn [ser_case is_frames]. rewrite <- app_assoc, hdr_be64 by (apply ser_id_len; exact Hl).
  rewrite N.eqb_refl, !to_nat_len.
  rewrite firstn_app, Nat.sub_diag, firstn_O, app_nil_r, firstn_all, bytes_eqb_refl.
  rewrite skipn_app, Nat.sub_diag, skipn_all. cbn [skipn app]. rewrite IH.
  assert (E : (len (ser_id jt id) <=? len (ser_id jt id ++ wire msg (ser_case jt) (map Some r))) = true)
    by (apply N.leb_le; rewrite len_app; lia).
  rewrite E. reflexivity.
Qed.

Lemma good_msgs : forall jt max msgs,
  forallb (fun id => opt_eqb (opt_eqb N.eqb) (de_case jt (ser_id jt id)) (Some (Some id))) msgs = true ->
  forallb (fun id => validb msg (ser_case jt) max (Some id)) msgs = true ->
  Forall (good msg (de_case jt) max (ser_case jt)) (map Some msgs).
Proof.
  intros jt max. induction msgs as [|id r IH]; cbn [forallb map]; intros H1 H2; constructor.
  - apply andb_true_iff in H1 as [H1 _]. apply andb_true_iff in H2 as [H2 _]. split.
    + apply validb_valid. exact H2.
    + cbn [ser_case]. destruct (de_case jt (ser_id jt id)) as [[i|]|]; cbn in H1; try discriminate.
      apply N.eqb_eq in H1. subst i. reflexivity.
  - apply andb_true_iff in H1 as [_ H1]. apply andb_true_iff in H2 as [_ H2]. apply IH; assumption.
Qed.

Lemma map_iobs_msgs : forall msgs, map iobs_of (map IMsg (map Some msgs)) = map OMsg msgs.
Proof. induction msgs as [|id r IH]; cbn; [reflexivity|]. rewrite IH. reflexivity. Qed.

Lemma spec_stream_false : forall M de max s,
  spec_stream M de max s false = parse M de max (S (length s)) s.
Proof.
  intros M de max s. unfold spec_stream. destruct (parse M de max (S (length s)) s) as [is [[|? ?]|]]; reflexivity.
Qed.

Theorem agree_implies_pcheck : forall c, agree c = true -> pcheck c = true.
Proof.
  intros [max jt msgs enc extra cuts eof trace rest fr]. unfold agree, pcheck.
  intros H. apply andb_true_iff in H as [Hwf H].
  unfold wf_case in Hwf. apply andb_true_iff in Hwf as [Hlen Hrt].
  (* the encoder *)
  unfold model_enc in H. rewrite encode_all_wire in H. cbn [app] in H.
  set (W := wire msg (ser_case jt) (map Some msgs)) in *.
  destruct enc as [e|]; [|destruct (feed msg (de_case jt) max [] _); cbn in H; discriminate].
  cbn [stream_of] in H.
  set (chunks := split_cuts cuts (e ++ extra)) in *.
  assert (Hcc : concat chunks = e ++ extra) by apply concat_split_cuts.
  assert (FP := feed_is_parse msg (de_case jt) max chunks).
  assert (FB := feed_need_bounded msg (de_case jt) max chunks []).
  assert (FS := framed_is_spec msg (de_case jt) max chunks eof).
  destruct (feed msg (de_case jt) max [] chunks) as [trs s] eqn:F. cbn [fst snd] in FP, FB.
  apply andb_true_iff in H as [H Hfr]. apply andb_true_iff in H as [H Hrest].
  apply andb_true_iff in H as [Henc Htr].
  cbn [opt_eqb] in Henc. apply bytes_eqb_eq in Henc. subst e.
  apply (list_eqb_eq _ (list_eqb_eq _ entry_eqb_eq)) in Htr. subst trace.
  apply (list_eqb_eq _ iobs_eqb_eq) in Hfr. subst fr.
  rewrite Hcc in FP, FS. rewrite FS.
  rewrite spec_stream_false.
  destruct (parse msg (de_case jt) max (S (length (W ++ extra))) (W ++ extra)) as [sis st] eqn:PE.
  cbn [fst snd] in FP. destruct FP as [FP1 FP2].
  destruct (spec_stream msg (de_case jt) max (W ++ extra) eof) as [sise st'] eqn:SE. cbn [fst].
  rewrite tr_items_obs, FP1.
  assert (IF : is_frames jt msgs W = true) by (apply is_frames_wire; exact Hlen).
  rewrite IF, !(list_eqb_refl _ iobs_eqb_refl).
  rewrite (need_bounded_obs max trs FB).
  assert (Hst : match st with Some t => bytes_eqb t rest | None => true end = true).
  { destruct st as [t|]; [|reflexivity]. destruct s as [b| |]; try discriminate; [|contradiction].
    injection FP2 as ->. cbn in Hrest. exact Hrest. }
  rewrite Hst. cbn [andb]. rewrite !andb_true_r.
  (* P2 *)
  destruct extra as [|x extra']; [|reflexivity]. cbn [andb].
  destruct (forallb (fun id => validb msg (ser_case jt) max (Some id)) msgs) eqn:V; [|reflexivity].
  assert (G := good_msgs jt max msgs Hrt V).
  rewrite app_nil_r in Hcc.
  destruct (any_split msg (de_case jt) max (ser_case jt) (map Some msgs) chunks eof G Hcc) as (A1 & A2 & A3).
  rewrite F in A2, A3. cbn [fst snd] in A2, A3.
  rewrite FS in A1. cbn [fst] in A1.
  rewrite <- FP1, A2, A1, map_iobs_msgs, !(list_eqb_refl _ iobs_eqb_refl).
  subst s. cbn in Hrest. cbn [andb]. exact Hrest.
Qed.

(* a delivered message is exactly serde's reading of the announced bytes: nothing is misparsed *)
Lemma decode_msg_inv : forall M de max src m r, decode M de max src = (DMsg m, r) ->
  exists n p, hdr src = Some (n, p ++ r) /\ len p = n /\ 0 < n /\ n <= max /\ de p = Some m.
Proof.
  intros M de max src m r. rewrite decode_is_clean. unfold decode_clean.
  destruct (hdr src) as [[n body]|]; [|discriminate].
  destruct (n =? 0) eqn:E0; [discriminate|]. destruct (max <? n) eqn:E1; [discriminate|].
  destruct (len body <? n) eqn:E2; [discriminate|].
  destruct (de (firstn (N.to_nat n) body)) as [m'|] eqn:D; [|discriminate].
  intros [= <- <-]. exists n, (firstn (N.to_nat n) body).
  apply N.eqb_neq in E0. apply N.ltb_ge in E1. apply N.ltb_ge in E2.
  rewrite firstn_skipn. repeat split; try lia; try exact D.
  unfold len in *. rewrite firstn_length. lia.
Qed.

Lemma decode_err_inv : forall M de max src e r, decode M de max src = (DErr e, r) ->
  exists n body, hdr src = Some (n, body) /\
    ((e = EEmpty /\ n = 0 /\ r = src) \/ (e = ETooLarge /\ max < n /\ r = src) \/
     (e = EBadJson /\ 0 < n /\ n <= max /\ n <= len body /\ de (firstn (N.to_nat n) body) = None
      /\ r = skipn (N.to_nat n) body)).
Proof.
  intros M de max src e r. rewrite decode_is_clean. unfold decode_clean.
  destruct (hdr src) as [[n body]|]; [|discriminate]. intros H. exists n, body. split; [reflexivity|].
  destruct (n =? 0) eqn:E0. { injection H as <- <-. apply N.eqb_eq in E0. left. auto. }
  destruct (max <? n) eqn:E1. { injection H as <- <-. apply N.ltb_lt in E1. right. left. auto. }
  destruct (len body <? n) eqn:E2; [discriminate|].
  destruct (de (firstn (N.to_nat n) body)) as [m'|] eqn:D; [discriminate|].
  injection H as <- <-. apply N.eqb_neq in E0. apply N.ltb_ge in E1. apply N.ltb_ge in E2.
  right. right. repeat split; try lia; reflexivity.
Qed.
