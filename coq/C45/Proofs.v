(* KV.C45.Proofs *)
From Coq Require Import List NArith Bool Arith Lia.
Import ListNotations.
Require Import KV.C45.Model.
Open Scope N_scope.
Arguments N.eqb : simpl never.

(* ------------------------------------------------------------------ sets as duplicate-free lists *)
Lemma mem_In x s : mem x s = true <-> In x s.
Proof.
  unfold mem. rewrite existsb_exists. split.
  - intros [y [Hy H]]. apply N.eqb_eq in H. subst y. exact Hy.
  - intros H. exists x. split; [exact H | apply N.eqb_refl].
Qed.

Lemma In_set_insert x s y : In x (set_insert s y) <-> In x s \/ x = y.
Proof.
  unfold set_insert. destruct (mem y s) eqn:E.
  - apply mem_In in E. split; [intros H; left; exact H|]. intros [H| ->]; assumption.
  - rewrite in_app_iff. cbn [In]. split.
    + intros [H|[H|[]]]; [left; exact H | right; symmetry; exact H].
    + intros [H| ->]; [left; exact H | right; left; reflexivity].
Qed.

Lemma In_fold_insert x : forall l s, In x (fold_left set_insert l s) <-> In x s \/ In x l.
Proof.
  induction l as [|a l IH]; intros s; cbn [fold_left In].
  - tauto.
  - rewrite IH, In_set_insert. split.
    + intros [[H|H]|H]; [left; exact H | right; left; symmetry; exact H | right; right; exact H].
    + intros [H|[H|H]]; [left; left; exact H | left; right; symmetry; exact H | right; exact H].
Qed.

Lemma In_set_of x l : In x (set_of l) <-> In x l.
Proof. unfold set_of. rewrite In_fold_insert. cbn [In]. tauto. Qed.

Lemma set_of_cons_nonempty a l : set_of (a :: l) <> [].
Proof.
  intros H. assert (Hin : In a (set_of (a :: l))) by (apply In_set_of; left; reflexivity).
  rewrite H in Hin. exact Hin.
Qed.

Lemma count_existsb a b :
  negb (Nat.eqb (intersection_count a b) 0) = existsb (fun x => mem x b) a.
Proof.
  unfold intersection_count. induction a as [|x a IH]; cbn [filter existsb]; [reflexivity|].
  destruct (mem x b); cbn [length orb]; [reflexivity | exact IH].
Qed.

(* ------------------------------------------------------------------ membership, both phrasings *)
Definition member_prop (allow : list str) (tok : token) : Prop :=
  exists g, In g (t_groups tok) /\ (In (g_name g) allow \/ In (g_uuid g) allow).

Lemma member_spec_iff allow tok : member_spec allow tok = true <-> member_prop allow tok.
Proof.
  unfold member_spec, member_prop. rewrite existsb_exists. split.
  - intros [a [Ha H]]. apply existsb_exists in H as [g [Hg H]]. exists g. split; [exact Hg|].
    apply orb_true_iff in H as [H|H]; apply N.eqb_eq in H; subst a; [left | right]; exact Ha.
  - intros [g [Hg [H|H]]].
    + exists (g_name g). split; [exact H|]. apply existsb_exists. exists g. split; [exact Hg|].
      rewrite N.eqb_refl. reflexivity.
    + exists (g_uuid g). split; [exact H|]. apply existsb_exists. exists g. split; [exact Hg|].
      rewrite N.eqb_refl. apply orb_true_r.
Qed.

Lemma sets_intersect_iff allow tok :
  existsb (fun x => mem x (set_of allow))
          (set_of (flat_map (fun g => [g_name g; g_uuid g]) (t_groups tok))) = true
  <-> member_prop allow tok.
Proof.
  rewrite existsb_exists. unfold member_prop. split.
  - intros [x [Hx H]]. apply (proj1 (mem_In _ _)) in H. apply (proj1 (In_set_of _ _)) in H.
    apply (proj1 (In_set_of _ _)) in Hx. apply in_flat_map in Hx as [g [Hg Hx]].
    exists g. split; [exact Hg|]. cbn [In] in Hx. destruct Hx as [<-|[<-|[]]]; [left | right]; exact H.
  - intros [g [Hg H]].
    destruct H as [H|H]; [exists (g_name g) | exists (g_uuid g)];
      (split; [|apply (proj2 (mem_In _ _)); apply (proj2 (In_set_of _ _)); exact H]);
      apply (proj2 (In_set_of _ _)); apply in_flat_map; exists g; (split; [exact Hg|]); cbn [In]; auto.
Qed.

(* ------------------------------------------------------------------ unix_user_authorise = the declarative predicate *)
Theorem authorise_eq allow tok : unix_user_authorise allow tok = PSome (authorise_spec allow tok).
Proof.
  unfold unix_user_authorise, authorise_spec. destruct allow as [|a l]; [reflexivity|].
  destruct (set_of (a :: l)) as [|s0 s'] eqn:E; [exfalso; exact (set_of_cons_nonempty a l E)|].
  rewrite <- E, count_existsb. f_equal. rewrite andb_comm. f_equal.
  apply eq_true_iff_eq. rewrite sets_intersect_iff, member_spec_iff. reflexivity.
Qed.

Theorem authorise_true_iff allow tok :
  unix_user_authorise allow tok = PSome true <->
  allow <> [] /\ t_valid tok = true /\ member_prop allow tok.
Proof.
  rewrite authorise_eq. unfold authorise_spec. split.
  - intros H. injection H as H. destruct allow as [|a l]; [discriminate|].
    apply andb_true_iff in H as [Hv Hm]. split; [discriminate|]. split; [exact Hv|].
    apply member_spec_iff. exact Hm.
  - intros [Hne [Hv Hm]]. destruct allow as [|a l]; [contradiction|].
    apply member_spec_iff in Hm. rewrite Hv, Hm. reflexivity.
Qed.

(* ------------------------------------------------------------------ the cache is the newest non-error answer *)
Lemma cache_get_del id' id c :
  cache_get id' (cache_del id c) = if id' =? id then None else cache_get id' c.
Proof.
  induction c as [|[k t] r IH]; cbn [cache_del cache_get].
  - destruct (id' =? id); reflexivity.
  - destruct (id =? k) eqn:E1.
    + apply N.eqb_eq in E1. subst k. rewrite IH. destruct (id' =? id); reflexivity.
    + cbn [cache_get]. rewrite IH. destruct (id' =? k) eqn:E2; [|reflexivity].
      apply N.eqb_eq in E2. subst k. destruct (id' =? id) eqn:E3; [|reflexivity].
      apply N.eqb_eq in E3. subst id'. rewrite N.eqb_refl in E1. discriminate.
Qed.

Lemma cache_get_put id' id t c :
  cache_get id' (cache_put id t c) = if id' =? id then Some t else cache_get id' c.
Proof.
  unfold cache_put. cbn [cache_get]. rewrite cache_get_del. destruct (id' =? id); reflexivity.
Qed.

Definition cache_inv (sys : list str) (c : cache) (earlier_rev : list (str * dresp)) : Prop :=
  forall id, mem id sys = false -> cache_get id c = record_of id earlier_rev.

Lemma pam_run_spec allow sys : forall steps c earlier,
  cache_inv sys c earlier -> pam_run allow sys c steps = pam_spec_run allow sys earlier steps.
Proof.
  induction steps as [|[id resp] r IH]; intros c earlier Hinv; [reflexivity|].
  cbn [pam_run pam_spec_run]. unfold pam_step, pam_spec.
  destruct (mem id sys) eqn:Es.
  - f_equal. apply IH. intros id' Hs'. cbn [record_of].
    destruct (id' =? id) eqn:E; [|apply Hinv; exact Hs'].
    apply N.eqb_eq in E. subst id'. rewrite Es in Hs'. discriminate.
  - cbn [record_of]. rewrite N.eqb_refl. destruct resp as [t| |].
    + rewrite authorise_eq. f_equal. apply IH. intros id' Hs'. cbn [record_of].
      rewrite cache_get_put. destruct (id' =? id); [reflexivity | apply Hinv; exact Hs'].
    + f_equal. apply IH. intros id' Hs'. cbn [record_of].
      rewrite cache_get_del. destruct (id' =? id); [reflexivity | apply Hinv; exact Hs'].
    + rewrite (Hinv id Es). destruct (record_of id earlier) as [t|].
      * rewrite authorise_eq. f_equal. apply IH. intros id' Hs'. cbn [record_of].
        destruct (id' =? id); apply Hinv; exact Hs'.
      * f_equal. apply IH. intros id' Hs'. cbn [record_of].
        destruct (id' =? id); apply Hinv; exact Hs'.
Qed.

Theorem pam_run_is_spec allow sys steps : pam_run allow sys [] steps = pam_spec_run allow sys [] steps.
Proof. apply pam_run_spec. intros id _. reflexivity. Qed.

Lemma pam_spec_run_app allow sys : forall a e b,
  pam_spec_run allow sys e (a ++ b) = pam_spec_run allow sys e a ++ pam_spec_run allow sys (rev a ++ e) b.
Proof.
  induction a as [|[id resp] a IH]; intros e b; [reflexivity|].
  cbn [app pam_spec_run rev]. rewrite IH, <- app_assoc. reflexivity.
Qed.

Lemma pam_spec_run_length allow sys : forall a e, length (pam_spec_run allow sys e a) = length a.
Proof. induction a as [|[id resp] a IH]; intros e; cbn; [reflexivity | rewrite IH; reflexivity]. Qed.

(* provenance of the record in force *)
Lemma record_of_provenance id t : forall h,
  record_of id h = Some t ->
  exists pre post, h = pre ++ (id, DTok t) :: post /\
    forall k r, In (k, r) pre -> k = id -> r = DError.
Proof.
  induction h as [|[k resp] h IH]; cbn [record_of]; [discriminate|].
  destruct (id =? k) eqn:E.
  - apply N.eqb_eq in E. subst k. destruct resp as [t'| |].
    + intros [= ->]. exists [], h. split; [reflexivity|]. intros k r [].
    + discriminate.
    + intros H. destruct (IH H) as [pre [post [-> Hp]]].
      exists ((id, DError) :: pre), post. split; [reflexivity|].
      intros k r [[= <- <-]|Hin] Hk; [reflexivity | exact (Hp k r Hin Hk)].
  - intros H. destruct (IH H) as [pre [post [-> Hp]]].
    exists ((k, resp) :: pre), post. split; [reflexivity|].
    intros k' r [[= <- <-]|Hin] Hk; [|exact (Hp k' r Hin Hk)].
    subst k. rewrite N.eqb_refl in E. discriminate.
Qed.

(* ------------------------------------------------------------------ boolean equalities, bridge *)
Lemma presult_eqb_eq a b : presult_eqb a b = true -> a = b.
Proof. destruct a as [x| |], b as [y| |]; cbn; intros H; try discriminate; [apply Bool.eqb_prop in H; subst|..]; reflexivity. Qed.
Lemma presult_eqb_refl a : presult_eqb a a = true.
Proof. destruct a as [x| |]; cbn; [apply Bool.eqb_reflx | reflexivity | reflexivity]. Qed.
Lemma plist_eqb_eq : forall a b, plist_eqb a b = true -> a = b.
Proof.
  induction a as [|x a IH]; intros [|y b] H; cbn [plist_eqb] in H; try discriminate; [reflexivity|].
  apply andb_true_iff in H as [H1 H2]. apply presult_eqb_eq in H1. subst y. rewrite (IH b H2). reflexivity.
Qed.
Lemma plist_eqb_refl : forall a, plist_eqb a a = true.
Proof. induction a as [|x a IH]; cbn [plist_eqb]; [reflexivity|]. rewrite presult_eqb_refl, IH. reflexivity. Qed.

Theorem agree_implies_pcheck c : agree c = true -> pcheck c = true.
Proof.
  destruct c as [allow tok impl | allow sys steps impl]; cbn [agree pcheck]; intros H.
  - apply presult_eqb_eq in H. subst impl. rewrite authorise_eq. apply presult_eqb_refl.
  - apply plist_eqb_eq in H. subst impl. rewrite pam_run_is_spec. apply plist_eqb_refl.
Qed.
