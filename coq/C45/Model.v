(* KV.C45.Model — KanidmProvider::unix_user_authorise
   (unix_integration/resolver_common/src/idprovider/kanidm.rs:749) and the part of
   Resolver::pam_account_allowed (resolver.rs:964) / get_usertoken / refresh_usertoken that
   decides WHICH account record is authorised, transcribed.  Executable definitions only.

   Strings are interned as N by the harness (only equality is used by the code); a group's uuid
   is carried as the interned string `uuid.hyphenated().to_string()`, in the same name space as
   group names and allow-list entries. *)
From Coq Require Import List NArith Bool.
Import ListNotations.
Open Scope N_scope.

Definition str := N.
Record group := mkgroup { g_name : str; g_uuid : str }.
(* the fields of UserToken that authorisation reads *)
Record token := mktoken { t_valid : bool; t_groups : list group }.

(* Result<Option<bool>, _> *)
Inductive presult := PSome (b : bool) | PNone | PErr.

(* ------------------------------------------------------------------ BTreeSet<String> as a duplicate-free list *)
Definition mem (x : str) (s : list str) : bool := existsb (N.eqb x) s.
Definition set_insert (s : list str) (x : str) : list str := if mem x s then s else s ++ [x].
Definition set_of (l : list str) : list str := fold_left set_insert l [].
(* a.intersection(&b).count() *)
Definition intersection_count (a b : list str) : nat := length (filter (fun x => mem x b) a).

(* ------------------------------------------------------------------ unix_user_authorise *)
Definition unix_user_authorise (allow : list str) (tok : token) : presult :=
  let pam_allow_groups := set_of allow in              (* built once in KanidmProvider::new *)
  match pam_allow_groups with
  | [] => PSome false                                  (* "NO USERS CAN LOGIN TO THIS SYSTEM" *)
  | _ =>
      let user_set := set_of (flat_map (fun g => [g_name g; g_uuid g]) (t_groups tok)) in
      let n := intersection_count user_set pam_allow_groups in
      PSome (negb (Nat.eqb n 0) && t_valid tok)
  end.

(* ------------------------------------------------------------------ Resolver::pam_account_allowed *)
(* what the kanidm server answers for the account's unix token *)
Inductive dresp := DTok (t : token) | DNotFound | DError.
(* the resolver's account cache (the harness invalidates it before every call, so every entry
   is expired and every call refreshes; an entry only matters as the fallback on errors) *)
Definition cache := list (str * token).
Fixpoint cache_get (id : str) (c : cache) : option token :=
  match c with [] => None | (k, t) :: r => if id =? k then Some t else cache_get id r end.
Fixpoint cache_del (id : str) (c : cache) : cache :=
  match c with [] => [] | (k, t) :: r => if id =? k then cache_del id r else (k, t) :: cache_del id r end.
Definition cache_put (id : str) (t : token) (c : cache) : cache := (id, t) :: cache_del id c.

Definition pam_step (allow sys : list str) (c : cache) (id : str) (resp : dresp) : presult * cache :=
  if mem id sys then (PSome true, c)                   (* system_provider.authorise: a local account *)
  else
    match resp with
    | DTok t => (unix_user_authorise allow t, cache_put id t c)   (* UserTokenState::Update *)
    | DNotFound => (PNone, cache_del id c)                        (* purge + Ok(None) *)
    | DError =>                                                   (* Err(BadRequest): "return the token anyway" *)
        match cache_get id c with
        | Some t => (unix_user_authorise allow t, c)
        | None => (PNone, c)
        end
    end.

Fixpoint pam_run (allow sys : list str) (c : cache) (steps : list (str * dresp)) : list presult :=
  match steps with
  | [] => []
  | (id, resp) :: r =>
      let '(res, c') := pam_step allow sys c id resp in res :: pam_run allow sys c' r
  end.

(* ================================================================== the property, stated independently *)
(* "belongs, by name or UUID, to at least one group in the allowed-login list" — iterating the
   allow list, no sets, no counting *)
Definition member_spec (allow : list str) (tok : token) : bool :=
  existsb (fun a => existsb (fun g => (a =? g_name g) || (a =? g_uuid g)) (t_groups tok)) allow.
Definition authorise_spec (allow : list str) (tok : token) : bool :=
  match allow with [] => false | _ => t_valid tok && member_spec allow tok end.

(* the account record in force for [id] given the EARLIER answers of the server, newest first:
   the newest answer for id that is not an error decides *)
Fixpoint record_of (id : str) (earlier_rev : list (str * dresp)) : option token :=
  match earlier_rev with
  | [] => None
  | (k, resp) :: r =>
      if id =? k then
        match resp with DTok t => Some t | DNotFound => None | DError => record_of id r end
      else record_of id r
  end.
Definition pam_spec (allow sys : list str) (earlier_rev : list (str * dresp)) (id : str) (resp : dresp) : presult :=
  if mem id sys then PSome true
  else match record_of id ((id, resp) :: earlier_rev) with
       | Some t => PSome (authorise_spec allow t)
       | None => PNone
       end.
Fixpoint pam_spec_run (allow sys : list str) (earlier_rev steps : list (str * dresp)) : list presult :=
  match steps with
  | [] => []
  | (id, resp) :: r => pam_spec allow sys earlier_rev id resp :: pam_spec_run allow sys ((id, resp) :: earlier_rev) r
  end.

(* ------------------------------------------------------------------ correspondence *)
Definition presult_eqb (a b : presult) : bool :=
  match a, b with
  | PSome x, PSome y => Bool.eqb x y
  | PNone, PNone => true
  | PErr, PErr => true
  | _, _ => false
  end.
Fixpoint plist_eqb (a b : list presult) : bool :=
  match a, b with
  | [], [] => true
  | x :: a', y :: b' => presult_eqb x y && plist_eqb a' b'
  | _, _ => false
  end.

Inductive case :=
| CProv (allow : list str) (tok : token) (impl : presult)
| CPam (allow sys : list str) (steps : list (str * dresp)) (impl : list presult).

Definition agree (c : case) : bool :=
  match c with
  | CProv allow tok impl => presult_eqb (unix_user_authorise allow tok) impl
  | CPam allow sys steps impl => plist_eqb (pam_run allow sys [] steps) impl
  end.
Definition pcheck (c : case) : bool :=
  match c with
  | CProv allow tok impl => presult_eqb (PSome (authorise_spec allow tok)) impl
  | CPam allow sys steps impl => plist_eqb (pam_spec_run allow sys [] steps) impl
  end.
Definition known (_ : case) : bool := false.
