(* KV.C45.Props — property theorems only.
   C45: a directory user may log in to a host only if the user's current account record is valid
   and the user belongs, by name or UUID, to at least one group in the host's allowed-login list;
   an empty list admits no directory users. *)
From Coq Require Import List NArith Bool.
Import ListNotations.
Require Import KV.C45.Model KV.C45.Proofs.
Open Scope N_scope.

(* THE CHARACTERISATION.  For every allowed-login list and every user token (any lengths,
   duplicates, names equal to uuid strings, ...): the provider answers "allowed" exactly when the
   list is non-empty, the record is valid, and some group of the token is in the list by its name
   or by the hyphenated string of its uuid. *)
Theorem C45_iff : forall allow tok,
  unix_user_authorise allow tok = PSome true <->
  allow <> [] /\ t_valid tok = true /\
  exists g, In g (t_groups tok) /\ (In (g_name g) allow \/ In (g_uuid g) allow).
Proof. exact authorise_true_iff. Qed.

(* the answer is always a definite yes/no: never "unknown user", never an error *)
Theorem C45_total : forall allow tok, exists b, unix_user_authorise allow tok = PSome b.
Proof. intros allow tok. rewrite authorise_eq. eexists. reflexivity. Qed.

(* an empty list admits no directory user *)
Theorem C45_empty_denies : forall tok, unix_user_authorise [] tok = PSome false.
Proof. reflexivity. Qed.

(* an invalid (expired / locked) record is denied whatever its groups *)
Theorem C45_invalid_denies : forall allow tok,
  t_valid tok = false -> unix_user_authorise allow tok = PSome false.
Proof.
  intros allow tok Hv. rewrite authorise_eq. unfold authorise_spec. rewrite Hv.
  destruct allow; reflexivity.
Qed.

(* no listed group => denied *)
Theorem C45_non_member_denied : forall allow tok,
  (forall g, In g (t_groups tok) -> ~ In (g_name g) allow /\ ~ In (g_uuid g) allow) ->
  unix_user_authorise allow tok = PSome false.
Proof.
  intros allow tok Hn. destruct (C45_total allow tok) as [[|] Hb]; [|exact Hb].
  apply C45_iff in Hb as [_ [_ [g [Hg [H|H]]]]]; destruct (Hn g Hg) as [N1 N2]; contradiction.
Qed.

(* the set/intersection-count transcription equals the declarative predicate *)
Theorem C45_authorise_is_spec : forall allow tok,
  unix_user_authorise allow tok = PSome (authorise_spec allow tok).
Proof. exact authorise_eq. Qed.

(* RESOLVER LEVEL.  For every history of pam_account_allowed calls (any length) on a resolver
   that starts with an empty cache and re-reads the record on every call, the answers are those of
   the declarative [pam_spec]: a system account is allowed without consulting the directory;
   otherwise the record in force decides. *)
Theorem C45_pam_run_is_spec : forall allow sys steps,
  pam_run allow sys [] steps = pam_spec_run allow sys [] steps.
Proof. exact pam_run_is_spec. Qed.

(* the answer to the call at position [length pre] of a history *)
Theorem C45_pam_nth : forall allow sys pre id resp post,
  nth_error (pam_run allow sys [] (pre ++ (id, resp) :: post)) (length pre)
  = Some (pam_spec allow sys (rev pre) id resp).
Proof.
  intros allow sys pre id resp post. rewrite pam_run_is_spec, pam_spec_run_app.
  rewrite nth_error_app2; rewrite pam_spec_run_length; [|apply le_n].
  rewrite PeanoNat.Nat.sub_diag, app_nil_r. reflexivity.
Qed.

(* A DIRECTORY USER IS ALLOWED ONLY IF the record in force for that account is valid and in an
   allowed group, and the allow list is non-empty ... *)
Theorem C45_pam_directory_user_allowed : forall allow sys earlier id resp,
  mem id sys = false ->
  pam_spec allow sys earlier id resp = PSome true ->
  allow <> [] /\
  exists t, record_of id ((id, resp) :: earlier) = Some t /\ t_valid t = true /\
    exists g, In g (t_groups t) /\ (In (g_name g) allow \/ In (g_uuid g) allow).
Proof.
  intros allow sys earlier id resp Hs H. unfold pam_spec in H. rewrite Hs in H.
  destruct (record_of id ((id, resp) :: earlier)) as [t|] eqn:Er; [|discriminate].
  rewrite <- authorise_eq in H. apply C45_iff in H as [Hne [Hv Hm]].
  split; [exact Hne|]. exists t. split; [reflexivity|]. split; [exact Hv | exact Hm].
Qed.

(* ... where the record in force is one the server really returned for THAT account, and it is
   the newest answer for the account that was not a server error (the current record when the
   server answers; the last known record while it does not) *)
Theorem C45_record_provenance : forall id t h,
  record_of id h = Some t ->
  exists pre post, h = pre ++ (id, DTok t) :: post /\
    forall k r, In (k, r) pre -> k = id -> r = DError.
Proof. intros id t h. apply record_of_provenance. Qed.

(* when the server answers with a record, that record alone decides (no stale cache) *)
Theorem C45_pam_current_record : forall allow sys earlier id t,
  mem id sys = false ->
  pam_spec allow sys earlier id (DTok t) = unix_user_authorise allow t.
Proof.
  intros allow sys earlier id t Hs. unfold pam_spec. rewrite Hs. cbn [record_of].
  rewrite N.eqb_refl, authorise_eq. reflexivity.
Qed.

(* an account the server no longer knows is an unknown user, whatever was cached *)
Theorem C45_pam_removed_account : forall allow sys earlier id,
  mem id sys = false -> pam_spec allow sys earlier id DNotFound = PNone.
Proof.
  intros allow sys earlier id Hs. unfold pam_spec. rewrite Hs. cbn [record_of].
  rewrite N.eqb_refl. reflexivity.
Qed.

(* with an empty allow list no directory user is ever allowed, in any history *)
Theorem C45_pam_empty_list_admits_no_directory_user : forall sys earlier id resp,
  mem id sys = false -> pam_spec [] sys earlier id resp <> PSome true.
Proof.
  intros sys earlier id resp Hs H.
  apply C45_pam_directory_user_allowed in H as [Hne _]; [apply Hne; reflexivity | exact Hs].
Qed.

(* bridge: wherever the implementation agreed with the model, the independently phrased property
   predicate holds of the implementation's own answers *)
Theorem C45_agree_implies_property : forall c, agree c = true -> pcheck c = true.
Proof. exact agree_implies_pcheck. Qed.
