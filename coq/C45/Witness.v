(* KV.C45.Witness — non-vacuity of the implication theorems of Props.v. *)
From Coq Require Import List NArith Bool.
Import ListNotations.
Require Import KV.C45.Model.
Open Scope N_scope.

(* strings: 1..4 group names; 11..14 uuid strings; 12 is ALSO used as a group name; 30.. account ids *)
Definition w_allow : list str := [2; 13; 13; 12].
Definition w_tok_by_name : token := mktoken true [mkgroup 1 11; mkgroup 2 14].
Definition w_tok_by_uuid : token := mktoken true [mkgroup 1 11; mkgroup 3 13; mkgroup 3 13].
Definition w_tok_name_is_uuid : token := mktoken true [mkgroup 12 11].     (* a group NAMED like a listed uuid *)
Definition w_tok_outsider : token := mktoken true [mkgroup 1 11; mkgroup 4 14].
Definition w_tok_invalid : token := mktoken false [mkgroup 2 14].

(* C45_iff, both directions, on non-trivial data *)
Example C45_witness_allowed :
  unix_user_authorise w_allow w_tok_by_name = PSome true /\
  unix_user_authorise w_allow w_tok_by_uuid = PSome true /\
  unix_user_authorise w_allow w_tok_name_is_uuid = PSome true.
Proof. vm_compute. repeat split; reflexivity. Qed.
(* C45_non_member_denied: hypotheses met by a valid user with groups and a non-empty list *)
Example C45_witness_outsider :
  forallb (fun g => negb (mem (g_name g) w_allow) && negb (mem (g_uuid g) w_allow)) (t_groups w_tok_outsider) = true /\
  unix_user_authorise w_allow w_tok_outsider = PSome false.
Proof. vm_compute. repeat split; reflexivity. Qed.
(* C45_invalid_denies: an invalid record that IS in an allowed group *)
Example C45_witness_invalid :
  t_valid w_tok_invalid = false /\ member_spec w_allow w_tok_invalid = true /\
  unix_user_authorise w_allow w_tok_invalid = PSome false.
Proof. vm_compute. repeat split; reflexivity. Qed.
(* C45_empty_denies on a user that the non-empty list admits *)
Example C45_witness_empty : unix_user_authorise [] w_tok_by_name = PSome false.
Proof. vm_compute. reflexivity. Qed.

(* resolver level: 40 = root (system), 30 = alice, 31 = bob *)
Definition w_hist : list (str * dresp) :=
  [ (30, DTok w_tok_by_name);      (* alice allowed *)
    (31, DTok w_tok_outsider);     (* bob denied *)
    (30, DError);                  (* server error: alice's cached record still decides *)
    (30, DTok w_tok_invalid);      (* alice's record is now invalid *)
    (30, DError);                  (* ... and the cached invalid record decides *)
    (30, DNotFound);               (* alice removed *)
    (30, DError);                  (* nothing cached any more *)
    (40, DNotFound) ].             (* root is a system account *)
Example C45_witness_history :
  pam_run w_allow [40] [] w_hist =
  [PSome true; PSome false; PSome true; PSome false; PSome false; PNone; PNone; PSome true].
Proof. vm_compute. reflexivity. Qed.
(* C45_pam_directory_user_allowed / C45_record_provenance: hypotheses met at the fallback call *)
Example C45_witness_fallback :
  mem 30 [40] = false /\
  pam_spec w_allow [40] [(31, DTok w_tok_outsider); (30, DTok w_tok_by_name)] 30 DError = PSome true /\
  record_of 30 [(30, DError); (31, DTok w_tok_outsider); (30, DTok w_tok_by_name)] = Some w_tok_by_name.
Proof. vm_compute. repeat split; reflexivity. Qed.
(* C45_pam_empty_list_admits_no_directory_user: system users still pass, directory users do not *)
Example C45_witness_empty_list_history :
  pam_run [] [40] [] [(30, DTok w_tok_by_name); (40, DNotFound)] = [PSome false; PSome true].
Proof. vm_compute. reflexivity. Qed.

(* the executable predicate discriminates *)
Example C45_witness_pcheck_discriminates :
  pcheck (CProv w_allow w_tok_by_uuid (PSome true)) = true /\
  pcheck (CProv w_allow w_tok_by_uuid (PSome false)) = false /\
  pcheck (CProv w_allow w_tok_outsider (PSome true)) = false /\
  pcheck (CProv w_allow w_tok_invalid (PSome true)) = false /\
  pcheck (CProv [] w_tok_by_name (PSome true)) = false /\
  pcheck (CProv w_allow w_tok_by_name PNone) = false /\
  pcheck (CPam w_allow [40] w_hist [PSome true; PSome false; PSome true; PSome false; PSome false; PNone; PNone; PSome true]) = true /\
  pcheck (CPam w_allow [40] w_hist [PSome true; PSome false; PSome true; PSome false; PSome true; PNone; PNone; PSome true]) = false.
Proof. vm_compute. repeat split; reflexivity. Qed.
