(* KV.C10.Proofs *)
From Coq Require Import List NArith Bool Lia.
Import ListNotations.
Require Import KV.C10.Model.
Open Scope N_scope.
Arguments N.ltb : simpl never.
Arguments N.eqb : simpl never.

Definition ahead' (cns : ruv) (e : N * range) : bool := negb (behind cns e) && ahead cns e.

Definition diff_of (cns : ruv) (e : N * range) : option (N * range) :=
  match lookup (fst e) cns with
  | None => Some (fst e, (0, snd (snd e)))
  | Some c => if behind cns e then None else if ahead cns e then None
              else if snd c <? snd (snd e) then Some (fst e, (snd c, snd (snd e))) else None
  end.

Lemma filter_map_app {A B} (f : A -> option B) l1 l2 :
  filter_map f (l1 ++ l2) = filter_map f l1 ++ filter_map f l2.
Proof. induction l1 as [|x l1 IH]; cbn; [reflexivity|]. destruct (f x); cbn; rewrite IH; reflexivity. Qed.

Lemma body_spec cns a e :
  body cns a e =
  mkacc (a_diff a ++ filter_map (diff_of cns) [e])
        (a_lag a ++ filter_map (lag_of cns) [e])
        (a_adv a ++ filter_map (adv_of cns) [e])
        (a_cl a || behind cns e) (a_sl a || ahead' cns e) (a_ov a || shared cns e).
Proof.
  destruct e as [s [smin smax]]. destruct a as [d l v cl sl ov].
  unfold body, diff_of, lag_of, adv_of, ahead', behind, ahead, shared; cbn [fst snd filter_map a_diff a_lag a_adv a_cl a_sl a_ov].
  destruct (lookup s cns) as [[cmin cmax]|]; cbn [fst snd].
  - destruct (cmax <? smin) eqn:E1; cbn [negb andb].
    + rewrite !app_nil_r, !orb_true_r, !orb_false_r. reflexivity.
    + destruct (smax <? cmin) eqn:E2; cbn.
      * rewrite !app_nil_r, !orb_true_r, !orb_false_r. reflexivity.
      * destruct (cmax <? smax) eqn:E3; cbn; rewrite ?app_nil_r, ?orb_true_r, ?orb_false_r; reflexivity.
  - cbn. rewrite !app_nil_r, !orb_false_r. reflexivity.
Qed.

Lemma fold_spec cns : forall sup a,
  fold_left (body cns) sup a =
  mkacc (a_diff a ++ filter_map (diff_of cns) sup)
        (a_lag a ++ filter_map (lag_of cns) sup)
        (a_adv a ++ filter_map (adv_of cns) sup)
        (a_cl a || existsb (behind cns) sup) (a_sl a || existsb (ahead' cns) sup)
        (a_ov a || existsb (shared cns) sup).
Proof.
  induction sup as [|e r IH]; intros a.
  - cbn. rewrite !app_nil_r, !orb_false_r. destruct a; reflexivity.
  - cbn [fold_left]. rewrite IH, body_spec.
    cbn [a_diff a_lag a_adv a_cl a_sl a_ov existsb].
    change (e :: r) with ([e] ++ r). rewrite !filter_map_app, !app_assoc, !orb_assoc.
    reflexivity.
Qed.

Lemma diff_supply cns : forall sup,
  existsb (behind cns) sup = false -> existsb (ahead' cns) sup = false ->
  filter_map (diff_of cns) sup = filter_map (supply_of cns) sup.
Proof.
  induction sup as [|e r IH]; cbn [existsb filter_map]; intros H1 H2; [reflexivity|].
  apply orb_false_iff in H1 as [Hb H1]. apply orb_false_iff in H2 as [Ha H2].
  rewrite (IH H1 H2).
  assert (Hd : diff_of cns e = supply_of cns e).
  { unfold diff_of, supply_of. unfold ahead' in Ha. rewrite Hb in *. cbn in Ha.
    destruct (lookup (fst e) cns) eqn:El; [|reflexivity]. rewrite Ha. reflexivity. }
  rewrite Hd. reflexivity.
Qed.

Theorem range_diff_spec cns sup : range_diff cns sup = spec cns sup.
Proof.
  unfold range_diff, spec. rewrite fold_spec. cbn [acc0 a_diff a_lag a_adv a_cl a_sl a_ov app orb].
  fold (ahead' cns).
  replace (existsb (fun e => negb (behind cns e) && ahead cns e) sup) with (existsb (ahead' cns) sup) by reflexivity.
  destruct (existsb (shared cns) sup); cbn [negb]; [|reflexivity].
  destruct (existsb (behind cns) sup) eqn:Hb, (existsb (ahead' cns) sup) eqn:Ha; try reflexivity.
  rewrite diff_supply by assumption. reflexivity.
Qed.

(* ---- consequences in the property's words *)
Definition wf_range (r : range) : Prop := fst r <= snd r.
Definition wf_ruv (m : ruv) : Prop := forall k r, lookup k m = Some r -> wf_range r.

Lemma lookup_in k m r : lookup k m = Some r -> In (k, r) m.
Proof.
  induction m as [|[k' r'] t IH]; cbn; [discriminate|].
  destruct (N.eqb_spec k k'); [intros [= ->]; left; subst; reflexivity | intros H; right; auto].
Qed.

(* for well-formed windows "ahead" and "behind" exclude each other, so ahead' = ahead *)
Lemma ahead_behind_excl cns e :
  wf_ruv cns -> wf_range (snd e) -> behind cns e = true -> ahead cns e = false.
Proof.
  unfold behind, ahead, wf_ruv, wf_range. intros Hc He.
  destruct (lookup (fst e) cns) as [c|] eqn:El; [|discriminate].
  specialize (Hc _ _ El). unfold wf_range in Hc.
  rewrite N.ltb_lt, N.ltb_ge. lia.
Qed.

Lemma existsb_ext_in {A} (f g : A -> bool) l :
  (forall x, In x l -> f x = g x) -> existsb f l = existsb g l.
Proof.
  induction l as [|x r IH]; cbn; intros H; [reflexivity|].
  rewrite H by (left; reflexivity). rewrite IH; [reflexivity|]. intros y Hy. apply H. right. exact Hy.
Qed.

Lemma ahead'_wf cns sup :
  wf_ruv cns -> (forall e, In e sup -> wf_range (snd e)) ->
  existsb (ahead' cns) sup = existsb (ahead cns) sup.
Proof.
  intros Hc Hs. apply existsb_ext_in. intros e He. unfold ahead'.
  destruct (behind cns e) eqn:Hb; cbn; [|reflexivity].
  symmetry. apply ahead_behind_excl; auto.
Qed.

Lemma in_filter_map {A B} (f : A -> option B) l y :
  In y (filter_map f l) <-> exists x, In x l /\ f x = Some y.
Proof.
  induction l as [|x r IH]; cbn; [firstorder|].
  destruct (f x) eqn:E; cbn; rewrite IH; split.
  - intros [<-|[x' [H1 H2]]]; [exists x; auto | exists x'; auto].
  - intros [x' [[<-|H1] H2]]; [left; congruence | right; exists x'; auto].
  - intros [x' [H1 H2]]; exists x'; auto.
  - intros [x' [[<-|H1] H2]]; [congruence | exists x'; auto].
Qed.
