From Coq Require Import List NArith Bool.
Import ListNotations.
Require Import KV.C10.Model.
Open Scope N_scope.
(* hypotheses of C10_ok_exact are met by a non-trivial pair: one overlapping shared server
   needing changes, one up to date, one unknown to the consumer *)
Example C10_witness_ok :
  let cns := [(1, (0, 3)); (2, (1, 4))] in
  let sup := [(1, (2, 5)); (2, (0, 4)); (3, (1, 2))] in
  existsb (shared cns) sup = true /\ existsb (behind cns) sup = false /\
  existsb (ahead cns) sup = false /\
  range_diff cns sup = SOk [(1, (3, 5)); (3, (0, 2))].
Proof. vm_compute. repeat split; reflexivity. Qed.
Example C10_witness_critical :
  range_diff [(1, (0, 1)); (2, (5, 6))] [(1, (3, 4)); (2, (1, 2))]
  = SCritical [(1, (3, 1))] [(2, (2, 5))].
Proof. vm_compute. reflexivity. Qed.
