(* KV.C10.Model — ReplicationUpdateVector::range_diff (server/lib/src/repl/ruv.rs:85),
   transcribed arm by arm. Executable definitions only. *)
From Coq Require Import List NArith Bool.
Import ListNotations.
Open Scope N_scope.

Definition range := (N * N)%type.            (* (ts_min, ts_max) *)
Definition ruv := list (N * range).          (* BTreeMap<Uuid, ReplCidRange>: ascending unique keys *)

Fixpoint lookup (k : N) (m : ruv) : option range :=
  match m with
  | [] => None
  | (k', r) :: t => if k =? k' then Some r else lookup k t
  end.

Inductive status :=
| SOk (diff : ruv)
| SRefresh (lag : ruv)
| SUnwilling (adv : ruv)
| SCritical (lag adv : ruv)
| SNoOverlap.

Record acc := mkacc { a_diff : ruv; a_lag : ruv; a_adv : ruv; a_cl : bool; a_sl : bool; a_ov : bool }.
Definition acc0 := mkacc [] [] [] false false false.

(* one iteration of `for (supplier_s_uuid, supplier_cid_range) in supplier_range.iter()`;
   BTreeMap::insert of a key larger than all present = append *)
Definition body (cns : ruv) (a : acc) (e : N * range) : acc :=
  let '(s, (smin, smax)) := e in
  match lookup s cns with
  | Some (cmin, cmax) =>
      if cmax <? smin then
        mkacc (a_diff a) (a_lag a ++ [(s, (smin, cmax))]) (a_adv a) true (a_sl a) true
      else if smax <? cmin then
        mkacc (a_diff a) (a_lag a) (a_adv a ++ [(s, (smax, cmin))]) (a_cl a) true true
      else if cmax <? smax then
        mkacc (a_diff a ++ [(s, (cmax, smax))]) (a_lag a) (a_adv a) (a_cl a) (a_sl a) true
      else
        mkacc (a_diff a) (a_lag a) (a_adv a) (a_cl a) (a_sl a) true
  | None =>
      mkacc (a_diff a ++ [(s, (0, smax))]) (a_lag a) (a_adv a) (a_cl a) (a_sl a) (a_ov a)
  end.

Definition range_diff (cns sup : ruv) : status :=
  let a := fold_left (body cns) sup acc0 in
  if negb (a_ov a) then SNoOverlap else
  match a_cl a, a_sl a with
  | false, false => SOk (a_diff a)
  | true, false => SRefresh (a_lag a)
  | false, true => SUnwilling (a_adv a)
  | true, true => SCritical (a_lag a) (a_adv a)
  end.

(* supplier_provide_changes: status -> ReplIncrementalContext variant (supplier.rs:258) *)
Inductive ctx := CtxV1 (ranges : ruv) | CtxNoChanges | CtxRefreshRequired | CtxUnwilling.
Definition ctx_of (s : status) : ctx :=
  match s with
  | SOk [] => CtxNoChanges
  | SOk d => CtxV1 d
  | SRefresh _ => CtxRefreshRequired
  | SUnwilling _ | SCritical _ _ | SNoOverlap => CtxUnwilling
  end.

(* ------------------------------------------------------------------ declarative spec *)
Definition shared (cns : ruv) (e : N * range) : bool :=
  match lookup (fst e) cns with Some _ => true | None => false end.
(* consumer is behind the supplier's window for this server *)
Definition behind (cns : ruv) (e : N * range) : bool :=
  match lookup (fst e) cns with Some c => snd c <? fst (snd e) | None => false end.
(* consumer is ahead of the supplier's window for this server *)
Definition ahead (cns : ruv) (e : N * range) : bool :=
  match lookup (fst e) cns with Some c => snd (snd e) <? fst c | None => false end.
(* what is sent for one supplier server when replication proceeds *)
Definition supply_of (cns : ruv) (e : N * range) : option (N * range) :=
  match lookup (fst e) cns with
  | None => Some (fst e, (0, snd (snd e)))
  | Some c => if snd c <? snd (snd e) then Some (fst e, (snd c, snd (snd e))) else None
  end.
Fixpoint filter_map {A B} (f : A -> option B) (l : list A) : list B :=
  match l with [] => [] | x :: r => match f x with Some y => y :: filter_map f r | None => filter_map f r end end.
Definition lag_of (cns : ruv) (e : N * range) : option (N * range) :=
  match lookup (fst e) cns with
  | Some c => if behind cns e then Some (fst e, (fst (snd e), snd c)) else None
  | None => None end.
Definition adv_of (cns : ruv) (e : N * range) : option (N * range) :=
  match lookup (fst e) cns with
  | Some c => if negb (behind cns e) && ahead cns e then Some (fst e, (snd (snd e), fst c)) else None
  | None => None end.

Definition spec (cns sup : ruv) : status :=
  if negb (existsb (shared cns) sup) then SNoOverlap else
  match existsb (behind cns) sup, existsb (fun e => negb (behind cns e) && ahead cns e) sup with
  | false, false => SOk (filter_map (supply_of cns) sup)
  | true, false => SRefresh (filter_map (lag_of cns) sup)
  | false, true => SUnwilling (filter_map (adv_of cns) sup)
  | true, true => SCritical (filter_map (lag_of cns) sup) (filter_map (adv_of cns) sup)
  end.

(* ------------------------------------------------------------------ correspondence *)
Definition range_eqb (a b : range) := (fst a =? fst b) && (snd a =? snd b).
Fixpoint ruv_eqb (a b : ruv) : bool :=
  match a, b with
  | [], [] => true
  | (k, r) :: a', (k', r') :: b' => (k =? k') && range_eqb r r' && ruv_eqb a' b'
  | _, _ => false
  end.
Definition status_eqb (a b : status) : bool :=
  match a, b with
  | SOk x, SOk y => ruv_eqb x y
  | SRefresh x, SRefresh y => ruv_eqb x y
  | SUnwilling x, SUnwilling y => ruv_eqb x y
  | SCritical x1 x2, SCritical y1 y2 => ruv_eqb x1 y1 && ruv_eqb x2 y2
  | SNoOverlap, SNoOverlap => true
  | _, _ => false
  end.

Inductive case := CDiff (cns sup : ruv) (impl : status).

Definition agree (c : case) : bool :=
  match c with CDiff cns sup impl => status_eqb (range_diff cns sup) impl end.
(* the property's own sentence, evaluated on the implementation's answer *)
Definition pcheck (c : case) : bool :=
  match c with CDiff cns sup impl => status_eqb (spec cns sup) impl end.
Definition known (_ : case) : bool := false.
