(* KV.C10.Props — property theorems only. *)
From Coq Require Import List NArith Bool.
Import ListNotations.
Require Import KV.C10.Model KV.C10.Proofs.
Open Scope N_scope.

(* The transcription of the code's loop equals the declarative table, for ALL maps
   (any number of servers, any times, well-formed or not). *)
Theorem C10_range_diff_is_spec : forall cns sup, range_diff cns sup = spec cns sup.
Proof. exact range_diff_spec. Qed.

(* no shared server at all => refuse *)
Theorem C10_no_overlap : forall cns sup,
  existsb (shared cns) sup = false -> range_diff cns sup = SNoOverlap.
Proof. intros cns sup H. rewrite range_diff_spec. unfold spec. rewrite H. reflexivity. Qed.

(* replication proceeds iff a server is shared and no shared window is behind or ahead;
   then EXACTLY supply_of is sent per supplier server *)
Theorem C10_ok_exact : forall cns sup,
  wf_ruv cns -> (forall e, In e sup -> wf_range (snd e)) ->
  existsb (shared cns) sup = true ->
  existsb (behind cns) sup = false -> existsb (ahead cns) sup = false ->
  range_diff cns sup = SOk (filter_map (supply_of cns) sup).
Proof.
  intros cns sup Hc Hs H1 H2 H3. rewrite range_diff_spec. unfold spec.
  change (existsb (fun e => negb (behind cns e) && ahead cns e) sup) with (existsb (ahead' cns) sup).
  rewrite (ahead'_wf cns sup Hc Hs), H1, H2, H3. reflexivity.
Qed.

(* membership form of "exactly the window from the consumer's newest change to the
   supplier's newest, plus everything from servers the consumer has never seen" *)
Theorem C10_supplied_windows : forall cns sup s lo hi,
  In (s, (lo, hi)) (filter_map (supply_of cns) sup) <->
  exists smin, In (s, (smin, hi)) sup /\
    ((lookup s cns = None /\ lo = 0) \/
     (exists cmin, lookup s cns = Some (cmin, lo) /\ lo < hi)).
Proof.
  intros cns sup s lo hi. rewrite in_filter_map. split.
  - intros [[s' [smin smax]] [Hin Hf]]. unfold supply_of in Hf. cbn [fst snd] in Hf.
    destruct (lookup s' cns) as [[cmin cmax]|] eqn:El; cbn [fst snd] in Hf.
    + destruct (cmax <? smax) eqn:E; [|discriminate]. injection Hf as -> -> ->.
      exists smin. split; [exact Hin|]. right. exists cmin. split; [exact El|]. apply N.ltb_lt. exact E.
    + injection Hf as -> <- ->. exists smin. split; [exact Hin|]. left. split; [exact El | reflexivity].
  - intros [smin [Hin [[El ->]|[cmin [El Hlt]]]]]; exists (s, (smin, hi)); split; try exact Hin;
      unfold supply_of; cbn [fst snd]; rewrite El; [reflexivity|]. cbn [fst snd].
    apply N.ltb_lt in Hlt. rewrite Hlt. reflexivity.
Qed.

(* behind only => refresh; ahead only => refuse; both => critical *)
Theorem C10_refresh : forall cns sup,
  wf_ruv cns -> (forall e, In e sup -> wf_range (snd e)) ->
  existsb (behind cns) sup = true -> existsb (ahead cns) sup = false ->
  exists lag, range_diff cns sup = SRefresh lag.
Proof.
  intros cns sup Hc Hs H2 H3. rewrite range_diff_spec. unfold spec.
  change (existsb (fun e => negb (behind cns e) && ahead cns e) sup) with (existsb (ahead' cns) sup).
  rewrite (ahead'_wf cns sup Hc Hs), H2, H3.
  assert (Hsh : existsb (shared cns) sup = true).
  { apply existsb_exists in H2 as [e [He Hb]]. apply existsb_exists. exists e. split; [exact He|].
    unfold behind in Hb. unfold shared. destruct (lookup (fst e) cns); [reflexivity | discriminate]. }
  rewrite Hsh. eexists. reflexivity.
Qed.
Theorem C10_unwilling : forall cns sup,
  wf_ruv cns -> (forall e, In e sup -> wf_range (snd e)) ->
  existsb (behind cns) sup = false -> existsb (ahead cns) sup = true ->
  exists adv, range_diff cns sup = SUnwilling adv.
Proof.
  intros cns sup Hc Hs H2 H3. rewrite range_diff_spec. unfold spec.
  change (existsb (fun e => negb (behind cns e) && ahead cns e) sup) with (existsb (ahead' cns) sup).
  rewrite (ahead'_wf cns sup Hc Hs), H2, H3.
  assert (Hsh : existsb (shared cns) sup = true).
  { apply existsb_exists in H3 as [e [He Hb]]. apply existsb_exists. exists e. split; [exact He|].
    unfold ahead in Hb. unfold shared. destruct (lookup (fst e) cns); [reflexivity | discriminate]. }
  rewrite Hsh. eexists. reflexivity.
Qed.
Theorem C10_critical : forall cns sup,
  wf_ruv cns -> (forall e, In e sup -> wf_range (snd e)) ->
  existsb (behind cns) sup = true -> existsb (ahead cns) sup = true ->
  exists lag adv, range_diff cns sup = SCritical lag adv.
Proof.
  intros cns sup Hc Hs H2 H3. rewrite range_diff_spec. unfold spec.
  change (existsb (fun e => negb (behind cns e) && ahead cns e) sup) with (existsb (ahead' cns) sup).
  rewrite (ahead'_wf cns sup Hc Hs), H2, H3.
  assert (Hsh : existsb (shared cns) sup = true).
  { apply existsb_exists in H3 as [e [He Hb]]. apply existsb_exists. exists e. split; [exact He|].
    unfold ahead in Hb. unfold shared. destruct (lookup (fst e) cns); [reflexivity | discriminate]. }
  rewrite Hsh. do 2 eexists. reflexivity.
Qed.

(* what the supplier answers: changes are supplied only in the Ok case, and an empty
   supply set means "no changes" *)
Theorem C10_supplier_mapping : forall cns sup r,
  ctx_of (range_diff cns sup) = CtxV1 r ->
  r <> [] /\ range_diff cns sup = SOk r.
Proof.
  intros cns sup r. destruct (range_diff cns sup) as [d| | | |]; cbn; try discriminate.
  destruct d; [discriminate|]. intros [= <-]. split; [discriminate | reflexivity].
Qed.
