(* KV.C20.Props — property theorems only.
   Model: KV.C20.Model (a transcription of Base::pre_create_transform / pre_modify /
   pre_batch_modify, the protected rules of access/create.rs, access/delete.rs, access/modify.rs and
   the stage order of server/{create,modify,batch_modify,delete}.rs).  The configured access control
   profiles are the parameter [A : acps]: five ARBITRARY boolean oracles, universally quantified in
   every theorem ("regardless of the access controls configured"). *)
From Coq Require Import List NArith Bool Lia.
Import ListNotations.
Require Import KV.C20.Model KV.C20.Proofs.
Open Scope N_scope.

(* The two layers use the same range: the Base plugin tests `uuid < DYNAMIC_RANGE_MINIMUM_UUID`,
   the access module tests `uuid <= UUID_ANONYMOUS`. *)
Theorem C20_ranges_coincide : forall u, u < DYN_MIN <-> u <= UUID_ANONYMOUS.
Proof. intros u. unfold DYN_MIN, UUID_ANONYMOUS. lia. Qed.

(* The modify guard is complete: a modify list (of any length, any mix of present / removed /
   purged / set / assert) that Base::pre_modify lets through leaves the value set of `uuid`
   exactly as it was, whatever that set is. *)
Theorem C20_modify_guard_complete : forall ml vs vs',
  base_modify ml = true -> apply_ml vs ml = Some vs' -> vs' = vs.
Proof.
  intros ml vs vs' Hb. unfold base_modify in Hb. apply negb_true_iff in Hb. apply (apply_ml_untouched _ _ _ Hb).
Qed.

(* ... and it refuses every list that contains a present, removed, purged or set on `uuid`. *)
Theorem C20_modify_guard_rejects : forall ml m v,
  In m ml -> (m = MPresent AUuid v \/ m = MRemoved AUuid v \/ m = MPurged AUuid \/ m = MSet AUuid v) ->
  base_modify ml = false.
Proof.
  intros ml m v Hi Hm. unfold base_modify. apply negb_false_iff. apply existsb_exists. exists m.
  split; [exact Hi|]. destruct Hm as [Hm|[Hm|[Hm|Hm]]]; subst m; reflexivity.
Qed.

(* UUIDs are immutable, for EVERY identity (the internal system identity included) and every
   profile set: after any request the directory consists of the old entries, in place, each with
   the uuid it had, followed by new entries; and new entries exist only after a successful create. *)
Theorem C20_uuid_immutable : forall A id db o r db',
  step A id db o = (r, db') ->
  exists new, map e_uuid db' = map e_uuid db ++ map e_uuid new /\
              (new = [] \/ exists es, o = OCreate es /\ r = ROk).
Proof. exact step_uuids. Qed.

(* the same, entry by entry *)
Theorem C20_uuid_immutable_entry : forall A id db o r db' n e,
  step A id db o = (r, db') -> nth_error db n = Some e ->
  exists e', nth_error db' n = Some e' /\ e_uuid e' = e_uuid e.
Proof.
  intros A id db o r db' n e Hs Hn. destruct (step_uuids _ _ _ _ _ _ Hs) as [new [Hm _]].
  assert (nth_error (map e_uuid db') n = Some (e_uuid e)) as H.
  { rewrite Hm, nth_error_app1; [apply map_nth_error; exact Hn|].
    rewrite map_length. apply nth_error_Some. rewrite Hn. discriminate. }
  rewrite nth_error_map in H. destruct (nth_error db' n) as [e'|]; [|discriminate].
  exists e'. split; [reflexivity|]. injection H as H. exact H.
Qed.

(* modify and batch_modify never change a uuid, a state or the set of entries; a refused request
   of any kind changes nothing *)
Theorem C20_modify_keeps_directory : forall A id db r db',
  (forall t ml, step A id db (OModify t ml) = (r, db') -> db' = db) /\
  (forall ms, step A id db (OBatch ms) = (r, db') -> db' = db).
Proof. intros. split; intros; [eapply modify_same | eapply batch_same]; eassumption. Qed.

Theorem C20_refused_request_changes_nothing : forall A id db o r db',
  step A id db o = (r, db') -> r <> ROk -> db' = db.
Proof. exact step_error_same. Qed.

(* No create of a user lands in the reserved range: whatever a user's create does, the new
   entries (explicit or server generated uuids) are all at or above DYNAMIC_RANGE_MINIMUM_UUID. *)
Theorem C20_no_reserved_create : forall A rw db es r db',
  step A (IUser rw) db (OCreate es) = (r, db') ->
  exists new, db' = db ++ new /\ forall e, In e new -> DYN_MIN <= e_uuid e.
Proof. exact user_create_new. Qed.

(* No request of a user deletes (or alters in any way) an entry of the reserved range. *)
Theorem C20_builtin_undeletable : forall A rw db o r db' e,
  step A (IUser rw) db o = (r, db') -> In e db -> e_uuid e < DYN_MIN -> In e db'.
Proof.
  intros A rw db o r db' e Hs Hi Hu. apply user_step_reserved in Hs.
  assert (In e (filter reserved db')) as H.
  { rewrite Hs. apply filter_In. split; [exact Hi|]. unfold reserved. apply N.ltb_lt. exact Hu. }
  apply filter_In in H. apply H.
Qed.

(* The full statement for one user request, all three clauses at once. *)
Theorem C20_user_request : forall A rw db o r db',
  step A (IUser rw) db o = (r, db') ->
  (exists new, map e_uuid db' = map e_uuid db ++ map e_uuid new) /\
  filter reserved db' = filter reserved db.
Proof.
  intros A rw db o r db' Hs. split.
  - destruct (step_uuids _ _ _ _ _ _ Hs) as [new [H _]]. exists new. exact H.
  - apply (user_step_reserved _ _ _ _ _ _ Hs).
Qed.

(* Histories of any length.  Whatever users do (any mix of read-write and read-only sessions, any
   requests), the reserved range of the directory — which entries it has, in which order, each
   one's uuid, protected class and live/recycled state — is exactly what it was. *)
Theorem C20_reserved_range_frozen : forall A h db,
  Forall (fun p => is_user (fst p) = true) h -> filter reserved (run A db h) = filter reserved db.
Proof. exact run_reserved. Qed.

(* ... and for histories of ANY identities the old entries keep their uuids and positions. *)
Theorem C20_history_uuids : forall A h db,
  exists new, map e_uuid (run A db h) = map e_uuid db ++ new.
Proof. exact run_uuids. Qed.

(* The Base plugin on its own (it also sits behind the access module): for a non-internal
   identity a successful pre_create_transform yields only uuids of the dynamic range and never adds
   the `builtin` class; and a request naming a reserved uuid is refused. *)
Theorem C20_base_user_never_reserved : forall ex es out,
  base_create false ex es = (ROk, out) ->
  length out = length es /\ forall u b, In (u, b) out -> DYN_MIN <= u /\ b = false.
Proof. exact base_user_never_reserved. Qed.

Theorem C20_base_user_rejects_reserved : forall ex es c u,
  In c es -> c_uuid c = [u] -> u < DYN_MIN -> fst (base_create false ex es) <> ROk.
Proof. exact base_user_rejects_reserved. Qed.

(* Soundness of the run-time tie: whenever the implementation's answers and directory views agree
   with the model, the property's executable predicate holds of those observations. *)
Theorem C20_agree_implies_property : forall c : case, agree c = true -> pcheck c = true.
Proof. exact agree_pcheck. Qed.
