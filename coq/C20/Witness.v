(* KV.C20.Witness — non-vacuity: concrete non-trivial values meeting the hypotheses. *)
From Coq Require Import List NArith Bool.
Import ListNotations.
Require Import KV.C20.Model.
Open Scope N_scope.

Definition all_acps := acps_of (mkcfg true true true true true).
(* admin (0), idm_admins (1), a system-class entry in the dynamic range, two ordinary entries *)
Definition wdb : list ent :=
  [mkent 0 false Live; mkent 1 false Live; mkent 300000000000000 true Live;
   mkent 281474976710656 false Live; mkent 281474976710700 false Live].

(* the guard is what protects: the modify list would change the uuid ... *)
Example C20_witness_set_would_change : apply_ml [281474976710700] [MSet AUuid 5] = Some [5].
Proof. vm_compute. reflexivity. Qed.
(* ... it passes a grant-everything access check and is refused by Base::pre_modify *)
Example C20_witness_guard_reached :
  step all_acps (IUser true) wdb (OModify (TUuids [281474976710700]) [MAssertUuid 281474976710700; MSet AUuid 5])
  = (ESysProt, wdb).
Proof. vm_compute. reflexivity. Qed.
(* a list the guard lets through and that is applied (hypotheses of C20_modify_guard_complete) *)
Example C20_witness_guard_passes :
  base_modify [MAssertUuid 7; MSet AOther 1; MPurged AOther] = true /\
  apply_ml [7] [MAssertUuid 7; MSet AOther 1; MPurged AOther] = Some [7].
Proof. vm_compute. split; reflexivity. Qed.
Example C20_witness_modify_ok :
  step all_acps (IUser true) wdb (OBatch [(281474976710656, [MSet AOther 1]); (281474976710700, [MAssertUuid 281474976710700])])
  = (ROk, wdb).
Proof. vm_compute. reflexivity. Qed.

(* a user's create succeeds in the dynamic range, with an explicit and with a generated uuid *)
Example C20_witness_user_create :
  step all_acps (IUser true) wdb (OCreate [mkcent [281474976710657] 0 false; mkcent [] 999999999999999999 false])
  = (ROk, wdb ++ [mkent 281474976710657 false Live; mkent 999999999999999999 false Live]).
Proof. vm_compute. reflexivity. Qed.
(* ... and is refused for the reserved uuid 5, while the system identity may create it *)
Example C20_witness_user_create_reserved :
  fst (step all_acps (IUser true) wdb (OCreate [mkcent [5] 0 false])) = EDenied /\
  step all_acps ISystem wdb (OCreate [mkcent [5] 0 false]) = (ROk, wdb ++ [mkent 5 false Live]).
Proof. vm_compute. split; reflexivity. Qed.

(* a user's delete works on an ordinary entry and is refused on a built-in one and on everything *)
Example C20_witness_user_delete :
  step all_acps (IUser true) wdb (ODelete (TUuids [281474976710700]))
  = (ROk, [mkent 0 false Live; mkent 1 false Live; mkent 300000000000000 true Live;
           mkent 281474976710656 false Live; mkent 281474976710700 true Recycled]) /\
  fst (step all_acps (IUser true) wdb (ODelete (TUuids [1]))) = EDenied /\
  fst (step all_acps (IUser true) wdb (ODelete TAll)) = EDenied /\
  fst (step all_acps ISystem wdb (ODelete (TUuids [1]))) = ROk.
Proof. vm_compute. repeat split; reflexivity. Qed.

(* a history of users only (hypothesis of C20_reserved_range_frozen) that does change the directory *)
Definition whist : list (ident * op) :=
  [(IUser true, OCreate [mkcent [281474976710800] 0 false]);
   (IUser false, ODelete (TUuids [281474976710800]));
   (IUser true, ODelete (TUuids [1; 281474976710800]));
   (IUser true, ODelete (TUuids [281474976710656]));
   (IUser true, OModify TAll [MPurged AUuid])].
Example C20_witness_history :
  Forall (fun p => is_user (fst p) = true) whist /\
  run all_acps wdb whist <> wdb /\
  filter reserved (run all_acps wdb whist) = filter reserved wdb.
Proof.
  split; [repeat constructor|]. vm_compute. split; [discriminate | reflexivity].
Qed.

(* the Base plugin alone: accepted dynamic request; refused reserved request *)
Example C20_witness_base :
  base_create false (fun u => memN u [0; 1]) [mkcent [281474976710656] 0 false; mkcent [] 281474976710999 false]
  = (ROk, [(281474976710656, false); (281474976710999, false)]) /\
  base_create false (fun u => memN u [0; 1]) [mkcent [281474976710656] 0 false; mkcent [281474976710655] 0 false]
  = (EBaseRange, []) /\
  base_create true (fun u => memN u [0; 1]) [mkcent [5] 0 false] = (ROk, [(5, true)]).
Proof. vm_compute. repeat split; reflexivity. Qed.

(* an agreeing, non-trivial observation record (hypothesis of C20_agree_implies_property) *)
Example C20_witness_agree :
  agree (CHist (mkcfg true true true true true) [1; 281474976710700; 281474976710800] wdb
           ((1, 2), (0, 0), [0; 0; 2])
           [(IUser true, OModify (TUuids [281474976710700]) [MSet AUuid 5], ESysProt, ((1, 2), (0, 0), [0; 0; 2]));
            (IUser true, OCreate [mkcent [281474976710800] 0 false], ROk, ((1, 2), (0, 0), [0; 0; 0]));
            (IUser true, ODelete (TUuids [1]), EDenied, ((1, 2), (0, 0), [0; 0; 0]));
            (ISystem, ODelete (TUuids [1]), ROk, ((0, 1), (1, 1), [1; 0; 0]))]) = true.
Proof. vm_compute. reflexivity. Qed.
