(* KV.C20.Model — uuid immutability and the protected system uuid range.
   Executable definitions only. Transcribes, in the order the server runs them:
     server/lib/src/plugins/base.rs          Base::pre_create_transform / pre_modify / pre_batch_modify
     server/lib/src/server/access/create.rs  protected_filter_entry (uuid <= UUID_ANONYMOUS, protected classes)
     server/lib/src/server/access/delete.rs  protected_filter_entry, apply_delete_access
     server/lib/src/server/access/mod.rs     modify_allow_operation_per_entry (requested pres/rem sets)
     server/lib/src/server/access/modify.rs  modify_ident_test, modify_protected_attrs
     server/lib/src/server/{create,modify,batch_modify,delete}.rs   the order of the stages and their errors
     server/lib/src/entry.rs                 apply_modlist (on the `uuid` attribute)
   Access control PROFILES are a parameter [acps] (arbitrary boolean oracles). *)
From Coq Require Import List NArith Bool.
Import ListNotations.
Open Scope N_scope.

(* constants/uuids.rs — checked against the code by the CConst case on every run *)
Definition UUID_ANONYMOUS : N := 281474976710655.        (* 00000000-0000-0000-0000-ffffffffffff *)
Definition UUID_DOES_NOT_EXIST : N := 281474976710654.   (* 00000000-0000-0000-0000-fffffffffffe *)
Definition DYN_MIN : N := 281474976710656.               (* DYNAMIC_RANGE_MINIMUM_UUID 00000000-0000-0000-0001-000000000000 *)

(* who asks: the internal system identity, or a user session with a read-write / read-only scope *)
Inductive ident := ISystem | IUser (rw : bool).
Definition internal (i : ident) : bool := match i with ISystem => true | IUser _ => false end.

Inductive estate := Live | Recycled.
(* a stored entry: its uuid, whether it carries a class of PROTECTED_ENTRY_CLASSES, live / recycled *)
Record ent := mkent { e_uuid : N; e_prot : bool; e_st : estate }.
Definition live (e : ent) : bool := match e_st e with Live => true | Recycled => false end.

(* an entry of a create request: the values of its `uuid` attribute (none, one, several), the
   uuid the server generates when there is none (Uuid::new_v4, an input here), protected class *)
Record cent := mkcent { c_uuid : list N; c_gen : N; c_prot : bool }.

Inductive attr := AUuid | AOther.
Inductive modi :=
| MPresent (a : attr) (v : N)
| MRemoved (a : attr) (v : N)
| MPurged (a : attr)
| MSet (a : attr) (v : N)
| MAssertUuid (v : N).             (* Modify::Assert(uuid, v) *)

(* the configured access control profiles, as seen by one caller: arbitrary oracles *)
Record acps := mkacps {
  ac_search : ent -> bool;          (* entry visible through the request filter *)
  ac_pres : ent -> attr -> bool;    (* attribute in the allowed "present" set for this entry *)
  ac_rem : ent -> attr -> bool;     (* attribute in the allowed "removed" set *)
  ac_create : cent -> bool;         (* some create profile grants this entry *)
  ac_delete : ent -> bool           (* some delete profile grants this entry *)
}.

Inductive res :=
| ROk | EEmpty | ENoMatch | EDenied | EMissing | EAssert | ESysProt | ESchema
| EBaseMulti | EBaseDupReq | EBaseRange | EBaseDNE | EBaseDupDb | EOther.

Fixpoint memN (x : N) (l : list N) : bool :=
  match l with [] => false | y :: r => (x =? y) || memN x r end.
Fixpoint removeN (x : N) (l : list N) : list N :=
  match l with [] => [] | y :: r => if x =? y then removeN x r else y :: removeN x r end.

(* ------------------------------------------------------------------ Base plugin, modify side *)
(* `let attr = match modify { Present|Removed|Purged|Set (a, ..) => Some(a), Assert => None }` *)
Definition mod_attr (m : modi) : option attr :=
  match m with
  | MPresent a _ | MRemoved a _ | MPurged a | MSet a _ => Some a
  | MAssertUuid _ => None
  end.
Definition mod_touches_uuid (m : modi) : bool :=
  match mod_attr m with Some AUuid => true | _ => false end.
(* Base::pre_modify / pre_batch_modify: true = Ok(()), false = Err(SystemProtectedAttribute) *)
Definition base_modify (ml : list modi) : bool := negb (existsb mod_touches_uuid ml).

(* Entry::apply_modlist restricted to the value set of the `uuid` attribute; None = assertion failed *)
Definition apply_mod (vs : list N) (m : modi) : option (list N) :=
  match m with
  | MPresent AUuid v => Some (if memN v vs then vs else vs ++ [v])
  | MRemoved AUuid v => Some (removeN v vs)
  | MPurged AUuid => Some []
  | MSet AUuid v => Some [v]
  | MAssertUuid v => if memN v vs then Some vs else None
  | MPresent AOther _ | MRemoved AOther _ | MPurged AOther | MSet AOther _ => Some vs
  end.
Fixpoint apply_ml (vs : list N) (ml : list modi) : option (list N) :=
  match ml with
  | [] => Some vs
  | m :: r => match apply_mod vs m with Some vs' => apply_ml vs' r | None => None end
  end.

(* ------------------------------------------------------------------ Base plugin, create side *)
(* first loop: no uuid => generated; one => kept; several => error *)
Definition base_uuid (c : cent) : option N :=
  match c_uuid c with [] => Some (c_gen c) | [u] => Some u | _ => None end.
Fixpoint all_some {A} (l : list (option A)) : option (list A) :=
  match l with
  | [] => Some []
  | None :: _ => None
  | Some x :: r => match all_some r with Some r' => Some (x :: r') | None => None end
  end.
(* second loop: range flag accumulates, a duplicate inside the request returns at once *)
Fixpoint base_loop (intern : bool) (seen : list N) (inv : bool) (us : list N) : option bool :=
  match us with
  | [] => Some inv
  | u :: r =>
      let inv' := inv || ((u <? DYN_MIN) && negb intern) in
      if memN u seen then None else base_loop intern (u :: seen) inv' r
  end.
(* result and, on success, per candidate (uuid, builtin class added) *)
Definition base_create (intern : bool) (exists_db : N -> bool) (es : list cent) : res * list (N * bool) :=
  match all_some (map base_uuid es) with
  | None => (EBaseMulti, [])
  | Some us =>
      match base_loop intern [] false us with
      | None => (EBaseDupReq, [])
      | Some true => (EBaseRange, [])
      | Some false =>
          if memN UUID_DOES_NOT_EXIST us then (EBaseDNE, [])
          else if existsb exists_db us then (EBaseDupDb, [])
          else (ROk, map (fun u => (u, (u <? DYN_MIN) && intern)) us)
      end
  end.

(* ------------------------------------------------------------------ access decisions *)
(* `entry.get_uuid() <= UUID_ANONYMOUS` or a protected class *)
Definition protected_ent (e : ent) : bool := (e_uuid e <=? UUID_ANONYMOUS) || e_prot e.
Definition protected_cent (c : cent) : bool :=
  match c_uuid c with [u] => u <=? UUID_ANONYMOUS | _ => false end || c_prot c.

(* apply_create_access: System => Grant; User => protected rule denies, else scope and profiles *)
Definition create_access (A : acps) (id : ident) (c : cent) : bool :=
  match id with
  | ISystem => true
  | IUser rw => negb (protected_cent c) && rw && ac_create A c
  end.
(* apply_delete_access *)
Definition delete_access (A : acps) (id : ident) (e : ent) : bool :=
  match id with
  | ISystem => true
  | IUser rw => negb (protected_ent e) && rw && ac_delete A e
  end.
(* modify_allow_operation_per_entry: requested sets *)
Definition req_pres (ml : list modi) : list attr :=
  flat_map (fun m => match m with
                     | MPresent a _ | MSet a _ => [a]
                     | MAssertUuid _ => [AUuid]
                     | MRemoved _ _ | MPurged _ => [] end) ml.
Definition req_rem (ml : list modi) : list attr :=
  flat_map (fun m => match m with
                     | MRemoved a _ | MPurged a | MSet a _ => [a]
                     | MPresent _ _ | MAssertUuid _ => [] end) ml.
(* a protected target (uuid <= UUID_ANONYMOUS or protected class) constrains the allowed
   attributes to a fixed per-class list that contains neither `uuid` nor the AOther attribute
   (description), or denies outright: every request over {uuid, AOther} is refused *)
Definition modify_access (A : acps) (id : ident) (e : ent) (ml : list modi) : bool :=
  match req_pres ml, req_rem ml with
  | [], [] => false                                  (* "No modifications were requested" *)
  | _, _ =>
      match id with
      | ISystem => true
      | IUser rw => rw && negb (protected_ent e)
                    && forallb (ac_pres A e) (req_pres ml) && forallb (ac_rem A e) (req_rem ml)
      end
  end.

(* ------------------------------------------------------------------ requests *)
Inductive target := TUuids (us : list N) | TAll.    (* filter: or of uuid equalities | pres(class) *)
Inductive op :=
| OCreate (es : list cent)
| OModify (t : target) (ml : list modi)
| OBatch (ms : list (N * list modi))                (* BTreeMap uuid -> modlist: unique keys *)
| ODelete (t : target).

Definition tmatch (t : target) (e : ent) : bool :=
  match t with TAll => true | TUuids us => memN (e_uuid e) us end.
Definition visible (A : acps) (id : ident) (e : ent) : bool :=
  match id with ISystem => true | IUser _ => ac_search A e end.
(* impersonate_search_valid: entries matching the filter that the caller may see. modify and
   delete search with `filter!` (recycled entries are hidden); batch_modify searches with
   `filter_all!`, so recycled entries ARE candidates there (hid = true) *)
Definition cand (hid : bool) (A : acps) (id : ident) (t : target) (e : ent) : bool :=
  (hid || live e) && tmatch t e && visible A id e.

Fixpoint lookup_ml (u : N) (ms : list (N * list modi)) : option (list modi) :=
  match ms with [] => None | (k, ml) :: r => if u =? k then Some ml else lookup_ml u r end.

Fixpoint map_opt {A B} (f : A -> option B) (l : list A) : option (list B) :=
  match l with
  | [] => Some []
  | x :: r => match f x, map_opt f r with Some y, Some r' => Some (y :: r') | _, _ => None end
  end.

(* the modified entry after schema validation: `uuid` must again be single valued *)
Definition upd_ent (ml : list modi) (e : ent) : option ent :=
  match apply_ml [e_uuid e] ml with
  | Some [u] => Some (mkent u (e_prot e) (e_st e))
  | _ => None
  end.
Definition assert_fails (ml : list modi) (e : ent) : bool :=
  match apply_ml [e_uuid e] ml with None => true | Some _ => false end.

(* stages shared by modify and batch_modify once the candidates are known.
   sel e = the modlist applied to e (None: e is not a candidate); mods = every Modify of the request *)
Definition modify_core (A : acps) (id : ident) (db : list ent)
           (sel : ent -> option (list modi)) (mods : list modi) : res * list ent :=
  if negb (forallb (fun e => match sel e with Some ml => modify_access A id e ml | None => true end) db)
  then (EDenied, db)
  else if existsb (fun e => match sel e with Some ml => assert_fails ml e | None => false end) db
  then (EAssert, db)
  else if negb (base_modify mods) then (ESysProt, db)
  else match map_opt (fun e => match sel e with Some ml => upd_ent ml e | None => Some e end) db with
       | None => (ESchema, db)
       | Some db' => (ROk, db')
       end.

Definition modify (A : acps) (id : ident) (db : list ent) (t : target) (ml : list modi) : res * list ent :=
  match ml with
  | [] => (EEmpty, db)
  | _ =>
      match filter (cand false A id t) db with
      | [] => if internal id then (ROk, db) else (ENoMatch, db)
      | _ => modify_core A id db (fun e => if cand false A id t e then Some ml else None) ml
      end
  end.

Definition batch (A : acps) (id : ident) (db : list ent) (ms : list (N * list modi)) : res * list ent :=
  match ms with
  | [] => (EEmpty, db)
  | _ =>
      let t := TUuids (map fst ms) in
      match filter (cand true A id t) db with
      | [] => if internal id then (ROk, db) else (ENoMatch, db)
      | pre =>
          if negb (N.of_nat (length pre) =? N.of_nat (length ms)) then (EMissing, db)
          else modify_core A id db
                 (fun e => if cand true A id t e then
                             match lookup_ml (e_uuid e) ms with Some ml => Some ml | None => Some [] end
                           else None)
                 (flat_map snd ms)
      end
  end.

(* to_recycled adds the class `recycled`, which is one of PROTECTED_ENTRY_CLASSES *)
Definition recycle (e : ent) : ent := mkent (e_uuid e) true Recycled.

Definition delete (A : acps) (id : ident) (db : list ent) (t : target) : res * list ent :=
  let pre := filter (cand false A id t) db in
  if negb (forallb (delete_access A id) pre) then (EDenied, db)
  else match pre with
       | [] => (ENoMatch, db)
       | _ => (ROk, map (fun e => if cand false A id t e then recycle e else e) db)
       end.

Definition new_ents (es : list cent) (out : list (N * bool)) : list ent :=
  map (fun p => mkent (fst (snd p)) (c_prot (fst p)) Live) (combine es out).

Definition create (A : acps) (id : ident) (db : list ent) (es : list cent) : res * list ent :=
  match es with
  | [] => (EEmpty, db)
  | _ =>
      if negb (forallb (create_access A id) es) then (EDenied, db)
      else match base_create (internal id) (fun u => memN u (map e_uuid db)) es with
           | (ROk, out) => (ROk, db ++ new_ents es out)
           | (r, _) => (r, db)
           end
  end.

Definition step (A : acps) (id : ident) (db : list ent) (o : op) : res * list ent :=
  match o with
  | OCreate es => create A id db es
  | OModify t ml => modify A id db t ml
  | OBatch ms => batch A id db ms
  | ODelete t => delete A id db t
  end.

(* a history of requests; failed requests leave the directory as it was (the transaction is dropped) *)
Fixpoint run (A : acps) (db : list ent) (h : list (ident * op)) : list ent :=
  match h with
  | [] => db
  | (id, o) :: r => run A (snd (step A id db o)) r
  end.

Definition reserved (e : ent) : bool := e_uuid e <? DYN_MIN.
Definition is_user (i : ident) : bool := negb (internal i).

(* ------------------------------------------------------------------ observation of a directory *)
(* (sum, count) of the uuids of the entries satisfying p *)
Fixpoint sumcnt (p : ent -> bool) (db : list ent) : N * N :=
  match db with
  | [] => (0, 0)
  | e :: r => let sc := sumcnt p r in if p e then (fst sc + e_uuid e, snd sc + 1) else sc
  end.
(* 0 live, 1 recycled, 2 no such entry *)
Fixpoint lookup_st (u : N) (db : list ent) : N :=
  match db with
  | [] => 2
  | e :: r => if u =? e_uuid e then (if live e then 0 else 1) else lookup_st u r
  end.
(* what the harness reads back after every request: checksum of the live and of the recycled
   entries of the reserved range, and the state of every tracked uuid *)
Definition obs := (N * N * (N * N) * list N)%type.
Definition view (track : list N) (db : list ent) : obs :=
  (sumcnt (fun e => reserved e && live e) db,
   sumcnt (fun e => reserved e && negb (live e)) db,
   map (fun u => lookup_st u db) track).

(* ------------------------------------------------------------------ correspondence *)
(* the access control profile installed by the harness for the test user's group *)
Record cfg := mkcfg { g_mod_uuid : bool; g_mod_other : bool; g_create : bool; g_create_uuid : bool; g_delete : bool }.
Definition acps_of (g : cfg) : acps :=
  mkacps (fun _ => true)
         (fun _ a => match a with AUuid => g_mod_uuid g | AOther => g_mod_other g end)
         (fun _ a => match a with AUuid => g_mod_uuid g | AOther => g_mod_other g end)
         (fun c => g_create g && (g_create_uuid g || match c_uuid c with [] => true | _ => false end))
         (fun _ => g_delete g).

Inductive case :=
| CConst (anon dne dynmin : N)
| CBase (intern : bool) (existing : list N) (es : list cent) (r : res) (out : list (N * bool))
| CHist (g : cfg) (track : list N) (init : list ent) (o0 : obs) (steps : list (ident * op * res * obs)).

Definition res_code (r : res) : N :=
  match r with
  | ROk => 0 | EEmpty => 1 | ENoMatch => 2 | EDenied => 3 | EMissing => 4 | EAssert => 5 | ESysProt => 6
  | ESchema => 7 | EBaseMulti => 8 | EBaseDupReq => 9 | EBaseRange => 10 | EBaseDNE => 11 | EBaseDupDb => 12
  | EOther => 13
  end.
Definition res_eqb (a b : res) : bool := res_code a =? res_code b.

Fixpoint listN_eqb (a b : list N) : bool :=
  match a, b with
  | [], [] => true
  | x :: a', y :: b' => (x =? y) && listN_eqb a' b'
  | _, _ => false
  end.
Definition pairN_eqb (a b : N * N) : bool := (fst a =? fst b) && (snd a =? snd b).
Definition obs_eqb (a b : obs) : bool :=
  match a, b with
  | (l1, r1, t1), (l2, r2, t2) => pairN_eqb l1 l2 && pairN_eqb r1 r2 && listN_eqb t1 t2
  end.
Fixpoint out_eqb (a b : list (N * bool)) : bool :=
  match a, b with
  | [], [] => true
  | (u, x) :: a', (v, y) :: b' => (u =? v) && Bool.eqb x y && out_eqb a' b'
  | _, _ => false
  end.

Fixpoint hist_agree (A : acps) (track : list N) (db : list ent) (steps : list (ident * op * res * obs)) : bool :=
  match steps with
  | [] => true
  | (id, o, r, ob) :: rest =>
      let '(r', db') := step A id db o in
      res_eqb r r' && obs_eqb ob (view track db') && hist_agree A track db' rest
  end.

Definition agree (c : case) : bool :=
  match c with
  | CConst anon dne dynmin => (anon =? UUID_ANONYMOUS) && (dne =? UUID_DOES_NOT_EXIST) && (dynmin =? DYN_MIN)
  | CBase intern existing es r out =>
      let '(r', out') := base_create intern (fun u => memN u existing) es in
      res_eqb r r' && out_eqb out out'
  | CHist g track init o0 steps =>
      obs_eqb o0 (view track init) && hist_agree (acps_of g) track init steps
  end.

(* ------------------------------------------------------------------ the property on observations *)
(* the uuids a create request asks for (explicit single values and generated ones) *)
Definition req_uuids (es : list cent) : list N :=
  flat_map (fun c => match base_uuid c with Some u => [u] | None => [] end) es.

(* per tracked uuid: state before / after *)
Fixpoint track_ok (f : N -> N -> N -> bool) (track prev next : list N) : bool :=
  match track, prev, next with
  | [], [], [] => true
  | u :: t, a :: p, b :: n => f u a b && track_ok f t p n
  | _, _, _ => false
  end.

Definition obs_track (o : obs) : list N := snd o.
Definition obs_resv (o : obs) : (N * N) * (N * N) := fst o.
Definition resv_eqb (a b : (N * N) * (N * N)) : bool := pairN_eqb (fst a) (fst b) && pairN_eqb (snd a) (snd b).

(* One request, seen from outside: who asked, what, the answer, the directory before and after.
   - a request of a USER never changes the reserved range (no create there, no delete, no change);
   - no request of anybody makes the uuid of an existing entry disappear (a changed uuid would);
   - a failed request and every modify leave all tracked uuids and their states as they were;
   - new uuids appear only through a successful create, only the requested ones, and for a user
     only outside the reserved range; a delete only turns live entries into recycled ones. *)
Definition step_ok (track : list N) (id : ident) (o : op) (r : res) (prev next : obs) : bool :=
  (if is_user id then resv_eqb (obs_resv prev) (obs_resv next) else true)
  && track_ok (fun _ a b => (b <? 3) && negb ((a <? 2) && negb (b <? 2))) track (obs_track prev) (obs_track next)
  && match o, r with
     | OCreate es, ROk =>
         track_ok (fun u a b => (a =? b) || ((a =? 2) && (b =? 0) && memN u (req_uuids es))) track (obs_track prev) (obs_track next)
         && (if is_user id then forallb (fun u => DYN_MIN <=? u) (req_uuids es) else true)
         && (N.of_nat (length (req_uuids es)) =? N.of_nat (length es))
     | ODelete _, ROk =>
         track_ok (fun _ a b => (a =? b) || ((a =? 0) && (b =? 1))) track (obs_track prev) (obs_track next)
     | _, _ => listN_eqb (obs_track prev) (obs_track next)
     end.

Fixpoint hist_ok (track : list N) (prev : obs) (steps : list (ident * op * res * obs)) : bool :=
  match steps with
  | [] => true
  | (id, o, r, ob) :: rest => step_ok track id o r prev ob && hist_ok track ob rest
  end.

Definition pcheck (c : case) : bool :=
  match c with
  | CConst anon dne dynmin => (dynmin =? anon + 1) && (dne <? dynmin)
  | CBase intern existing es r out =>
      match r with
      | ROk =>
          (N.of_nat (length out) =? N.of_nat (length es))
          && (if intern then true
              else forallb (fun p => (DYN_MIN <=? fst p) && negb (snd p)) out
                   && forallb (fun c => match c_uuid c with [u] => DYN_MIN <=? u | [] => true | _ => false end) es)
      | _ => true
      end
  | CHist g track init o0 steps => hist_ok track o0 steps
  end.

Definition known (_ : case) : bool := false.
