(* KV.C20.Proofs — lemmas and proofs for the C20 model. *)
From Coq Require Import List NArith Bool Lia.
Import ListNotations.
Require Import KV.C20.Model.
Open Scope N_scope.
Arguments N.add : simpl never.
Arguments N.sub : simpl never.
Arguments N.ltb : simpl never.
Arguments N.leb : simpl never.
Arguments N.eqb : simpl never.

(* ------------------------------------------------------------------ small facts *)
Lemma memN_In : forall x l, memN x l = true <-> In x l.
Proof.
  intros x l. induction l as [|y r IH]; cbn [memN In].
  - split; [discriminate | tauto].
  - rewrite orb_true_iff, IH, N.eqb_eq. split; intros [H|H]; auto.
Qed.

Lemma memN_app : forall x a b, memN x (a ++ b) = memN x a || memN x b.
Proof.
  intros x a b. induction a as [|y r IH]; cbn [memN app]; [reflexivity|].
  rewrite IH, orb_assoc. reflexivity.
Qed.

Lemma ranges_coincide : forall u, (u <? DYN_MIN) = (u <=? UUID_ANONYMOUS).
Proof.
  intros u. unfold DYN_MIN, UUID_ANONYMOUS.
  destruct (u <? 281474976710656) eqn:E1; destruct (u <=? 281474976710655) eqn:E2; try reflexivity.
  - apply N.ltb_lt in E1. apply N.leb_gt in E2. lia.
  - apply N.ltb_ge in E1. apply N.leb_le in E2. lia.
Qed.

(* ------------------------------------------------------------------ the modify guard is complete *)
Lemma apply_mod_untouched : forall vs m vs',
  mod_touches_uuid m = false -> apply_mod vs m = Some vs' -> vs' = vs.
Proof.
  intros vs m vs' Ht Ha. destruct m as [a v|a v|a|a v|v]; try destruct a;
    cbn in Ht; try discriminate; cbn in Ha; try (injection Ha as <-; reflexivity).
  destruct (memN v vs); [injection Ha as <-; reflexivity | discriminate].
Qed.

Lemma apply_ml_untouched : forall ml vs vs',
  existsb mod_touches_uuid ml = false -> apply_ml vs ml = Some vs' -> vs' = vs.
Proof.
  induction ml as [|m r IH]; intros vs vs' Ht Ha; cbn [apply_ml] in Ha.
  - injection Ha as <-. reflexivity.
  - cbn [existsb] in Ht. apply orb_false_iff in Ht as [Hm Hr].
    destruct (apply_mod vs m) as [vs1|] eqn:E; [|discriminate].
    apply (apply_mod_untouched _ _ _ Hm) in E. subst vs1. apply (IH _ _ Hr Ha).
Qed.

Lemma existsb_subset : forall (f : modi -> bool) (ml mods : list modi),
  (forall m, In m ml -> In m mods) -> existsb f mods = false -> existsb f ml = false.
Proof.
  intros f ml mods Hs Hm. destruct (existsb f ml) eqn:E; [|reflexivity].
  apply existsb_exists in E as [m [Hi Hf]].
  assert (existsb f mods = true) as H by (apply existsb_exists; exists m; auto). congruence.
Qed.

Lemma upd_ent_guarded : forall ml e e',
  existsb mod_touches_uuid ml = false -> upd_ent ml e = Some e' -> e' = e.
Proof.
  intros ml e e' Hg Hu. unfold upd_ent in Hu.
  destruct (apply_ml [e_uuid e] ml) as [vs|] eqn:E; [|discriminate].
  apply (apply_ml_untouched _ _ _ Hg) in E. subst vs. injection Hu as <-. destruct e; reflexivity.
Qed.

Lemma map_opt_id : forall (f : ent -> option ent) db db',
  (forall e e', f e = Some e' -> e' = e) -> map_opt f db = Some db' -> db' = db.
Proof.
  intros f db. induction db as [|e r IH]; intros db' Hf Hm; cbn [map_opt] in Hm.
  - injection Hm as <-. reflexivity.
  - destruct (f e) as [e1|] eqn:E1; [|discriminate].
    destruct (map_opt f r) as [r1|] eqn:E2; [|discriminate].
    injection Hm as <-. rewrite (Hf _ _ E1), (IH r1 Hf eq_refl). reflexivity.
Qed.

(* every stage after the candidate search leaves the directory as it was *)
Lemma modify_core_same : forall A id db sel mods r db',
  (forall e ml, sel e = Some ml -> forall m, In m ml -> In m mods) ->
  modify_core A id db sel mods = (r, db') -> db' = db.
Proof.
  intros A id db sel mods r db' Hsel H. unfold modify_core in H.
  destruct (negb (forallb _ db)); [injection H as _ <-; reflexivity|].
  destruct (existsb _ db); [injection H as _ <-; reflexivity|].
  destruct (negb (base_modify mods)) eqn:Eb; [injection H as _ <-; reflexivity|].
  apply negb_false_iff in Eb. unfold base_modify in Eb. apply negb_true_iff in Eb.
  destruct (map_opt _ db) as [db1|] eqn:Em; [|injection H as _ <-; reflexivity].
  injection H as _ <-. refine (map_opt_id _ _ _ _ Em).
  intros e e' He. cbv beta in He. destruct (sel e) as [ml|] eqn:Es; [|injection He as <-; reflexivity].
  apply (upd_ent_guarded ml); [|exact He].
  apply (existsb_subset _ ml mods); [apply (Hsel e ml Es) | exact Eb].
Qed.

Lemma lookup_ml_in : forall u ms ml, lookup_ml u ms = Some ml -> forall m, In m ml -> In m (flat_map snd ms).
Proof.
  intros u ms. induction ms as [|[k l] r IH]; intros ml Hl m Hm; cbn [lookup_ml] in Hl; [discriminate|].
  cbn [flat_map snd]. apply in_or_app. destruct (u =? k).
  - injection Hl as <-. left. exact Hm.
  - right. apply (IH ml Hl m Hm).
Qed.

Lemma modify_same : forall A id db t ml r db', modify A id db t ml = (r, db') -> db' = db.
Proof.
  intros A id db t ml r db' H. unfold modify in H. destruct ml as [|m0 ml0]; [injection H as _ <-; reflexivity|].
  destruct (filter _ db) as [|c0 cs]; [destruct (internal id); injection H as _ <-; reflexivity|].
  apply modify_core_same in H; [exact H|].
  intros e ml1 Hs. destruct (cand false A id t e); [injection Hs as <-; auto | discriminate].
Qed.

Lemma batch_same : forall A id db ms r db', batch A id db ms = (r, db') -> db' = db.
Proof.
  intros A id db ms r db' H. unfold batch in H. destruct ms as [|p0 ms0]; [injection H as _ <-; reflexivity|].
  destruct (filter _ db) as [|c0 cs]; [destruct (internal id); injection H as _ <-; reflexivity|].
  destruct (negb _); [injection H as _ <-; reflexivity|].
  apply modify_core_same in H; [exact H|].
  intros e ml1 Hs. destruct (cand true A id _ e); [|discriminate].
  destruct (lookup_ml (e_uuid e) (p0 :: ms0)) as [ml2|] eqn:El; injection Hs as <-.
  - apply (lookup_ml_in _ _ _ El).
  - intros m [].
Qed.

(* ------------------------------------------------------------------ delete *)
Definition delf (A : acps) (id : ident) (t : target) (e : ent) : ent :=
  if cand false A id t e then recycle e else e.

Lemma delete_shape : forall A id db t r db',
  delete A id db t = (r, db') ->
  (r <> ROk /\ db' = db) \/
  (r = ROk /\ db' = map (delf A id t) db /\ forallb (delete_access A id) (filter (cand false A id t) db) = true).
Proof.
  intros A id db t r db' H. unfold delete in H.
  destruct (forallb (delete_access A id) (filter (cand false A id t) db)) eqn:Ef; cbn [negb] in H.
  - destruct (filter (cand false A id t) db) eqn:Efl.
    + injection H as <- <-. left. split; [discriminate | reflexivity].
    + injection H as <- <-. right. split; [reflexivity|]. split; [reflexivity | reflexivity].
  - injection H as <- <-. left. split; [discriminate | reflexivity].
Qed.

Lemma map_delf_uuid : forall A id t db, map e_uuid (map (delf A id t) db) = map e_uuid db.
Proof.
  intros A id t db. rewrite map_map. apply map_ext. intros e. unfold delf.
  destruct (cand false A id t e); reflexivity.
Qed.

Lemma user_delete_reserved : forall A rw t db,
  forallb (delete_access A (IUser rw)) (filter (cand false A (IUser rw) t) db) = true ->
  filter reserved (map (delf A (IUser rw) t) db) = filter reserved db.
Proof.
  intros A rw t db. induction db as [|e r IH]; intros Hf; [reflexivity|].
  cbn [filter map] in *.
  replace (delf A (IUser rw) t e) with (if cand false A (IUser rw) t e then recycle e else e) by reflexivity.
  destruct (cand false A (IUser rw) t e) eqn:Ec.
  - cbn [forallb] in Hf. apply andb_true_iff in Hf as [He Hr].
    unfold delete_access in He. apply andb_true_iff in He as [He _]. apply andb_true_iff in He as [He _].
    apply negb_true_iff in He. unfold protected_ent in He. apply orb_false_iff in He as [He _].
    assert (reserved e = false) as Hre by (unfold reserved; rewrite ranges_coincide; exact He).
    assert (reserved (recycle e) = false) as Hre' by exact Hre.
    rewrite Hre, Hre'. apply (IH Hr).
  - rewrite (IH Hf). reflexivity.
Qed.

(* ------------------------------------------------------------------ create *)
Lemma base_loop_false : forall us seen inv,
  base_loop false seen inv us = Some false -> inv = false /\ forallb (fun u => DYN_MIN <=? u) us = true.
Proof.
  induction us as [|u r IH]; intros seen inv H; cbn [base_loop] in H.
  - injection H as ->. split; reflexivity.
  - destruct (memN u seen); [discriminate|].
    apply IH in H as [Hi Hr]. apply orb_false_iff in Hi as [Hi Hu].
    split; [exact Hi|]. cbn [forallb]. rewrite Hr, andb_true_r.
    cbn [negb] in Hu. rewrite andb_true_r in Hu. rewrite N.leb_antisym, Hu. reflexivity.
Qed.

Lemma all_some_req : forall es us, all_some (map base_uuid es) = Some us -> req_uuids es = us /\ length us = length es.
Proof.
  induction es as [|c r IH]; intros us H; cbn [map all_some] in H.
  - injection H as <-. split; reflexivity.
  - unfold req_uuids. cbn [flat_map]. destruct (base_uuid c) as [u|]; [|discriminate].
    destruct (all_some (map base_uuid r)) as [r'|] eqn:E; [|discriminate]. injection H as <-.
    destruct (IH r' eq_refl) as [H1 H2]. split; [cbn [app]; f_equal; exact H1 | cbn [length]; f_equal; exact H2].
Qed.

(* what a successful Base::pre_create_transform returns *)
Lemma base_create_ok : forall intern ex es out,
  base_create intern ex es = (ROk, out) ->
  exists us, all_some (map base_uuid es) = Some us /\ out = map (fun u => (u, (u <? DYN_MIN) && intern)) us /\
             (intern = false -> forallb (fun u => DYN_MIN <=? u) us = true).
Proof.
  intros intern ex es out H. unfold base_create in H.
  destruct (all_some (map base_uuid es)) as [us|]; [|discriminate].
  exists us. split; [reflexivity|].
  destruct (base_loop intern [] false us) as [[|]|] eqn:El; try discriminate.
  destruct (memN UUID_DOES_NOT_EXIST us); [discriminate|].
  destruct (existsb ex us); [discriminate|]. injection H as <-. split; [reflexivity|].
  intros ->. apply (base_loop_false _ _ _ El).
Qed.

Lemma base_create_err : forall intern ex es r out, base_create intern ex es = (r, out) -> r <> ROk -> out = [].
Proof.
  intros intern ex es r out H Hr. unfold base_create in H.
  destruct (all_some (map base_uuid es)) as [us|]; [|injection H as _ <-; reflexivity].
  destruct (base_loop intern [] false us) as [[|]|]; try (injection H as _ <-; reflexivity).
  destruct (memN UUID_DOES_NOT_EXIST us); [injection H as _ <-; reflexivity|].
  destruct (existsb ex us); [injection H as _ <-; reflexivity|]. injection H as <- _. contradiction.
Qed.

Lemma new_ents_uuids : forall es us f, length us = length es ->
  map e_uuid (new_ents es (map (fun u => (u, f u)) us)) = us.
Proof.
  induction es as [|c r IH]; intros us f Hl; destruct us as [|u us']; cbn [length] in Hl; try discriminate; [reflexivity|].
  unfold new_ents. cbn [map combine fst snd e_uuid]. f_equal. apply (IH us' f). injection Hl as Hl. exact Hl.
Qed.

Lemma new_ents_live : forall es out e, In e (new_ents es out) -> live e = true.
Proof.
  intros es out e H. unfold new_ents in H. apply in_map_iff in H as [p [<- _]]. reflexivity.
Qed.

Lemma create_shape : forall A id db es r db',
  create A id db es = (r, db') ->
  (r <> ROk /\ db' = db) \/
  (r = ROk /\ exists us, all_some (map base_uuid es) = Some us /\ length us = length es /\
      db' = db ++ new_ents es (map (fun u => (u, (u <? DYN_MIN) && internal id)) us) /\
      (internal id = false -> forallb (fun u => DYN_MIN <=? u) us = true)).
Proof.
  intros A id db es r db' H. unfold create in H.
  destruct es as [|c0 es0]; [injection H as <- <-; left; split; [discriminate | reflexivity]|].
  destruct (negb _); [injection H as <- <-; left; split; [discriminate | reflexivity]|].
  destruct (base_create (internal id) (fun u => memN u (map e_uuid db)) (c0 :: es0)) as [r1 out] eqn:Eb.
  destruct r1; try (injection H as <- <-; left; split; [discriminate | reflexivity]).
  injection H as <- <-. right. split; [reflexivity|].
  apply base_create_ok in Eb as [us [H1 [H2 H3]]]. exists us. split; [exact H1|].
  split; [apply (all_some_req _ _ H1)|]. split; [rewrite H2; reflexivity | exact H3].
Qed.

Lemma filter_reserved_new : forall l, forallb (fun u => DYN_MIN <=? u) (map e_uuid l) = true -> filter reserved l = [].
Proof.
  induction l as [|e r IH]; intros H; [reflexivity|]. cbn [map forallb] in H. apply andb_true_iff in H as [He Hr].
  cbn [filter]. unfold reserved at 1. rewrite N.ltb_antisym, He. cbn [negb]. apply (IH Hr).
Qed.

(* ------------------------------------------------------------------ one request *)
(* positions and uuids of the existing entries are kept; entries are only ever appended, and only
   by a successful create *)
Lemma step_uuids : forall A id db o r db',
  step A id db o = (r, db') ->
  exists new, map e_uuid db' = map e_uuid db ++ map e_uuid new /\
              (new = [] \/ exists es, o = OCreate es /\ r = ROk).
Proof.
  intros A id db o r db' H. destruct o as [es|t ml|ms|t]; cbn [step] in H.
  - apply create_shape in H as [[_ ->]|[-> [us [_ [_ [-> _]]]]]].
    + exists []. rewrite app_nil_r. split; [reflexivity | left; reflexivity].
    + eexists. rewrite map_app. split; [reflexivity|]. right. exists es. split; reflexivity.
  - apply modify_same in H. subst. exists []. rewrite app_nil_r. split; [reflexivity | left; reflexivity].
  - apply batch_same in H. subst. exists []. rewrite app_nil_r. split; [reflexivity | left; reflexivity].
  - apply delete_shape in H as [[_ ->]|[_ [-> _]]]; exists []; cbn [map]; rewrite app_nil_r; (split; [|left; reflexivity]).
    + reflexivity.
    + apply map_delf_uuid.
Qed.

Lemma step_error_same : forall A id db o r db', step A id db o = (r, db') -> r <> ROk -> db' = db.
Proof.
  intros A id db o r db' H Hr. destruct o as [es|t ml|ms|t]; cbn [step] in H.
  - apply create_shape in H as [[_ ->]|[-> _]]; [reflexivity | contradiction].
  - apply (modify_same _ _ _ _ _ _ _ H).
  - apply (batch_same _ _ _ _ _ _ H).
  - apply delete_shape in H as [[_ ->]|[-> _]]; [reflexivity | contradiction].
Qed.

(* a request of a user leaves the reserved range exactly as it was *)
Lemma user_step_reserved : forall A rw db o r db',
  step A (IUser rw) db o = (r, db') -> filter reserved db' = filter reserved db.
Proof.
  intros A rw db o r db' H. destruct o as [es|t ml|ms|t]; cbn [step] in H.
  - apply create_shape in H as [[_ ->]|[_ [us [_ [Hl [-> Hu]]]]]]; [reflexivity|].
    rewrite filter_app.
    match goal with |- _ ++ filter reserved ?l = _ => rewrite (filter_reserved_new l) end.
    + apply app_nil_r.
    + rewrite new_ents_uuids by exact Hl. apply Hu. reflexivity.
  - apply modify_same in H. subst. reflexivity.
  - apply batch_same in H. subst. reflexivity.
  - apply delete_shape in H as [[_ ->]|[_ [-> Hf]]]; [reflexivity|]. apply (user_delete_reserved _ _ _ _ Hf).
Qed.

Lemma user_create_new : forall A rw db es r db',
  step A (IUser rw) db (OCreate es) = (r, db') ->
  exists new, db' = db ++ new /\ forall e, In e new -> DYN_MIN <= e_uuid e.
Proof.
  intros A rw db es r db' H. cbn [step] in H.
  apply create_shape in H as [[_ ->]|[_ [us [_ [Hl [-> Hu]]]]]].
  - exists []. rewrite app_nil_r. split; [reflexivity | intros e []].
  - eexists. split; [reflexivity|]. intros e He.
    assert (In (e_uuid e) us) as Hi by (rewrite <- (new_ents_uuids es us (fun u => (u <? DYN_MIN) && internal (IUser rw)) Hl); apply in_map; exact He).
    specialize (Hu eq_refl). rewrite forallb_forall in Hu. apply N.leb_le. apply (Hu _ Hi).
Qed.

(* ------------------------------------------------------------------ histories *)
Lemma run_uuids : forall A h db, exists new, map e_uuid (run A db h) = map e_uuid db ++ new.
Proof.
  intros A h. induction h as [|[id o] r IH]; intros db; cbn [run].
  - exists []. rewrite app_nil_r. reflexivity.
  - destruct (step A id db o) as [r1 db1] eqn:Es. cbn [snd].
    destruct (step_uuids _ _ _ _ _ _ Es) as [n1 [H1 _]]. destruct (IH db1) as [n2 H2].
    exists (map e_uuid n1 ++ n2). rewrite H2, H1, app_assoc. reflexivity.
Qed.

Lemma run_reserved : forall A h db,
  Forall (fun p => is_user (fst p) = true) h -> filter reserved (run A db h) = filter reserved db.
Proof.
  intros A h. induction h as [|[id o] r IH]; intros db Hu; cbn [run]; [reflexivity|].
  inversion Hu as [|p l Hp Hl]; subst. cbn [fst] in Hp.
  destruct (step A id db o) as [r1 db1] eqn:Es. cbn [snd]. rewrite (IH db1 Hl).
  destruct id as [|rw]; [discriminate|]. apply (user_step_reserved _ _ _ _ _ _ Es).
Qed.

(* ------------------------------------------------------------------ Base plugin alone *)
Lemma base_user_never_reserved : forall ex es out,
  base_create false ex es = (ROk, out) ->
  length out = length es /\ forall u b, In (u, b) out -> DYN_MIN <= u /\ b = false.
Proof.
  intros ex es out H. apply base_create_ok in H as [us [H1 [-> H3]]]. split.
  - rewrite map_length. apply (all_some_req _ _ H1).
  - intros u b Hi. apply in_map_iff in Hi as [u' [Heq Hi]]. injection Heq as <- <-.
    specialize (H3 eq_refl). rewrite forallb_forall in H3. split; [apply N.leb_le, (H3 _ Hi)|].
    apply andb_false_r.
Qed.

Lemma base_user_rejects_reserved : forall ex es c u,
  In c es -> c_uuid c = [u] -> u < DYN_MIN -> fst (base_create false ex es) <> ROk.
Proof.
  intros ex es c u Hc Hu Hlt Hok. destruct (base_create false ex es) as [r out] eqn:E. cbn [fst] in Hok. subst r.
  apply base_create_ok in E as [us [H1 [_ H3]]]. specialize (H3 eq_refl). rewrite forallb_forall in H3.
  assert (In u us) as Hi.
  { apply all_some_req in H1 as [<- _]. unfold req_uuids. apply in_flat_map. exists c. split; [exact Hc|].
    unfold base_uuid. rewrite Hu. left. reflexivity. }
  apply H3 in Hi. apply N.leb_le in Hi. lia.
Qed.

(* ------------------------------------------------------------------ bridge: agree -> pcheck *)
Lemma listN_eqb_refl : forall l, listN_eqb l l = true.
Proof. induction l as [|x r IH]; cbn [listN_eqb]; [reflexivity|]. rewrite N.eqb_refl, IH. reflexivity. Qed.

Lemma listN_eqb_eq : forall a b, listN_eqb a b = true -> a = b.
Proof.
  induction a as [|x r IH]; intros [|y s] H; cbn [listN_eqb] in H; try discriminate; [reflexivity|].
  apply andb_true_iff in H as [H1 H2]. apply N.eqb_eq in H1. rewrite H1, (IH _ H2). reflexivity.
Qed.

Lemma pairN_eqb_eq : forall a b, pairN_eqb a b = true -> a = b.
Proof.
  intros [a1 a2] [b1 b2] H. unfold pairN_eqb in H. cbn [fst snd] in H.
  apply andb_true_iff in H as [H1 H2]. apply N.eqb_eq in H1, H2. subst. reflexivity.
Qed.

Lemma pairN_eqb_refl : forall a, pairN_eqb a a = true.
Proof. intros [a1 a2]. unfold pairN_eqb. cbn [fst snd]. rewrite !N.eqb_refl. reflexivity. Qed.

Lemma obs_eqb_eq : forall a b : obs, obs_eqb a b = true -> a = b.
Proof.
  intros [[l1 r1] t1] [[l2 r2] t2] H. unfold obs_eqb in H.
  apply andb_true_iff in H as [H H3]. apply andb_true_iff in H as [H1 H2].
  apply pairN_eqb_eq in H1, H2. apply listN_eqb_eq in H3. subst. reflexivity.
Qed.

Lemma res_eqb_eq : forall a b, res_eqb a b = true -> a = b.
Proof. intros a b H. destruct a, b; try reflexivity; vm_compute in H; discriminate. Qed.

Lemma sumcnt_filter : forall q db, sumcnt (fun e => reserved e && q e) db = sumcnt q (filter reserved db).
Proof.
  intros q db. induction db as [|e r IH]; [reflexivity|]. cbn [sumcnt filter].
  destruct (reserved e); cbn [andb sumcnt]; rewrite IH; reflexivity.
Qed.

Lemma view_resv : forall track db db',
  filter reserved db = filter reserved db' -> obs_resv (view track db) = obs_resv (view track db').
Proof.
  intros track db db' H. unfold obs_resv, view. cbn [fst]. rewrite !sumcnt_filter, H. reflexivity.
Qed.

Lemma view_track : forall track db, obs_track (view track db) = map (fun u => lookup_st u db) track.
Proof. reflexivity. Qed.

Lemma lookup_st_bound : forall u db, (lookup_st u db <? 3) = true.
Proof.
  intros u db. induction db as [|e r IH]; cbn [lookup_st]; [reflexivity|].
  destruct (u =? e_uuid e); [destruct (live e); reflexivity | exact IH].
Qed.

Lemma lookup_st_mem : forall u db, (lookup_st u db <? 2) = memN u (map e_uuid db).
Proof.
  intros u db. induction db as [|e r IH]; cbn [lookup_st map memN]; [reflexivity|].
  destruct (u =? e_uuid e); cbn [orb]; [destruct (live e); reflexivity | exact IH].
Qed.

Lemma lookup_st_app : forall u a b,
  lookup_st u (a ++ b) = if lookup_st u a =? 2 then lookup_st u b else lookup_st u a.
Proof.
  intros u a b. induction a as [|e r IH]; cbn [lookup_st app]; [reflexivity|].
  destruct (u =? e_uuid e); [destruct (live e); reflexivity | exact IH].
Qed.

Lemma lookup_st_new : forall u new, (forall e, In e new -> live e = true) ->
  (lookup_st u new = 0 /\ In u (map e_uuid new)) \/ lookup_st u new = 2.
Proof.
  intros u new. induction new as [|e r IH]; intros Hl; cbn [lookup_st map]; [right; reflexivity|].
  destruct (u =? e_uuid e) eqn:E.
  - left. rewrite (Hl e (or_introl eq_refl)). apply N.eqb_eq in E. split; [reflexivity | left; symmetry; exact E].
  - destruct (IH (fun x Hx => Hl x (or_intror Hx))) as [[H1 H2]|H]; [left; split; [exact H1 | right; exact H2] | right; exact H].
Qed.

Lemma track_ok_map : forall (f : N -> N -> N -> bool) (g1 g2 : N -> N) track,
  (forall u, f u (g1 u) (g2 u) = true) -> track_ok f track (map g1 track) (map g2 track) = true.
Proof.
  intros f g1 g2 track H. induction track as [|u r IH]; cbn [map track_ok]; [reflexivity|].
  rewrite H, IH. reflexivity.
Qed.

Lemma cand_false_live : forall A id t e, cand false A id t e = true -> live e = true.
Proof.
  intros A id t e H. unfold cand in H. apply andb_true_iff in H as [H _]. apply andb_true_iff in H as [H _].
  exact H.
Qed.

Lemma lookup_st_delf : forall A id t u db,
  (lookup_st u db =? lookup_st u (map (delf A id t) db))
  || ((lookup_st u db =? 0) && (lookup_st u (map (delf A id t) db) =? 1)) = true.
Proof.
  intros A id t u db. induction db as [|e r IH]; [reflexivity|]. cbn [map lookup_st].
  assert (e_uuid (delf A id t e) = e_uuid e) as Hu by (unfold delf; destruct (cand false A id t e); reflexivity).
  rewrite Hu. destruct (u =? e_uuid e); [|exact IH].
  unfold delf. destruct (cand false A id t e) eqn:Ec.
  - rewrite (cand_false_live _ _ _ _ Ec). reflexivity.
  - destruct (live e); reflexivity.
Qed.

Lemma step_view_ok : forall A track id db o r db',
  step A id db o = (r, db') -> step_ok track id o r (view track db) (view track db') = true.
Proof.
  intros A track id db o r db' H. unfold step_ok. rewrite !view_track.
  apply andb_true_iff. split; [apply andb_true_iff; split|].
  - (* a user's request leaves the reserved range alone *)
    destruct id as [|rw]; [reflexivity|]. cbn [is_user internal negb].
    rewrite (view_resv track db' db (user_step_reserved _ _ _ _ _ _ H)).
    unfold resv_eqb. rewrite !pairN_eqb_refl. reflexivity.
  - (* no uuid disappears *)
    apply track_ok_map. intros u. rewrite lookup_st_bound. cbn [andb].
    rewrite !lookup_st_mem. destruct (step_uuids _ _ _ _ _ _ H) as [new [Hm _]].
    rewrite Hm, memN_app. destruct (memN u (map e_uuid db)); reflexivity.
  - destruct o as [es|t ml|ms|t]; cbn [step] in H.
    + apply create_shape in H as [[Hne ->]|[-> [us [Has [Hl [-> Hu]]]]]].
      * destruct r; try apply listN_eqb_refl. exfalso. apply Hne. reflexivity.
      * destruct (all_some_req _ _ Has) as [Hreq _].
        apply andb_true_iff. split; [apply andb_true_iff; split|].
        -- apply track_ok_map. intros u. rewrite lookup_st_app.
           destruct (lookup_st u db =? 2) eqn:E2; [|rewrite N.eqb_refl; reflexivity].
           apply N.eqb_eq in E2. rewrite E2.
           match goal with |- context [lookup_st u (new_ents es ?out)] =>
             destruct (lookup_st_new u (new_ents es out) (new_ents_live es out)) as [[H0 Hin]|H2] end.
           ++ rewrite H0. rewrite new_ents_uuids in Hin by exact Hl.
              rewrite Hreq. apply memN_In in Hin. rewrite Hin. reflexivity.
           ++ rewrite H2. reflexivity.
        -- rewrite Hreq. destruct id as [|rw]; [reflexivity|]. cbn [is_user internal negb]. apply Hu. reflexivity.
        -- rewrite Hreq, Hl. apply N.eqb_refl.
    + apply modify_same in H. subst. apply listN_eqb_refl.
    + apply batch_same in H. subst. apply listN_eqb_refl.
    + apply delete_shape in H as [[Hne ->]|[-> [-> _]]].
      * destruct r; try apply listN_eqb_refl. exfalso. apply Hne. reflexivity.
      * apply track_ok_map. intros u. apply lookup_st_delf.
Qed.

Lemma hist_bridge : forall A track steps db o,
  obs_eqb o (view track db) = true -> hist_agree A track db steps = true -> hist_ok track o steps = true.
Proof.
  intros A track steps. induction steps as [|[[[id op0] r] ob] rest IH]; intros db o Ho Ha; [reflexivity|].
  cbn [hist_agree hist_ok] in *. destruct (step A id db op0) as [r' db'] eqn:Es.
  apply andb_true_iff in Ha as [Ha Hrest]. apply andb_true_iff in Ha as [Hr Hob].
  apply res_eqb_eq in Hr. subst r'. apply obs_eqb_eq in Ho. subst o.
  rewrite (IH db' ob Hob Hrest), andb_true_r.
  apply obs_eqb_eq in Hob. subst ob. apply (step_view_ok _ _ _ _ _ _ _ Es).
Qed.

Lemma out_eqb_eq : forall a b, out_eqb a b = true -> a = b.
Proof.
  induction a as [|[u x] r IH]; intros [|[v y] s] H; cbn [out_eqb] in H; try discriminate; [reflexivity|].
  apply andb_true_iff in H as [H H3]. apply andb_true_iff in H as [H1 H2].
  apply N.eqb_eq in H1. apply eqb_prop in H2. rewrite H1, H2, (IH _ H3). reflexivity.
Qed.

Lemma agree_pcheck : forall c, agree c = true -> pcheck c = true.
Proof.
  intros [anon dne dynmin|intern existing es r out|g track init o0 steps] H; cbn [agree pcheck] in *.
  - apply andb_true_iff in H as [H H3]. apply andb_true_iff in H as [H1 H2].
    apply N.eqb_eq in H1, H2, H3. subst. reflexivity.
  - destruct (base_create intern (fun u => memN u existing) es) as [r' out'] eqn:Eb.
    apply andb_true_iff in H as [Hr Ho]. apply res_eqb_eq in Hr. apply out_eqb_eq in Ho. subst r' out'.
    destruct r; try reflexivity.
    destruct intern.
    + apply base_create_ok in Eb as [us [H1 [-> _]]]. rewrite map_length.
      destruct (all_some_req _ _ H1) as [_ ->]. rewrite N.eqb_refl. reflexivity.
    + pose proof (base_user_never_reserved _ _ _ Eb) as [Hlen Hall].
      rewrite Hlen, N.eqb_refl. cbn [andb]. apply andb_true_iff. split.
      * apply forallb_forall. intros [u b] Hi. destruct (Hall u b Hi) as [Hu ->]. cbn [fst snd negb].
        apply N.leb_le in Hu. rewrite Hu. reflexivity.
      * apply forallb_forall. intros c Hc. destruct (c_uuid c) as [|u [|u2 l]] eqn:Ec; [reflexivity| |].
        -- destruct (DYN_MIN <=? u) eqn:E; [reflexivity|]. exfalso. apply N.leb_gt in E.
           apply (base_user_rejects_reserved (fun u => memN u existing) es c u Hc Ec E). rewrite Eb. reflexivity.
        -- exfalso. apply base_create_ok in Eb as [us [H1 _]].
           assert (In None (map base_uuid es)) as Hn.
           { apply in_map_iff. exists c. split; [unfold base_uuid; rewrite Ec; reflexivity | exact Hc]. }
           clear -H1 Hn. revert us H1. induction (map base_uuid es) as [|x l0 IH]; intros us H1; [destruct Hn|].
           cbn [all_some] in H1. destruct x as [x|]; [|discriminate].
           destruct Hn as [Hn|Hn]; [discriminate|]. destruct (all_some l0) as [r'|]; [|discriminate].
           apply (IH Hn r' eq_refl).
  - apply andb_true_iff in H as [H0 Hh]. apply (hist_bridge _ _ _ _ _ H0 Hh).
Qed.
