(* KV.C26.Model — recycle bin lifecycle (executable definitions only).
   Transcribes, for a closed universe of tracked entries (persons, groups, Refers-dependents):
     QueryServer::write                      (server/mod.rs: lamport txn time, trim_cid = cid - CHANGELOG_MAX_AGE)
     QueryServerWriteTransaction::delete     (server/delete.rs: live-only target, Refers cascade + CascadeDeleted,
                                              memberof::pre_delete DirectMemberOf -> RecycledDirectMemberOf,
                                              to_recycled, refint::post_delete remove_references over ALL entries)
     revive_recycled                         (server/recycle.rs: recycled-only target, CascadeDeleted dependents,
                                              Refers restored, to_revived, schema + refint checks of modify_apply,
                                              Member re-added to every stashed group)
     purge_recycled                          (LastModifiedCid < cid - RECYCLEBIN_MAX_AGE -> to_tombstone(cid))
     purge_tombstones / be::reap_tombstones  (tombstone `at` < cid - CHANGELOG_MAX_AGE -> row removed)
   The model follows /repo AFTER commit 76a0ae1 (memberof: reviving a group recomputes the
   direct memberships of its members); the behaviour before it is kept only in the `_prefix`
   definitions (do_revive_prefix, step_prefix, run_prefix) for Props.C26_prefix_refuted.
   Scope: flat groups (memberof's transitive MemberOf propagation is not modelled).
   All times are nanoseconds (Duration of the Cid); windows R, C are case inputs read from the
   kanidm constants by the harness. *)
From Coq Require Import List NArith Bool.
Import ListNotations.
Open Scope N_scope.

Inductive status := Live | Rec | Tomb (a : N) | Gone.

(* One tracked entry. [elm] = LastModifiedCid.ts (only meaningful while recycled),
   [erec] = history variable: txn time of the delete that recycled it (written only by delete). *)
Record ent := mkent {
  eid : N; ekind : N; est : status; elm : N; erec : N;
  emember : list N; erdmo : list N; erefers : option N; ecasc : option N;
  edmo : list N (* stored DirectMemberOf, as last written by the memberof plugin *) }.

(* ekind: 0 person, 1 group, 2 dependent (ClientCertificate: Refers is a MUST attribute) *)
Definition edep (e : ent) : bool := ekind e =? 2.

Record state := mkst { now : N; ents : list ent }.

Definition is_live (s : status) : bool := match s with Live => true | _ => false end.
Definition is_rec (s : status) : bool := match s with Rec => true | _ => false end.
Definition memN (x : N) (l : list N) : bool := existsb (N.eqb x) l.
Fixpoint nodupb (l : list N) : bool :=
  match l with
  | [] => true
  | x :: r => negb (memN x r) && nodupb r
  end.
Definition opt_is (o : option N) (x : N) : bool := match o with Some y => y =? x | None => false end.
Definition is_some (o : option N) : bool := match o with Some _ => true | None => false end.

(* search visibility: Filter::new_ignore_hidden / Filter::new_recycled on uuid = g *)
Definition live_id (es : list ent) (g : N) : bool := existsb (fun e => (eid e =? g) && is_live (est e)) es.
Definition rec_id (es : list ent) (g : N) : bool := existsb (fun e => (eid e =? g) && is_rec (est e)) es.

(* what memberof computes when it recomputes DirectMemberOf of y: live groups listing y as member
   (exact for flat group populations; nested groups would also need the transitive MemberOf) *)
(* g is a live GROUP listing y as a member (memberof searches class=group AND member=y) *)
Definition lists (g : ent) (y : N) : bool :=
  is_live (est g) && (ekind g =? 1) && memN y (emember g).
Definition dmo (es : list ent) (y : N) : list N := map eid (filter (fun g => lists g y) es).

(* sorted duplicate-free insertion (reference sets are BTreeSets) *)
Fixpoint ins (x : N) (l : list N) : list N :=
  match l with
  | [] => [x]
  | y :: r => if x <? y then x :: l else if x =? y then l else y :: ins x r
  end.

(* ------------------------------------------------------------------ delete *)
Definition in_dels (x : N) (e : ent) : bool :=
  is_live (est e) && ((eid e =? x) || opt_is (erefers e) x).

Definition set_recycled (t : N) (dm : list N) (c : option N) (e : ent) : ent :=
  mkent (eid e) (ekind e) Rec t t (emember e) dm (erefers e) c [].

(* refint::remove_references: every reference attribute of every entry loses the deleted uuids;
   a changed entry gets LastModifiedCid = txn cid (Member, RecycledDirectMemberOf, Refers are replicated) *)
Definition rm (ds l : list N) : list N := filter (fun y => negb (memN y ds)) l.
Definition touches (ds : list N) (e : ent) : bool :=
  existsb (fun y => memN y ds) (emember e) || existsb (fun y => memN y ds) (erdmo e)
  || match erefers e with Some y => memN y ds | None => false end.
Definition strip (ds : list N) (t : N) (e : ent) : ent :=
  if touches ds e then
    mkent (eid e) (ekind e) (est e) t (erec e) (rm ds (emember e)) (rm ds (erdmo e))
          (match erefers e with Some y => if memN y ds then None else Some y | None => None end) (ecasc e)
          (rm ds (edmo e))
  else (* DirectMemberOf is not replicated: no LastModifiedCid change *)
    mkent (eid e) (ekind e) (est e) (elm e) (erec e) (emember e) (erdmo e) (erefers e) (ecasc e)
          (rm ds (edmo e)).

Definition del_upd (es : list ent) (x t : N) (ds : list N) (e : ent) : ent :=
  strip ds t (if in_dels x e
              then set_recycled t (edmo e) (if opt_is (erefers e) x then Some x else ecasc e) e
              else e).

(* memberof::post_delete: the members of every deleted GROUP (as listed before refint ran) that
   are still live get DirectMemberOf recomputed from the live groups *)
Definition set_dmo (d : list N) (e : ent) : ent :=
  mkent (eid e) (ekind e) (est e) (elm e) (erec e) (emember e) (erdmo e) (erefers e) (ecasc e) d.
Definition recompute (es : list ent) (aff : list N) (e : ent) : ent :=
  if is_live (est e) && memN (eid e) aff then set_dmo (dmo es (eid e)) e else e.

Definition do_delete (es : list ent) (x t : N) : option (list ent) :=
  if live_id es x then
    let ds := map eid (filter (in_dels x) es) in
    let aff := flat_map emember (filter (fun e => in_dels x e && (ekind e =? 1)) es) in
    let es1 := map (del_upd es x t ds) es in
    Some (map (recompute es1 aff) es1)
  else None.

(* ------------------------------------------------------------------ revive *)
Definition in_revs (x : N) (e : ent) : bool :=
  is_rec (est e) && ((eid e =? x) || opt_is (ecasc e) x).
Definition refers' (e : ent) : option N :=
  match ecasc e with Some u => Some u | None => erefers e end.
Definition set_revived (t : N) (e : ent) : ent :=
  mkent (eid e) (ekind e) Live t (erec e) (emember e) [] (refers' e) None (edmo e).
Definition rev1 (x t : N) (e : ent) : ent := if in_revs x e then set_revived t e else e.
(* revived entries whose stash names group g *)
Definition adds (es : list ent) (x g : N) : list N :=
  map eid (filter (fun r => in_revs x r && memN g (erdmo r)) es).
Definition add_members (es : list ent) (x t : N) (e : ent) : ent :=
  if is_live (est e) then
    match adds es x (eid e) with
    | [] => e
    | l => mkent (eid e) (ekind e) (est e) t (erec e) (fold_right ins (emember e) l)
                 (erdmo e) (erefers e) (ecasc e) (edmo e)
    end
  else e.

(* error codes: 1 NoMatchingEntries, 2 SchemaViolation (ClientCertificate must have Refers),
   3 Plugin(ReferentialIntegrity) (restored Refers target not live), 5 stashed group not live
   (internal_modify would not find a live group; unreachable on the runs).
   [fixed] selects the tree: true = /repo after commit 76a0ae1 ("reviving a group must restore the
   memberships of its members"), false = the tree before it (kept only for C26_prefix_refuted). *)
Definition do_revive_gen (fixed : bool) (es : list ent) (x t : N) : list ent + N :=
  if negb (rec_id es x) then inr 1
  else if negb (forallb (fun e => implb (in_revs x e && edep e) (is_some (refers' e))) es) then inr 2
  else
    let es1 := map (rev1 x t) es in
    if negb (forallb (fun e => implb (in_revs x e)
                         (match ecasc e with Some u => live_id es1 u | None => true end)) es) then inr 3
    else if negb (forallb (fun e => implb (in_revs x e) (forallb (live_id es1) (erdmo e))) es) then inr 5
    else
      let es2 := map (add_members es x t) es1 in
      (* memberof::post_modify_inner: affected = the revived entries, for each stashed group the
         group and the re-added member, and (since 76a0ae1) ALL members of a revived group: a
         group leaving the recycle bin changes their memberships although its Member set did not
         change.  Before the fix those members were not recomputed. *)
      let gmembers := if fixed
                      then flat_map emember (filter (fun e => in_revs x e && (ekind e =? 1)) es)
                      else [] in
      (* a revived PERSON's stash also names the built-in dynamic groups idm_all_persons /
         idm_all_accounts (not tracked here); re-adding it there makes dyngroup re-evaluate the
         group and memberof recompute every live person *)
      let persons := if existsb (fun e => in_revs x e && (ekind e =? 0)) es
                     then map eid (filter (fun e => ekind e =? 0) es) else [] in
      inl (map (recompute es2 (map eid (filter (in_revs x) es) ++ persons ++ gmembers)) es2).
Definition do_revive := do_revive_gen true.
Definition do_revive_prefix := do_revive_gen false.

(* ------------------------------------------------------------------ purges *)
Definition set_tomb (t : N) (e : ent) : ent :=
  mkent (eid e) (ekind e) (Tomb t) t (erec e) [] [] None None [].
Definition purge_rec_upd (R t : N) (e : ent) : ent :=
  if is_rec (est e) && (elm e <? t - R) then set_tomb t e else e.
Definition set_gone (e : ent) : ent :=
  mkent (eid e) (ekind e) Gone (elm e) (erec e) [] [] None None [].
Definition purge_tomb_upd (C t : N) (e : ent) : ent :=
  match est e with
  | Tomb a => if a <? t - C then set_gone e else e
  | _ => e
  end.

(* ------------------------------------------------------------------ one write transaction *)
Inductive op := ODelete (x : N) | ORevive (x : N) | OPurgeRec | OPurgeTomb.

(* Cid::new_lamport against the published cid_max *)
Definition eff (s : state) (t : N) : N := if now s <? t then t else now s + 1.

(* result code 0 = committed; any other code = the transaction was dropped (nothing changes);
   4 = InvalidReplChangeId from Cid::sub_secs *)
Definition step_gen (fixed : bool) (R C : N) (s : state) (o : op) (t0 : N) : state * N :=
  let t := eff s t0 in
  if t <? C then (s, 4) else
  match o with
  | ODelete x => match do_delete (ents s) x t with
                 | Some es => (mkst t es, 0)
                 | None => (s, 1)
                 end
  | ORevive x => match do_revive_gen fixed (ents s) x t with
                 | inl es => (mkst t es, 0)
                 | inr c => (s, c)
                 end
  | OPurgeRec => if t <? R then (s, 4) else (mkst t (map (purge_rec_upd R t) (ents s)), 0)
  | OPurgeTomb => (mkst t (map (purge_tomb_upd C t) (ents s)), 0)
  end.
Definition step := step_gen true.
(* the tree before 76a0ae1 — only for C26_prefix_refuted *)
Definition step_prefix := step_gen false.

Fixpoint run (R C : N) (s : state) (l : list (op * N)) : state :=
  match l with
  | [] => s
  | (o, t) :: r => run R C (fst (step R C s o t)) r
  end.
Fixpoint run_prefix (R C : N) (s : state) (l : list (op * N)) : state :=
  match l with
  | [] => s
  | (o, t) :: r => run_prefix R C (fst (step_prefix R C s o t)) r
  end.

(* ------------------------------------------------------------------ the stash of a delete *)
(* stored DirectMemberOf names every live group that lists the (live) entry as a member *)
Definition dmo_consb (es : list ent) : bool :=
  forallb (fun e => implb (is_live (est e))
     (forallb (fun g => implb (lists g (eid e)) (memN (eid g) (edmo e))) es)) es.
(* the RecycledDirectMemberOf stash of every entry recycled by pre -> post names every group that was
   live and listed it as a member, unless that group is itself no longer live afterwards *)
Fixpoint stash_walk (pre post es es' : list ent) : bool :=
  match es, es' with
  | [], [] => true
  | e :: r, e' :: r' =>
      implb (is_live (est e) && is_rec (est e'))
        (forallb (fun g => implb (lists g (eid e))
                                 (memN (eid g) (erdmo e') || negb (live_id post (eid g)))) pre)
      && stash_walk pre post r r'
  | _, _ => false
  end.
Definition stash_completeb (pre post : list ent) : bool := stash_walk pre post pre post.
(* a freshly created population: everything live, unique ids, consistent DirectMemberOf *)
Definition fresh (s : state) : bool :=
  forallb (fun e => is_live (est e)) (ents s) && nodupb (map eid (ents s)) && dmo_consb (ents s).

(* ------------------------------------------------------------------ correspondence *)
(* what the harness reads back from the real server for one tracked entry *)
Record oent := mkoent {
  oid : N; okind : N; ost : status; olm : N;
  omember : list N; ordmo : list N; orefers : option N; ocasc : option N;
  odmo : list N;
  ovis : bool;     (* internal_search(filter!(uuid))      non-empty *)
  orvis : bool;    (* internal_search(filter_rec!(uuid))  non-empty *)
  oavis : bool;    (* access-controlled search as `admin`, normal filter, non-empty; with the built-in
                      access profiles `admin` may search groups but not persons / certificates *)
  oarvis : bool }. (* access-controlled search as `admin` (recycle bin admin), recycled filter, non-empty *)

Definition abs (e : ent) : oent :=
  mkoent (eid e) (ekind e) (est e) (if is_rec (est e) then elm e else 0)
         (emember e) (erdmo e) (erefers e) (ecasc e)
         (edmo e)
         (is_live (est e)) (is_rec (est e)) (is_live (est e) && (ekind e =? 1)) (is_rec (est e)).
Definition absS (s : state) : list oent := map abs (ents s).
Definition of_obs (o : oent) : ent :=
  mkent (oid o) (okind o) (ost o) (olm o) (olm o) (omember o) (ordmo o) (orefers o) (ocasc o) (odmo o).

Inductive ostep := OStep (o : op) (t cid code : N) (post : list oent).
Inductive case := CHist (R C now0 : N) (init : list oent) (steps : list ostep).

Definition status_eqb (a b : status) : bool :=
  match a, b with
  | Live, Live | Rec, Rec | Gone, Gone => true
  | Tomb x, Tomb y => x =? y
  | _, _ => false
  end.
Fixpoint listN_eqb (a b : list N) : bool :=
  match a, b with
  | [], [] => true
  | x :: r, y :: q => (x =? y) && listN_eqb r q
  | _, _ => false
  end.
Definition optN_eqb (a b : option N) : bool :=
  match a, b with
  | None, None => true
  | Some x, Some y => x =? y
  | _, _ => false
  end.
Definition oent_eqb (a b : oent) : bool :=
  (oid a =? oid b) && (okind a =? okind b) && status_eqb (ost a) (ost b) && (olm a =? olm b)
  && listN_eqb (omember a) (omember b) && listN_eqb (ordmo a) (ordmo b)
  && optN_eqb (orefers a) (orefers b) && optN_eqb (ocasc a) (ocasc b)
  && listN_eqb (odmo a) (odmo b)
  && Bool.eqb (ovis a) (ovis b) && Bool.eqb (orvis a) (orvis b)
  && Bool.eqb (oavis a) (oavis b) && Bool.eqb (oarvis a) (oarvis b).
Fixpoint oents_eqb (a b : list oent) : bool :=
  match a, b with
  | [], [] => true
  | x :: r, y :: q => oent_eqb x y && oents_eqb r q
  | _, _ => false
  end.

(* the state invariant the bridge needs, checked on the observed initial state:
   a recycled entry was last modified no later than the published cid_max *)
Definition wfb (s : state) : bool :=
  nodupb (map eid (ents s))
  && forallb (fun e => implb (is_rec (est e)) (elm e <=? now s)) (ents s)
  && dmo_consb (ents s).

Fixpoint run_agree (R C : N) (s : state) (steps : list ostep) : bool :=
  match steps with
  | [] => true
  | OStep o t cid code post :: r =>
      let '(s', c) := step R C s o t in
      (c =? code) && (cid =? eff s t) && oents_eqb (absS s') post && run_agree R C s' r
  end.

Definition agree (c : case) : bool :=
  match c with
  | CHist R C now0 init steps =>
      let s0 := mkst now0 (map of_obs init) in
      oents_eqb (absS s0) init && wfb s0 && run_agree R C s0 steps
  end.

(* ------------------------------------------------------------------ the property on observations *)
(* Stated on the implementation's own dumps (pre/post of every transaction), the implementation's
   own transaction time [t] (the txn cid) and its own result; no model function is used. *)
Definition is_purge_rec (o : op) : bool := match o with OPurgeRec => true | _ => false end.
Definition is_purge_tomb (o : op) : bool := match o with OPurgeTomb => true | _ => false end.

(* allowed life-cycle moves of one entry across one transaction *)
Definition trans_ok (R C : N) (o : op) (t : N) (ok : bool) (a b : oent) : bool :=
  match ost a, ost b with
  | Live, Live => true
  | Live, Rec =>
      ok && (match o with ODelete x => (oid a =? x) || opt_is (orefers a) x | _ => false end)
      && (olm b =? t)
  | Rec, Rec => (olm a <=? olm b) && negb (ok && is_purge_rec o && (olm a + R <? t))
  | Rec, Live =>
      ok && (match o with ORevive x => (oid a =? x) || opt_is (ocasc a) x | _ => false end)
  | Rec, Tomb at_ => ok && is_purge_rec o && (at_ =? t) && (olm a + R <? t)
  | Tomb a1, Tomb a2 => (a1 =? a2) && negb (ok && is_purge_tomb o && (a1 + C <? t))
  | Tomb a1, Gone => ok && is_purge_tomb o && (a1 + C <? t)
  | Gone, Gone => true
  | _, _ => false
  end.

Definition olive (l : list oent) (g : N) : bool := existsb (fun e => (oid e =? g) && is_live (ost e)) l.

Definition vis_ok (b : oent) : bool :=
  Bool.eqb (ovis b) (is_live (ost b)) && Bool.eqb (orvis b) (is_rec (ost b))
  && implb (oavis b) (is_live (ost b)) && Bool.eqb (oarvis b) (is_rec (ost b)).

Definition del_ok (x : N) (post : list oent) (a b : oent) : bool :=
  implb ((oid b =? x) && is_live (ost a)) (is_rec (ost b))
  && implb (is_live (ost a) && opt_is (orefers a) x) (is_rec (ost b) && opt_is (ocasc b) x)
  && implb (is_live (ost a) && is_rec (ost b))
       (forallb (fun g => memN g (ordmo b) || negb (olive post g)) (odmo a)
        && forallb (fun g => memN g (odmo a)) (ordmo b)).

Definition rev_ok (x : N) (post : list oent) (a b : oent) : bool :=
  implb ((oid b =? x) && is_rec (ost a)) (is_live (ost b))
  && implb (is_rec (ost a) && opt_is (ocasc a) x) (is_live (ost b) && opt_is (orefers b) x)
  && implb (is_rec (ost a) && is_live (ost b))
       (forallb (fun g => forallb (fun e => implb ((oid e =? g) && is_live (ost e))
                                               (memN (oid b) (omember e))) post) (ordmo a)).

Definition entry_ok (R C : N) (o : op) (t : N) (ok : bool) (post : list oent) (a b : oent) : bool :=
  (oid a =? oid b) && vis_ok b && trans_ok R C o t ok a b
  && match o with
     | ODelete x => implb ok (del_ok x post a b)
     | ORevive x => implb ok (rev_ok x post a b)
     | _ => true
     end.

Fixpoint all2 (f : oent -> oent -> bool) (l1 l2 : list oent) : bool :=
  match l1, l2 with
  | [], [] => true
  | a :: r, b :: q => f a b && all2 f r q
  | _, _ => false
  end.

(* a committed delete had a live target that is now recycled; a committed revive had a recycled
   target that is now live *)
Definition target_ok (o : op) (ok : bool) (pre post : list oent) : bool :=
  match o with
  | ODelete x => implb ok (existsb (fun e => (oid e =? x) && is_live (ost e)) pre
                           && existsb (fun e => (oid e =? x) && is_rec (ost e)) post)
  | ORevive x => implb ok (existsb (fun e => (oid e =? x) && is_rec (ost e)) pre
                           && existsb (fun e => (oid e =? x) && is_live (ost e)) post)
  | _ => true
  end.

Fixpoint trace_ok (R C : N) (pre : list oent) (steps : list ostep) : bool :=
  match steps with
  | [] => true
  | OStep o _ cid code post :: r =>
      let ok := code =? 0 in
      all2 (entry_ok R C o cid ok post) pre post && target_ok o ok pre post && trace_ok R C post r
  end.

Definition pcore (c : case) : bool :=
  match c with
  | CHist R C _ init steps => forallb vis_ok init && trace_ok R C init steps
  end.

(* the stash taken by a delete names EVERY live group that lists the entry as a member
   (judged on the groups' own Member lists, not on the entry's stored DirectMemberOf) *)
Definition stash_strict (pre post : list oent) (a b : oent) : bool :=
  implb (is_live (ost a) && is_rec (ost b))
    (forallb (fun g => implb (is_live (ost g) && (okind g =? 1) && memN (oid a) (omember g))
                             (memN (oid g) (ordmo b) || negb (olive post (oid g)))) pre).
Fixpoint trace_strict (pre : list oent) (steps : list ostep) : bool :=
  match steps with
  | [] => true
  | OStep o _ _ code post :: r =>
      (match o with
       | ODelete _ => implb (code =? 0) (all2 (stash_strict pre post) pre post)
       | _ => true
       end) && trace_strict post r
  end.

Definition pcheck (c : case) : bool :=
  pcore c && match c with CHist _ _ _ init steps => trace_strict init steps end.

(* No known-finding class: the defect found by this check (C26_prefix_refuted) was repaired by
   commit 76a0ae1 in /repo. *)
Definition known (_ : case) : bool := false.
