(* KV.C26.Witness — non-vacuity: concrete states/histories meeting the hypotheses. *)
From Coq Require Import List NArith Bool.
Import ListNotations.
Require Import KV.C26.Model KV.C26.Proofs.
Open Scope N_scope.

(* person 0 in group 2, person 1, dependent 3 -> person 0 (also a member of group 2) *)
Definition w0 : state :=
  mkst 1000 [mkent 0 0 Live 0 0 [] [] None None [2]; mkent 1 0 Live 0 0 [] [] None None [];
             mkent 2 1 Live 0 0 [0; 3] [] None None []; mkent 3 2 Live 0 0 [] [] (Some 0) None [2]].

Example C26_witness_fresh : fresh w0 = true.
Proof. vm_compute. reflexivity. Qed.

(* delete commits (hypothesis of C26_hidden_after_delete / C26_stash_complete_partial), cascades
   to the dependent and stashes group 2 for both *)
Example C26_witness_delete :
  snd (step 100 100 w0 (ODelete 0) 2000) = 0
  /\ map est (ents (fst (step 100 100 w0 (ODelete 0) 2000))) = [Rec; Live; Live; Rec]
  /\ map erdmo (ents (fst (step 100 100 w0 (ODelete 0) 2000))) = [[2]; []; []; [2]]
  /\ map ecasc (ents (fst (step 100 100 w0 (ODelete 0) 2000))) = [None; None; None; Some 0].
Proof. vm_compute. repeat split; reflexivity. Qed.

(* revive commits (hypothesis of C26_revive_restores, conclusion of C26_revivable), the dependent
   comes back with its Refers and both are members of group 2 again *)
Definition w1 : state := fst (step 100 100 w0 (ODelete 0) 2000).
Example C26_witness_revive :
  snd (step 100 100 w1 (ORevive 0) 2050) = 0
  /\ map est (ents (fst (step 100 100 w1 (ORevive 0) 2050))) = [Live; Live; Live; Live]
  /\ map emember (ents (fst (step 100 100 w1 (ORevive 0) 2050))) = [[]; []; [0; 3]; []]
  /\ map erefers (ents (fst (step 100 100 w1 (ORevive 0) 2050))) = [None; None; None; Some 0].
Proof. vm_compute. repeat split; reflexivity. Qed.

(* the retention boundary is exact: purge at delete + R keeps the entry, at delete + R + 1 it
   becomes a tombstone; reaping at tombstone + C keeps it, at + C + 1 removes it; and a
   tombstone cannot be revived (hypothesis of C26_tombstone_not_revivable) *)
Example C26_witness_boundaries :
  map est (ents (run 100 100 w1 [(OPurgeRec, 2100)])) = [Rec; Live; Live; Rec]
  /\ map est (ents (run 100 100 w1 [(OPurgeRec, 2101)])) = [Tomb 2101; Live; Live; Tomb 2101]
  /\ map est (ents (run 100 100 w1 [(OPurgeRec, 2101); (OPurgeTomb, 2201)])) = [Tomb 2101; Live; Live; Tomb 2101]
  /\ map est (ents (run 100 100 w1 [(OPurgeRec, 2101); (OPurgeTomb, 2202)])) = [Gone; Live; Live; Gone]
  /\ rec_id (ents (run 100 100 w1 [(OPurgeRec, 2101)])) 0 = false
  /\ snd (step 100 100 (run 100 100 w1 [(OPurgeRec, 2101)]) (ORevive 0) 2150) = 1.
Proof. vm_compute. repeat split; reflexivity. Qed.

(* the time invariant holds of a state with a recycled entry (hypothesis of
   C26_retention_invariant / C26_revivable_before_retention) *)
Example C26_witness_tinv : TInv 100 100 1000 w1.
Proof.
  split; [vm_compute; discriminate|].
  repeat constructor; unfold tinv; cbn; try exact I; repeat split; vm_compute; congruence.
Qed.

(* after 76a0ae1 a revived group's members get their DirectMemberOf back (hypotheses of
   C26_full_statement / C26_dmo_complete_invariant are met by this history); before it they kept
   a stale one — the middle state of C26_prefix_refuted *)
Definition wg : state :=
  mkst 100 [mkent 0 0 Live 0 0 [] [] None None [1]; mkent 1 1 Live 0 0 [0] [] None None []].
Example C26_witness_group_revive :
  fresh wg = true
  /\ dmo_consb (ents (run 10 10 wg [(ODelete 1, 200); (ORevive 1, 300)])) = true
  /\ snd (step 10 10 (run 10 10 wg [(ODelete 1, 200); (ORevive 1, 300)]) (ODelete 0) 400) = 0
  /\ map erdmo (ents (fst (step 10 10 (run 10 10 wg [(ODelete 1, 200); (ORevive 1, 300)]) (ODelete 0) 400)))
     = [[1]; []]
  /\ dmo_consb (ents (run_prefix 10 10 wg [(ODelete 1, 200); (ORevive 1, 300)])) = false.
Proof. vm_compute. repeat split; reflexivity. Qed.

(* an agreeing observed history (hypothesis of C26_agree_implies_core) *)
Example C26_witness_agree :
  agree (CHist 100 100 1000 (absS w0)
    [OStep (ODelete 0) 2000 2000 0 (absS w1);
     OStep (ORevive 3) 2001 2001 3 (absS w1);
     OStep (ORevive 0) 1500 2001 0 (absS (fst (step 100 100 w1 (ORevive 0) 1500)))]) = true.
Proof. vm_compute. reflexivity. Qed.
