(* KV.C26.Proofs *)
From Coq Require Import List NArith Bool Lia.
Import ListNotations.
Require Import KV.C26.Model.
Open Scope N_scope.
Arguments N.add : simpl never.
Arguments N.sub : simpl never.
Arguments N.ltb : simpl never.
Arguments N.leb : simpl never.
Arguments N.eqb : simpl never.

(* ------------------------------------------------------------------ small list / bool facts *)
Lemma memN_In x l : memN x l = true <-> In x l.
Proof.
  unfold memN. rewrite existsb_exists. split.
  - intros (y & Hy & He). apply N.eqb_eq in He. subst. exact Hy.
  - intros Hi. exists x. split; [exact Hi | apply N.eqb_refl].
Qed.

Lemma memN_false x l : memN x l = false <-> ~ In x l.
Proof.
  rewrite <- memN_In. destruct (memN x l); split; intros H.
  - discriminate.
  - exfalso. apply H. reflexivity.
  - intros Hc. discriminate.
  - reflexivity.
Qed.

Lemma rm_In ds l y : In y (rm ds l) <-> In y l /\ ~ In y ds.
Proof.
  unfold rm. rewrite filter_In, negb_true_iff, memN_false. tauto.
Qed.

Lemma Forall2_map_r {A} (P : A -> A -> Prop) (F : A -> A) l :
  (forall e, In e l -> P e (F e)) -> Forall2 P l (map F l).
Proof.
  induction l as [|a l IH]; intros H; cbn; constructor.
  - apply H. left. reflexivity.
  - apply IH. intros e He. apply H. right. exact He.
Qed.

Lemma Forall2_refl_in {A} (P : A -> A -> Prop) l :
  (forall e, In e l -> P e e) -> Forall2 P l l.
Proof.
  intros H. rewrite <- (map_id l) at 2. apply Forall2_map_r. exact H.
Qed.

Lemma nodupb_NoDup l : nodupb l = true -> NoDup l.
Proof.
  induction l as [|x l IH]; cbn; intros H; constructor.
  - apply andb_true_iff in H. destruct H as [H _]. apply negb_true_iff, memN_false in H. exact H.
  - apply IH. apply andb_true_iff in H. tauto.
Qed.

Lemma nodup_unique (es : list ent) e1 e2 :
  NoDup (map eid es) -> In e1 es -> In e2 es -> eid e1 = eid e2 -> e1 = e2.
Proof.
  induction es as [|a es IH]; cbn; intros Hnd H1 H2 He; [contradiction|].
  inversion Hnd as [|? ? Hni Hnd']; subst.
  destruct H1 as [H1|H1], H2 as [H2|H2]; subst.
  - reflexivity.
  - exfalso. apply Hni. rewrite He. apply in_map. exact H2.
  - exfalso. apply Hni. rewrite <- He. apply in_map. exact H1.
  - apply IH; assumption.
Qed.

(* ------------------------------------------------------------------ field projections *)
Lemma strip_est ds t e : est (strip ds t e) = est e.
Proof. unfold strip. destruct (touches ds e); reflexivity. Qed.
Lemma strip_eid ds t e : eid (strip ds t e) = eid e.
Proof. unfold strip. destruct (touches ds e); reflexivity. Qed.
Lemma strip_ekind ds t e : ekind (strip ds t e) = ekind e.
Proof. unfold strip. destruct (touches ds e); reflexivity. Qed.
Lemma strip_erec ds t e : erec (strip ds t e) = erec e.
Proof. unfold strip. destruct (touches ds e); reflexivity. Qed.
Lemma strip_ecasc ds t e : ecasc (strip ds t e) = ecasc e.
Proof. unfold strip. destruct (touches ds e); reflexivity. Qed.
Lemma strip_elm ds t e : elm (strip ds t e) = elm e \/ elm (strip ds t e) = t.
Proof. unfold strip. destruct (touches ds e); cbn; tauto. Qed.
Lemma strip_edmo ds t e : edmo (strip ds t e) = rm ds (edmo e).
Proof. unfold strip. destruct (touches ds e); reflexivity. Qed.

Lemma existsb_false_rm ds l : existsb (fun y => memN y ds) l = false -> rm ds l = l.
Proof.
  induction l as [|y l IH]; cbn; intros H; [reflexivity|].
  apply orb_false_iff in H. destruct H as [H1 H2]. rewrite H1. cbn. f_equal. apply IH. exact H2.
Qed.

(* whichever branch [strip] takes, list attributes lose exactly the deleted ids *)
Lemma strip_erdmo ds t e : erdmo (strip ds t e) = rm ds (erdmo e).
Proof.
  unfold strip, touches. destruct (existsb _ (emember e)) eqn:E1; cbn; [reflexivity|].
  destruct (existsb _ (erdmo e)) eqn:E2; cbn; [reflexivity|].
  destruct (match erefers e with Some y => memN y ds | None => false end); cbn;
    [reflexivity | symmetry; apply existsb_false_rm; exact E2].
Qed.
Lemma strip_emember ds t e : emember (strip ds t e) = rm ds (emember e).
Proof.
  unfold strip, touches. destruct (existsb _ (emember e)) eqn:E1; cbn; [reflexivity|].
  destruct (existsb _ (erdmo e)) eqn:E2; cbn; [reflexivity|].
  destruct (match erefers e with Some y => memN y ds | None => false end); cbn;
    [reflexivity | symmetry; apply existsb_false_rm; exact E1].
Qed.

Lemma recompute_est es aff e : est (recompute es aff e) = est e.
Proof. unfold recompute. destruct (_ && _); reflexivity. Qed.
Lemma recompute_eid es aff e : eid (recompute es aff e) = eid e.
Proof. unfold recompute. destruct (_ && _); reflexivity. Qed.
Lemma recompute_ekind es aff e : ekind (recompute es aff e) = ekind e.
Proof. unfold recompute. destruct (_ && _); reflexivity. Qed.
Lemma recompute_elm es aff e : elm (recompute es aff e) = elm e.
Proof. unfold recompute. destruct (_ && _); reflexivity. Qed.
Lemma recompute_erec es aff e : erec (recompute es aff e) = erec e.
Proof. unfold recompute. destruct (_ && _); reflexivity. Qed.
Lemma recompute_emember es aff e : emember (recompute es aff e) = emember e.
Proof. unfold recompute. destruct (_ && _); reflexivity. Qed.
Lemma recompute_erdmo es aff e : erdmo (recompute es aff e) = erdmo e.
Proof. unfold recompute. destruct (_ && _); reflexivity. Qed.
Lemma recompute_erefers es aff e : erefers (recompute es aff e) = erefers e.
Proof. unfold recompute. destruct (_ && _); reflexivity. Qed.
Lemma recompute_ecasc es aff e : ecasc (recompute es aff e) = ecasc e.
Proof. unfold recompute. destruct (_ && _); reflexivity. Qed.

Lemma add_members_est es x t e : est (add_members es x t e) = est e.
Proof. unfold add_members. destruct (is_live (est e)); [destruct (adds es x (eid e))|]; reflexivity. Qed.
Lemma add_members_eid es x t e : eid (add_members es x t e) = eid e.
Proof. unfold add_members. destruct (is_live (est e)); [destruct (adds es x (eid e))|]; reflexivity. Qed.
Lemma add_members_ekind es x t e : ekind (add_members es x t e) = ekind e.
Proof. unfold add_members. destruct (is_live (est e)); [destruct (adds es x (eid e))|]; reflexivity. Qed.
Lemma add_members_erec es x t e : erec (add_members es x t e) = erec e.
Proof. unfold add_members. destruct (is_live (est e)); [destruct (adds es x (eid e))|]; reflexivity. Qed.
Lemma add_members_erdmo es x t e : erdmo (add_members es x t e) = erdmo e.
Proof. unfold add_members. destruct (is_live (est e)); [destruct (adds es x (eid e))|]; reflexivity. Qed.
Lemma add_members_erefers es x t e : erefers (add_members es x t e) = erefers e.
Proof. unfold add_members. destruct (is_live (est e)); [destruct (adds es x (eid e))|]; reflexivity. Qed.
Lemma add_members_ecasc es x t e : ecasc (add_members es x t e) = ecasc e.
Proof. unfold add_members. destruct (is_live (est e)); [destruct (adds es x (eid e))|]; reflexivity. Qed.
Lemma add_members_edmo es x t e : edmo (add_members es x t e) = edmo e.
Proof. unfold add_members. destruct (is_live (est e)); [destruct (adds es x (eid e))|]; reflexivity. Qed.
Lemma add_members_elm es x t e :
  elm (add_members es x t e) = elm e \/ (elm (add_members es x t e) = t /\ est e = Live).
Proof.
  unfold add_members. destruct (est e) eqn:Es; cbn; try tauto.
  destruct (adds es x (eid e)); cbn; tauto.
Qed.

(* ------------------------------------------------------------------ the per-entry function of a committed step *)
Definition delF (es : list ent) (x t : N) : ent -> ent :=
  let ds := map eid (filter (in_dels x) es) in
  let aff := flat_map emember (filter (fun e => in_dels x e && (ekind e =? 1)) es) in
  let es1 := map (del_upd es x t ds) es in
  fun e => recompute es1 aff (del_upd es x t ds e).

Definition revF (es : list ent) (x t : N) : ent -> ent :=
  let es1 := map (rev1 x t) es in
  let es2 := map (add_members es x t) es1 in
  let persons := if existsb (fun e => in_revs x e && (ekind e =? 0)) es
                 then map eid (filter (fun e => ekind e =? 0) es) else [] in
  let gmembers := flat_map emember (filter (fun e => in_revs x e && (ekind e =? 1)) es) in
  fun e => recompute es2 (map eid (filter (in_revs x) es) ++ persons ++ gmembers)
             (add_members es x t (rev1 x t e)).

Lemma do_delete_eq es x t es' :
  do_delete es x t = Some es' -> live_id es x = true /\ es' = map (delF es x t) es.
Proof.
  unfold do_delete. destruct (live_id es x); [|discriminate].
  intros H. inversion H. split; [reflexivity|]. unfold delF. rewrite map_map. reflexivity.
Qed.

Lemma do_revive_eq es x t es' :
  do_revive es x t = inl es' -> rec_id es x = true /\ es' = map (revF es x t) es.
Proof.
  unfold do_revive, do_revive_gen. destruct (rec_id es x); cbn; [|discriminate].
  destruct (forallb _ es); cbn; [|discriminate].
  destruct (forallb _ es); cbn; [|discriminate].
  destruct (forallb _ es); cbn; [|discriminate].
  intros H. inversion H. split; [reflexivity|]. unfold revF. rewrite !map_map. reflexivity.
Qed.

Lemma do_revive_err es x t c : do_revive es x t = inr c -> c <> 0.
Proof.
  unfold do_revive, do_revive_gen. destruct (rec_id es x); cbn; [|intros H; inversion H; discriminate].
  destruct (forallb _ es); cbn; [|intros H; inversion H; discriminate].
  destruct (forallb _ es); cbn; [|intros H; inversion H; discriminate].
  destruct (forallb _ es); cbn; [|intros H; inversion H; discriminate].
  discriminate.
Qed.

(* what a committed step looks like *)
Inductive committed (R C : N) (s : state) (t : N) : op -> (ent -> ent) -> Prop :=
| CDel x : live_id (ents s) x = true -> committed R C s t (ODelete x) (delF (ents s) x t)
| CRev x : do_revive (ents s) x t = inl (map (revF (ents s) x t) (ents s)) ->
           committed R C s t (ORevive x) (revF (ents s) x t)
| CPR : R <= t -> committed R C s t OPurgeRec (purge_rec_upd R t)
| CPT : committed R C s t OPurgeTomb (purge_tomb_upd C t).

Lemma step_cases R C s o t0 :
  let t := eff s t0 in
  (snd (step R C s o t0) <> 0 /\ fst (step R C s o t0) = s)
  \/ (snd (step R C s o t0) = 0 /\ C <= t /\ exists F, committed R C s t o F
      /\ fst (step R C s o t0) = mkst t (map F (ents s))).
Proof.
  cbn zeta. unfold step, step_gen. fold do_revive. destruct (N.ltb_spec (eff s t0) C) as [Hc|Hc].
  - left. cbn. split; [discriminate | reflexivity].
  - destruct o as [x|x| |].
    + destruct (do_delete (ents s) x (eff s t0)) as [es'|] eqn:E.
      * apply do_delete_eq in E. destruct E as [Hl ->]. right. cbn.
        split; [reflexivity|]. split; [exact Hc|]. eexists. split; [constructor; exact Hl | reflexivity].
      * left. cbn. split; [discriminate | reflexivity].
    + destruct (do_revive (ents s) x (eff s t0)) as [es'|c] eqn:E.
      * pose proof (do_revive_eq _ _ _ _ E) as [Hl Heq]. subst es'. right. cbn.
        split; [reflexivity|]. split; [exact Hc|]. eexists. split; [constructor; exact E | reflexivity].
      * left. cbn. split; [eapply do_revive_err; exact E | reflexivity].
    + destruct (N.ltb_spec (eff s t0) R) as [Hr|Hr].
      * left. cbn. split; [discriminate | reflexivity].
      * right. cbn. split; [reflexivity|]. split; [exact Hc|].
        eexists. split; [constructor; exact Hr | reflexivity].
    + right. cbn. split; [reflexivity|]. split; [exact Hc|].
      eexists. split; [constructor | reflexivity].
Qed.

Lemma eff_gt s t0 : now s < eff s t0.
Proof. unfold eff. destruct (N.ltb_spec (now s) t0); lia. Qed.

(* ------------------------------------------------------------------ per-entry facts about F *)
Lemma delF_in es x t e : in_dels x e = true ->
  est (delF es x t e) = Rec /\ elm (delF es x t e) = t /\ erec (delF es x t e) = t
  /\ (opt_is (erefers e) x = true -> ecasc (delF es x t e) = Some x).
Proof.
  intros Hd. unfold delF, del_upd. rewrite Hd.
  rewrite recompute_est, recompute_elm, recompute_erec, recompute_ecasc.
  rewrite strip_est, strip_erec, strip_ecasc. cbn.
  repeat split.
  - destruct (strip_elm (map eid (filter (in_dels x) es)) t
      (set_recycled t (edmo e) (if opt_is (erefers e) x then Some x else ecasc e) e)) as [H|H];
      rewrite H; reflexivity.
  - intros ->. reflexivity.
Qed.

Lemma delF_out es x t e : in_dels x e = false ->
  est (delF es x t e) = est e /\ erec (delF es x t e) = erec e
  /\ (elm (delF es x t e) = elm e \/ elm (delF es x t e) = t)
  /\ ecasc (delF es x t e) = ecasc e.
Proof.
  intros Hd. unfold delF, del_upd. rewrite Hd.
  rewrite recompute_est, recompute_elm, recompute_erec, recompute_ecasc.
  rewrite strip_est, strip_erec, strip_ecasc. repeat split. apply strip_elm.
Qed.

Lemma delF_eid es x t e : eid (delF es x t e) = eid e.
Proof.
  unfold delF, del_upd. rewrite recompute_eid, strip_eid. destruct (in_dels x e); reflexivity.
Qed.
Lemma delF_ekind es x t e : ekind (delF es x t e) = ekind e.
Proof.
  unfold delF, del_upd. rewrite recompute_ekind, strip_ekind. destruct (in_dels x e); reflexivity.
Qed.

Lemma revF_in es x t e : in_revs x e = true ->
  est (revF es x t e) = Live /\ erefers (revF es x t e) = refers' e /\ ecasc (revF es x t e) = None.
Proof.
  intros Hr. unfold revF, rev1. rewrite Hr.
  rewrite recompute_est, recompute_erefers, recompute_ecasc,
    add_members_est, add_members_erefers, add_members_ecasc. cbn. tauto.
Qed.

Lemma revF_out es x t e : in_revs x e = false ->
  est (revF es x t e) = est e /\ erec (revF es x t e) = erec e
  /\ (elm (revF es x t e) = elm e \/ (elm (revF es x t e) = t /\ est e = Live))
  /\ erdmo (revF es x t e) = erdmo e /\ ecasc (revF es x t e) = ecasc e
  /\ erefers (revF es x t e) = erefers e.
Proof.
  intros Hr. unfold revF, rev1. rewrite Hr.
  rewrite recompute_est, recompute_erec, recompute_elm, recompute_erdmo, recompute_ecasc,
    recompute_erefers, add_members_est, add_members_erec, add_members_erdmo, add_members_ecasc,
    add_members_erefers.
  repeat split. apply add_members_elm.
Qed.

Lemma revF_eid es x t e : eid (revF es x t e) = eid e.
Proof.
  unfold revF, rev1. rewrite recompute_eid, add_members_eid. destruct (in_revs x e); reflexivity.
Qed.
Lemma revF_ekind es x t e : ekind (revF es x t e) = ekind e.
Proof.
  unfold revF, rev1. rewrite recompute_ekind, add_members_ekind. destruct (in_revs x e); reflexivity.
Qed.

Lemma in_dels_live x e : in_dels x e = true -> est e = Live.
Proof. unfold in_dels. destruct (est e); cbn; try discriminate. reflexivity. Qed.
Lemma in_revs_rec x e : in_revs x e = true -> est e = Rec.
Proof. unfold in_revs. destruct (est e); cbn; try discriminate. reflexivity. Qed.

Lemma committed_eid R C s t o F e : committed R C s t o F -> eid (F e) = eid e.
Proof.
  intros H. destruct H.
  - apply delF_eid.
  - apply revF_eid.
  - unfold purge_rec_upd. destruct (_ && _); reflexivity.
  - unfold purge_tomb_upd. destruct (est e); try reflexivity. destruct (_ <? _); reflexivity.
Qed.

(* ------------------------------------------------------------------ A. the time invariant *)
(* [erec] is the history variable "time of the delete that recycled this entry". *)
Definition tinv (R C t0 nw : N) (e : ent) : Prop :=
  match est e with
  | Live => True
  | Rec => t0 < erec e /\ erec e <= elm e /\ elm e <= nw
  | Tomb a => t0 < erec e /\ erec e + R < a /\ a <= nw
  | Gone => t0 < erec e /\ erec e + R + C < nw
  end.
Definition TInv (R C t0 : N) (s : state) : Prop :=
  t0 <= now s /\ Forall (tinv R C t0 (now s)) (ents s).

Lemma tinv_mono R C t0 nw nw' e : nw <= nw' -> tinv R C t0 nw e -> tinv R C t0 nw' e.
Proof. unfold tinv. destruct (est e); intros; try tauto; lia. Qed.

Lemma tinv_step R C t0 s t o F e :
  t0 <= now s -> now s < t -> C <= t -> committed R C s t o F ->
  tinv R C t0 (now s) e -> tinv R C t0 t (F e).
Proof.
  intros H0 Ht Hc Hcom Hi. destruct Hcom as [x Hl|x Hr|Hr|].
  - destruct (in_dels x e) eqn:Hd.
    + destruct (delF_in (ents s) x t e Hd) as (Hs & Hm & Hre & _).
      unfold tinv. rewrite Hs, Hm, Hre. lia.
    + destruct (delF_out (ents s) x t e Hd) as (Hs & Hre & Hm & _).
      unfold tinv in *. rewrite Hs, Hre. destruct (est e); try tauto; try lia.
      all: try (destruct Hm as [-> | ->]; lia).
  - destruct (in_revs x e) eqn:Hd.
    + destruct (revF_in (ents s) x t e Hd) as (Hs & _). unfold tinv. rewrite Hs. exact I.
    + destruct (revF_out (ents s) x t e Hd) as (Hs & Hre & Hm & _).
      unfold tinv in *. rewrite Hs, Hre. destruct (est e) eqn:Es; try tauto; try lia.
      all: try (destruct Hm as [-> | [_ Hl]]; [lia | discriminate]).
  - unfold purge_rec_upd. destruct (est e) eqn:Es; cbn.
    + unfold tinv. rewrite Es. exact I.
    + destruct (N.ltb_spec (elm e) (t - R)) as [Hlt|Hge]; cbn.
      * unfold tinv in *. rewrite Es in Hi. cbn. lia.
      * unfold tinv in *. rewrite Es in *. lia.
    + unfold tinv in *. rewrite Es in *. lia.
    + unfold tinv in *. rewrite Es in *. lia.
  - unfold purge_tomb_upd. destruct (est e) eqn:Es.
    + unfold tinv. rewrite Es. exact I.
    + unfold tinv in *. rewrite Es in *. lia.
    + destruct (N.ltb_spec a (t - C)) as [Hlt|Hge].
      * unfold tinv in *. rewrite Es in Hi. cbn. lia.
      * unfold tinv in *. rewrite Es in *. lia.
    + unfold tinv in *. rewrite Es in *. lia.
Qed.

Lemma step_TInv R C t0 s o t :
  TInv R C t0 s -> TInv R C t0 (fst (step R C s o t)).
Proof.
  intros [H0 Hf]. destruct (step_cases R C s o t) as [[_ ->]|(_ & Hc & F & Hcom & ->)].
  - split; assumption.
  - pose proof (eff_gt s t) as Hgt. split; cbn [now ents]; [lia|].
    rewrite Forall_forall in *. intros e' Hin. apply in_map_iff in Hin.
    destruct Hin as (e & <- & Hin). eapply tinv_step; eauto.
Qed.

Lemma run_TInv R C t0 ops : forall s, TInv R C t0 s -> TInv R C t0 (run R C s ops).
Proof.
  induction ops as [|[o t] r IH]; intros s H; cbn [run]; [exact H|].
  apply IH. apply step_TInv. exact H.
Qed.

Lemma all_live_TInv R C s :
  (forall e, In e (ents s) -> est e = Live) -> TInv R C (now s) s.
Proof.
  intros H. split; [lia|]. rewrite Forall_forall. intros e He. unfold tinv. rewrite (H e He). exact I.
Qed.

Lemma now_mono_step R C s o t : now s <= now (fst (step R C s o t)).
Proof.
  destruct (step_cases R C s o t) as [[_ ->]|(_ & _ & F & _ & ->)]; [lia|].
  pose proof (eff_gt s t). cbn. lia.
Qed.

(* ------------------------------------------------------------------ B. tombstones are final *)
Lemma committed_tomb R C s t o F e a :
  committed R C s t o F -> est e = Tomb a ->
  est (F e) = Tomb a \/ (est (F e) = Gone /\ o = OPurgeTomb /\ a + C < t \/ False).
Proof.
  intros Hcom Es. destruct Hcom as [x Hl|x Hr|Hr|].
  - assert (Hd : in_dels x e = false) by (unfold in_dels; rewrite Es; reflexivity).
    destruct (delF_out (ents s) x t e Hd) as (Hs & _). left. congruence.
  - assert (Hd : in_revs x e = false) by (unfold in_revs; rewrite Es; reflexivity).
    destruct (revF_out (ents s) x t e Hd) as (Hs & _). left. congruence.
  - unfold purge_rec_upd. rewrite Es. cbn. left. exact Es.
  - unfold purge_tomb_upd. rewrite Es. destruct (N.ltb_spec a (t - C)) as [Hlt|Hge].
    + right. left. cbn. repeat split. lia.
    + left. exact Es.
Qed.

Lemma committed_gone R C s t o F e :
  committed R C s t o F -> est e = Gone -> est (F e) = Gone.
Proof.
  intros Hcom Es. destruct Hcom as [x Hl|x Hr|Hr|].
  - assert (Hd : in_dels x e = false) by (unfold in_dels; rewrite Es; reflexivity).
    destruct (delF_out (ents s) x t e Hd) as (Hs & _). congruence.
  - assert (Hd : in_revs x e = false) by (unfold in_revs; rewrite Es; reflexivity).
    destruct (revF_out (ents s) x t e Hd) as (Hs & _). congruence.
  - unfold purge_rec_upd. rewrite Es. cbn. exact Es.
  - unfold purge_tomb_upd. rewrite Es. exact Es.
Qed.

(* a step seen entry by entry *)
Lemma step_Forall2 R C s o t0 (P : ent -> ent -> Prop) :
  (forall e, In e (ents s) -> P e e) ->
  (forall F e, C <= eff s t0 -> committed R C s (eff s t0) o F -> In e (ents s) -> P e (F e)) ->
  Forall2 P (ents s) (ents (fst (step R C s o t0))).
Proof.
  intros Hsame Hstep. destruct (step_cases R C s o t0) as [[_ ->]|(_ & Hc & F & Hcom & ->)].
  - apply Forall2_refl_in. exact Hsame.
  - cbn [ents]. apply Forall2_map_r. intros e He. apply Hstep; assumption.
Qed.

Lemma revive_needs_recycled R C s x t0 :
  rec_id (ents s) x = false -> step R C s (ORevive x) t0 = (s, if eff s t0 <? C then 4 else 1).
Proof.
  intros H. unfold step, step_gen. destruct (eff s t0 <? C); [reflexivity|].
  unfold do_revive_gen. rewrite H. reflexivity.
Qed.

(* ------------------------------------------------------------------ C/D. delete and revive, entry by entry *)
Lemma delF_erdmo_in es x t e : in_dels x e = true ->
  erdmo (delF es x t e) = rm (map eid (filter (in_dels x) es)) (edmo e).
Proof.
  intros Hd. unfold delF, del_upd. rewrite Hd, recompute_erdmo, strip_erdmo. reflexivity.
Qed.

Lemma in_ds_iff es x g :
  In g (map eid (filter (in_dels x) es)) <-> exists e, In e es /\ in_dels x e = true /\ eid e = g.
Proof.
  rewrite in_map_iff. split.
  - intros (e & He & Hin). apply filter_In in Hin. destruct Hin. exists e. tauto.
  - intros (e & Hin & Hd & He). exists e. split; [exact He|]. apply filter_In. tauto.
Qed.

(* the ids recycled by a delete are not live afterwards *)
Lemma ds_dead es x t g e :
  NoDup (map eid es) -> In g (map eid (filter (in_dels x) es)) ->
  In e es -> eid e = g -> est (delF es x t e) = Rec.
Proof.
  intros Hnd Hg Hin He. apply in_ds_iff in Hg. destruct Hg as (e0 & Hin0 & Hd0 & He0).
  assert (e = e0) by (eapply nodup_unique; eauto; congruence). subst e0.
  apply (delF_in es x t e Hd0).
Qed.

Lemma ins_mem y x l : memN y (ins x l) = (y =? x) || memN y l.
Proof.
  unfold memN. induction l as [|z l IH]; cbn.
  - reflexivity.
  - destruct (x <? z); cbn; [reflexivity|].
    destruct (N.eqb_spec x z) as [->|Hne]; cbn.
    + destruct (y =? z); reflexivity.
    + rewrite IH. destruct (y =? x), (y =? z); reflexivity.
Qed.

Lemma fold_ins_mem y m l : memN y (fold_right ins m l) = memN y l || memN y m.
Proof.
  induction l as [|z l IH]; cbn [fold_right]; [reflexivity|].
  rewrite ins_mem, IH. unfold memN. cbn. destruct (y =? z); reflexivity.
Qed.

Lemma revF_member es x t e eg :
  In e es -> in_revs x e = true -> In (eid eg) (erdmo e) -> est (revF es x t eg) = Live ->
  memN (eid e) (emember (revF es x t eg)) = true.
Proof.
  intros Hin Hr Hg Hl. unfold revF in *. rewrite recompute_emember. rewrite recompute_est, add_members_est in Hl.
  unfold add_members. rewrite Hl. cbn [is_live].
  assert (Ha : In (eid e) (adds es x (eid (rev1 x t eg)))).
  { unfold adds. apply in_map. apply filter_In. split; [exact Hin|]. rewrite Hr. cbn.
    apply memN_In. replace (eid (rev1 x t eg)) with (eid eg); [exact Hg|].
    unfold rev1. destruct (in_revs x eg); reflexivity. }
  destruct (adds es x (eid (rev1 x t eg))) as [|z l] eqn:E; [contradiction|].
  cbn [emember]. rewrite fold_ins_mem. apply memN_In in Ha. rewrite Ha. reflexivity.
Qed.

Lemma live_id_iff es g : live_id es g = true <-> exists e, In e es /\ eid e = g /\ est e = Live.
Proof.
  unfold live_id. rewrite existsb_exists. split.
  - intros (e & Hin & H). apply andb_true_iff in H. destruct H as [H1 H2]. apply N.eqb_eq in H1.
    exists e. repeat split; try assumption. destruct (est e); cbn in H2; try discriminate. reflexivity.
  - intros (e & Hin & He & Hs). exists e. split; [exact Hin|]. rewrite Hs, He, N.eqb_refl. reflexivity.
Qed.

Lemma rec_id_iff es g : rec_id es g = true <-> exists e, In e es /\ eid e = g /\ est e = Rec.
Proof.
  unfold rec_id. rewrite existsb_exists. split.
  - intros (e & Hin & H). apply andb_true_iff in H. destruct H as [H1 H2]. apply N.eqb_eq in H1.
    exists e. repeat split; try assumption. destruct (est e); cbn in H2; try discriminate. reflexivity.
  - intros (e & Hin & He & Hs). exists e. split; [exact Hin|]. rewrite Hs, He, N.eqb_refl. reflexivity.
Qed.

(* ------------------------------------------------------------------ E. the bridge agree -> pcore *)
Lemma status_eqb_eq a b : status_eqb a b = true -> a = b.
Proof. destruct a, b; cbn; try discriminate; try reflexivity. intros H. apply N.eqb_eq in H. congruence. Qed.
Lemma listN_eqb_eq a : forall b, listN_eqb a b = true -> a = b.
Proof.
  induction a as [|x a IH]; destruct b as [|y b]; cbn; try discriminate; try reflexivity.
  intros H. apply andb_true_iff in H. destruct H as [H1 H2]. apply N.eqb_eq in H1. f_equal; auto.
Qed.
Lemma optN_eqb_eq a b : optN_eqb a b = true -> a = b.
Proof. destruct a, b; cbn; try discriminate; try reflexivity. intros H. apply N.eqb_eq in H. congruence. Qed.

Lemma oent_eqb_eq a b : oent_eqb a b = true -> a = b.
Proof.
  unfold oent_eqb. rewrite !andb_true_iff.
  intros ((((((((((((H1 & H2) & H3) & H4) & H5) & H6) & H7) & H8) & H9) & H10) & H11) & H12) & H13).
  destruct a, b; cbn in *.
  apply N.eqb_eq in H1, H2, H4. apply status_eqb_eq in H3.
  apply listN_eqb_eq in H5, H6, H9. apply optN_eqb_eq in H7, H8.
  apply Bool.eqb_prop in H10, H11, H12, H13. congruence.
Qed.

Lemma oents_eqb_eq a : forall b, oents_eqb a b = true -> a = b.
Proof.
  induction a as [|x a IH]; destruct b as [|y b]; cbn; try discriminate; try reflexivity.
  intros H. apply andb_true_iff in H. destruct H as [H1 H2]. apply oent_eqb_eq in H1. f_equal; auto.
Qed.

Lemma vis_ok_abs e : vis_ok (abs e) = true.
Proof.
  unfold vis_ok, abs. cbn. destruct (est e); cbn; try reflexivity. destruct (ekind e =? 1); reflexivity.
Qed.

Lemma all2_map (f : oent -> oent -> bool) (F : ent -> ent) l :
  (forall e, In e l -> f (abs e) (abs (F e)) = true) -> all2 f (map abs l) (map abs (map F l)) = true.
Proof.
  induction l as [|a l IH]; intros H; cbn; [reflexivity|].
  rewrite H by (left; reflexivity). cbn. apply IH. intros e He. apply H. right. exact He.
Qed.

Lemma all2_same (f : oent -> oent -> bool) l :
  (forall e, In e l -> f (abs e) (abs e) = true) -> all2 f (map abs l) (map abs l) = true.
Proof.
  intros H. rewrite <- (map_id l) at 2. apply all2_map. exact H.
Qed.

Definition winv (s : state) : Prop :=
  NoDup (map eid (ents s)) /\ forall e, In e (ents s) -> est e = Rec -> elm e <= now s.

Lemma wfb_winv s : wfb s = true -> winv s.
Proof.
  unfold wfb, winv. rewrite !andb_true_iff, forallb_forall. intros [[H1 H2] _]. split.
  - apply nodupb_NoDup. exact H1.
  - intros e He Hs. specialize (H2 e He). rewrite Hs in H2. cbn in H2. apply N.leb_le. exact H2.
Qed.

Lemma trans_ok_same R C o t e : trans_ok R C o t false (abs e) (abs e) = true.
Proof.
  unfold trans_ok, abs. cbn. destruct (est e); cbn; try reflexivity.
  - rewrite N.leb_refl. reflexivity.
  - rewrite N.eqb_refl. reflexivity.
Qed.

Lemma trans_ok_committed R C s t o F e :
  committed R C s t o F -> In e (ents s) -> (est e = Rec -> elm e <= now s) ->
  now s < t -> C <= t -> trans_ok R C o t true (abs e) (abs (F e)) = true.
Proof.
  intros Hcom Hin Hw Ht Hc. destruct Hcom as [x Hl|x Hr|Hr|].
  - destruct (in_dels x e) eqn:Hd.
    + destruct (delF_in (ents s) x t e Hd) as (Hs & Hm & _). pose proof (in_dels_live _ _ Hd) as Hle.
      unfold trans_ok, abs. cbn. rewrite Hs, Hle. cbn. rewrite Hm, N.eqb_refl.
      unfold in_dels in Hd. rewrite Hle in Hd. cbn in Hd. rewrite Hd. reflexivity.
    + destruct (delF_out (ents s) x t e Hd) as (Hs & _ & Hm & _).
      unfold trans_ok, abs. cbn. rewrite Hs. destruct (est e) eqn:Es; cbn; try reflexivity.
      * rewrite andb_true_r. apply N.leb_le. specialize (Hw eq_refl). destruct Hm as [-> | ->]; lia.
      * rewrite N.eqb_refl. reflexivity.
  - destruct (in_revs x e) eqn:Hd.
    + destruct (revF_in (ents s) x t e Hd) as (Hs & _). pose proof (in_revs_rec _ _ Hd) as Hre.
      unfold trans_ok, abs. cbn. rewrite Hs, Hre. cbn.
      unfold in_revs in Hd. rewrite Hre in Hd. cbn in Hd. exact Hd.
    + destruct (revF_out (ents s) x t e Hd) as (Hs & _ & Hm & _).
      unfold trans_ok, abs. cbn. rewrite Hs. destruct (est e) eqn:Es; cbn; try reflexivity.
      * rewrite andb_true_r. apply N.leb_le. destruct Hm as [-> | [_ Hx]]; [lia | discriminate].
      * rewrite N.eqb_refl. reflexivity.
  - unfold purge_rec_upd. destruct (est e) eqn:Es; cbn.
    + unfold trans_ok, abs. cbn. rewrite Es. reflexivity.
    + destruct (N.ltb_spec (elm e) (t - R)) as [Hlt|Hge]; cbn.
      * unfold trans_ok, abs. cbn. rewrite Es. cbn. rewrite N.eqb_refl. cbn. apply N.ltb_lt. lia.
      * unfold trans_ok, abs. cbn. rewrite Es. cbn. rewrite N.leb_refl. cbn.
        apply negb_true_iff. apply N.ltb_ge. lia.
    + unfold trans_ok, abs. cbn. rewrite Es. cbn. rewrite N.eqb_refl. reflexivity.
    + unfold trans_ok, abs. cbn. rewrite Es. reflexivity.
  - unfold purge_tomb_upd. destruct (est e) eqn:Es.
    + unfold trans_ok, abs. cbn. rewrite Es. reflexivity.
    + unfold trans_ok, abs. cbn. rewrite Es. cbn. rewrite N.leb_refl. reflexivity.
    + destruct (N.ltb_spec a (t - C)) as [Hlt|Hge].
      * unfold trans_ok, abs. cbn. rewrite Es. cbn. apply N.ltb_lt. lia.
      * unfold trans_ok, abs. cbn. rewrite Es. cbn. rewrite N.eqb_refl. cbn.
        apply negb_true_iff. apply N.ltb_ge. lia.
    + unfold trans_ok, abs. cbn. rewrite Es. reflexivity.
Qed.

Lemma olive_abs l g : olive (map abs l) g = live_id l g.
Proof.
  unfold olive, live_id. induction l as [|a l IH]; cbn; [reflexivity|]. rewrite IH. reflexivity.
Qed.
Lemma orec_abs l g :
  existsb (fun e => (oid e =? g) && is_rec (ost e)) (map abs l) = rec_id l g.
Proof.
  unfold rec_id. induction l as [|a l IH]; cbn; [reflexivity|]. rewrite IH. reflexivity.
Qed.
Lemma olive_abs' l g :
  existsb (fun e => (oid e =? g) && is_live (ost e)) (map abs l) = live_id l g.
Proof. apply olive_abs. Qed.

Lemma is_live_eq s : is_live s = true <-> s = Live.
Proof. destruct s; cbn; split; intros; try discriminate; reflexivity. Qed.
Lemma is_rec_eq s : is_rec s = true <-> s = Rec.
Proof. destruct s; cbn; split; intros; try discriminate; reflexivity. Qed.

Lemma del_ok_model es x t e :
  NoDup (map eid es) -> In e es ->
  del_ok x (map abs (map (delF es x t) es)) (abs e) (abs (delF es x t e)) = true.
Proof.
  intros Hnd Hin. unfold del_ok. cbn [oid ost orefers ocasc ordmo odmo abs].
  rewrite delF_eid. rewrite !andb_true_iff. repeat split.
  - destruct ((eid e =? x) && is_live (est e)) eqn:E; [|reflexivity]. cbn.
    apply andb_true_iff in E. destruct E as [E1 E2].
    assert (Hd : in_dels x e = true) by (unfold in_dels; rewrite E1, E2; reflexivity).
    destruct (delF_in es x t e Hd) as (Hs & _). rewrite Hs. reflexivity.
  - destruct (is_live (est e) && opt_is (erefers e) x) eqn:E; [|reflexivity]. cbn.
    apply andb_true_iff in E. destruct E as [E1 E2].
    assert (Hd : in_dels x e = true) by (unfold in_dels; rewrite E1, E2; apply orb_true_r).
    destruct (delF_in es x t e Hd) as (Hs & _ & _ & Hc). rewrite Hs, (Hc E2). cbn. apply N.eqb_refl.
  - destruct (is_live (est e) && is_rec (est (delF es x t e))) eqn:E; [|reflexivity]. cbn.
    apply andb_true_iff in E. destruct E as [E1 E2].
    assert (Hd : in_dels x e = true).
    { destruct (in_dels x e) eqn:Hd; [reflexivity|]. destruct (delF_out es x t e Hd) as (Hs & _).
      rewrite Hs in E2. apply is_live_eq in E1. rewrite E1 in E2. discriminate. }
    rewrite (delF_erdmo_in es x t e Hd). apply andb_true_iff. split.
    + apply forallb_forall. intros g Hg. rewrite olive_abs.
      destruct (memN g (map eid (filter (in_dels x) es))) eqn:Em.
      * apply memN_In in Em. apply orb_true_iff. right. apply negb_true_iff.
        destruct (live_id (map (delF es x t) es) g) eqn:El; [|reflexivity].
        apply live_id_iff in El. destruct El as (e' & Hin' & He' & Hs').
        apply in_map_iff in Hin'. destruct Hin' as (e1 & <- & Hin1).
        rewrite delF_eid in He'. rewrite (ds_dead es x t g e1 Hnd Em Hin1 He') in Hs'. discriminate.
      * apply memN_false in Em. apply orb_true_iff. left. apply memN_In. apply rm_In. tauto.
    + apply forallb_forall. intros g Hg. apply memN_In. apply rm_In in Hg. tauto.
Qed.

Lemma rev_ok_model es x t e :
  In e es ->
  rev_ok x (map abs (map (revF es x t) es)) (abs e) (abs (revF es x t e)) = true.
Proof.
  intros Hin. unfold rev_ok. cbn [oid ost orefers ocasc ordmo omember abs].
  rewrite revF_eid. rewrite !andb_true_iff. repeat split.
  - destruct ((eid e =? x) && is_rec (est e)) eqn:E; [|reflexivity]. cbn.
    apply andb_true_iff in E. destruct E as [E1 E2].
    assert (Hd : in_revs x e = true) by (unfold in_revs; rewrite E1, E2; reflexivity).
    destruct (revF_in es x t e Hd) as (Hs & _). rewrite Hs. reflexivity.
  - destruct (is_rec (est e) && opt_is (ecasc e) x) eqn:E; [|reflexivity]. cbn.
    apply andb_true_iff in E. destruct E as [E1 E2].
    assert (Hd : in_revs x e = true) by (unfold in_revs; rewrite E1, E2; apply orb_true_r).
    destruct (revF_in es x t e Hd) as (Hs & Hr & _). rewrite Hs, Hr. cbn.
    unfold refers'. destruct (ecasc e); [exact E2 | discriminate].
  - destruct (is_rec (est e) && is_live (est (revF es x t e))) eqn:E; [|reflexivity]. cbn.
    apply andb_true_iff in E. destruct E as [E1 E2].
    assert (Hd : in_revs x e = true).
    { destruct (in_revs x e) eqn:Hd; [reflexivity|]. destruct (revF_out es x t e Hd) as (Hs & _).
      rewrite Hs in E2. apply is_rec_eq in E1. rewrite E1 in E2. discriminate. }
    apply forallb_forall. intros g Hg. apply forallb_forall. intros b Hb.
    apply in_map_iff in Hb. destruct Hb as (e' & <- & Hb).
    apply in_map_iff in Hb. destruct Hb as (eg & <- & Hing).
    cbn [oid ost omember abs]. rewrite revF_eid.
    destruct ((eid eg =? g) && is_live (est (revF es x t eg))) eqn:E; [|reflexivity]. cbn.
    apply andb_true_iff in E. destruct E as [E3 E4]. apply N.eqb_eq in E3. apply is_live_eq in E4.
    apply revF_member; try assumption. rewrite E3. exact Hg.
Qed.

Lemma target_ok_model R C s t o F :
  committed R C s t o F ->
  target_ok o true (absS s) (map abs (map F (ents s))) = true.
Proof.
  intros Hcom. destruct Hcom as [x Hl|x Hr|Hr|]; cbn [target_ok implb]; try reflexivity.
  - unfold absS. rewrite olive_abs', orec_abs, Hl. cbn.
    apply live_id_iff in Hl. destruct Hl as (e & Hin & He & Hs).
    apply rec_id_iff. exists (delF (ents s) x t e). split; [apply in_map; exact Hin|].
    rewrite delF_eid. split; [exact He|].
    assert (Hd : in_dels x e = true) by (unfold in_dels; rewrite Hs, He, N.eqb_refl; reflexivity).
    apply (delF_in (ents s) x t e Hd).
  - pose proof (do_revive_eq _ _ _ _ Hr) as [Hl _].
    unfold absS. rewrite olive_abs', orec_abs, Hl. cbn.
    apply rec_id_iff in Hl. destruct Hl as (e & Hin & He & Hs).
    apply live_id_iff. exists (revF (ents s) x t e). split; [apply in_map; exact Hin|].
    rewrite revF_eid. split; [exact He|].
    assert (Hd : in_revs x e = true) by (unfold in_revs; rewrite Hs, He, N.eqb_refl; reflexivity).
    apply (revF_in (ents s) x t e Hd).
Qed.

Lemma entry_ok_same R C o t post e : entry_ok R C o t false post (abs e) (abs e) = true.
Proof.
  unfold entry_ok. rewrite N.eqb_refl, vis_ok_abs, trans_ok_same. cbn. destruct o; reflexivity.
Qed.

Lemma entry_ok_committed R C s t o F e :
  winv s -> committed R C s t o F -> In e (ents s) -> now s < t -> C <= t ->
  entry_ok R C o t true (map abs (map F (ents s))) (abs e) (abs (F e)) = true.
Proof.
  intros [Hnd Hw] Hcom Hin Ht Hc. unfold entry_ok.
  rewrite vis_ok_abs. rewrite (trans_ok_committed R C s t o F e Hcom Hin (Hw e Hin) Ht Hc).
  cbn [oid abs]. rewrite (committed_eid R C s t o F e Hcom), N.eqb_refl. cbn.
  destruct Hcom as [x Hl|x Hr|Hr|]; cbn [implb]; try reflexivity.
  - apply del_ok_model; assumption.
  - apply rev_ok_model; assumption.
Qed.

Lemma winv_step R C s o t : winv s -> winv (fst (step R C s o t)).
Proof.
  intros [Hnd Hw]. destruct (step_cases R C s o t) as [[_ ->]|(_ & Hc & F & Hcom & ->)].
  - split; assumption.
  - pose proof (eff_gt s t) as Hgt. split; cbn [now ents].
    + rewrite map_map. erewrite map_ext; [exact Hnd|]. intros e. apply (committed_eid _ _ _ _ _ _ _ Hcom).
    + intros e' Hin Hs. apply in_map_iff in Hin. destruct Hin as (e & <- & Hin).
      specialize (Hw e Hin). destruct Hcom as [x Hl|x Hr|Hr|].
      * destruct (in_dels x e) eqn:Hd.
        -- destruct (delF_in (ents s) x (eff s t) e Hd) as (_ & Hm & _). lia.
        -- destruct (delF_out (ents s) x (eff s t) e Hd) as (Hs' & _ & Hm & _).
           rewrite Hs' in Hs. specialize (Hw Hs). destruct Hm as [-> | ->]; lia.
      * destruct (in_revs x e) eqn:Hd.
        -- destruct (revF_in (ents s) x (eff s t) e Hd) as (Hs' & _). congruence.
        -- destruct (revF_out (ents s) x (eff s t) e Hd) as (Hs' & _ & Hm & _).
           rewrite Hs' in Hs. specialize (Hw Hs). destruct Hm as [-> | [-> _]]; lia.
      * unfold purge_rec_upd in *. destruct (is_rec (est e) && (elm e <? eff s t - R)); cbn in *.
        -- discriminate.
        -- specialize (Hw Hs). lia.
      * assert (Hx : purge_tomb_upd C (eff s t) e = e \/ est (purge_tomb_upd C (eff s t) e) = Gone).
        { unfold purge_tomb_upd. destruct (est e); auto. destruct (_ <? _); auto. }
        destruct Hx as [Hx|Hx]; [rewrite Hx in *; specialize (Hw Hs); lia | congruence].
Qed.

Lemma run_agree_trace R C : forall steps s,
  winv s -> run_agree R C s steps = true -> trace_ok R C (absS s) steps = true.
Proof.
  induction steps as [|[o t cid code post] r IH]; intros s Hw H; [reflexivity|].
  cbn [run_agree trace_ok] in *.
  pose proof (winv_step R C s o t Hw) as Hw'.
  pose proof (step_cases R C s o t) as Hcase.
  destruct (step R C s o t) as [s' c] eqn:Est. cbn [fst snd] in *.
  rewrite !andb_true_iff in H. destruct H as (((Hc & Hcid) & Hpost) & Hr).
  apply N.eqb_eq in Hc, Hcid. apply oents_eqb_eq in Hpost. subst code cid post.
  rewrite !andb_true_iff. split; [split|].
  - destruct Hcase as [[Hne ->]|(Hz & Hcc & F & Hcom & ->)].
    + assert (Hf : (c =? 0) = false) by (apply N.eqb_neq; exact Hne). rewrite Hf.
      unfold absS. apply all2_same. intros e He. apply entry_ok_same.
    + rewrite Hz. cbn [N.eqb]. unfold absS. cbn [ents]. apply all2_map. intros e He.
      apply (entry_ok_committed R C s (eff s t) o F e Hw Hcom He (eff_gt s t) Hcc).
  - destruct Hcase as [[Hne ->]|(Hz & Hcc & F & Hcom & ->)].
    + assert (Hf : (c =? 0) = false) by (apply N.eqb_neq; exact Hne). rewrite Hf.
      destruct o; reflexivity.
    + rewrite Hz. change (0 =? 0) with true. unfold absS at 2. cbn [ents].
      apply (target_ok_model R C s (eff s t) o F Hcom).
  - apply IH; assumption.
Qed.

Lemma abs_of_obs_init init : oents_eqb (map abs (map of_obs init)) init = true ->
  map abs (map of_obs init) = init.
Proof. apply oents_eqb_eq. Qed.

Lemma agree_pcore c : agree c = true -> pcore c = true.
Proof.
  destruct c as [R C now0 init steps]. unfold agree, pcore.
  rewrite !andb_true_iff. intros ((Hinit & Hwf) & Hrun).
  apply oents_eqb_eq in Hinit. unfold absS in Hinit. cbn [ents] in Hinit.
  split.
  - rewrite <- Hinit. apply forallb_forall. intros b Hb. apply in_map_iff in Hb.
    destruct Hb as (e & <- & _). apply vis_ok_abs.
  - pose proof (run_agree_trace R C steps _ (wfb_winv _ Hwf) Hrun) as H.
    unfold absS in H. cbn [ents] in H. rewrite Hinit in H. exact H.
Qed.

(* ------------------------------------------------------------------ F. when a revive commits *)
Lemma live_id_rev1 es x t g : live_id es g = true -> live_id (map (rev1 x t) es) g = true.
Proof.
  rewrite !live_id_iff. intros (e & Hin & He & Hs). exists (rev1 x t e).
  split; [apply in_map; exact Hin|]. unfold rev1. destruct (in_revs x e) eqn:Hr.
  - apply in_revs_rec in Hr. congruence.
  - tauto.
Qed.

Lemma rec_id_rev1 es x t : rec_id es x = true -> live_id (map (rev1 x t) es) x = true.
Proof.
  rewrite rec_id_iff, live_id_iff. intros (e & Hin & He & Hs). exists (rev1 x t e).
  split; [apply in_map; exact Hin|]. unfold rev1.
  assert (Hr : in_revs x e = true) by (unfold in_revs; rewrite Hs, He, N.eqb_refl; reflexivity).
  rewrite Hr. cbn. tauto.
Qed.

Lemma revive_commits R C s x t0 :
  C <= eff s t0 -> rec_id (ents s) x = true ->
  (forall e, In e (ents s) -> in_revs x e = true ->
     (edep e = true -> refers' e <> None)
     /\ (forall u, ecasc e = Some u -> u = x \/ live_id (ents s) u = true)
     /\ (forall g, In g (erdmo e) -> live_id (ents s) g = true)) ->
  snd (step R C s (ORevive x) t0) = 0.
Proof.
  intros Hc Hrec H. unfold step, step_gen. destruct (N.ltb_spec (eff s t0) C) as [Hlt|_]; [lia|].
  unfold do_revive_gen. rewrite Hrec. cbn [negb].
  assert (H1 : forallb (fun e => implb (in_revs x e && edep e) (is_some (refers' e))) (ents s) = true).
  { apply forallb_forall. intros e Hin. destruct (in_revs x e) eqn:Hr; [|reflexivity].
    destruct (edep e) eqn:Hd; [|reflexivity]. cbn.
    destruct (H e Hin Hr) as (Ha & _). specialize (Ha Hd). destruct (refers' e); [reflexivity | contradiction]. }
  rewrite H1. cbn [negb].
  assert (H2 : forallb (fun e => implb (in_revs x e)
            (match ecasc e with Some u => live_id (map (rev1 x (eff s t0)) (ents s)) u | None => true end))
            (ents s) = true).
  { apply forallb_forall. intros e Hin. destruct (in_revs x e) eqn:Hr; [|reflexivity]. cbn.
    destruct (ecasc e) as [u|] eqn:Ec; [|reflexivity].
    destruct (H e Hin Hr) as (_ & Hb & _). destruct (Hb u Ec) as [-> | Hl].
    - apply rec_id_rev1. exact Hrec.
    - apply live_id_rev1. exact Hl. }
  rewrite H2. cbn [negb].
  assert (H3 : forallb (fun e => implb (in_revs x e)
            (forallb (live_id (map (rev1 x (eff s t0)) (ents s))) (erdmo e))) (ents s) = true).
  { apply forallb_forall. intros e Hin. destruct (in_revs x e) eqn:Hr; [|reflexivity]. cbn.
    apply forallb_forall. intros g Hg. apply live_id_rev1.
    destruct (H e Hin Hr) as (_ & _ & Hcg). apply Hcg. exact Hg. }
  rewrite H3. reflexivity.
Qed.

(* ------------------------------------------------------------------ G. the stash taken by a delete *)
Lemma stash_walk_map es x t (Hnd : NoDup (map eid es)) (Hc : dmo_consb es = true) :
  forall l, incl l es ->
  stash_walk es (map (delF es x t) es) l (map (delF es x t) l) = true.
Proof.
  induction l as [|e l IH]; intros Hi; cbn [stash_walk map]; [reflexivity|].
  apply andb_true_iff. split; [|apply IH; intros y Hy; apply Hi; right; exact Hy].
  assert (Hin : In e es) by (apply Hi; left; reflexivity).
  destruct (is_live (est e) && is_rec (est (delF es x t e))) eqn:E; [|reflexivity]. cbn [implb].
  apply andb_true_iff in E. destruct E as [E1 E2].
  assert (Hd : in_dels x e = true).
  { destruct (in_dels x e) eqn:Hd; [reflexivity|]. destruct (delF_out es x t e Hd) as (Hs & _).
    rewrite Hs in E2. apply is_live_eq in E1. rewrite E1 in E2. discriminate. }
  rewrite (delF_erdmo_in es x t e Hd).
  apply forallb_forall. intros g Hg.
  destruct (lists g (eid e)) eqn:Eg; [|reflexivity]. cbn [implb].
  unfold dmo_consb in Hc. rewrite forallb_forall in Hc. specialize (Hc e Hin). rewrite E1 in Hc.
  cbn [implb] in Hc. rewrite forallb_forall in Hc. specialize (Hc g Hg). rewrite Eg in Hc. cbn [implb] in Hc.
  apply memN_In in Hc.
  destruct (memN (eid g) (map eid (filter (in_dels x) es))) eqn:Em.
  - apply memN_In in Em. apply orb_true_iff. right. apply negb_true_iff.
    destruct (live_id (map (delF es x t) es) (eid g)) eqn:El; [|reflexivity].
    apply live_id_iff in El. destruct El as (e' & Hin' & He' & Hs').
    apply in_map_iff in Hin'. destruct Hin' as (e1 & <- & Hin1).
    rewrite delF_eid in He'. rewrite (ds_dead es x t (eid g) e1 Hnd Em Hin1 He') in Hs'. discriminate.
  - apply memN_false in Em. apply orb_true_iff. left. apply memN_In. apply rm_In. tauto.
Qed.

Lemma stash_complete_delete R C s x t0 :
  NoDup (map eid (ents s)) -> dmo_consb (ents s) = true ->
  snd (step R C s (ODelete x) t0) = 0 ->
  stash_completeb (ents s) (ents (fst (step R C s (ODelete x) t0))) = true.
Proof.
  intros Hnd Hc Hok. unfold step, step_gen in *. destruct (eff s t0 <? C); [discriminate|].
  destruct (do_delete (ents s) x (eff s t0)) as [es'|] eqn:E; [|discriminate].
  apply do_delete_eq in E. destruct E as [_ ->]. cbn [fst ents].
  unfold stash_completeb. apply stash_walk_map; try assumption. apply incl_refl.
Qed.

(* ------------------------------------------------------------------ statements used by Props *)
Lemma committed_of_ok R C s o t0 :
  snd (step R C s o t0) = 0 ->
  C <= eff s t0 /\ exists F, committed R C s (eff s t0) o F
     /\ fst (step R C s o t0) = mkst (eff s t0) (map F (ents s)).
Proof.
  intros H. destruct (step_cases R C s o t0) as [[Hne _]|(_ & Hc & F & Hcom & Heq)]; [contradiction|].
  split; [exact Hc|]. exists F. tauto.
Qed.

Lemma hidden_after_delete R C s x t0 :
  NoDup (map eid (ents s)) -> snd (step R C s (ODelete x) t0) = 0 ->
  let s' := fst (step R C s (ODelete x) t0) in
  live_id (ents s') x = false /\ rec_id (ents s') x = true
  /\ Forall2 (fun e e' => eid e' = eid e
        /\ (est e = Live -> erefers e = Some x -> est e' = Rec /\ ecasc e' = Some x)
        /\ (est e = Live \/ est e' = est e))
       (ents s) (ents s').
Proof.
  intros Hnd Hok. cbn zeta. destruct (committed_of_ok _ _ _ _ _ Hok) as (Hc & F & Hcom & ->).
  cbn [ents]. inversion Hcom as [x' Hl| | |]; subst. split; [|split].
  - destruct (live_id (map (delF (ents s) x (eff s t0)) (ents s)) x) eqn:El; [|reflexivity].
    apply live_id_iff in El. destruct El as (e' & Hin' & He' & Hs').
    apply in_map_iff in Hin'. destruct Hin' as (e1 & <- & Hin1). rewrite delF_eid in He'.
    assert (Hds : In x (map eid (filter (in_dels x) (ents s)))).
    { apply live_id_iff in Hl. destruct Hl as (e0 & Hin0 & He0 & Hs0). apply in_ds_iff. exists e0.
      repeat split; try assumption. unfold in_dels. rewrite Hs0, He0, N.eqb_refl. reflexivity. }
    rewrite (ds_dead _ _ _ _ _ Hnd Hds Hin1 He') in Hs'. discriminate.
  - pose proof (target_ok_model R C s (eff s t0) _ _ Hcom) as Ht. cbn [target_ok implb] in Ht.
    apply andb_true_iff in Ht. destruct Ht as [_ Ht]. rewrite orec_abs in Ht. exact Ht.
  - apply Forall2_map_r. intros e Hin. split; [apply delF_eid|]. split.
    + intros Hs Hr. assert (Hd : in_dels x e = true).
      { unfold in_dels. rewrite Hs, Hr. cbn. rewrite N.eqb_refl. apply orb_true_r. }
      destruct (delF_in (ents s) x (eff s t0) e Hd) as (H1 & _ & _ & H4). split; [exact H1|].
      apply H4. rewrite Hr. cbn. apply N.eqb_refl.
    + destruct (in_dels x e) eqn:Hd.
      * left. eapply in_dels_live. exact Hd.
      * right. apply (delF_out (ents s) x (eff s t0) e Hd).
Qed.

Lemma live_id_revF es x t g :
  live_id (map (rev1 x t) es) g = true -> live_id (map (revF es x t) es) g = true.
Proof.
  rewrite !live_id_iff. intros (e' & Hin & He & Hs). apply in_map_iff in Hin.
  destruct Hin as (e & <- & Hin). exists (revF es x t e). split; [apply in_map; exact Hin|].
  rewrite revF_eid. split.
  - rewrite <- He. unfold rev1. destruct (in_revs x e); reflexivity.
  - unfold revF. rewrite recompute_est, add_members_est. exact Hs.
Qed.

Lemma revive_restores R C s x t0 :
  snd (step R C s (ORevive x) t0) = 0 ->
  let s' := fst (step R C s (ORevive x) t0) in
  rec_id (ents s) x = true /\ live_id (ents s') x = true
  /\ Forall2 (fun e e' => eid e' = eid e
        /\ (est e = Rec -> eid e = x \/ ecasc e = Some x ->
              est e' = Live
              /\ (ecasc e = Some x -> erefers e' = Some x)
              /\ forall g, In g (erdmo e) ->
                   live_id (ents s') g = true
                   /\ forall eg', In eg' (ents s') -> eid eg' = g -> est eg' = Live ->
                        In (eid e) (emember eg'))
        /\ (est e = Rec \/ est e' = est e))
       (ents s) (ents s').
Proof.
  intros Hok. cbn zeta. destruct (committed_of_ok _ _ _ _ _ Hok) as (Hc & F & Hcom & ->).
  cbn [ents]. inversion Hcom as [|x' Hr| |]; subst.
  pose proof (do_revive_eq _ _ _ _ Hr) as [Hrec _].
  split; [exact Hrec|]. split.
  - apply live_id_revF. apply rec_id_rev1. exact Hrec.
  - apply Forall2_map_r. intros e Hin. split; [apply revF_eid|]. split.
    + intros Hs Hx. assert (Hd : in_revs x e = true).
      { unfold in_revs. rewrite Hs. cbn. destruct Hx as [-> | ->]; cbn; rewrite N.eqb_refl;
          [reflexivity | apply orb_true_r]. }
      destruct (revF_in (ents s) x (eff s t0) e Hd) as (H1 & H2 & _). split; [exact H1|]. split.
      * intros Hcx. rewrite H2. unfold refers'. rewrite Hcx. reflexivity.
      * intros g Hg. split.
        -- (* the model only commits when every stashed group is live *)
           unfold do_revive, do_revive_gen in Hr. rewrite Hrec in Hr. cbn [negb] in Hr.
           destruct (forallb _ (ents s)) in Hr; cbn [negb] in Hr; [|discriminate].
           destruct (forallb _ (ents s)) in Hr; cbn [negb] in Hr; [|discriminate].
           destruct (forallb (fun e0 => implb (in_revs x e0)
                       (forallb (live_id (map (rev1 x (eff s t0)) (ents s))) (erdmo e0))) (ents s)) eqn:E3;
             cbn [negb] in Hr; [|discriminate].
           rewrite forallb_forall in E3. specialize (E3 e Hin). rewrite Hd in E3. cbn [implb] in E3.
           rewrite forallb_forall in E3. apply live_id_revF. apply E3. exact Hg.
        -- intros eg' Hin' He' Hs'. apply in_map_iff in Hin'. destruct Hin' as (eg & <- & Hing).
           rewrite revF_eid in He'. apply memN_In. rewrite <- (revF_eid (ents s) x (eff s t0) e) at 1.
           rewrite revF_eid. apply revF_member; try assumption. rewrite He'. exact Hg.
    + destruct (in_revs x e) eqn:Hd.
      * left. eapply in_revs_rec. exact Hd.
      * right. apply (revF_out (ents s) x (eff s t0) e Hd).
Qed.

Lemma tomb_final R C s o t0 :
  Forall2 (fun e e' =>
     (forall a, est e = Tomb a ->
        est e' = Tomb a \/ (est e' = Gone /\ o = OPurgeTomb /\ a + C < eff s t0))
     /\ (est e = Gone -> est e' = Gone))
    (ents s) (ents (fst (step R C s o t0))).
Proof.
  apply step_Forall2.
  - intros e _. split; [intros a Ha; left; exact Ha | tauto].
  - intros F e Hc Hcom _. split.
    + intros a Ha. destruct (committed_tomb R C s _ o F e a Hcom Ha) as [H|[H|[]]]; tauto.
    + apply (committed_gone R C s _ o F e Hcom).
Qed.

Lemma not_purged_early R C t0 s t e :
  TInv R C t0 s -> In e (ents s) -> est e = Rec -> t <= erec e + R ->
  purge_rec_upd R t e = e.
Proof.
  intros [_ Hf] Hin Hs Ht. rewrite Forall_forall in Hf. specialize (Hf e Hin).
  unfold tinv in Hf. rewrite Hs in Hf. unfold purge_rec_upd. rewrite Hs. cbn.
  destruct (N.ltb_spec (elm e) (t - R)); [lia | reflexivity].
Qed.

Lemma from_all_live R C s0 ops :
  (forall e, In e (ents s0) -> est e = Live) ->
  forall e, In e (ents (run R C s0 ops)) ->
    (forall a, est e = Tomb a -> now s0 + R < a /\ a <= now (run R C s0 ops))
    /\ (est e = Gone -> now s0 + R + C < now (run R C s0 ops)).
Proof.
  intros Hl e Hin. pose proof (run_TInv R C (now s0) ops s0 (all_live_TInv R C s0 Hl)) as [_ Hf].
  rewrite Forall_forall in Hf. specialize (Hf e Hin). unfold tinv in Hf. split.
  - intros a Ha. rewrite Ha in Hf. lia.
  - intros Hg. rewrite Hg in Hf. lia.
Qed.

(* ------------------------------------------------------------------ H. stored DirectMemberOf stays complete
   (tree after 76a0ae1) and therefore every delete takes a complete stash *)
Definition dcons (es : list ent) : Prop :=
  forall e g, In e es -> In g es -> est e = Live -> lists g (eid e) = true -> In (eid g) (edmo e).

Lemma dmo_consb_dcons es : dmo_consb es = true <-> dcons es.
Proof.
  unfold dmo_consb, dcons. rewrite forallb_forall. split.
  - intros H e g He Hg Hs Hl. specialize (H e He). rewrite Hs in H. cbn [is_live implb] in H.
    rewrite forallb_forall in H. specialize (H g Hg). rewrite Hl in H. cbn [implb] in H.
    apply memN_In. exact H.
  - intros H e He. destruct (est e) eqn:Es; cbn [is_live implb]; try reflexivity.
    apply forallb_forall. intros g Hg. destruct (lists g (eid e)) eqn:Hl; cbn [implb]; [|reflexivity].
    apply memN_In. apply H; assumption.
Qed.

Lemma lists_iff g y : lists g y = true <-> est g = Live /\ ekind g = 1 /\ In y (emember g).
Proof.
  unfold lists. rewrite !andb_true_iff, is_live_eq, N.eqb_eq, memN_In. tauto.
Qed.

Lemma dmo_In es y g : In g es -> lists g y = true -> In (eid g) (dmo es y).
Proof. intros Hin Hl. unfold dmo. apply in_map. apply filter_In. tauto. Qed.

Lemma emember_add es x t e0 y :
  In y (emember (add_members es x t e0)) -> In y (emember e0) \/ In y (adds es x (eid e0)).
Proof.
  unfold add_members. destruct (is_live (est e0)); [|tauto].
  destruct (adds es x (eid e0)) as [|z l] eqn:E; [tauto|]. cbn [emember]. intros H.
  apply memN_In in H. rewrite fold_ins_mem in H. apply orb_true_iff in H.
  destruct H as [H|H]; apply memN_In in H; tauto.
Qed.

Lemma emember_add_mono es x t e0 y :
  In y (emember e0) -> In y (emember (add_members es x t e0)).
Proof.
  unfold add_members. destruct (is_live (est e0)); [|tauto].
  destruct (adds es x (eid e0)) as [|z l] eqn:E; [tauto|]. cbn [emember]. intros H.
  apply memN_In. rewrite fold_ins_mem. apply memN_In in H. rewrite H. apply orb_true_r.
Qed.

Lemma adds_in es x g y : In y (adds es x g) -> exists r, In r es /\ in_revs x r = true /\ eid r = y.
Proof.
  unfold adds. intros H. apply in_map_iff in H. destruct H as (r & He & Hin).
  apply filter_In in Hin. destruct Hin as [Hin Hc]. apply andb_true_iff in Hc. exists r. tauto.
Qed.

Lemma purge_rec_live R t e : est (purge_rec_upd R t e) = Live -> purge_rec_upd R t e = e.
Proof. unfold purge_rec_upd. destruct (_ && _); cbn; [discriminate | reflexivity]. Qed.
Lemma purge_tomb_live C t e : est (purge_tomb_upd C t e) = Live -> purge_tomb_upd C t e = e.
Proof.
  unfold purge_tomb_upd. destruct (est e) eqn:Es; try reflexivity.
  destruct (_ <? _); cbn; [discriminate | reflexivity].
Qed.

Lemma dcons_delete es x t :
  NoDup (map eid es) -> dcons es -> dcons (map (delF es x t) es).
Proof.
  intros Hnd Hc e' g' He' Hg' Hs Hl.
  apply in_map_iff in He'. destruct He' as (e & <- & He).
  apply in_map_iff in Hg'. destruct Hg' as (g & <- & Hg).
  rewrite delF_eid in *. apply lists_iff in Hl. destruct Hl as (Hgs & Hgk & Hgm).
  assert (Hde : in_dels x e = false).
  { destruct (in_dels x e) eqn:E; [|reflexivity]. destruct (delF_in es x t e E) as (H1 & _). congruence. }
  assert (Hdg : in_dels x g = false).
  { destruct (in_dels x g) eqn:E; [|reflexivity]. destruct (delF_in es x t g E) as (H1 & _). congruence. }
  destruct (delF_out es x t e Hde) as (Hse & _). destruct (delF_out es x t g Hdg) as (Hsg & _).
  rewrite Hse in Hs. rewrite Hsg in Hgs. rewrite delF_ekind in Hgk.
  set (ds := map eid (filter (in_dels x) es)) in *.
  assert (Hm : emember (delF es x t g) = rm ds (emember g)).
  { unfold delF, del_upd. rewrite Hdg, recompute_emember, strip_emember. reflexivity. }
  rewrite Hm in Hgm. apply rm_In in Hgm. destruct Hgm as [Hgm Hnds].
  assert (Hold : In (eid g) (edmo e)).
  { apply Hc; try assumption. apply lists_iff. tauto. }
  assert (Hgnd : ~ In (eid g) ds).
  { intros Hin. pose proof (ds_dead es x t (eid g) g Hnd Hin Hg eq_refl) as Hr. congruence. }
  unfold delF, del_upd. rewrite Hde. fold ds. unfold recompute.
  destruct (is_live (est (strip ds t e)) && memN (eid (strip ds t e)) _) eqn:Ec.
  - cbn [set_dmo edmo]. rewrite strip_eid.
    replace (eid g) with (eid (del_upd es x t ds g)).
    + apply dmo_In; [apply in_map; exact Hg|]. apply lists_iff. unfold del_upd. rewrite Hdg.
      rewrite strip_est, strip_ekind, strip_emember. repeat split; try assumption. apply rm_In. tauto.
    + unfold del_upd. rewrite Hdg. apply strip_eid.
  - rewrite strip_edmo. apply rm_In. tauto.
Qed.

Lemma dcons_revive es x t :
  NoDup (map eid es) -> dcons es -> dcons (map (revF es x t) es).
Proof.
  intros Hnd Hc e' g' He' Hg' Hs Hl.
  apply in_map_iff in He'. destruct He' as (e & <- & He).
  apply in_map_iff in Hg'. destruct Hg' as (g & <- & Hg).
  rewrite revF_eid in *. apply lists_iff in Hl. destruct Hl as (Hgs & Hgk & Hgm).
  rewrite revF_ekind in Hgk.
  set (es2 := map (add_members es x t) (map (rev1 x t) es)).
  set (g2 := add_members es x t (rev1 x t g)).
  set (e2 := add_members es x t (rev1 x t e)).
  assert (Hg2s : est g2 = Live) by (unfold revF in Hgs; rewrite recompute_est in Hgs; exact Hgs).
  assert (Hg2m : In (eid e) (emember g2)) by (unfold revF in Hgm; rewrite recompute_emember in Hgm; exact Hgm).
  assert (Hg2id : eid g2 = eid g).
  { unfold g2. rewrite add_members_eid. unfold rev1. destruct (in_revs x g); reflexivity. }
  assert (Hg2k : ekind g2 = 1).
  { unfold g2. rewrite add_members_ekind. unfold rev1. destruct (in_revs x g); exact Hgk. }
  assert (Hnew : In (eid g) (dmo es2 (eid e))).
  { rewrite <- Hg2id. apply dmo_In.
    - unfold es2, g2. apply in_map. apply in_map. exact Hg.
    - apply lists_iff. tauto. }
  assert (He2s : est e2 = Live) by (unfold revF in Hs; rewrite recompute_est in Hs; exact Hs).
  assert (He2id : eid e2 = eid e).
  { unfold e2. rewrite add_members_eid. unfold rev1. destruct (in_revs x e); reflexivity. }
  unfold revF. fold es2 e2. unfold recompute. rewrite He2s, He2id. cbn [is_live andb].
  match goal with |- In _ (edmo (if memN (eid e) ?A then _ else _)) => set (aff := A) end.
  destruct (memN (eid e) aff) eqn:Ea; [cbn [set_dmo edmo]; exact Hnew|].
  apply memN_false in Ea.
  assert (Hre : in_revs x e = false).
  { destruct (in_revs x e) eqn:E; [|reflexivity]. exfalso. apply Ea. unfold aff.
    apply in_or_app. left. apply in_map. apply filter_In. tauto. }
  assert (Hnadds : forall q, ~ In (eid e) (adds es x q)).
  { intros q Hq. apply adds_in in Hq. destruct Hq as (r & Hr & Hrr & Hid).
    assert (r = e) by (eapply nodup_unique; eauto). subst r. congruence. }
  assert (Hgm0 : In (eid e) (emember g)).
  { unfold g2 in Hg2m. apply emember_add in Hg2m. destruct Hg2m as [H|H]; [|exfalso; eapply Hnadds; exact H].
    unfold rev1 in H. destruct (in_revs x g); exact H. }
  assert (Hrg : in_revs x g = false).
  { destruct (in_revs x g) eqn:E; [|reflexivity]. exfalso. apply Ea. unfold aff.
    apply in_or_app. right. apply in_or_app. right. apply in_flat_map. exists g. split; [|exact Hgm0].
    apply filter_In. split; [exact Hg|]. rewrite E. cbn. apply N.eqb_eq. exact Hgk. }
  assert (Hgs0 : est g = Live).
  { unfold g2, rev1 in Hg2s. rewrite Hrg, add_members_est in Hg2s. exact Hg2s. }
  assert (Hes0 : est e = Live).
  { unfold e2, rev1 in He2s. rewrite Hre, add_members_est in He2s. exact He2s. }
  unfold e2, rev1. rewrite Hre, add_members_edmo. apply Hc; try assumption. apply lists_iff. tauto.
Qed.

Lemma dcons_committed R C s t o F :
  NoDup (map eid (ents s)) -> dcons (ents s) -> committed R C s t o F -> dcons (map F (ents s)).
Proof.
  intros Hnd Hc Hcom. destruct Hcom as [x Hl|x Hr|Hr|].
  - apply dcons_delete; assumption.
  - apply dcons_revive; assumption.
  - intros e' g' He' Hg' Hs Hl.
    apply in_map_iff in He'. destruct He' as (e & <- & He).
    apply in_map_iff in Hg'. destruct Hg' as (g & <- & Hg).
    pose proof (purge_rec_live R t e Hs) as Ee.
    assert (Hgs : est (purge_rec_upd R t g) = Live) by (apply lists_iff in Hl; tauto).
    pose proof (purge_rec_live R t g Hgs) as Eg. rewrite Ee, Eg in *. apply Hc; assumption.
  - intros e' g' He' Hg' Hs Hl.
    apply in_map_iff in He'. destruct He' as (e & <- & He).
    apply in_map_iff in Hg'. destruct Hg' as (g & <- & Hg).
    pose proof (purge_tomb_live C t e Hs) as Ee.
    assert (Hgs : est (purge_tomb_upd C t g) = Live) by (apply lists_iff in Hl; tauto).
    pose proof (purge_tomb_live C t g Hgs) as Eg. rewrite Ee, Eg in *. apply Hc; assumption.
Qed.

Definition sinv (s : state) : Prop := NoDup (map eid (ents s)) /\ dcons (ents s).

Lemma sinv_step R C s o t : sinv s -> sinv (fst (step R C s o t)).
Proof.
  intros [Hnd Hc]. destruct (step_cases R C s o t) as [[_ ->]|(_ & _ & F & Hcom & ->)].
  - split; assumption.
  - split; cbn [ents].
    + rewrite map_map. erewrite map_ext; [exact Hnd|]. intros e. apply (committed_eid _ _ _ _ _ _ _ Hcom).
    + eapply dcons_committed; eassumption.
Qed.

Lemma sinv_run R C ops : forall s, sinv s -> sinv (run R C s ops).
Proof.
  induction ops as [|[o t] r IH]; intros s H; cbn [run]; [exact H|]. apply IH. apply sinv_step. exact H.
Qed.

Lemma fresh_sinv s : fresh s = true -> sinv s.
Proof.
  unfold fresh. rewrite !andb_true_iff. intros [[_ H1] H2]. split.
  - apply nodupb_NoDup. exact H1.
  - apply dmo_consb_dcons. exact H2.
Qed.

Lemma full_statement R C s0 ops x t0 :
  fresh s0 = true ->
  snd (step R C (run R C s0 ops) (ODelete x) t0) = 0 ->
  stash_completeb (ents (run R C s0 ops))
                  (ents (fst (step R C (run R C s0 ops) (ODelete x) t0))) = true.
Proof.
  intros Hf Hok. destruct (sinv_run R C ops s0 (fresh_sinv s0 Hf)) as [Hnd Hc].
  apply stash_complete_delete; try assumption. apply dmo_consb_dcons. exact Hc.
Qed.

(* ---- the strict stash clause of pcheck follows from agreement as well *)
Lemma stash_strict_model es x t e :
  NoDup (map eid es) -> dcons es -> In e es ->
  stash_strict (map abs es) (map abs (map (delF es x t) es)) (abs e) (abs (delF es x t e)) = true.
Proof.
  intros Hnd Hc Hin. unfold stash_strict. cbn [ost oid ordmo abs].
  destruct (is_live (est e) && is_rec (est (delF es x t e))) eqn:E; [|reflexivity]. cbn [implb].
  apply andb_true_iff in E. destruct E as [E1 E2].
  assert (Hd : in_dels x e = true).
  { destruct (in_dels x e) eqn:Hd; [reflexivity|]. destruct (delF_out es x t e Hd) as (Hs & _).
    rewrite Hs in E2. apply is_live_eq in E1. rewrite E1 in E2. discriminate. }
  rewrite (delF_erdmo_in es x t e Hd).
  apply forallb_forall. intros go Hgo. apply in_map_iff in Hgo. destruct Hgo as (g & <- & Hg).
  cbn [ost okind omember oid abs]. fold (lists g (eid e)).
  destruct (lists g (eid e)) eqn:Eg; [|reflexivity]. cbn [implb]. rewrite olive_abs.
  assert (Hold : In (eid g) (edmo e)) by (apply Hc; try assumption; apply is_live_eq; exact E1).
  destruct (memN (eid g) (map eid (filter (in_dels x) es))) eqn:Em.
  - apply memN_In in Em. apply orb_true_iff. right. apply negb_true_iff.
    destruct (live_id (map (delF es x t) es) (eid g)) eqn:El; [|reflexivity].
    apply live_id_iff in El. destruct El as (e' & Hin' & He' & Hs').
    apply in_map_iff in Hin'. destruct Hin' as (e1 & <- & Hin1).
    rewrite delF_eid in He'. rewrite (ds_dead es x t (eid g) e1 Hnd Em Hin1 He') in Hs'. discriminate.
  - apply memN_false in Em. apply orb_true_iff. left. apply memN_In. apply rm_In. tauto.
Qed.

Lemma run_agree_strict R C : forall steps s,
  sinv s -> run_agree R C s steps = true -> trace_strict (absS s) steps = true.
Proof.
  induction steps as [|[o t cid code post] r IH]; intros s Hw H; [reflexivity|].
  cbn [run_agree trace_strict] in *.
  pose proof (sinv_step R C s o t Hw) as Hw'.
  pose proof (step_cases R C s o t) as Hcase.
  destruct (step R C s o t) as [s' c] eqn:Est. cbn [fst snd] in *.
  rewrite !andb_true_iff in H. destruct H as (((Hc & Hcid) & Hpost) & Hr).
  apply N.eqb_eq in Hc. apply oents_eqb_eq in Hpost. subst code post.
  apply andb_true_iff. split; [|apply IH; assumption].
  destruct o as [x|x| |]; try reflexivity.
  destruct Hcase as [[Hne ->]|(Hz & Hcc & F & Hcom & ->)].
  - assert (Hf : (c =? 0) = false) by (apply N.eqb_neq; exact Hne). rewrite Hf. reflexivity.
  - rewrite Hz. change (0 =? 0) with true. cbn [implb]. unfold absS. cbn [ents].
    inversion Hcom as [x' Hl| | |]; subst. destruct Hw as [Hnd Hdc].
    apply all2_map. intros e He. apply stash_strict_model; assumption.
Qed.

Lemma agree_pcheck c : agree c = true -> pcheck c = true.
Proof.
  intros H. unfold pcheck. rewrite (agree_pcore c H). cbn [andb].
  destruct c as [R C now0 init steps]. unfold agree in H.
  rewrite !andb_true_iff in H. destruct H as ((Hinit & Hwf) & Hrun).
  apply oents_eqb_eq in Hinit. unfold absS in Hinit. cbn [ents] in Hinit.
  unfold wfb in Hwf. rewrite !andb_true_iff in Hwf. destruct Hwf as [[Hnd _] Hdc]. cbn [ents] in *.
  assert (Hs : sinv (mkst now0 (map of_obs init))).
  { split; cbn [ents]; [apply nodupb_NoDup; exact Hnd | apply dmo_consb_dcons; exact Hdc]. }
  pose proof (run_agree_strict R C steps _ Hs Hrun) as Ht.
  unfold absS in Ht. cbn [ents] in Ht. rewrite Hinit in Ht. exact Ht.
Qed.
