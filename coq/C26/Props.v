(* KV.C26.Props — property theorems only.  Model: KV.C26.Model (states = closed population of
   persons / flat groups / Refers-dependents; one write transaction per step; times in ns;
   R = RECYCLEBIN_MAX_AGE, C = CHANGELOG_MAX_AGE as arbitrary parameters). *)
From Coq Require Import List NArith Bool.
Import ListNotations.
Require Import KV.C26.Model KV.C26.Proofs.
Open Scope N_scope.

(* A committed delete of x: afterwards x is not found by a normal search, is found by the recycle
   bin search, and every live dependent (Refers = x) went to the recycle bin with it, marked
   CascadeDeleted = x.  Nothing else changes life-cycle state. *)
Theorem C26_hidden_after_delete : forall R C s x t0,
  NoDup (map eid (ents s)) -> snd (step R C s (ODelete x) t0) = 0 ->
  let s' := fst (step R C s (ODelete x) t0) in
  live_id (ents s') x = false /\ rec_id (ents s') x = true
  /\ Forall2 (fun e e' => eid e' = eid e
        /\ (est e = Live -> erefers e = Some x -> est e' = Rec /\ ecasc e' = Some x)
        /\ (est e = Live \/ est e' = est e))
       (ents s) (ents s').
Proof. exact hidden_after_delete. Qed.

(* A committed revive of x: x was in the recycle bin and is live again; every recycled entry
   that was cascade-deleted with x is live again with Refers = x restored; and for every revived
   entry, every group named in its stash (RecycledDirectMemberOf) is live and lists it as a
   member again.  Nothing else changes life-cycle state. *)
Theorem C26_revive_restores : forall R C s x t0,
  snd (step R C s (ORevive x) t0) = 0 ->
  let s' := fst (step R C s (ORevive x) t0) in
  rec_id (ents s) x = true /\ live_id (ents s') x = true
  /\ Forall2 (fun e e' => eid e' = eid e
        /\ (est e = Rec -> eid e = x \/ ecasc e = Some x ->
              est e' = Live
              /\ (ecasc e = Some x -> erefers e' = Some x)
              /\ forall g, In g (erdmo e) ->
                   live_id (ents s') g = true
                   /\ forall eg', In eg' (ents s') -> eid eg' = g -> est eg' = Live ->
                        In (eid e) (emember eg'))
        /\ (est e = Rec \/ est e' = est e))
       (ents s) (ents s').
Proof. exact revive_restores. Qed.

(* When a revive commits: the target is in the recycle bin, the transaction time is representable,
   every revived ClientCertificate has a Refers to restore, every restored Refers target is x or
   live, and every stashed group is live.  (For a person or group deleted on its own the last
   three conditions are about its cascade dependents and its stash only.) *)
Theorem C26_revivable : forall R C s x t0,
  C <= eff s t0 -> rec_id (ents s) x = true ->
  (forall e, In e (ents s) -> in_revs x e = true ->
     (edep e = true -> refers' e <> None)
     /\ (forall u, ecasc e = Some u -> u = x \/ live_id (ents s) u = true)
     /\ (forall g, In g (erdmo e) -> live_id (ents s) g = true)) ->
  snd (step R C s (ORevive x) t0) = 0.
Proof. exact revive_commits. Qed.

(* The retention invariant, for arbitrary op lists with arbitrary requested times (the lamport
   rule makes transaction times strictly increasing): relative to any time t0 not after `now`,
   every recycled entry was recycled after t0 and last modified between its recycling and now;
   every tombstone was made MORE than R after the delete that recycled the entry; every reaped
   entry was recycled more than R + C ago.  [erec] is the history variable written by delete. *)
Theorem C26_retention_invariant : forall R C t0 ops s,
  TInv R C t0 s -> TInv R C t0 (run R C s ops).
Proof. intros R C t0 ops s. apply run_TInv. Qed.

(* While the retention period since its delete has not passed, purge_recycled leaves a recycled
   entry in the recycle bin (so C26_revivable still applies to it). *)
Theorem C26_revivable_before_retention : forall R C t0 s t e,
  TInv R C t0 s -> In e (ents s) -> est e = Rec -> t <= erec e + R ->
  purge_rec_upd R t e = e.
Proof. exact not_purged_early. Qed.

(* Starting from a population in which everything is live, after ANY history: a tombstone's
   `at` is more than R after the start, and an entry can only have been removed for good
   when more than R + C has passed. *)
Theorem C26_tombstone_not_before_retention : forall R C s0 ops,
  (forall e, In e (ents s0) -> est e = Live) ->
  forall e, In e (ents (run R C s0 ops)) -> forall a, est e = Tomb a -> now s0 + R < a.
Proof. intros R C s0 ops Hl e Hin a Ha. apply (from_all_live R C s0 ops Hl e Hin). exact Ha. Qed.

Theorem C26_reaped_not_before_window : forall R C s0 ops,
  (forall e, In e (ents s0) -> est e = Live) ->
  forall e, In e (ents (run R C s0 ops)) -> est e = Gone ->
    now s0 + R + C < now (run R C s0 ops).
Proof. intros R C s0 ops Hl e Hin Hg. apply (from_all_live R C s0 ops Hl e Hin). exact Hg. Qed.

(* Tombstones are final: no step turns a tombstone into anything but the same tombstone, or
   "removed" — and that only by purge_tombstones strictly after `at` + C; removed stays removed.
   A revive whose target is not in the recycle bin (live, tombstone, removed, unknown) is refused
   and changes nothing. *)
Theorem C26_tombstone_final : forall R C s o t0,
  Forall2 (fun e e' =>
     (forall a, est e = Tomb a ->
        est e' = Tomb a \/ (est e' = Gone /\ o = OPurgeTomb /\ a + C < eff s t0))
     /\ (est e = Gone -> est e' = Gone))
    (ents s) (ents (fst (step R C s o t0))).
Proof. exact tomb_final. Qed.

Theorem C26_tombstone_not_revivable : forall R C s x t0,
  rec_id (ents s) x = false ->
  step R C s (ORevive x) t0 = (s, if eff s t0 <? C then 4 else 1).
Proof. exact revive_needs_recycled. Qed.

(* ---- the membership stash *)
(* FULL STATEMENT, proved for the tree after 76a0ae1 (what "returning with its direct memberships
   of groups that still exist" needs from delete): in every state reachable from a fresh
   population by ANY history, a committed delete stashes EVERY live group that lists the recycled
   entry as a member (unless that group went to the recycle bin in the same delete).  Together
   with C26_revive_restores (every stashed group gets the member back) and the invariant below
   (a stashed group is dropped from the stash only when it is itself deleted) this is the
   membership part of the property. *)
Theorem C26_full_statement : forall R C s0 ops x t0,
  fresh s0 = true ->
  snd (step R C (run R C s0 ops) (ODelete x) t0) = 0 ->
  stash_completeb (ents (run R C s0 ops))
                  (ents (fst (step R C (run R C s0 ops) (ODelete x) t0))) = true.
Proof. exact full_statement. Qed.

(* The invariant behind it, over arbitrary op lists: ids stay unique and the stored
   DirectMemberOf of every live entry names every live group that lists it. *)
Theorem C26_dmo_complete_invariant : forall R C ops s,
  NoDup (map eid (ents s)) /\ dmo_consb (ents s) = true ->
  NoDup (map eid (ents (run R C s ops))) /\ dmo_consb (ents (run R C s ops)) = true.
Proof.
  intros R C ops s [H1 H2].
  destruct (sinv_run R C ops s (conj H1 (proj1 (dmo_consb_dcons _) H2))) as [H3 H4].
  split; [exact H3 | apply dmo_consb_dcons; exact H4].
Qed.

(* One step, any state: a complete stored DirectMemberOf gives a complete stash. *)
Theorem C26_stash_complete : forall R C s x t0,
  NoDup (map eid (ents s)) -> dmo_consb (ents s) = true ->
  snd (step R C s (ODelete x) t0) = 0 ->
  stash_completeb (ents s) (ents (fst (step R C s (ODelete x) t0))) = true.
Proof. exact stash_complete_delete. Qed.

(* THE DEFECT THIS CHECK FOUND (tree before 76a0ae1, model step_prefix / run_prefix): the same
   statement is false.  Witness, confirmed on the real server (harness --probe; QueryServer::verify
   reported MemberOfInvalid): person 0 in group 1; delete group 1; revive group 1 (memberof did
   not recompute DirectMemberOf of the members of a revived group); delete person 0 -> its stash
   is empty although group 1 is live and lists it, so reviving person 0 did not return it to
   group 1. *)
Theorem C26_prefix_refuted :
  ~ (forall R C s0 ops x t0, fresh s0 = true ->
       snd (step_prefix R C (run_prefix R C s0 ops) (ODelete x) t0) = 0 ->
       stash_completeb (ents (run_prefix R C s0 ops))
                       (ents (fst (step_prefix R C (run_prefix R C s0 ops) (ODelete x) t0))) = true).
Proof.
  intros H.
  specialize (H 10 10
    (mkst 100 [mkent 0 0 Live 0 0 [] [] None None [1]; mkent 1 1 Live 0 0 [0] [] None None []])
    [(ODelete 1, 200); (ORevive 1, 300)] 0 400 eq_refl eq_refl).
  vm_compute in H. discriminate.
Qed.

(* Soundness of the run-time tie: whenever the implementation's read-backs agree with the model,
   the property's executable predicate pcheck holds on those read-backs: search visibility =
   life-cycle state; only the allowed transitions, at the allowed times, with the allowed causes;
   cascade and stash effects of delete incl. completeness of the stash judged on the groups' own
   Member lists; restoration effects of revive. *)
Theorem C26_agree_implies_property : forall c : case, agree c = true -> pcheck c = true.
Proof. exact agree_pcheck. Qed.
