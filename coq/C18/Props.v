(* KV.C18.Props — property theorems only.
   Model: KV.C18.Model (DynGroup::apply_dyngroup_change / post_create / post_modify and refint's
   post_delete on dynmember). `tree` = `fixedv` = /repo since the commit "fix: dynamic groups ...";
   `cur` = the tree before it. *)
From Coq Require Import List NArith Bool.
Import ListNotations.
Require Import KV.Base.Filter KV.C18.Model KV.C18.Proofs.
Open Scope N_scope.

(* THE PROPERTY, full strength, for a variant v of the code: from any well-formed state in which
   every live dynamic group holds exactly the live entries that satisfy its filter, after ANY
   sequence of operations (creates, modifies, deletes of candidates and of dynamic groups, in
   batches, with any AND/OR/NOT filter trees; failed operations are rolled back) every live dynamic
   group again holds exactly the live entries that satisfy its CURRENT filter. *)
Definition C18_full_statement (v : variant) : Prop :=
  forall (s : st) (ops : list op), Inv s -> DynExact (run v s ops).

(* It holds for the tree: unbounded states, histories, batches and filters; no side condition. *)
Theorem C18_exact : C18_full_statement tree.
Proof. intros s ops I. apply (run_inv tree ops s I). apply fixed_never_known. Qed.

(* One operation preserves the invariant (well-formedness + exact membership) ... *)
Theorem C18_inv_step : forall (s : st) (o : op) (s' : st), Inv s -> step tree s o = Some s' -> Inv s'.
Proof. intros s o s' I H. apply (step_inv tree s o s' I H). destruct o; reflexivity. Qed.

(* ... hence every reachable state satisfies it. *)
Theorem C18_reachable : forall (ops : list op) (s : st), Inv s -> Inv (run tree s ops).
Proof. intros ops s I. apply run_inv; [exact I | apply fixed_never_known]. Qed.

(* Membership follows the group's filter: an operation that modifies a dynamic group (new filter,
   or direct tampering with dynmember) from ANY prior state — exactness is not assumed — leaves it
   with exactly the live entries satisfying its new filter. *)
Theorem C18_filter_change_reevaluates : forall (s : st) (ts : list target) (s' : st) (t : target) (f : filt),
  WF s -> modify tree s ts = Some s' -> In t ts -> tfilt t = Some f ->
  exists g', In g' (grps s') /\ gid g' = tid t /\ gf g' = f /\
    forall x, In x (gdm g') <-> exists u, In (x, u) (ents s') /\ hit f u = true.
Proof.
  intros s ts s' t f W H Ht TF. apply (modify_reeval_exact tree s ts s' t f W H Ht TF). intros L. discriminate L.
Qed.

(* Deleted (recycled) entries leave every dynamic group, in every state. *)
Theorem C18_deleted_leave : forall (s : st) (ids : list N) (s' : st) (g' : grp) (x : N),
  delete s ids = Some s' -> In g' (grps s') -> In x ids -> ~ In x (gdm g').
Proof. exact delete_leaves. Qed.

(* Well-formedness (distinct uuids, every live group cached with its current filter) is kept by
   every variant. *)
Theorem C18_wf_always : forall (v : variant) (ops : list op) (s : st), WF s -> WF (run v s ops).
Proof. exact run_wf. Qed.

(* ---- the tree BEFORE the fix commit (documentation of the defects this check found) *)

(* The full statement was false: a recycled entry re-entered any group that was re-evaluated
   (K1, witness w_ops_k1) ... *)
Theorem C18_prefix_refuted : ~ C18_full_statement cur.
Proof. exact full_refuted. Qed.
(* ... and repairing only that would not have been enough: an entry that is itself a dynamic group
   was never tested against the other groups' filters (K2, witness w_ops_k2). *)
Theorem C18_prefix_recfixed_refuted : ~ C18_full_statement recfixed.
Proof. exact recfixed_refuted. Qed.
(* For EVERY variant the invariant is preserved by the steps outside that variant's classes K1/K2
   (for `tree` both classes are empty, which is how C18_inv_step is obtained). *)
Theorem C18_prefix_inv_step_partial : forall (v : variant) (s : st) (o : op) (s' : st),
  Inv s -> step v s o = Some s' -> known_step v s o = false -> Inv s'.
Proof. exact step_inv. Qed.
Theorem C18_prefix_reachable_partial : forall (v : variant) (ops : list op) (s : st),
  Inv s -> run_known v s ops = false -> Inv (run v s ops).
Proof. exact run_inv. Qed.

(* ---- the run-time tie *)

(* The executable predicate used on the implementation's dumps means exact membership. *)
Theorem C18_pcheck_sound : forall (init : obs) (steps : list (op * obs)),
  pcheck (CHist init steps) = true ->
  DynExact (st_of init) /\ forall o ob, In (o, ob) steps -> DynExact (st_of ob).
Proof. exact pcheck_sound. Qed.

(* If the real server's dumps agree with the model's replay and the initial directory is exact,
   then every dump of the real server is exact: zero disagreements transfer C18_exact to every
   observed history. *)
Theorem C18_agree_implies_property : forall c : case,
  agree c = true -> match c with CHist init _ => obs_exact init = true end -> pcheck c = true.
Proof. exact agree_pcheck. Qed.
