(* KV.C18.Props — property theorems only.
   Model: KV.C18.Model (DynGroup::apply_dyngroup_change / post_create / post_modify and refint's
   post_delete on dynmember). `cur` = the pinned tree, `fixedv` = the tree with fixes/C18.patch. *)
From Coq Require Import List NArith Bool.
Import ListNotations.
Require Import KV.Base.Filter KV.C18.Model KV.C18.Proofs.
Open Scope N_scope.

(* THE PROPERTY, full strength: from any well-formed state in which every live dynamic group holds
   exactly the live entries that satisfy its filter, after ANY sequence of operations (creates,
   modifies, deletes of candidates and of dynamic groups, in batches, with any filters; failed
   operations are rolled back) every live dynamic group again holds exactly the live entries that
   satisfy its current filter. *)
Definition C18_full_statement : Prop :=
  forall (s : st) (ops : list op), Inv s -> DynExact (run cur s ops).

(* The pinned tree does NOT satisfy it (witness w_ops_k1: a recycled entry re-enters a group that
   is re-evaluated; confirmed on the real server, harness/src/bin/c18.rs --probe). *)
Theorem C18_refuted : ~ C18_full_statement.
Proof. exact full_refuted. Qed.

(* What the pinned tree does guarantee: the invariant (well-formedness + exact membership) is
   preserved by every operation that is outside the two known-finding classes
     K1 a group is re-evaluated while a recycled entry satisfies its filter,
     K2 a dynamic-group ENTRY is created/modified and its match against ANOTHER live group's
        filter differs from its membership there,
   for unbounded states, batches and filter trees ... *)
Theorem C18_inv_step_partial : forall (s : st) (o : op) (s' : st),
  Inv s -> step cur s o = Some s' -> known_step cur s o = false -> Inv s'.
Proof. exact (step_inv cur). Qed.

(* ... and therefore by every history none of whose steps falls in a known class. Missing for the
   full statement: exactly the histories with a K1 or K2 step (C18_refuted shows they do fail). *)
Theorem C18_reachable_partial : forall (ops : list op) (s : st),
  Inv s -> run_known cur s ops = false -> Inv (run cur s ops).
Proof. exact (run_inv cur). Qed.

(* With fixes/C18.patch (re-evaluation sees live entries only; dynamic-group entries are tested
   against the cached filters like any other entry) the FULL statement holds: no known class. *)
Theorem C18_fixed_exact : forall (ops : list op) (s : st), Inv s -> Inv (run fixedv s ops).
Proof. intros ops s I. apply run_inv; [exact I | apply fixed_never_known]. Qed.

(* Well-formedness (distinct uuids, every live group cached with its current filter) never
   depends on the known classes. *)
Theorem C18_wf_always : forall (v : variant) (ops : list op) (s : st), WF s -> WF (run v s ops).
Proof. exact run_wf. Qed.

(* Membership follows the group's filter: an operation that modifies a dynamic group (new filter,
   or direct tampering with dynmember, from ANY prior state — exactness is not assumed) leaves it
   with exactly the live entries satisfying its new filter (pinned tree: unless K1). *)
Theorem C18_filter_change_reevaluates : forall (v : variant) (s : st) (ts : list target) (s' : st) (t : target) (f : filt),
  WF s -> modify v s ts = Some s' -> In t ts -> tfilt t = Some f ->
  (live_only v = false -> k1 s ts = false) ->
  exists g', In g' (grps s') /\ gid g' = tid t /\ gf g' = f /\
    forall x, In x (gdm g') <-> exists u, In (x, u) (ents s') /\ hit f u = true.
Proof. exact modify_reeval_exact. Qed.

(* Deleted (recycled) entries leave every dynamic group, in every state and variant. *)
Theorem C18_deleted_leave : forall (s : st) (ids : list N) (s' : st) (g' : grp) (x : N),
  delete s ids = Some s' -> In g' (grps s') -> In x ids -> ~ In x (gdm g').
Proof. exact delete_leaves. Qed.

(* The executable predicate used on the implementation's dumps means exact membership. *)
Theorem C18_pcheck_sound : forall (init : obs) (steps : list (op * obs)),
  pcheck (CHist init steps) = true ->
  DynExact (st_of init) /\ forall o ob, In (o, ob) steps -> DynExact (st_of ob).
Proof. exact pcheck_sound. Qed.

(* Soundness of the run-time tie: if the real server's dumps agree with the model's replay, no
   step is in a known class and the initial directory is exact, then every dump of the real
   server is exact. *)
Theorem C18_agree_implies_property : forall c : case,
  agree c = true -> known c = false ->
  match c with CHist init _ => obs_exact init = true end -> pcheck c = true.
Proof. exact agree_pcheck. Qed.
