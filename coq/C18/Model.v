(* KV.C18.Model — dynamic groups (executable definitions only).
   Transcribes server/lib/src/plugins/dyngroup.rs: DynGroup::apply_dyngroup_change (full
   re-evaluation of a group by an internal search with its filter), DynGroup::post_create and
   DynGroup::post_modify (incremental add/remove against the cached filters `DynGroupCache.insts`),
   and the part of ReferentialIntegrity::post_delete (plugins/refint.rs remove_references) that
   strips deleted uuids from `dynmember` ("No post_delete handler is needed as refint takes care
   of this for us").

   Abstraction. An entry is (id, tv) where tv is the list of filter LEAVES (kind, attribute,
   value) that are true on it (the implementation's entry_match_no_index on that leaf); what an
   attribute value or a matching rule is never matters. A filter is a KV.Base.Filter tree and
   `hit f tv` is entry_match_no_index. The search of a re-evaluation is `filter (hit f)` over the
   stored entries (KV.C01: C01_search_exact — an internal search returns exactly the stored
   entries that satisfy the filter).

   Two facts of the pinned tree are parameters of the transcription (record `variant`):
     live_only = false : apply_dyngroup_change searches with the group's RAW filter
                         (Filter::from_rw, no ignore-hidden wrapper), so recycled entries that match
                         are returned as members;
     dyn_cands = false : post_create / post_modify partition the changed entries and test only the
                         NON-dyngroup ones against the cached filters.
   `cur` is the tree BEFORE the commit "fix: dynamic groups ..."; `fixedv` is the tree since that
   commit (both facts repaired: live_only = dyn_cands = true). *)
From Coq Require Import List NArith Bool.
Import ListNotations.
Require Import KV.Base.Filter.
Open Scope N_scope.

(* ---- leaves, truth vectors *)
Definition leaf := (N * N * N)%type.          (* kind code, attribute id, value id *)
Definition tv := list leaf.
Definition leaf_eqb (x y : leaf) : bool :=
  match x, y with (a, b, c), (d, e, f) => (a =? d) && (b =? e) && (c =? f) end.
Definition tvmem (l : leaf) (t : tv) : bool := existsb (leaf_eqb l) t.
Definition kcode (k : leafkind) : N :=
  match k with KEq => 0 | KCnt => 1 | KStw => 2 | KEnw => 3 | KPres => 4 | KLt => 5 end.
Definition sem (t : tv) : leafsem := fun k a v => tvmem (kcode k, a, v) t.
(* entry_match_no_index of filter f on an entry with truth vector t *)
Definition hit (f : filt) (t : tv) : bool := ematch (sem t) f.

(* ---- id sets *)
Definition mem (x : N) (s : list N) : bool := existsb (N.eqb x) s.
Definition union_ (a b : list N) : list N := a ++ filter (fun x => negb (mem x a)) b.
Definition diff_ (a b : list N) : list N := filter (fun x => negb (mem x b)) a.
Fixpoint nodupb (l : list N) : bool :=
  match l with [] => true | x :: r => negb (mem x r) && nodupb r end.
Fixpoint lookup {A} (x : N) (l : list (N * A)) : option A :=
  match l with [] => None | (k, a) :: r => if k =? x then Some a else lookup x r end.
Definition is_some {A} (o : option A) : bool := match o with Some _ => true | None => false end.
Definition isnil {A} (l : list A) : bool := match l with [] => true | _ => false end.

(* ---- state *)
Record grp := mkG { gid : N; gf : filt; gdm : list N }.     (* a LIVE dynamic group: filter, dynmember *)
Record st := mkS {
  ents : list (N * tv);        (* live entries of every kind (dynamic groups included) *)
  grps : list grp;             (* the live entries that are dynamic groups *)
  dead : list (N * tv);        (* recycled entries *)
  cache : list (N * filt)      (* DynGroupCache.insts: BTreeMap<Uuid, Filter> (never shrinks) *)
}.

Record variant := mkV { live_only : bool; dyn_cands : bool }.
Definition cur : variant := mkV false false.
Definition fixedv : variant := mkV true true.
(* only the first fact repaired (re-evaluation sees live entries only) *)
Definition recfixed : variant := mkV true false.
(* the variant the correspondence run compares /repo against: the tree since the commit
   "fix: dynamic groups ..." (= /verif/fixes/C18.patch). `cur` and `recfixed` are kept to document
   the defects of the tree before that commit (C18_prefix_refuted). *)
Definition tree : variant := fixedv.

(* what `qs.internal_search(scope_i)` ranges over *)
Definition stored (v : variant) (es ds : list (N * tv)) : list (N * tv) :=
  if live_only v then es else es ++ ds.
(* apply_dyngroup_change: members := uuids of the search result *)
Definition reeval (v : variant) (es ds : list (N * tv)) (f : filt) : list N :=
  map fst (filter (fun e => hit f (snd e)) (stored v es ds)).

(* ---- operations. A target is an entry as the operation leaves it: id, truth vector, and its
   dyngroup_filter when (and only when) it is a dynamic group. *)
Record target := mkT { tid : N; ttv : tv; tfilt : option filt }.
Inductive op := OCreate (ts : list target) | OModify (ts : list target) | ODelete (ids : list N).

Definition is_grp (s : st) (x : N) : bool := existsb (fun g => gid g =? x) (grps s).
Definition ids_of (s : st) : list N := map fst (ents s) ++ map fst (dead s).
(* the entries that post_create / post_modify test against the cached filters *)
Definition is_cand (v : variant) (t : target) : bool := dyn_cands v || negb (is_some (tfilt t)).
Definition newgrps (ts : list target) : list (N * filt) :=
  flat_map (fun t => match tfilt t with Some f => [(tid t, f)] | None => [] end) ts.

(* post_create, existing groups: every cached filter is tested on the created (non-dyngroup) entries *)
Definition cgrp (c : list (N * filt)) (cands : list target) (g : grp) : grp :=
  match lookup (gid g) c with
  | Some cf => mkG (gid g) (gf g) (union_ (gdm g) (map tid (filter (fun t => hit cf (ttv t)) cands)))
  | None => g
  end.

(* DynGroup::post_create after the backend create. Errors (None) abort the transaction. *)
Definition create (v : variant) (s : st) (ts : list target) : option st :=
  if isnil ts || negb (nodupb (map tid ts))
     || existsb (fun t => mem (tid t) (ids_of s)) ts                 (* uuid already exists *)
     || existsb (fun t => mem (tid t) (map fst (cache s))) ts        (* expect = false: "cache uuid conflict" *)
  then None else
  let ents1 := ents s ++ map (fun t => (tid t, ttv t)) ts in
  let grps1 := map (cgrp (cache s) (filter (is_cand v) ts)) (grps s) in
  (* created groups: populated by a search that already sees every created entry *)
  let newg := map (fun p => mkG (fst p) (snd p) (reeval v ents1 (dead s) (snd p))) (newgrps ts) in
  Some (mkS ents1 (grps1 ++ newg) (dead s) (cache s ++ newgrps ts)).

Definition upd_tv (tl : list (N * target)) (e : N * tv) : N * tv :=
  match lookup (fst e) tl with Some t => (fst e, ttv t) | None => e end.
Definition upd_cache (tl : list (N * target)) (c : N * filt) : N * filt :=
  match lookup (fst c) tl with
  | Some t => match tfilt t with Some f => (fst c, f) | None => c end
  | None => c
  end.
(* (uuid, pre truth vector, post truth vector) of the modified entries that are tested *)
Definition pairs (v : variant) (tl : list (N * target)) (es : list (N * tv)) : list (N * tv * tv) :=
  flat_map (fun e => match lookup (fst e) tl with
                     | Some t => if is_cand v t then [(fst e, snd e, ttv t)] else []
                     | None => []
                     end) es.
Definition adds (cf : filt) (ps : list (N * tv * tv)) : list N :=
  map (fun p => fst (fst p)) (filter (fun p => hit cf (snd p) && negb (hit cf (snd (fst p)))) ps).
Definition rems (cf : filt) (ps : list (N * tv * tv)) : list N :=
  map (fun p => fst (fst p)) (filter (fun p => hit cf (snd (fst p)) && negb (hit cf (snd p))) ps).

Definition tlof (ts : list target) : list (N * target) := map (fun t => (tid t, t)) ts.

(* post_modify, one live group: a modified group is re-evaluated first (whatever the request did
   to dynmember is overwritten); then its cached filter is tested on (pre, post) of the modified
   non-dyngroup entries *)
Definition mgrp (v : variant) (ents1 ds : list (N * tv)) (tl : list (N * target))
                (cache1 : list (N * filt)) (ps : list (N * tv * tv)) (g : grp) : grp :=
  let g1 := match lookup (gid g) tl with
            | Some t => match tfilt t with
                        | Some f => mkG (gid g) f (reeval v ents1 ds f)
                        | None => g
                        end
            | None => g
            end in
  match lookup (gid g) cache1 with
  | Some cf => mkG (gid g1) (gf g1) (diff_ (union_ (gdm g1) (adds cf ps)) (rems cf ps))
  | None => g1
  end.

(* DynGroup::post_modify (force_cand_updates = false) after the backend modify. *)
Definition modify (v : variant) (s : st) (ts : list target) : option st :=
  if isnil ts || negb (nodupb (map tid ts))
     || negb (forallb (fun t => mem (tid t) (map fst (ents s))) ts)
     || negb (forallb (fun t => Bool.eqb (is_some (tfilt t)) (is_grp s (tid t))) ts)   (* kinds are not changed *)
     || negb (forallb (fun t => implb (is_some (tfilt t)) (mem (tid t) (map fst (cache s)))) ts) (* expect = true *)
  then None else
  let tl := tlof ts in
  let ents1 := map (upd_tv tl) (ents s) in
  let cache1 := map (upd_cache tl) (cache s) in
  Some (mkS ents1 (map (mgrp v ents1 (dead s) tl cache1 (pairs v tl (ents s))) (grps s)) (dead s) cache1).

(* delete, one surviving group: refint strips the deleted uuids *)
Definition dgrp (ids : list N) (g : grp) : grp := mkG (gid g) (gf g) (diff_ (gdm g) ids).

(* delete: entries move to the recycle bin; refint strips their uuids from every dynmember *)
Definition delete (s : st) (ids : list N) : option st :=
  if isnil ids || negb (nodupb ids) || negb (forallb (fun x => mem x (map fst (ents s))) ids)
  then None else
  Some (mkS (filter (fun e => negb (mem (fst e) ids)) (ents s))
            (map (dgrp ids) (filter (fun g => negb (mem (gid g) ids)) (grps s)))
            (dead s ++ filter (fun e => mem (fst e) ids) (ents s))
            (cache s)).

Definition step (v : variant) (s : st) (o : op) : option st :=
  match o with
  | OCreate ts => create v s ts
  | OModify ts => modify v s ts
  | ODelete ids => delete s ids
  end.

(* a failed operation is rolled back; the history goes on *)
Fixpoint run (v : variant) (s : st) (ops : list op) : st :=
  match ops with
  | [] => s
  | o :: r => run v (match step v s o with Some s' => s' | None => s end) r
  end.

(* ---- the known-finding classes of the pinned tree, as a decidable predicate on one step.
   K1 (recycled-member): the operation re-evaluates a group whose filter is satisfied by an
       entry in the recycle bin.
   K2 (dyngroup-candidate): the operation creates or modifies a dynamic-group ENTRY d whose
       match against the filter of another live group g (not itself re-evaluated by the
       operation) differs from its current membership in g. *)
Definition k1 (s : st) (ts : list target) : bool :=
  existsb (fun p => existsb (fun e => hit (snd p) (snd e)) (dead s)) (newgrps ts).
Definition k2 (s : st) (ts : list target) : bool :=
  existsb (fun t => is_some (tfilt t) &&
     existsb (fun g => negb (mem (gid g) (map tid ts)) &&
                       negb (Bool.eqb (hit (gf g) (ttv t)) (mem (tid t) (gdm g)))) (grps s)) ts.
Definition known_step (v : variant) (s : st) (o : op) : bool :=
  match o with
  | OCreate ts | OModify ts => (negb (live_only v) && k1 s ts) || (negb (dyn_cands v) && k2 s ts)
  | ODelete _ => false
  end.
Fixpoint run_known (v : variant) (s : st) (ops : list op) : bool :=
  match ops with
  | [] => false
  | o :: r => match step v s o with
              | Some s' => known_step v s o || run_known v s' r
              | None => run_known v s r
              end
  end.

(* ---- the property, executable: every live dynamic group's dynmember is exactly the set of
   live entries on which its filter is true *)
Definition set_eqb (a b : list N) : bool := forallb (fun x => mem x b) a && forallb (fun x => mem x a) b.
Definition exact_grp (es : list (N * tv)) (g : grp) : bool :=
  set_eqb (gdm g) (map fst (filter (fun e => hit (gf g) (snd e)) es)).
Definition exactb (s : st) : bool := forallb (exact_grp (ents s)) (grps s).

(* well-formedness, executable *)
Definition wfb (s : st) : bool :=
  nodupb (ids_of s) && nodupb (map gid (grps s))
  && forallb (fun g => mem (gid g) (map fst (ents s))) (grps s)
  && nodupb (map fst (cache s))
  && forallb (fun c => mem (fst c) (ids_of s)) (cache s)
  && forallb (fun c => implb (mem (fst c) (map fst (ents s))) (is_grp s (fst c))) (cache s).

(* ------------------------------------------------------------------ correspondence *)
(* what the harness reads back from the real server after an operation *)
Record obs := mkO { o_ok : bool; o_ents : list (N * tv); o_grps : list grp; o_dead : list (N * tv) }.
Inductive case := CHist (init : obs) (steps : list (op * obs)).

(* syntactic equality of filter trees up to slopes *)
Fixpoint filt_eqb (x y : filt) : bool :=
  match x, y with
  | FLeaf k1 a1 v1 _, FLeaf k2 a2 v2 _ => leafkind_eqb k1 k2 && (a1 =? a2) && (v1 =? v2)
  | FAnd l1 _, FAnd l2 _ | FOr l1 _, FOr l2 _ | FInclusion l1 _, FInclusion l2 _ =>
      (fix leq (p q : list filt) : bool :=
         match p, q with
         | [], [] => true
         | a :: p', b :: q' => filt_eqb a b && leq p' q'
         | _, _ => false
         end) l1 l2
  | FAndNot f1 _, FAndNot f2 _ => filt_eqb f1 f2
  | FInvalid a1, FInvalid a2 => a1 =? a2
  | _, _ => false
  end.

Fixpoint tv_eqb (a b : tv) : bool :=
  match a, b with
  | [], [] => true
  | x :: a', y :: b' => leaf_eqb x y && tv_eqb a' b'
  | _, _ => false
  end.
Definition ent_in (e : N * tv) (l : list (N * tv)) : bool :=
  existsb (fun d => (fst d =? fst e) && tv_eqb (snd d) (snd e)) l.
Definition ents_eqb (a b : list (N * tv)) : bool :=
  forallb (fun e => ent_in e b) a && forallb (fun e => ent_in e a) b.
Definition grp_in (g : grp) (l : list grp) : bool :=
  existsb (fun h => (gid h =? gid g) && filt_eqb (gf h) (gf g) && set_eqb (gdm h) (gdm g)) l.
Definition grps_eqb (a b : list grp) : bool :=
  forallb (fun g => grp_in g b) a && forallb (fun g => grp_in g a) b.
(* model state vs dump *)
Definition st_eqb (s : st) (o : obs) : bool :=
  ents_eqb (ents s) (o_ents o) && grps_eqb (grps s) (o_grps o) && ents_eqb (dead s) (o_dead o).

(* the server was just initialised: the cache holds exactly the live dynamic groups *)
Definition st_of (o : obs) : st :=
  mkS (o_ents o) (o_grps o) (o_dead o) (map (fun g => (gid g, gf g)) (o_grps o)).

Fixpoint replay (v : variant) (s : st) (steps : list (op * obs)) : bool :=
  match steps with
  | [] => true
  | (o, ob) :: r =>
      match step v s o with
      | Some s' => o_ok ob && st_eqb s' ob && replay v s' r
      | None => negb (o_ok ob) && st_eqb s ob && replay v s r
      end
  end.

Definition agree (c : case) : bool :=
  match c with CHist init steps => wfb (st_of init) && replay tree (st_of init) steps end.

(* the property on the implementation's own dumps only (no model replay): initially and after
   every operation each live dynamic group's dynmember, as read back, is exactly the set of live
   entries whose read-back truth vector satisfies the group's read-back filter *)
Definition obs_exact (o : obs) : bool := forallb (exact_grp (o_ents o)) (o_grps o).
Definition pcheck (c : case) : bool :=
  match c with CHist init steps => obs_exact init && forallb (fun p => obs_exact (snd p)) steps end.

(* no known-finding class since the fix commit (`run_known tree` is constantly false:
   KV.C18.Proofs.fixed_never_known) *)
Definition known (_ : case) : bool := false.
