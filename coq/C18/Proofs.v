(* KV.C18.Proofs *)
From Coq Require Import List NArith Bool Lia.
Import ListNotations.
Require Import KV.Base.Filter KV.C18.Model.
Open Scope N_scope.
Arguments N.eqb : simpl never.

(* ------------------------------------------------------------------ sets, lookup *)
Lemma mem_In : forall x l, mem x l = true <-> In x l.
Proof.
  intros x l. unfold mem. rewrite existsb_exists. split.
  - intros [y [Hy E]]. apply N.eqb_eq in E. subst y. exact Hy.
  - intros H. exists x. split; [exact H | apply N.eqb_refl].
Qed.
Lemma mem_nIn : forall x l, mem x l = false <-> ~ In x l.
Proof.
  intros x l. rewrite <- mem_In.
  destruct (mem x l); split; intro H; try congruence; try (exfalso; apply H; reflexivity); try (intro; congruence).
Qed.
Lemma nodupb_NoDup : forall l, nodupb l = true -> NoDup l.
Proof.
  induction l as [|x r IH]; intros H; [constructor|].
  cbn [nodupb] in H. apply andb_true_iff in H as [H1 H2]. apply negb_true_iff in H1.
  constructor; [apply mem_nIn; exact H1 | apply IH; exact H2].
Qed.
Lemma In_union_ : forall x a b, In x (union_ a b) <-> In x a \/ In x b.
Proof.
  intros x a b. unfold union_. rewrite in_app_iff, filter_In. split.
  - intros [H | [H _]]; [left | right]; exact H.
  - intros [H | H]; [left; exact H|]. destruct (mem x a) eqn:E.
    + left. apply mem_In. exact E.
    + right. split; [exact H | reflexivity].
Qed.
Lemma In_diff_ : forall x a b, In x (diff_ a b) <-> In x a /\ ~ In x b.
Proof.
  intros x a b. unfold diff_. rewrite filter_In, negb_true_iff, mem_nIn. reflexivity.
Qed.

Lemma lookup_Some_In : forall {A} x (l : list (N * A)) a, lookup x l = Some a -> In (x, a) l.
Proof.
  intros A x l a. induction l as [|[k b] r IH]; cbn [lookup]; intros H; [discriminate|].
  destruct (k =? x) eqn:E.
  - apply N.eqb_eq in E. injection H as ->. subst k. left. reflexivity.
  - right. apply IH. exact H.
Qed.
Lemma lookup_None_iff : forall {A} x (l : list (N * A)), lookup x l = None <-> ~ In x (map fst l).
Proof.
  intros A x l. induction l as [|[k b] r IH]; cbn [lookup map fst].
  - split; [intros _ []| reflexivity].
  - destruct (k =? x) eqn:E.
    + apply N.eqb_eq in E. split; [discriminate | intros H; exfalso; apply H; left; exact E].
    + apply N.eqb_neq in E. rewrite IH. split; [intros H [H1|H1]; [apply E; exact H1 | apply H; exact H1] | intros H H1; apply H; right; exact H1].
Qed.
Lemma lookup_In : forall {A} x a (l : list (N * A)), NoDup (map fst l) -> In (x, a) l -> lookup x l = Some a.
Proof.
  intros A x a l. induction l as [|[k b] r IH]; cbn [lookup map fst]; intros ND H; [destruct H|].
  inversion ND as [|? ? Hn ND']; subst. destruct H as [H | H].
  - injection H as -> ->. rewrite N.eqb_refl. reflexivity.
  - destruct (k =? x) eqn:E.
    + apply N.eqb_eq in E. subst k. exfalso. apply Hn. apply in_map_iff. exists (x, a). split; [reflexivity | exact H].
    + apply IH; assumption.
Qed.
Lemma pairs_fun : forall {A} x (a b : A) (l : list (N * A)), NoDup (map fst l) -> In (x, a) l -> In (x, b) l -> a = b.
Proof.
  intros A x a b l ND Ha Hb. pose proof (lookup_In x a l ND Ha) as E1. pose proof (lookup_In x b l ND Hb) as E2.
  rewrite E1 in E2. injection E2 as ->. reflexivity.
Qed.
Lemma lookup_dom : forall {A} x (l : list (N * A)), In x (map fst l) -> exists a, lookup x l = Some a.
Proof.
  intros A x l H. destruct (lookup x l) eqn:E; [eexists; reflexivity|]. apply lookup_None_iff in E. contradiction.
Qed.
Lemma lookup_app : forall {A} x (l1 l2 : list (N * A)),
  lookup x (l1 ++ l2) = match lookup x l1 with Some a => Some a | None => lookup x l2 end.
Proof.
  intros A x l1 l2. induction l1 as [|[k b] r IH]; cbn [lookup app]; [reflexivity|].
  destruct (k =? x); [reflexivity | exact IH].
Qed.

(* target tables *)
Lemma tlof_fst : forall ts, map fst (tlof ts) = map tid ts.
Proof. intros ts. unfold tlof. rewrite map_map. reflexivity. Qed.
Lemma lookup_tl_Some : forall ts x t, lookup x (tlof ts) = Some t -> In t ts /\ tid t = x.
Proof.
  intros ts x t H. apply lookup_Some_In in H. unfold tlof in H. apply in_map_iff in H as [t' [E Hin]].
  injection E as E1 E2. subst t'. split; [exact Hin | exact E1].
Qed.
Lemma lookup_tl_In : forall ts t, NoDup (map tid ts) -> In t ts -> lookup (tid t) (tlof ts) = Some t.
Proof.
  intros ts t ND H. apply lookup_In.
  - rewrite tlof_fst. exact ND.
  - unfold tlof. apply in_map_iff. exists t. split; [reflexivity | exact H].
Qed.
Lemma lookup_tl_None : forall ts x, lookup x (tlof ts) = None <-> ~ In x (map tid ts).
Proof. intros ts x. rewrite lookup_None_iff, tlof_fst. reflexivity. Qed.

(* ------------------------------------------------------------------ the invariant *)
(* the property: a live dynamic group's dynmember is exactly the set of live entries that
   satisfy its filter *)
Definition DynExact (s : st) : Prop :=
  forall g, In g (grps s) ->
  forall x, In x (gdm g) <-> exists t, In (x, t) (ents s) /\ hit (gf g) t = true.

Record WF (s : st) : Prop := mkWF {
  wf_ids : NoDup (map fst (ents s));                       (* live uuids are distinct *)
  wf_gids : NoDup (map gid (grps s));
  wf_gin : forall g, In g (grps s) -> In (gid g) (map fst (ents s));
  wf_ckeys : NoDup (map fst (cache s));                    (* a BTreeMap *)
  wf_cache : forall g, In g (grps s) -> lookup (gid g) (cache s) = Some (gf g)  (* live groups are cached with their filter *)
}.
Definition Inv (s : st) : Prop := WF s /\ DynExact s.

Lemma reeval_In : forall v es ds f x,
  In x (reeval v es ds f) <-> exists t, In (x, t) (stored v es ds) /\ hit f t = true.
Proof.
  intros v es ds f x. unfold reeval. rewrite in_map_iff. split.
  - intros [[y t] [E H]]. cbn [fst] in E. subst y. apply filter_In in H as [H1 H2]. exists t. split; assumption.
  - intros [t [H1 H2]]. exists (x, t). split; [reflexivity | apply filter_In; split; assumption].
Qed.

(* a re-evaluation that is not in class K1 yields exactly the matching LIVE entries *)
Lemma reeval_live : forall v es ds f,
  (live_only v = false -> forall e, In e ds -> hit f (snd e) = false) ->
  forall x, In x (reeval v es ds f) <-> exists t, In (x, t) es /\ hit f t = true.
Proof.
  intros v es ds f HK x. rewrite reeval_In. unfold stored. destruct (live_only v) eqn:L; [reflexivity|].
  split.
  - intros [t [H1 H2]]. apply in_app_iff in H1 as [H1 | H1]; [exists t; split; assumption|].
    specialize (HK eq_refl (x, t) H1). cbn [snd] in HK. rewrite HK in H2. discriminate.
  - intros [t [H1 H2]]. exists t. split; [apply in_app_iff; left; exact H1 | exact H2].
Qed.

Lemma k1_false : forall s ts i f,
  k1 s ts = false -> In (i, f) (newgrps ts) -> forall e, In e (dead s) -> hit f (snd e) = false.
Proof.
  intros s ts i f HK Hin e He. unfold k1 in HK.
  destruct (hit f (snd e)) eqn:E; [|reflexivity]. exfalso.
  assert (existsb (fun p => existsb (fun e => hit (snd p) (snd e)) (dead s)) (newgrps ts) = true) as C.
  { apply existsb_exists. exists (i, f). split; [exact Hin|]. apply existsb_exists. exists e. split; [exact He | exact E]. }
  rewrite C in HK. discriminate.
Qed.

Lemma newgrps_In : forall ts i f, In (i, f) (newgrps ts) <-> exists t, In t ts /\ tid t = i /\ tfilt t = Some f.
Proof.
  intros ts i f. unfold newgrps. rewrite in_flat_map. split.
  - intros [t [Ht H]]. destruct (tfilt t) as [f'|] eqn:E; [|destruct H]. destruct H as [H|[]].
    injection H as <- <-. exists t. repeat split; [exact Ht | exact E].
  - intros [t [Ht [E1 E2]]]. exists t. split; [exact Ht|]. rewrite E2. left. rewrite E1. reflexivity.
Qed.
Lemma newgrps_fst_incl : forall ts x, In x (map fst (newgrps ts)) -> In x (map tid ts).
Proof.
  intros ts x H. apply in_map_iff in H as [[i f] [E H]]. cbn [fst] in E. subst i.
  apply newgrps_In in H as [t [Ht [E1 _]]]. apply in_map_iff. exists t. split; assumption.
Qed.
Lemma newgrps_NoDup : forall ts, NoDup (map tid ts) -> NoDup (map fst (newgrps ts)).
Proof.
  induction ts as [|t r IH]; intros ND; [constructor|].
  cbn [map] in ND. inversion ND as [|? ? Hn ND']; subst.
  unfold newgrps. cbn [flat_map]. fold (newgrps r). destruct (tfilt t) as [f|]; cbn [app map fst].
  - constructor; [|apply IH; exact ND']. intros H. apply Hn. apply newgrps_fst_incl. exact H.
  - apply IH. exact ND'.
Qed.

(* ------------------------------------------------------------------ small helpers *)
Lemma existsb_false_all : forall {A} (p : A -> bool) l, existsb p l = false -> forall x, In x l -> p x = false.
Proof.
  intros A p l H x Hx. destruct (p x) eqn:E; [|reflexivity].
  assert (existsb p l = true) as C by (apply existsb_exists; exists x; split; assumption).
  rewrite C in H. discriminate.
Qed.
Lemma NoDup_app_intro : forall {A} (a b : list A),
  NoDup a -> NoDup b -> (forall x, In x a -> ~ In x b) -> NoDup (a ++ b).
Proof.
  intros A a b Ha Hb Hd. induction Ha as [|x r Hn Hr IH]; cbn [app]; [exact Hb|].
  constructor.
  - intros H. apply in_app_iff in H as [H|H]; [apply Hn; exact H | apply (Hd x); [left; reflexivity | exact H]].
  - apply IH. intros y Hy. apply Hd. right. exact Hy.
Qed.
Lemma NoDup_map_filter : forall {A B} (f : A -> B) p (l : list A), NoDup (map f l) -> NoDup (map f (filter p l)).
Proof.
  intros A B f p l. induction l as [|a r IH]; cbn [map filter]; intros ND; [constructor|].
  inversion ND as [|? ? Hn ND']; subst. destruct (p a); cbn [map]; [constructor|]; [|apply IH; exact ND'|apply IH; exact ND'].
  intros H. apply Hn. apply in_map_iff in H as [y [E Hy]]. apply filter_In in Hy as [Hy _].
  apply in_map_iff. exists y. split; assumption.
Qed.
Lemma is_grp_iff : forall s x, is_grp s x = true <-> exists g, In g (grps s) /\ gid g = x.
Proof.
  intros s x. unfold is_grp. rewrite existsb_exists. split; intros [g [H E]]; exists g; split; try exact H.
  - apply N.eqb_eq. exact E.
  - apply N.eqb_eq. exact E.
Qed.
Lemma andb_negb_false : forall a b, negb a && b = false -> a = false -> b = false.
Proof. intros a b H ->. exact H. Qed.

(* ------------------------------------------------------------------ delete *)
Lemma delete_some : forall s ids s', delete s ids = Some s' ->
  s' = mkS (filter (fun e => negb (mem (fst e) ids)) (ents s))
           (map (dgrp ids) (filter (fun g => negb (mem (gid g) ids)) (grps s)))
           (dead s ++ filter (fun e => mem (fst e) ids) (ents s)) (cache s).
Proof.
  unfold delete. intros s ids s' H.
  destruct (isnil ids || negb (nodupb ids) || negb (forallb (fun x => mem x (map fst (ents s))) ids));
    [discriminate | injection H as <-; reflexivity].
Qed.

Lemma delete_wf : forall s ids s', WF s -> delete s ids = Some s' -> WF s'.
Proof.
  intros s ids s' W H. apply delete_some in H. subst s'. destruct W as [W1 W2 W3 W4 W5].
  constructor; cbn [ents grps dead cache].
  - apply NoDup_map_filter. exact W1.
  - rewrite map_map. cbn [dgrp gid]. apply NoDup_map_filter. exact W2.
  - intros g' Hg. apply in_map_iff in Hg as [g [E Hg]]. subst g'. apply filter_In in Hg as [Hg Hm].
    cbn [dgrp gid]. specialize (W3 g Hg). apply in_map_iff in W3 as [[y t] [E Hy]]. cbn [fst] in E. subst y.
    apply in_map_iff. exists (gid g, t). split; [reflexivity|]. apply filter_In. split; [exact Hy | exact Hm].
  - exact W4.
  - intros g' Hg. apply in_map_iff in Hg as [g [E Hg]]. subst g'. apply filter_In in Hg as [Hg _].
    cbn [dgrp gid gf]. apply W5. exact Hg.
Qed.

Lemma delete_exact : forall s ids s', DynExact s -> delete s ids = Some s' -> DynExact s'.
Proof.
  intros s ids s' D H. apply delete_some in H. subst s'. intros g' Hg x. cbn [ents grps] in *.
  apply in_map_iff in Hg as [g [E Hg]]. subst g'. apply filter_In in Hg as [Hg _].
  cbn [dgrp gdm gf]. rewrite In_diff_, (D g Hg x). split.
  - intros [[t [H1 H2]] Hn]. exists t. split; [|exact H2]. apply filter_In. split; [exact H1|].
    cbn [fst]. apply negb_true_iff, mem_nIn. exact Hn.
  - intros [t [H1 H2]]. apply filter_In in H1 as [H1 Hm]. cbn [fst] in Hm. apply negb_true_iff, mem_nIn in Hm.
    split; [exists t; split; assumption | exact Hm].
Qed.

(* ------------------------------------------------------------------ create *)
Definition created_ents (ts : list target) : list (N * tv) := map (fun t => (tid t, ttv t)) ts.

Lemma create_some : forall v s ts s', create v s ts = Some s' ->
  NoDup (map tid ts) /\ (forall t, In t ts -> ~ In (tid t) (ids_of s)) /\
  (forall t, In t ts -> ~ In (tid t) (map fst (cache s))) /\
  s' = mkS (ents s ++ created_ents ts)
           (map (cgrp (cache s) (filter (is_cand v) ts)) (grps s)
            ++ map (fun p => mkG (fst p) (snd p) (reeval v (ents s ++ created_ents ts) (dead s) (snd p))) (newgrps ts))
           (dead s) (cache s ++ newgrps ts).
Proof.
  unfold create. intros v s ts s' H.
  destruct (isnil ts || negb (nodupb (map tid ts)) || existsb (fun t => mem (tid t) (ids_of s)) ts
            || existsb (fun t => mem (tid t) (map fst (cache s))) ts) eqn:C; [discriminate|].
  injection H as <-. apply orb_false_iff in C as [C C4]. apply orb_false_iff in C as [C C3].
  apply orb_false_iff in C as [_ C2]. apply negb_false_iff in C2.
  split; [apply nodupb_NoDup; exact C2|]. split; [|split; [|reflexivity]].
  - intros t Ht. apply mem_nIn. exact (existsb_false_all _ _ C3 t Ht).
  - intros t Ht. apply mem_nIn. exact (existsb_false_all _ _ C4 t Ht).
Qed.

Lemma cgrp_gid : forall c cands g, gid (cgrp c cands g) = gid g.
Proof. intros c cands g. unfold cgrp. destruct (lookup (gid g) c); reflexivity. Qed.
Lemma cgrp_gf : forall c cands g, gf (cgrp c cands g) = gf g.
Proof. intros c cands g. unfold cgrp. destruct (lookup (gid g) c); reflexivity. Qed.

Lemma created_fst : forall ts, map fst (created_ents ts) = map tid ts.
Proof. intros ts. unfold created_ents. rewrite map_map. reflexivity. Qed.

Lemma create_wf : forall v s ts s', WF s -> create v s ts = Some s' -> WF s'.
Proof.
  intros v s ts s' W H. apply create_some in H as [ND [Hfresh [Hc ->]]]. destruct W as [W1 W2 W3 W4 W5].
  assert (forall x, In x (map fst (ents s)) -> ~ In x (map tid ts)) as Hdis.
  { intros x Hx Hy. apply in_map_iff in Hy as [t [E Ht]]. subst x. apply (Hfresh t Ht). unfold ids_of. apply in_app_iff. left. exact Hx. }
  constructor; cbn [ents grps dead cache].
  - rewrite map_app, created_fst. apply NoDup_app_intro; assumption.
  - rewrite map_app, !map_map. cbn [gid]. rewrite (map_ext _ gid (cgrp_gid _ _)).
    change (map (fun x : N * filt => fst x) (newgrps ts)) with (map fst (newgrps ts)).
    apply NoDup_app_intro; [exact W2 | apply newgrps_NoDup; exact ND|].
    intros x Hx Hy. apply newgrps_fst_incl in Hy. apply (Hdis x); [|exact Hy].
    apply in_map_iff in Hx as [g [E Hg]]. subst x. apply W3. exact Hg.
  - intros g' Hg. rewrite map_app. apply in_app_iff. apply in_app_iff in Hg as [Hg | Hg].
    + apply in_map_iff in Hg as [g [E Hg]]. subst g'. rewrite cgrp_gid. left. apply W3. exact Hg.
    + apply in_map_iff in Hg as [[i f] [E Hg]]. subst g'. cbn [gid fst]. right. rewrite created_fst.
      apply newgrps_In in Hg as [t [Ht [E _]]]. apply in_map_iff. exists t. split; assumption.
  - rewrite map_app. apply NoDup_app_intro; [exact W4 | apply newgrps_NoDup; exact ND|].
    intros x Hx Hy. apply newgrps_fst_incl in Hy. apply in_map_iff in Hy as [t [E Ht]]. subst x. exact (Hc t Ht Hx).
  - intros g' Hg. rewrite lookup_app. apply in_app_iff in Hg as [Hg | Hg].
    + apply in_map_iff in Hg as [g [E Hg]]. subst g'. rewrite cgrp_gid, cgrp_gf, (W5 g Hg). reflexivity.
    + apply in_map_iff in Hg as [[i f] [E Hg]]. subst g'. cbn [gid gf fst snd].
      assert (lookup i (cache s) = None) as EN.
      { apply lookup_None_iff. apply newgrps_In in Hg as [t [Ht [E _]]]. subst i. apply Hc. exact Ht. }
      rewrite EN. apply lookup_In; [apply newgrps_NoDup; exact ND | exact Hg].
Qed.

Lemma create_exact : forall v s ts s',
  WF s -> DynExact s -> create v s ts = Some s' -> known_step v s (OCreate ts) = false -> DynExact s'.
Proof.
  intros v s ts s' W D H HK. apply create_some in H as [ND [Hfresh [Hc ->]]]. destruct W as [W1 W2 W3 W4 W5].
  cbn [known_step] in HK. apply orb_false_iff in HK as [HK1 HK2].
  intros g' Hg x. cbn [ents grps] in *. apply in_app_iff in Hg as [Hg | Hg].
  - apply in_map_iff in Hg as [g [E Hg]]. subst g'. unfold cgrp. rewrite (W5 g Hg). cbn [gdm gf].
    rewrite In_union_, (D g Hg x). split.
    + intros [[t [H1 H2]] | H].
      * exists t. split; [apply in_app_iff; left; exact H1 | exact H2].
      * apply in_map_iff in H as [t [E Ht]]. subst x. apply filter_In in Ht as [Ht Hh]. apply filter_In in Ht as [Ht _].
        exists (ttv t). split; [|exact Hh]. apply in_app_iff. right. unfold created_ents. apply in_map_iff. exists t. split; [reflexivity | exact Ht].
    + intros [t' [H1 H2]]. apply in_app_iff in H1 as [H1 | H1]; [left; exists t'; split; assumption|].
      unfold created_ents in H1. apply in_map_iff in H1 as [t [E Ht]]. injection E as E1 E2. subst x t'.
      destruct (is_cand v t) eqn:IC.
      * right. apply in_map_iff. exists t. split; [reflexivity|]. apply filter_In. split; [|exact H2].
        apply filter_In. split; assumption.
      * left. apply (D g Hg (tid t)). apply mem_In.
        unfold is_cand in IC. apply orb_false_iff in IC as [DC IS]. apply negb_false_iff in IS.
        pose proof (andb_negb_false _ _ HK2 DC) as K2. unfold k2 in K2.
        pose proof (existsb_false_all _ _ K2 t Ht) as K2t. cbn beta in K2t. rewrite IS in K2t. cbn [andb] in K2t.
        pose proof (existsb_false_all _ _ K2t g Hg) as K2g. cbn beta in K2g.
        assert (mem (gid g) (map tid ts) = false) as NM.
        { apply mem_nIn. intros Hy. apply in_map_iff in Hy as [t2 [E Ht2]]. apply (Hfresh t2 Ht2). rewrite E.
          unfold ids_of. apply in_app_iff. left. apply W3. exact Hg. }
        rewrite NM in K2g. cbn [negb andb] in K2g. apply negb_false_iff, eqb_prop in K2g. rewrite <- K2g. exact H2.
  - apply in_map_iff in Hg as [[i f] [E Hg]]. subst g'. cbn [gdm gf fst snd].
    apply reeval_live. intros L. apply (k1_false s ts i f); [|exact Hg]. exact (andb_negb_false _ _ HK1 L).
Qed.

(* ------------------------------------------------------------------ modify *)
Lemma modify_some : forall v s ts s', modify v s ts = Some s' ->
  NoDup (map tid ts) /\ (forall t, In t ts -> In (tid t) (map fst (ents s))) /\
  (forall t, In t ts -> is_some (tfilt t) = is_grp s (tid t)) /\
  s' = mkS (map (upd_tv (tlof ts)) (ents s))
           (map (mgrp v (map (upd_tv (tlof ts)) (ents s)) (dead s) (tlof ts)
                      (map (upd_cache (tlof ts)) (cache s)) (pairs v (tlof ts) (ents s))) (grps s))
           (dead s) (map (upd_cache (tlof ts)) (cache s)).
Proof.
  unfold modify. intros v s ts s' H.
  destruct (isnil ts || negb (nodupb (map tid ts))
            || negb (forallb (fun t => mem (tid t) (map fst (ents s))) ts)
            || negb (forallb (fun t => Bool.eqb (is_some (tfilt t)) (is_grp s (tid t))) ts)
            || negb (forallb (fun t => implb (is_some (tfilt t)) (mem (tid t) (map fst (cache s)))) ts)) eqn:C; [discriminate|].
  injection H as <-. apply orb_false_iff in C as [C _]. apply orb_false_iff in C as [C C4].
  apply orb_false_iff in C as [C C3]. apply orb_false_iff in C as [_ C2].
  apply negb_false_iff in C2, C3, C4.
  split; [apply nodupb_NoDup; exact C2|]. split; [|split; [|reflexivity]].
  - intros t Ht. apply mem_In. exact (proj1 (forallb_forall _ _) C3 t Ht).
  - intros t Ht. apply eqb_prop. exact (proj1 (forallb_forall _ _) C4 t Ht).
Qed.

Lemma upd_tv_fst : forall tl es, map fst (map (upd_tv tl) es) = map fst es.
Proof.
  intros tl es. rewrite map_map. apply map_ext. intros e. unfold upd_tv. destruct (lookup (fst e) tl); reflexivity.
Qed.
Definition post_tv (tl : list (N * target)) (x : N) (t0 : tv) : tv :=
  match lookup x tl with Some t => ttv t | None => t0 end.
Lemma In_ents1 : forall tl es x t',
  In (x, t') (map (upd_tv tl) es) <-> exists t0, In (x, t0) es /\ t' = post_tv tl x t0.
Proof.
  intros tl es x t'. rewrite in_map_iff. unfold post_tv. split.
  - intros [[y t0] [E H]]. unfold upd_tv in E. cbn [fst] in E. destruct (lookup y tl) eqn:L.
    + injection E as E1 E2. subst y. exists t0. rewrite L. split; [exact H | symmetry; exact E2].
    + injection E as E1 E2. subst y t0. exists t'. rewrite L. split; [exact H | reflexivity].
  - intros [t0 [H E]]. exists (x, t0). split; [|exact H]. unfold upd_tv. cbn [fst]. subst t'.
    destruct (lookup x tl); reflexivity.
Qed.
Lemma upd_cache_fst : forall tl c, map fst (map (upd_cache tl) c) = map fst c.
Proof.
  intros tl c. rewrite map_map. apply map_ext. intros e. unfold upd_cache.
  destruct (lookup (fst e) tl) as [t|]; [destruct (tfilt t)|]; reflexivity.
Qed.
Lemma lookup_cache1 : forall tl c x,
  lookup x (map (upd_cache tl) c) =
  match lookup x c with
  | Some cf => Some (match lookup x tl with
                     | Some t => match tfilt t with Some f => f | None => cf end
                     | None => cf end)
  | None => None
  end.
Proof.
  intros tl c x. induction c as [|[k b] r IH]; cbn [map lookup]; [reflexivity|].
  unfold upd_cache at 1. cbn [fst]. destruct (k =? x) eqn:E.
  - apply N.eqb_eq in E. subst k.
    destruct (lookup x tl) as [t|]; [destruct (tfilt t)|]; cbn [lookup]; rewrite N.eqb_refl; reflexivity.
  - destruct (lookup k tl) as [t|]; [destruct (tfilt t)|]; cbn [lookup]; rewrite E; exact IH.
Qed.

Lemma In_pairs : forall v tl es x p q,
  In (x, p, q) (pairs v tl es) <->
  In (x, p) es /\ exists t, lookup x tl = Some t /\ is_cand v t = true /\ q = ttv t.
Proof.
  intros v tl es x p q. unfold pairs. rewrite in_flat_map. split.
  - intros [[y p0] [He H]]. cbn [fst snd] in H. destruct (lookup y tl) as [t|] eqn:L; [|destruct H].
    destruct (is_cand v t) eqn:IC; [|destruct H]. destruct H as [H|[]]. injection H as E1 E2 E3. subst y p0 q.
    split; [exact He|]. exists t. repeat split; assumption.
  - intros [He [t [L [IC E]]]]. exists (x, p). split; [exact He|]. cbn [fst snd]. rewrite L, IC. left. subst q. reflexivity.
Qed.
Lemma In_adds : forall cf ps x,
  In x (adds cf ps) <-> exists p q, In (x, p, q) ps /\ hit cf q = true /\ hit cf p = false.
Proof.
  intros cf ps x. unfold adds. rewrite in_map_iff. split.
  - intros [[[y p] q] [E H]]. cbn [fst] in E. subst y. apply filter_In in H as [H1 H2]. cbn [fst snd] in H2.
    apply andb_true_iff in H2 as [H2 H3]. apply negb_true_iff in H3. exists p, q. repeat split; assumption.
  - intros [p [q [H1 [H2 H3]]]]. exists (x, p, q). split; [reflexivity|]. apply filter_In. split; [exact H1|].
    cbn [fst snd]. rewrite H2, H3. reflexivity.
Qed.
Lemma In_rems : forall cf ps x,
  In x (rems cf ps) <-> exists p q, In (x, p, q) ps /\ hit cf p = true /\ hit cf q = false.
Proof.
  intros cf ps x. unfold rems. rewrite in_map_iff. split.
  - intros [[[y p] q] [E H]]. cbn [fst] in E. subst y. apply filter_In in H as [H1 H2]. cbn [fst snd] in H2.
    apply andb_true_iff in H2 as [H2 H3]. apply negb_true_iff in H3. exists p, q. repeat split; assumption.
  - intros [p [q [H1 [H2 H3]]]]. exists (x, p, q). split; [reflexivity|]. apply filter_In. split; [exact H1|].
    cbn [fst snd]. rewrite H2, H3. reflexivity.
Qed.

Lemma mgrp_gid : forall v e1 ds tl c1 ps g, gid (mgrp v e1 ds tl c1 ps g) = gid g.
Proof.
  intros. unfold mgrp. destruct (lookup (gid g) tl) as [t|]; [destruct (tfilt t)|]; destruct (lookup (gid g) c1); reflexivity.
Qed.

(* the shape of a group after post_modify, given that it is cached with its filter *)
Lemma mgrp_shape : forall v e1 ds tl c ps g,
  lookup (gid g) c = Some (gf g) ->
  (forall t, lookup (gid g) tl = Some t -> tfilt t <> None) ->
  let f' := match lookup (gid g) tl with
            | Some t => match tfilt t with Some f => f | None => gf g end
            | None => gf g end in
  let dm1 := match lookup (gid g) tl with
             | Some t => match tfilt t with Some f => reeval v e1 ds f | None => gdm g end
             | None => gdm g end in
  mgrp v e1 ds tl (map (upd_cache tl) c) ps g = mkG (gid g) f' (diff_ (union_ dm1 (adds f' ps)) (rems f' ps)).
Proof.
  intros v e1 ds tl c ps g HC HT. cbn zeta. unfold mgrp. rewrite lookup_cache1, HC.
  destruct (lookup (gid g) tl) as [t|] eqn:L.
  - destruct (tfilt t) as [f|] eqn:TF; [reflexivity|]. exfalso. exact (HT t eq_refl TF).
  - reflexivity.
Qed.

Lemma modify_wf : forall v s ts s', WF s -> modify v s ts = Some s' -> WF s'.
Proof.
  intros v s ts s' W H. apply modify_some in H as [ND [Hin [Hkind ->]]]. destruct W as [W1 W2 W3 W4 W5].
  assert (forall g, In g (grps s) -> forall t, lookup (gid g) (tlof ts) = Some t -> tfilt t <> None) as HT.
  { intros g Hg t L. apply lookup_tl_Some in L as [Ht E]. specialize (Hkind t Ht). rewrite E in Hkind.
    assert (is_grp s (gid g) = true) as G by (apply is_grp_iff; exists g; split; [exact Hg | reflexivity]).
    rewrite G in Hkind. destruct (tfilt t); [discriminate | discriminate Hkind]. }
  constructor; cbn [ents grps dead cache].
  - rewrite upd_tv_fst. exact W1.
  - rewrite map_map. rewrite (map_ext _ gid (mgrp_gid _ _ _ _ _ _)). exact W2.
  - intros g' Hg. apply in_map_iff in Hg as [g [E Hg]]. subst g'. rewrite mgrp_gid, upd_tv_fst. apply W3. exact Hg.
  - rewrite upd_cache_fst. exact W4.
  - intros g' Hg. apply in_map_iff in Hg as [g [E Hg]]. subst g'.
    rewrite (mgrp_shape v _ _ _ _ _ g (W5 g Hg) (HT g Hg)). cbn [gid gf].
    rewrite lookup_cache1, (W5 g Hg). reflexivity.
Qed.

Lemma modify_exact : forall v s ts s',
  WF s -> DynExact s -> modify v s ts = Some s' -> known_step v s (OModify ts) = false -> DynExact s'.
Proof.
  intros v s ts s' W D H HK. apply modify_some in H as [ND [Hin [Hkind ->]]]. destruct W as [W1 W2 W3 W4 W5].
  cbn [known_step] in HK. apply orb_false_iff in HK as [HK1 HK2].
  assert (forall g, In g (grps s) -> forall t, lookup (gid g) (tlof ts) = Some t -> tfilt t <> None) as HT.
  { intros g Hg t L. apply lookup_tl_Some in L as [Ht E]. specialize (Hkind t Ht). rewrite E in Hkind.
    assert (is_grp s (gid g) = true) as G by (apply is_grp_iff; exists g; split; [exact Hg | reflexivity]).
    rewrite G in Hkind. destruct (tfilt t); [discriminate | discriminate Hkind]. }
  intros g' Hg x. cbn [ents grps] in *. apply in_map_iff in Hg as [g [E Hg]]. subst g'.
  rewrite (mgrp_shape v _ _ _ _ _ g (W5 g Hg) (HT g Hg)). cbn [gdm gf].
  set (tl := tlof ts) in *. set (ps := pairs v tl (ents s)).
  (* uniqueness of the tested pair of an id *)
  assert (forall y p q, In (y, p, q) ps ->
            In (y, p) (ents s) /\ exists t, lookup y tl = Some t /\ is_cand v t = true /\ q = ttv t) as PS
    by (intros y p q Hp; apply In_pairs in Hp; exact Hp).
  rewrite In_diff_, In_union_, In_adds, In_rems.
  destruct (lookup (gid g) tl) as [tg|] eqn:LG.
  - (* the group itself was modified: full re-evaluation with its (new) filter *)
    destruct (tfilt tg) as [f|] eqn:TF; [|exfalso; exact (HT g Hg tg LG TF)].
    assert (forall y, In y (reeval v (map (upd_tv tl) (ents s)) (dead s) f)
                      <-> exists t, In (y, t) (map (upd_tv tl) (ents s)) /\ hit f t = true) as RE.
    { apply reeval_live. intros L. apply (k1_false s ts (gid g) f); [exact (andb_negb_false _ _ HK1 L)|].
      apply newgrps_In. apply lookup_tl_Some in LG as [Htg Eg]. exists tg. repeat split; assumption. }
    rewrite RE. split.
    + intros [[Hre | [p [q [Hp [Hq _]]]]] _]; [exact Hre|].
      destruct (PS x p q Hp) as [He [t [L [_ Eq]]]]. exists q. split; [|exact Hq].
      apply In_ents1. exists p. split; [exact He|]. unfold post_tv. fold tl. rewrite L. exact Eq.
    + intros [t' [H1 H2]]. split; [left; exists t'; split; assumption|].
      intros [p [q [Hp [Hpp Hq]]]]. destruct (PS x p q Hp) as [He [t [L [_ Eq]]]].
      apply In_ents1 in H1 as [t0 [He0 Et]]. unfold post_tv in Et. fold tl in Et. rewrite L in Et.
      subst t' q. rewrite H2 in Hq. discriminate.
  - (* the group was not modified: incremental update against its cached filter *)
    rewrite (D g Hg x). split.
    + intros [[[t0 [He Hh]] | [p [q [Hp [Hq _]]]]] Hnr].
      * exists (post_tv tl x t0). split; [apply In_ents1; exists t0; split; [exact He | reflexivity]|].
        unfold post_tv. destruct (lookup x tl) as [t|] eqn:L; [|exact Hh].
        destruct (is_cand v t) eqn:IC.
        -- destruct (hit (gf g) (ttv t)) eqn:Hpost; [reflexivity|]. exfalso. apply Hnr.
           exists t0, (ttv t). split; [|split; assumption]. apply In_pairs. split; [exact He|].
           exists t. repeat split; assumption.
        -- unfold is_cand in IC. apply orb_false_iff in IC as [DC IS]. apply negb_false_iff in IS.
           pose proof (andb_negb_false _ _ HK2 DC) as K2. unfold k2 in K2.
           apply lookup_tl_Some in L as [Ht Ex].
           pose proof (existsb_false_all _ _ K2 t Ht) as K2t. cbn beta in K2t. rewrite IS in K2t. cbn [andb] in K2t.
           pose proof (existsb_false_all _ _ K2t g Hg) as K2g. cbn beta in K2g.
           assert (mem (gid g) (map tid ts) = false) as NM by (apply mem_nIn, lookup_tl_None; exact LG).
           rewrite NM in K2g. cbn [negb andb] in K2g. apply negb_false_iff, eqb_prop in K2g. rewrite K2g.
           apply mem_In. rewrite Ex. apply (D g Hg x). exists t0. split; assumption.
      * destruct (PS x p q Hp) as [He [t [L [_ Eq]]]]. exists q. split; [|exact Hq].
        apply In_ents1. exists p. split; [exact He|]. unfold post_tv. rewrite L. exact Eq.
    + intros [t' [H1 H2]]. apply In_ents1 in H1 as [t0 [He Et]]. unfold post_tv in Et.
      destruct (lookup x tl) as [t|] eqn:L.
      * subst t'. destruct (is_cand v t) eqn:IC.
        -- assert (In (x, t0, ttv t) ps) as Hp
             by (apply In_pairs; split; [exact He | exists t; repeat split; assumption]).
           split.
           ++ destruct (hit (gf g) t0) eqn:Hpre; [left; exists t0; split; assumption|].
              right. exists t0, (ttv t). repeat split; assumption.
           ++ intros [p [q [Hp' [_ Hq]]]]. destruct (PS x p q Hp') as [_ [t2 [L2 [_ Eq]]]].
              rewrite L in L2. injection L2 as <-. subst q. rewrite H2 in Hq. discriminate.
        -- split.
           ++ left. apply (D g Hg x). apply mem_In.
              unfold is_cand in IC. apply orb_false_iff in IC as [DC IS]. apply negb_false_iff in IS.
              pose proof (andb_negb_false _ _ HK2 DC) as K2. unfold k2 in K2.
              apply lookup_tl_Some in L as [Ht Ex].
              pose proof (existsb_false_all _ _ K2 t Ht) as K2t. cbn beta in K2t. rewrite IS in K2t. cbn [andb] in K2t.
              pose proof (existsb_false_all _ _ K2t g Hg) as K2g. cbn beta in K2g.
              assert (mem (gid g) (map tid ts) = false) as NM by (apply mem_nIn, lookup_tl_None; exact LG).
              rewrite NM in K2g. cbn [negb andb] in K2g. apply negb_false_iff, eqb_prop in K2g.
              rewrite <- Ex, <- K2g. exact H2.
           ++ intros [p [q [Hp' _]]]. destruct (PS x p q Hp') as [_ [t2 [L2 [IC2 _]]]].
              rewrite L in L2. injection L2 as <-. rewrite IC in IC2. discriminate.
      * subst t'. split; [left; exists t0; split; assumption|].
        intros [p [q [Hp' _]]]. destruct (PS x p q Hp') as [_ [t2 [L2 _]]]. rewrite L in L2. discriminate.
Qed.

(* ------------------------------------------------------------------ steps and histories *)
Theorem step_wf : forall v s o s', WF s -> step v s o = Some s' -> WF s'.
Proof.
  intros v s o s' W H. destruct o as [ts | ts | ids]; cbn [step] in H.
  - exact (create_wf v s ts s' W H).
  - exact (modify_wf v s ts s' W H).
  - exact (delete_wf s ids s' W H).
Qed.

Theorem step_inv : forall v s o s',
  Inv s -> step v s o = Some s' -> known_step v s o = false -> Inv s'.
Proof.
  intros v s o s' [W D] H HK. split; [exact (step_wf v s o s' W H)|].
  destruct o as [ts | ts | ids]; cbn [step] in H.
  - exact (create_exact v s ts s' W D H HK).
  - exact (modify_exact v s ts s' W D H HK).
  - exact (delete_exact s ids s' D H).
Qed.

Theorem run_wf : forall v ops s, WF s -> WF (run v s ops).
Proof.
  intros v ops. induction ops as [|o r IH]; intros s W; cbn [run]; [exact W|].
  apply IH. destruct (step v s o) as [s'|] eqn:E; [exact (step_wf v s o s' W E) | exact W].
Qed.

Theorem run_inv : forall v ops s, Inv s -> run_known v s ops = false -> Inv (run v s ops).
Proof.
  intros v ops. induction ops as [|o r IH]; intros s I HK; cbn [run]; [exact I|].
  cbn [run_known] in HK. destruct (step v s o) as [s'|] eqn:E.
  - apply orb_false_iff in HK as [HK1 HK2]. apply IH; [exact (step_inv v s o s' I E HK1) | exact HK2].
  - apply IH; assumption.
Qed.

Lemma fixed_never_known : forall s ops, run_known fixedv s ops = false.
Proof.
  intros s ops. revert s. induction ops as [|o r IH]; intros s; cbn [run_known]; [reflexivity|].
  destruct (step fixedv s o) as [s'|]; [|apply IH]. rewrite IH.
  destruct o; reflexivity.
Qed.

(* ------------------------------------------------------------------ executable predicates *)
Lemma set_eqb_iff : forall a b, set_eqb a b = true <-> (forall x, In x a <-> In x b).
Proof.
  intros a b. unfold set_eqb. rewrite andb_true_iff, !forallb_forall. split.
  - intros [H1 H2] x. split; intros H; apply mem_In; [apply H1 | apply H2]; exact H.
  - intros H. split; intros x Hx; apply mem_In; apply H; exact Hx.
Qed.
Lemma In_matching : forall f es x,
  In x (map fst (filter (fun e : N * tv => hit f (snd e)) es)) <-> exists t, In (x, t) es /\ hit f t = true.
Proof.
  intros f es x. rewrite in_map_iff. split.
  - intros [[y t] [E H]]. cbn [fst] in E. subst y. apply filter_In in H as [H1 H2]. exists t. split; assumption.
  - intros [t [H1 H2]]. exists (x, t). split; [reflexivity | apply filter_In; split; assumption].
Qed.
Lemma exact_grp_iff : forall es g,
  exact_grp es g = true <-> (forall x, In x (gdm g) <-> exists t, In (x, t) es /\ hit (gf g) t = true).
Proof.
  intros es g. unfold exact_grp. rewrite set_eqb_iff. split; intros H x; rewrite (H x); [apply In_matching | symmetry; apply In_matching].
Qed.
Lemma exactb_iff : forall s, exactb s = true <-> DynExact s.
Proof.
  intros s. unfold exactb, DynExact. rewrite forallb_forall. split; intros H g Hg; apply exact_grp_iff; apply H; exact Hg.
Qed.

Lemma leaf_eqb_eq : forall x y, leaf_eqb x y = true -> x = y.
Proof.
  intros [[a b] c] [[d e] f] H. cbn [leaf_eqb] in H. apply andb_true_iff in H as [H H3]. apply andb_true_iff in H as [H1 H2].
  apply N.eqb_eq in H1, H2, H3. subst. reflexivity.
Qed.
Lemma tv_eqb_eq : forall a b, tv_eqb a b = true -> a = b.
Proof.
  induction a as [|x a IH]; intros [|y b] H; cbn [tv_eqb] in H; try discriminate H; [reflexivity|].
  apply andb_true_iff in H as [H1 H2]. apply leaf_eqb_eq in H1. rewrite H1, (IH b H2). reflexivity.
Qed.
Lemma ent_in_In : forall e l, ent_in e l = true -> In e l.
Proof.
  intros [x t] l H. unfold ent_in in H. apply existsb_exists in H as [[y u] [Hd E]]. cbn [fst snd] in E.
  apply andb_true_iff in E as [E1 E2]. apply N.eqb_eq in E1. apply tv_eqb_eq in E2. subst. exact Hd.
Qed.
Lemma ents_eqb_In : forall a b, ents_eqb a b = true -> forall e, In e a <-> In e b.
Proof.
  intros a b H e. unfold ents_eqb in H. apply andb_true_iff in H as [H1 H2].
  rewrite forallb_forall in H1, H2. split; intros He; apply ent_in_In; [apply H1 | apply H2]; exact He.
Qed.

Lemma filt_eqb_sound : forall sm x y, filt_eqb x y = true -> ematch sm x = ematch sm y.
Proof.
  intros sm. induction x as [k a v s | l s IH | l s IH | a | l s IH | g s IH] using filt_ind';
    intros y H; destruct y as [k2 a2 v2 s2 | l2 s2 | l2 s2 | a2 | l2 s2 | g2 s2];
    cbn [filt_eqb] in H; try discriminate H.
  - apply andb_true_iff in H as [H Hv]. apply andb_true_iff in H as [Hk Ha]. apply N.eqb_eq in Ha, Hv. subst.
    destruct k, k2; try discriminate Hk; reflexivity.
  - cbn [ematch]. revert l2 H. induction IH as [|x l Hx HF IHl]; intros [|b q] H; try discriminate H; [reflexivity|].
    apply andb_true_iff in H as [H1 H2]. cbn [existsb]. rewrite (Hx b H1), (IHl q H2). reflexivity.
  - cbn [ematch]. revert l2 H. induction IH as [|x l Hx HF IHl]; intros [|b q] H; try discriminate H; [reflexivity|].
    apply andb_true_iff in H as [H1 H2]. cbn [forallb]. rewrite (Hx b H1), (IHl q H2). reflexivity.
  - reflexivity.
  - reflexivity.
  - cbn [ematch]. rewrite (IH g2 H). reflexivity.
Qed.

(* a dump that equals an exact model state is exact *)
Lemma st_eqb_exact : forall s ob, DynExact s -> st_eqb s ob = true -> obs_exact ob = true.
Proof.
  intros s ob D H. unfold st_eqb in H. apply andb_true_iff in H as [H _]. apply andb_true_iff in H as [HE HG].
  unfold obs_exact. apply forallb_forall. intros og Hog. apply exact_grp_iff. intros x.
  unfold grps_eqb in HG. apply andb_true_iff in HG as [_ HG2]. rewrite forallb_forall in HG2.
  specialize (HG2 og Hog). unfold grp_in in HG2. apply existsb_exists in HG2 as [g [Hg E]].
  apply andb_true_iff in E as [E E3]. apply andb_true_iff in E as [_ E2].
  pose proof (proj1 (set_eqb_iff _ _) E3) as DM. rewrite <- (DM x), (D g Hg x).
  split; intros [t [H1 H2]]; exists t; (split; [apply (ents_eqb_In _ _ HE); exact H1|]);
    unfold hit in *; [rewrite <- (filt_eqb_sound (sem t) _ _ E2) | rewrite (filt_eqb_sound (sem t) _ _ E2)]; exact H2.
Qed.

Lemma NoDup_app_l : forall {A} (a b : list A), NoDup (a ++ b) -> NoDup a.
Proof.
  intros A a b. induction a as [|x r IH]; cbn [app]; intros H; [constructor|].
  inversion H as [|? ? Hn H']; subst. constructor; [|apply IH; exact H'].
  intros Hx. apply Hn. apply in_app_iff. left. exact Hx.
Qed.

Lemma wfb_st_of : forall o, wfb (st_of o) = true -> WF (st_of o).
Proof.
  intros o H. unfold wfb in H. repeat (apply andb_true_iff in H as [H ?]).
  assert (NoDup (map gid (o_grps o))) as NG by (apply nodupb_NoDup; assumption).
  constructor; cbn [st_of ents grps dead cache] in *.
  - apply nodupb_NoDup in H. unfold ids_of in H. cbn [ents dead] in H. apply NoDup_app_l in H. exact H.
  - exact NG.
  - intros g Hg. apply mem_In. match goal with F : forallb _ (o_grps o) = true |- _ => exact (proj1 (forallb_forall _ _) F g Hg) end.
  - rewrite map_map. cbn [fst]. exact NG.
  - intros g Hg. apply lookup_In; [rewrite map_map; cbn [fst]; exact NG|].
    apply in_map_iff. exists g. split; [reflexivity | exact Hg].
Qed.

Lemma replay_sound : forall v steps s,
  Inv s -> replay v s steps = true -> run_known v s (map fst steps) = false ->
  forallb (fun p => obs_exact (snd p)) steps = true.
Proof.
  intros v. induction steps as [|[o ob] r IH]; intros s I HR HK; [reflexivity|].
  cbn [replay] in HR. cbn [map fst run_known] in HK. cbn [forallb snd].
  destruct (step v s o) as [s'|] eqn:E.
  - apply andb_true_iff in HR as [HR HR3]. apply andb_true_iff in HR as [_ HR2].
    apply orb_false_iff in HK as [HK1 HK2]. pose proof (step_inv v s o s' I E HK1) as I'.
    rewrite (st_eqb_exact s' ob (proj2 I') HR2). cbn [andb]. exact (IH s' I' HR3 HK2).
  - apply andb_true_iff in HR as [HR HR3]. apply andb_true_iff in HR as [_ HR2].
    rewrite (st_eqb_exact s ob (proj2 I) HR2). cbn [andb]. exact (IH s I HR3 HK).
Qed.

Theorem agree_pcheck : forall c,
  agree c = true ->
  match c with CHist init _ => obs_exact init = true end -> pcheck c = true.
Proof.
  intros [init steps] HA HI. cbn [agree] in HA. cbn [pcheck].
  apply andb_true_iff in HA as [HW HR]. rewrite HI. cbn [andb].
  apply (replay_sound tree steps (st_of init)); [|exact HR|apply fixed_never_known].
  split; [apply wfb_st_of; exact HW|]. apply exactb_iff. exact HI.
Qed.

(* pcheck means what it says *)
Theorem pcheck_sound : forall init steps,
  pcheck (CHist init steps) = true ->
  DynExact (st_of init) /\ forall o ob, In (o, ob) steps -> DynExact (st_of ob).
Proof.
  intros init steps H. cbn [pcheck] in H. apply andb_true_iff in H as [H1 H2]. split.
  - apply exactb_iff. exact H1.
  - intros o ob Hin. apply exactb_iff. rewrite forallb_forall in H2. exact (H2 (o, ob) Hin).
Qed.

(* ------------------------------------------------------------------ membership follows the filter *)
(* Whatever the state was (even a tampered or stale dynmember), an operation that modifies a
   dynamic group leaves it with exactly the live entries that satisfy its (new) filter, unless a
   recycled entry satisfies that filter in the pinned tree (class K1). *)
Lemma modify_reeval_exact : forall v s ts s' t f,
  WF s -> modify v s ts = Some s' -> In t ts -> tfilt t = Some f ->
  (live_only v = false -> k1 s ts = false) ->
  exists g', In g' (grps s') /\ gid g' = tid t /\ gf g' = f /\
    forall x, In x (gdm g') <-> exists u, In (x, u) (ents s') /\ hit f u = true.
Proof.
  intros v s ts s' t f W H Ht TF HK1. apply modify_some in H as [ND [Hin [Hkind ->]]]. destruct W as [W1 W2 W3 W4 W5].
  pose proof (Hkind t Ht) as G. rewrite TF in G. cbn [is_some] in G. symmetry in G. apply is_grp_iff in G as [g [Hg Eg]].
  pose proof (lookup_tl_In ts t ND Ht) as LG. rewrite <- Eg in LG.
  assert (forall t0, lookup (gid g) (tlof ts) = Some t0 -> tfilt t0 <> None) as HT
    by (intros t0 L; rewrite LG in L; injection L as <-; rewrite TF; discriminate).
  eexists. split; [cbn [grps]; apply in_map; exact Hg|].
  rewrite (mgrp_shape v _ _ _ _ _ g (W5 g Hg) HT). cbn [gid gf gdm ents]. rewrite LG, TF.
  split; [exact Eg|]. split; [reflexivity|]. intros x.
  set (tl := tlof ts) in *.
  assert (forall y, In y (reeval v (map (upd_tv tl) (ents s)) (dead s) f)
                    <-> exists u, In (y, u) (map (upd_tv tl) (ents s)) /\ hit f u = true) as RE.
  { apply reeval_live. intros L. apply (k1_false s ts (tid t) f); [exact (HK1 L)|].
    apply newgrps_In. exists t. repeat split; assumption. }
  rewrite In_diff_, In_union_, In_adds, In_rems, RE. split.
  - intros [[Hre | [p [q [Hp [Hq _]]]]] _]; [exact Hre|].
    apply In_pairs in Hp as [He [t1 [L [_ Eq]]]]. exists q. split; [|exact Hq].
    apply In_ents1. exists p. split; [exact He|]. unfold post_tv. rewrite L. exact Eq.
  - intros [u [H1 H2]]. split; [left; exists u; split; assumption|].
    intros [p [q [Hp [Hpp Hq]]]]. apply In_pairs in Hp as [He [t1 [L [_ Eq]]]].
    apply In_ents1 in H1 as [t0 [He0 Et]]. unfold post_tv in Et. rewrite L in Et.
    subst u q. rewrite H2 in Hq. discriminate.
Qed.

(* deleted entries leave every dynamic group, in every state *)
Lemma delete_leaves : forall s ids s' g' x,
  delete s ids = Some s' -> In g' (grps s') -> In x ids -> ~ In x (gdm g').
Proof.
  intros s ids s' g' x H Hg Hx. apply delete_some in H. subst s'. cbn [grps] in Hg.
  apply in_map_iff in Hg as [g [E _]]. subst g'. cbn [dgrp gdm]. rewrite In_diff_. intros [_ Hn]. exact (Hn Hx).
Qed.

(* ------------------------------------------------------------------ witnesses of the refutation *)
Definition w_red : leaf := (0, 2, 1).                         (* description = red *)
Definition w_fred : filt := FLeaf KEq 2 1 None.
Definition w_s0 : st := mkS [] [] [] [].
(* K1: group 100 (description=red); candidate 1 (red); delete 1; touch group 100 *)
Definition w_ops_k1 : list op :=
  [OCreate [mkT 100 [] (Some w_fred)]; OCreate [mkT 1 [w_red] None]; ODelete [1]; OModify [mkT 100 [] (Some w_fred)]].
(* K2: group 100 (description=red); then a second dynamic group 101 whose own description is red *)
Definition w_ops_k2 : list op :=
  [OCreate [mkT 100 [] (Some w_fred)]; OCreate [mkT 101 [w_red] (Some w_fred)]].

Lemma inv_s0 : Inv w_s0.
Proof.
  split; [constructor; cbn; try constructor; intros g []| intros g []].
Qed.

Lemma full_refuted : ~ (forall s ops, Inv s -> DynExact (run cur s ops)).
Proof.
  intros H. specialize (H w_s0 w_ops_k1 inv_s0). apply exactb_iff in H. vm_compute in H. discriminate.
Qed.

Lemma recfixed_refuted : ~ (forall s ops, Inv s -> DynExact (run recfixed s ops)).
Proof.
  intros H. specialize (H w_s0 w_ops_k2 inv_s0). apply exactb_iff in H. vm_compute in H. discriminate.
Qed.
