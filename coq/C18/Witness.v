(* KV.C18.Witness — non-vacuity and refutation witnesses (vm_compute). *)
From Coq Require Import List NArith Bool.
Import ListNotations.
Require Import KV.Base.Filter KV.C18.Model KV.C18.Proofs.
Open Scope N_scope.

Definition blue : leaf := (0, 2, 3).
Definition fblue : filt := FLeaf KEq 2 3 None.
Definition isgrp : leaf := (0, 0, 1).
(* NOT(description=red) AND class=group *)
Definition fnotred : filt := FAnd [FAndNot w_fred None; FLeaf KEq 0 1 None] None.

(* a history outside the known classes in which membership changes through candidate creates,
   candidate edits in both directions, a filter change, tampering and a delete *)
Definition ops_ok : list op :=
  [ OCreate [mkT 100 [] (Some w_fred)];
    OCreate [mkT 1 [w_red; isgrp] None; mkT 2 [blue; isgrp] None];
    OModify [mkT 2 [w_red; isgrp] None];
    OModify [mkT 1 [blue; isgrp] None; mkT 2 [isgrp] None];
    OModify [mkT 100 [] (Some fnotred)];
    OCreate [mkT 3 [w_red; isgrp] None; mkT 4 [isgrp] None];
    ODelete [2];
    OCreate [mkT 1 [] None]                      (* duplicate uuid: fails, rolled back *) ].

Example C18_witness_history :
  map gdm (grps (run tree w_s0 ops_ok)) = [[1; 4]] /\
  exactb (run tree w_s0 ops_ok) = true /\
  run_known cur w_s0 ops_ok = false.
Proof. vm_compute. repeat split. Qed.

Example C18_witness_inv_s0 : Inv w_s0.
Proof. exact inv_s0. Qed.

(* every intermediate state of that history: membership really moves *)
Example C18_witness_trace :
  map (fun n => map gdm (grps (run tree w_s0 (firstn n ops_ok)))) [1; 2; 3; 4; 5; 6; 7]%nat
  = [[[]]; [[1]]; [[1; 2]]; [[]]; [[1; 2]]; [[1; 2; 4]]; [[1; 4]]].
Proof. vm_compute. reflexivity. Qed.

(* refutation witnesses: both classes broke exactness in the tree before the fix ... *)
Example C18_witness_k1_refuted :
  exactb (run cur w_s0 w_ops_k1) = false /\ run_known cur w_s0 w_ops_k1 = true
  /\ map gdm (grps (run cur w_s0 w_ops_k1)) = [[1]] /\ map fst (ents (run cur w_s0 w_ops_k1)) = [100].
Proof. vm_compute. repeat split. Qed.
Example C18_witness_k2_refuted :
  exactb (run cur w_s0 w_ops_k2) = false /\ run_known cur w_s0 w_ops_k2 = true
  /\ map gdm (grps (run cur w_s0 w_ops_k2)) = [[]; [101]].
Proof. vm_compute. repeat split. Qed.
Example C18_witness_k2_recfixed_refuted :
  exactb (run recfixed w_s0 w_ops_k2) = false /\ exactb (run recfixed w_s0 w_ops_k1) = true.
Proof. vm_compute. repeat split. Qed.
(* ... and neither does in the tree *)
Example C18_witness_fixed :
  exactb (run tree w_s0 w_ops_k1) = true /\ exactb (run tree w_s0 w_ops_k2) = true
  /\ map gdm (grps (run tree w_s0 w_ops_k2)) = [[101]; [101]] /\ map gdm (grps (run tree w_s0 w_ops_k1)) = [[]].
Proof. vm_compute. repeat split. Qed.

(* the filter-change theorem's hypotheses are met by step 5 of ops_ok *)
Example C18_witness_filter_change :
  let s := run tree w_s0 (firstn 4 ops_ok) in
  is_some (modify tree s [mkT 100 [] (Some fnotred)]) = true /\ wfb s = true.
Proof. vm_compute. split; reflexivity. Qed.

(* a recorded case in the harness format on which model and dump agree *)
Definition w_case : case :=
  CHist (mkO true [(0, [isgrp])] [] [])
    [ (OCreate [mkT 100 [isgrp] (Some w_fred)], mkO true [(0, [isgrp]); (100, [isgrp])] [mkG 100 w_fred []] []);
      (OCreate [mkT 1 [w_red] None], mkO true [(0, [isgrp]); (1, [w_red]); (100, [isgrp])] [mkG 100 w_fred [1]] []);
      (ODelete [1], mkO true [(0, [isgrp]); (100, [isgrp])] [mkG 100 w_fred []] [(1, [w_red])]) ].
Example C18_witness_agree : agree w_case = true /\ pcheck w_case = true.
Proof. vm_compute. repeat split. Qed.
