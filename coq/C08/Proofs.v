(* KV.C08.Proofs — lemmas and proofs for "replicas converge". *)
From Coq Require Import List NArith Bool Lia PeanoNat Arith.
Import ListNotations.
Require Import KV.C08.Model.
Open Scope N_scope.

Arguments N.ltb : simpl never.
Arguments N.leb : simpl never.
Arguments N.eqb : simpl never.

(* ------------------------------------------------------------------ change ids: a strict total order *)
Lemma cid_eqb_eq : forall a b, cid_eqb a b = true <-> a = b.
Proof.
  intros [a1 a2] [b1 b2]; unfold cid_eqb; cbn [fst snd].
  rewrite andb_true_iff, !N.eqb_eq. split; [intros [-> ->]; reflexivity | intros E; inversion E; auto].
Qed.

Lemma cid_eqb_refl : forall a, cid_eqb a a = true.
Proof. intros; apply cid_eqb_eq; reflexivity. Qed.

Lemma cid_ltb_spec : forall a b,
  cid_ltb a b = true <-> (fst a < fst b \/ (fst a = fst b /\ snd a < snd b)).
Proof.
  intros [a1 a2] [b1 b2]; unfold cid_ltb; cbn [fst snd].
  rewrite orb_true_iff, andb_true_iff, !N.ltb_lt, N.eqb_eq. tauto.
Qed.

Lemma cid_ltb_false : forall a b,
  cid_ltb a b = false <-> (fst b < fst a \/ (fst a = fst b /\ snd b <= snd a)).
Proof.
  intros a b. destruct (cid_ltb a b) eqn:E.
  - apply cid_ltb_spec in E. split; [discriminate | lia].
  - split; [intros _ | reflexivity].
    assert (H : ~ (fst a < fst b \/ (fst a = fst b /\ snd a < snd b))).
    { intro H; apply cid_ltb_spec in H; congruence. }
    lia.
Qed.

Lemma cid_ltb_irrefl : forall a, cid_ltb a a = false.
Proof. intros; apply cid_ltb_false; lia. Qed.

Lemma cid_ltb_trans : forall a b c, cid_ltb a b = true -> cid_ltb b c = true -> cid_ltb a c = true.
Proof. intros a b c H1 H2. apply cid_ltb_spec in H1, H2. apply cid_ltb_spec. lia. Qed.

Lemma cid_ltb_asym : forall a b, cid_ltb a b = true -> cid_ltb b a = false.
Proof. intros a b H. apply cid_ltb_spec in H. apply cid_ltb_false. lia. Qed.

Lemma cid_total : forall a b, cid_ltb a b = false -> cid_ltb b a = false -> a = b.
Proof.
  intros [a1 a2] [b1 b2] H1 H2. apply cid_ltb_false in H1, H2. cbn [fst snd] in *.
  f_equal; lia.
Qed.

(* not-less is transitive, and mixes with less *)
Lemma cid_nlt_trans : forall a b c, cid_ltb a b = false -> cid_ltb b c = false -> cid_ltb a c = false.
Proof. intros a b c H1 H2. apply cid_ltb_false in H1, H2. apply cid_ltb_false. lia. Qed.

Lemma cid_lt_nlt : forall a b c, cid_ltb a b = true -> cid_ltb c b = false -> cid_ltb a c = true.
Proof. intros a b c H1 H2. apply cid_ltb_spec in H1. apply cid_ltb_false in H2. apply cid_ltb_spec. lia. Qed.

Lemma cid_nlt_lt : forall a b c, cid_ltb b a = false -> cid_ltb b c = true -> cid_ltb a c = true.
Proof. intros a b c H1 H2. apply cid_ltb_spec in H2. apply cid_ltb_false in H1. apply cid_ltb_spec. lia. Qed.

Ltac cid_cases :=
  repeat match goal with
  | |- context [cid_ltb ?a ?b] => let E := fresh "E" in destruct (cid_ltb a b) eqn:E
  | H : context [if cid_ltb ?a ?b then _ else _] |- _ => let E := fresh "E" in destruct (cid_ltb a b) eqn:E
  end.

(* ------------------------------------------------------------------ one attribute *)
Definition ccid (x : cell) : option cid := match x with Some (c, _) => Some c | None => None end.

(* two cells are compatible when an equal change id means an equal cell ("one change id names one write") *)
Definition ccompat (x y : cell) : Prop := ccid x = ccid y -> x = y.

Lemma cmerge_idem : forall x, cmerge x x = x.
Proof. intros [[c v]|]; cbn; [rewrite cid_ltb_irrefl|]; reflexivity. Qed.

Lemma cmerge_assoc : forall x y z, cmerge x (cmerge y z) = cmerge (cmerge x y) z.
Proof.
  intros [[a va]|] [[b vb]|] [[c vc]|]; cbn; try reflexivity.
  - destruct (cid_ltb c b) eqn:E1; destruct (cid_ltb b a) eqn:E2; cbn; rewrite ?E1, ?E2; try reflexivity.
    + rewrite (cid_ltb_trans _ _ _ E1 E2). reflexivity.
    + rewrite (cid_nlt_trans _ _ _ E1 E2). reflexivity.
  - destruct (cid_ltb b a); reflexivity.
Qed.

Lemma cmerge_comm : forall x y, ccompat x y -> cmerge x y = cmerge y x.
Proof.
  intros [[a va]|] [[b vb]|] H; cbn; try reflexivity.
  destruct (cid_ltb b a) eqn:E1; destruct (cid_ltb a b) eqn:E2; try reflexivity.
  - rewrite (cid_ltb_asym _ _ E1) in E2. discriminate.
  - symmetry. apply H. cbn. f_equal. apply cid_total; assumption.
Qed.

(* the merged cell is one of the two *)
Lemma cmerge_either : forall x y, cmerge x y = x \/ cmerge x y = y.
Proof. intros [[a va]|] [[b vb]|]; cbn; auto. destruct (cid_ltb b a); auto. Qed.

(* ------------------------------------------------------------------ attribute maps *)
Lemma zipw_nil_r : forall l, zipw l [] = l.
Proof. destruct l; reflexivity. Qed.

Lemma zipw_idem : forall l, zipw l l = l.
Proof. induction l as [|x l IH]; cbn; [reflexivity | rewrite cmerge_idem, IH; reflexivity]. Qed.

Lemma zipw_assoc : forall l m n, zipw l (zipw m n) = zipw (zipw l m) n.
Proof.
  induction l as [|x l IH]; intros m n; [reflexivity|].
  destruct m as [|y m]; [reflexivity|].
  destruct n as [|z n]; [reflexivity|].
  cbn. rewrite cmerge_assoc, IH. reflexivity.
Qed.

Definition cell_at' (i : nat) (m : amap) : cell := nth i m None.

(* attribute-wise compatibility of two maps (positions beyond the end hold no record) *)
Definition mcompat (l m : amap) : Prop := forall i, ccompat (nth i l None) (nth i m None).

Lemma mcompat_tail : forall x l y m, mcompat (x :: l) (y :: m) -> ccompat x y /\ mcompat l m.
Proof. intros x l y m H. split; [exact (H O) | intro i; exact (H (S i))]. Qed.

Lemma zipw_comm : forall l m, mcompat l m -> zipw l m = zipw m l.
Proof.
  induction l as [|x l IH]; intros m H.
  - cbn. symmetry. apply zipw_nil_r.
  - destruct m as [|y m]; [reflexivity|].
    apply mcompat_tail in H. destruct H as [Hc Hm]. cbn.
    rewrite (cmerge_comm _ _ Hc), (IH _ Hm). reflexivity.
Qed.

Lemma nth_zipw : forall l m i, nth i (zipw l m) None = cmerge (nth i l None) (nth i m None).
Proof.
  induction l as [|x l IH]; intros m i.
  - cbn [zipw]. destruct i; cbn; destruct (nth _ m None) as [[? ?]|]; reflexivity.
  - destruct m as [|y m].
    + cbn [zipw]. destruct (nth i (x :: l) None) as [[? ?]|] eqn:E; destruct i; cbn in *; rewrite ?E; reflexivity.
    + destruct i; cbn; [reflexivity | apply IH].
Qed.

(* ------------------------------------------------------------------ entries *)
Lemma cid_eqb_false : forall a b, cid_eqb a b = false -> fst a <> fst b \/ snd a <> snd b.
Proof.
  intros [a1 a2] [b1 b2]; unfold cid_eqb; cbn [fst snd]. rewrite andb_false_iff, !N.eqb_neq. tauto.
Qed.

Ltac cid_norm :=
  repeat match goal with
  | H : cid_ltb _ _ = true |- _ => apply cid_ltb_spec in H
  | H : cid_ltb _ _ = false |- _ => apply cid_ltb_false in H
  | H : cid_eqb _ _ = true |- _ => apply cid_eqb_eq in H
  | H : cid_eqb _ _ = false |- _ => apply cid_eqb_false in H
  end.

Ltac cid_split :=
  repeat match goal with
  | |- context [cid_eqb ?a ?b] => let E := fresh "E" in destruct (cid_eqb a b) eqn:E; cbn [negb]
  | |- context [cid_ltb ?a ?b] => let E := fresh "E" in destruct (cid_ltb a b) eqn:E; cbn [negb]
  end.

Lemma cid_pair_eq : forall a b : cid, fst a = fst b -> snd a = snd b -> a = b.
Proof. intros [? ?] [? ?]; cbn; intros -> ->; reflexivity. Qed.

Ltac cid_done :=
  cid_norm;
  repeat match goal with H : @eq cid _ _ |- _ => first [subst | rewrite H in * ] end;
  try (exfalso; lia);
  try reflexivity.

Lemma ejoin_idem : forall e, ejoin e e = e.
Proof.
  intros [a m|a]; unfold ejoin, add_conflict, merge_state.
  - rewrite cid_eqb_refl. cbn. rewrite zipw_idem. reflexivity.
  - rewrite cid_ltb_irrefl. reflexivity.
Qed.

Lemma ejoin_assoc : forall x y z, ejoin x (ejoin y z) = ejoin (ejoin x y) z.
Proof.
  intros [a m|a] [b n|b] [c k|c];
    unfold ejoin, add_conflict, resolve, merge_state, at_of;
    cid_split; cbn [negb]; unfold ejoin, add_conflict, resolve, merge_state, at_of;
    cid_split; cbn [negb];
    try reflexivity;
    try (rewrite zipw_assoc; reflexivity);
    try (cid_norm; repeat match goal with H : @eq cid _ _ |- _ => subst end; exfalso;
         repeat match goal with H : cid_ltb _ _ = _ |- _ => revert H end; intros; lia);
    try (cid_norm; f_equal; apply cid_pair_eq; lia).
Qed.

(* "one change id names one write": a table of what was written to attribute i at change id c; an entry is
   consistent with the table when every attribute it records as changed at c holds what was written at c *)
Definition wtab := nat -> cid -> option N.
Definition cwf (w : wtab) (i : nat) (x : cell) : Prop :=
  match x with Some (c, v) => w i c = v | None => True end.
Definition mwf (w : wtab) (m : amap) : Prop := forall i, cwf w i (nth i m None).
Definition ewf (w : wtab) (e : est) : Prop :=
  match e with Live _ m => mwf w m | Tomb _ => True end.

Lemma mwf_compat : forall w l m, mwf w l -> mwf w m -> mcompat l m.
Proof.
  intros w l m Hl Hm i Hc. specialize (Hl i). specialize (Hm i).
  destruct (nth i l None) as [[c v]|], (nth i m None) as [[c' v']|]; cbn in *; try discriminate; [|reflexivity].
  inversion Hc; subst. reflexivity.
Qed.

Lemma mwf_zipw : forall w l m, mwf w l -> mwf w m -> mwf w (zipw l m).
Proof.
  intros w l m Hl Hm i. rewrite nth_zipw.
  destruct (cmerge_either (nth i l None) (nth i m None)) as [-> | ->]; auto.
Qed.

Lemma ewf_ejoin : forall w x y, ewf w x -> ewf w y -> ewf w (ejoin x y).
Proof.
  intros w [a m|a] [b n|b] Hx Hy; unfold ejoin, add_conflict, resolve, merge_state, at_of;
    cid_split; cbn; auto using mwf_zipw.
Qed.

Lemma ejoin_comm : forall w x y, ewf w x -> ewf w y -> ejoin x y = ejoin y x.
Proof.
  intros w [a m|a] [b n|b] Hx Hy; unfold ejoin, add_conflict, resolve, merge_state, at_of.
  - destruct (cid_eqb a b) eqn:E.
    + apply cid_eqb_eq in E; subst. rewrite cid_eqb_refl. cbn [negb].
      rewrite (zipw_comm m n); [reflexivity | eapply mwf_compat; eauto].
    + assert (E' : cid_eqb b a = false).
      { destruct (cid_eqb b a) eqn:E'; [|reflexivity]. apply cid_eqb_eq in E'; subst. rewrite cid_eqb_refl in E. discriminate. }
      rewrite E'. cbn [negb]. cid_split; try reflexivity.
      * cid_norm. exfalso. lia.
      * cid_norm. exfalso. lia.
  - reflexivity.
  - reflexivity.
  - cid_split; try reflexivity.
    + cid_norm. exfalso. lia.
    + cid_norm. f_equal. apply cid_pair_eq; lia.
Qed.

(* ------------------------------------------------------------------ optional entries (one uuid on one replica) *)
Definition owf (w : wtab) (o : option est) : Prop := match o with Some e => ewf w e | None => True end.

Lemma ojoin_idem : forall x, ojoin x x = x.
Proof. intros [e|]; cbn; [rewrite ejoin_idem|]; reflexivity. Qed.

Lemma ojoin_assoc : forall x y z, ojoin x (ojoin y z) = ojoin (ojoin x y) z.
Proof. intros [x|] [y|] [z|]; cbn; try reflexivity. rewrite ejoin_assoc. reflexivity. Qed.

Lemma ojoin_comm : forall w x y, owf w x -> owf w y -> ojoin x y = ojoin y x.
Proof. intros w [x|] [y|] Hx Hy; cbn; try reflexivity. f_equal. eapply ejoin_comm; eauto. Qed.

Lemma owf_ojoin : forall w x y, owf w x -> owf w y -> owf w (ojoin x y).
Proof. intros w [x|] [y|] Hx Hy; cbn in *; auto using ewf_ejoin. Qed.

(* ------------------------------------------------------------------ list update *)
Lemma length_setn : forall {A} n (x : A) s, length (setn n x s) = length s.
Proof. intros A n x s; revert n; induction s as [|h t IH]; intros [|n]; cbn; auto. Qed.

Lemma nth_setn_eq : forall {A} n (x d : A) s, (n < length s)%nat -> nth n (setn n x s) d = x.
Proof.
  intros A n x d s; revert n; induction s as [|h t IH]; intros [|n] H; cbn in *; try lia; auto.
  apply IH. lia.
Qed.

Lemma nth_setn_neq : forall {A} n m (x d : A) s, n <> m -> nth m (setn n x s) d = nth m s d.
Proof.
  intros A n m x d s; revert n m; induction s as [|h t IH]; intros [|n] [|m] H; cbn; auto; try congruence.
Qed.

(* ------------------------------------------------------------------ the abstract convergence argument *)
Section Converge.
  Variable A : Type.
  Variable join : A -> A -> A.     (* join incoming database-side *)
  Variable P : A -> Prop.          (* consistency with the write table *)
  Variable dflt : A.
  Hypothesis join_idem : forall x, join x x = x.
  Hypothesis join_assoc : forall x y z, join x (join y z) = join (join x y) z.
  Hypothesis join_comm : forall x y, P x -> P y -> join x y = join y x.
  Hypothesis P_join : forall x y, P x -> P y -> P (join x y).

  (* y already contains x: merging x into y changes nothing *)
  Definition le (x y : A) : Prop := join x y = y.

  Lemma le_refl : forall x, le x x.
  Proof. intro; apply join_idem. Qed.
  Lemma le_trans : forall x y z, le x y -> le y z -> le x z.
  Proof. unfold le; intros x y z H1 H2. rewrite <- H2, join_assoc, H1. reflexivity. Qed.
  Lemma le_join_l : forall x y, le x (join x y).
  Proof. unfold le; intros. rewrite join_assoc, join_idem. reflexivity. Qed.
  Lemma le_join_r : forall x y, P x -> P y -> le y (join x y).
  Proof.
    unfold le; intros x y Hx Hy. rewrite join_assoc, (join_comm y x Hy Hx), <- join_assoc, join_idem. reflexivity.
  Qed.
  Lemma le_lub : forall x y z, le x z -> le y z -> le (join x y) z.
  Proof. unfold le; intros x y z H1 H2. rewrite <- join_assoc, H2, H1. reflexivity. Qed.
  Lemma le_antisym : forall x y, P x -> P y -> le x y -> le y x -> x = y.
  Proof.
    unfold le; intros x y Hx Hy H1 H2.
    transitivity (join x y); [rewrite (join_comm x y Hx Hy); symmetry; exact H2 | exact H1].
  Qed.

  Definition aget (s : list A) (r : N) : A := nth (N.to_nat r) s dflt.
  Definition astep (s : list A) (o : rop) : list A :=
    match o with
    | RRepl to from => setn (N.to_nat to) (join (aget s from) (aget s to)) s
    | RRefresh to from => setn (N.to_nat to) (aget s from) s
    end.
  Definition arun (s : list A) (l : list rop) : list A := fold_left astep l s.

  Variable s0 : list A.
  Hypothesis P_s0 : forall r, (r < length s0)%nat -> P (nth r s0 dflt).

  Definition ub (U : A) : Prop := forall i, (i < length s0)%nat -> le (nth i s0 dflt) U.

  Record Inv (s : list A) (k : kmap) : Prop := {
    inv_len_s : length s = length s0;
    inv_len_k : length k = length s0;
    inv_P : forall r, (r < length s0)%nat -> P (nth r s dflt);
    inv_knows : forall r i, (r < length s0)%nat -> memN i (nth r k []) = true ->
                  le (nth (N.to_nat i) s0 dflt) (nth r s dflt);
    inv_below : forall r U, (r < length s0)%nat -> ub U -> P U -> le (nth r s dflt) U }.

  Lemma memN_app : forall x a b, memN x (a ++ b) = memN x a || memN x b.
  Proof. intros; unfold memN; apply existsb_app. Qed.

  Lemma nth_kinit : forall n r, (r < n)%nat -> nth r (kinit n) [] = [N.of_nat r].
  Proof.
    intros n r H. unfold kinit.
    rewrite (nth_indep _ [] ((fun i => [N.of_nat i]) O)) by (rewrite map_length, seq_length; exact H).
    rewrite (map_nth (fun i => [N.of_nat i])). rewrite seq_nth by assumption. reflexivity.
  Qed.

  Lemma Inv_init : Inv s0 (kinit (length s0)).
  Proof.
    constructor; auto.
    - unfold kinit. rewrite map_length, seq_length. reflexivity.
    - intros r i Hr Hm. rewrite nth_kinit in Hm by assumption. cbn in Hm.
      rewrite orb_false_r in Hm. apply N.eqb_eq in Hm. subst. rewrite Nat2N.id. apply le_refl.
  Qed.

  Lemma Inv_step : forall s k o, rop_ok (length s0) o = true -> Inv s k -> Inv (astep s o) (kstep k o).
  Proof.
    intros s k o Hok [Ls Lk HP HK HB].
    assert (Hidx : forall x : N, (x <? N.of_nat (length s0)) = true -> (N.to_nat x < length s0)%nat).
    { intros x Hx. apply N.ltb_lt in Hx. lia. }
    destruct o as [to from | to from]; cbn [rop_ok] in Hok; apply andb_true_iff in Hok; destruct Hok as [Ht Hf];
      apply Hidx in Ht; apply Hidx in Hf; unfold astep, kstep, aget, getk.
    - (* incremental *)
      constructor; rewrite ?length_setn; auto.
      + intros r Hr. destruct (Nat.eq_dec (N.to_nat to) r) as [E|E].
        * subst r. rewrite nth_setn_eq by lia. apply P_join; apply HP; assumption.
        * rewrite nth_setn_neq by assumption. apply HP; assumption.
      + intros r i Hr Hm. destruct (Nat.eq_dec (N.to_nat to) r) as [E|E].
        * subst r. rewrite nth_setn_eq in Hm by lia. rewrite nth_setn_eq by lia.
          rewrite memN_app in Hm. apply orb_true_iff in Hm. destruct Hm as [Hm|Hm].
          -- eapply le_trans; [apply (HK _ _ Hf Hm) | apply le_join_l].
          -- eapply le_trans; [apply (HK _ _ Ht Hm) | apply le_join_r; apply HP; assumption].
        * rewrite nth_setn_neq in Hm by assumption. rewrite nth_setn_neq by assumption. apply HK; assumption.
      + intros r U Hr HU PU. destruct (Nat.eq_dec (N.to_nat to) r) as [E|E].
        * subst r. rewrite nth_setn_eq by lia. apply le_lub; apply HB; assumption.
        * rewrite nth_setn_neq by assumption. apply HB; assumption.
    - (* refresh *)
      constructor; rewrite ?length_setn; auto.
      + intros r Hr. destruct (Nat.eq_dec (N.to_nat to) r) as [E|E].
        * subst r. rewrite nth_setn_eq by lia. apply HP; assumption.
        * rewrite nth_setn_neq by assumption. apply HP; assumption.
      + intros r i Hr Hm. destruct (Nat.eq_dec (N.to_nat to) r) as [E|E].
        * subst r. rewrite nth_setn_eq in Hm by lia. rewrite nth_setn_eq by lia. apply HK; assumption.
        * rewrite nth_setn_neq in Hm by assumption. rewrite nth_setn_neq by assumption. apply HK; assumption.
      + intros r U Hr HU PU. destruct (Nat.eq_dec (N.to_nat to) r) as [E|E].
        * subst r. rewrite nth_setn_eq by lia. apply HB; assumption.
        * rewrite nth_setn_neq by assumption. apply HB; assumption.
  Qed.

  Lemma Inv_run : forall l s k, forallb (rop_ok (length s0)) l = true -> Inv s k ->
    Inv (fold_left astep l s) (fold_left kstep l k).
  Proof.
    induction l as [|o l IH]; intros s k Hok HI; [exact HI|].
    cbn in Hok. apply andb_true_iff in Hok. destruct Hok as [H1 H2].
    cbn [fold_left]. apply IH; [assumption | apply Inv_step; assumption].
  Qed.

  (* any schedule of incremental replications and refreshes after which every replica has (transitively)
     heard of every replica leaves all replicas with the same state *)
  Theorem converge_abstract : forall l r r',
    forallb (rop_ok (length s0)) l = true -> complete (length s0) l = true ->
    (r < length s0)%nat -> (r' < length s0)%nat ->
    nth r (arun s0 l) dflt = nth r' (arun s0 l) dflt.
  Proof.
    intros l r r' Hok Hc Hr Hr'.
    destruct (Inv_run l s0 (kinit (length s0)) Hok Inv_init) as [Ls Lk HP HK HB].
    fold (arun s0 l) in *. fold (krun (length s0) l) in *.
    assert (Hub : forall q, (q < length s0)%nat -> ub (nth q (arun s0 l) dflt)).
    { intros q Hq i Hi. unfold complete in Hc. rewrite forallb_forall in Hc.
      specialize (Hc q). rewrite forallb_forall in Hc.
      assert (Hin : forall z n, (z < n)%nat -> In z (seq 0 n)). { intros; apply in_seq; lia. }
      specialize (Hc (Hin _ _ Hq) i (Hin _ _ Hi)). unfold getk in Hc. rewrite Nat2N.id in Hc.
      specialize (HK q (N.of_nat i) Hq Hc). rewrite Nat2N.id in HK. exact HK. }
    apply le_antisym; auto.
  Qed.
End Converge.

(* ------------------------------------------------------------------ databases: everything is per uuid *)
Lemma lookup_app : forall u a b,
  lookup u (a ++ b) = match lookup u a with Some e => Some e | None => lookup u b end.
Proof.
  intros u a b; induction a as [|[k e] a IH]; cbn; [reflexivity|].
  destruct (k =? u); [reflexivity | exact IH].
Qed.

Lemma lookup_map_join : forall u inc d,
  lookup u (map (fun ke => (fst ke, match lookup (fst ke) inc with Some i => ejoin i (snd ke) | None => snd ke end)) d)
  = match lookup u d with
    | Some e => Some (match lookup u inc with Some i => ejoin i e | None => e end)
    | None => None
    end.
Proof.
  intros u inc d; induction d as [|[k e] d IH]; cbn; [reflexivity|].
  destruct (k =? u) eqn:E; [|exact IH].
  apply N.eqb_eq in E; subst. reflexivity.
Qed.

Lemma lookup_filter_new : forall u inc d, lookup u d = None ->
  lookup u (filter (fun ke => negb (has (fst ke) d)) inc) = lookup u inc.
Proof.
  intros u inc d Hd; induction inc as [|[k e] inc IH]; cbn; [reflexivity|].
  destruct (k =? u) eqn:E.
  - apply N.eqb_eq in E; subst. unfold has. rewrite Hd. cbn. rewrite N.eqb_refl. reflexivity.
  - destruct (negb (has k d)); cbn; rewrite ?E; exact IH.
Qed.

Lemma lookup_join_db : forall u inc d, lookup u (join_db inc d) = ojoin (lookup u inc) (lookup u d).
Proof.
  intros u inc d. unfold join_db. rewrite lookup_app, lookup_map_join.
  destruct (lookup u d) as [e|] eqn:Hd.
  - destruct (lookup u inc); reflexivity.
  - rewrite lookup_filter_new by assumption. destruct (lookup u inc); reflexivity.
Qed.

Definition proj (u : N) (s : dsys) : list (option est) := map (lookup u) s.

Lemma map_setn : forall {A B} (f : A -> B) n x s, map f (setn n x s) = setn n (f x) (map f s).
Proof. intros A B f n x s; revert n; induction s as [|h t IH]; intros [|n]; cbn; auto. rewrite IH. reflexivity. Qed.

Lemma proj_getd : forall u s r, lookup u (getd s r) = aget (option est) None (proj u s) r.
Proof.
  intros u s r. unfold getd, aget, proj.
  change (@None est) with (lookup u []). rewrite map_nth. reflexivity.
Qed.

Lemma proj_rstep : forall u s o, proj u (rstep s o) = astep (option est) ojoin None (proj u s) o.
Proof.
  intros u s [to from | to from]; unfold rstep, astep, proj at 1; rewrite map_setn.
  - rewrite lookup_join_db, !proj_getd. reflexivity.
  - rewrite proj_getd. reflexivity.
Qed.

Lemma proj_rrun : forall u l s, proj u (rrun s l) = arun (option est) ojoin None (proj u s) l.
Proof.
  intros u l; induction l as [|o l IH]; intros s; [reflexivity|].
  unfold rrun, arun in *. cbn [fold_left]. rewrite IH, proj_rstep. reflexivity.
Qed.

(* "Consistent": one change id names one write — there is a table of writes (per uuid) that every entry of
   every replica agrees with *)
Definition sys_wf (s : dsys) : Prop :=
  exists W : N -> wtab, forall r u e, lookup u (getd s r) = Some e -> ewf (W u) e.

Lemma sys_wf_rstep : forall s o, sys_wf s -> sys_wf (rstep s o).
Proof.
  intros s o [W HW]. exists W. intros r u e He.
  assert (Hp : forall q, owf (W u) (lookup u (getd s q))).
  { intro q. destruct (lookup u (getd s q)) as [x|] eqn:Hx; cbn; [eapply HW; eauto | exact I]. }
  assert (Hget : forall q, getd (rstep s o) q = getd s q
                        \/ (exists from, getd (rstep s o) q = join_db (getd s from) (getd s q))
                        \/ (exists from, getd (rstep s o) q = getd s from)).
  { intro q. destruct o as [to from | to from]; unfold rstep, getd.
    - destruct (Nat.eq_dec (N.to_nat to) (N.to_nat q)) as [E|E].
      + destruct (Nat.lt_ge_cases (N.to_nat to) (length s)) as [L|L].
        * right; left. exists from. rewrite E at 1. rewrite nth_setn_eq by (rewrite <- E; exact L). rewrite E. reflexivity.
        * left. rewrite !nth_overflow; rewrite ?length_setn; try lia. reflexivity.
      + left. apply nth_setn_neq. assumption.
    - destruct (Nat.eq_dec (N.to_nat to) (N.to_nat q)) as [E|E].
      + destruct (Nat.lt_ge_cases (N.to_nat to) (length s)) as [L|L].
        * right; right. exists from. rewrite E at 1. rewrite nth_setn_eq by (rewrite <- E; exact L). reflexivity.
        * left. rewrite !nth_overflow; rewrite ?length_setn; try lia. reflexivity.
      + left. apply nth_setn_neq. assumption. }
  destruct (Hget r) as [E | [[from E] | [from E]]]; rewrite E in He.
  - eapply HW; eauto.
  - rewrite lookup_join_db in He.
    assert (H := owf_ojoin (W u) _ _ (Hp from) (Hp r)). rewrite He in H. exact H.
  - eapply HW; eauto.
Qed.

Lemma sys_wf_rrun : forall l s, sys_wf s -> sys_wf (rrun s l).
Proof.
  induction l as [|o l IH]; intros s H; [exact H|].
  unfold rrun in *. cbn [fold_left]. apply IH. apply sys_wf_rstep. exact H.
Qed.

(* Convergence: from any consistent system state, any schedule of incremental replications and refreshes (any
   order, any topology) after which every replica has transitively heard of every replica leaves all replicas
   with the same entry (or absence) for every uuid *)
Theorem converge : forall (s : dsys) (l : list rop) (r r' : N) (u : N),
  sys_wf s ->
  forallb (rop_ok (length s)) l = true ->
  complete (length s) l = true ->
  r < N.of_nat (length s) -> r' < N.of_nat (length s) ->
  lookup u (getd (rrun s l) r) = lookup u (getd (rrun s l) r').
Proof.
  intros s l r r' u [W HW] Hok Hc Hr Hr'.
  rewrite !proj_getd, proj_rrun. unfold aget.
  assert (Hlen : length (proj u s) = length s) by (unfold proj; apply map_length).
  apply (converge_abstract (option est) ojoin (owf (W u)) None
           ojoin_idem ojoin_assoc (ojoin_comm (W u)) (owf_ojoin (W u)) (proj u s)).
  - intros q Hq. unfold proj. change (@None est) with (lookup u []). rewrite map_nth.
    destruct (lookup u (nth q s [])) as [e|] eqn:He; cbn; [|exact I].
    apply (HW (N.of_nat q)). unfold getd. rewrite Nat2N.id. exact He.
  - rewrite Hlen. exact Hok.
  - rewrite Hlen. exact Hc.
  - rewrite Hlen. lia.
  - rewrite Hlen. lia.
Qed.

(* ------------------------------------------------------------------ the window filter of the supplier *)
(* d already contains everything of x that lies outside the window: merging the filtered cell gives the same
   result as merging the whole cell *)
Definition cell_cid_le (x y : cell) : Prop :=
  match x, y with
  | None, _ => True
  | Some _, None => False
  | Some (a, _), Some (b, _) => cid_ltb b a = false
  end.

Lemma cmerge_cfilter : forall w x y,
  (cfilter w x = None -> cell_cid_le x y) -> cmerge (cfilter w x) y = cmerge x y.
Proof.
  intros w [[c v]|] y H; cbn in *; [|reflexivity].
  destruct (within w c); [reflexivity|].
  specialize (H eq_refl). destruct y as [[b vb]|]; cbn in *; [|contradiction].
  rewrite H. reflexivity.
Qed.

Lemma zipw_rfilter : forall w m n,
  (forall i, cfilter w (nth i m None) = None -> cell_cid_le (nth i m None) (nth i n None)) ->
  forall i, nth i (zipw (map (cfilter w) m) n) None = nth i (zipw m n) None.
Proof.
  intros w m n H i. rewrite !nth_zipw.
  change (@None (cid * option N)) with (cfilter w None) at 1. rewrite map_nth.
  apply cmerge_cfilter. apply H.
Qed.

(* an entry whose every record carries a change id inside the window is shipped whole *)
Lemma rfilter_whole : forall w a m,
  (forall i c v, nth i m None = Some (c, v) -> within w c = true) ->
  rfilter w (Live a m) = Live a m.
Proof.
  intros w a m H. cbn. f_equal.
  induction m as [|x m IH]; [reflexivity|]. cbn. f_equal.
  - destruct x as [[c v]|]; cbn; [|reflexivity]. rewrite (H O c v eq_refl). reflexivity.
  - apply IH. intros i c v Hi. apply (H (S i) c v Hi).
Qed.

(* ------------------------------------------------------------------ order independence of merges *)
From Coq Require Import Permutation.

Lemma ejoin_swap : forall w x y z, ewf w x -> ewf w y -> ejoin x (ejoin y z) = ejoin y (ejoin x z).
Proof.
  intros w x y z Hx Hy. rewrite !ejoin_assoc, (ejoin_comm w x y Hx Hy). reflexivity.
Qed.

Lemma fold_ejoin_perm : forall w l1 l2 e,
  Permutation l1 l2 -> Forall (ewf w) l1 ->
  fold_right ejoin e l1 = fold_right ejoin e l2.
Proof.
  intros w l1 l2 e HP. induction HP as [| x l l' HP IH | x y l | l l' l'' HP1 IH1 HP2 IH2]; intros HF.
  - reflexivity.
  - cbn. inversion HF; subst. rewrite IH by assumption. reflexivity.
  - cbn. inversion HF as [|? ? Hy HF']; subst. inversion HF' as [|? ? Hx HF'']; subst.
    eapply ejoin_swap; eauto.
  - rewrite IH1 by assumption. apply IH2. eapply Permutation_Forall; eauto.
Qed.

(* ------------------------------------------------------------------ the model meets the independent specification *)
Lemma cell_eqb_refl : forall x, cell_eqb x x = true.
Proof.
  intros [[c [v|]]|]; cbn; rewrite ?cid_eqb_refl, ?N.eqb_refl; reflexivity.
Qed.

Lemma amap_eqb_refl : forall m, amap_eqb m m = true.
Proof. induction m as [|x m IH]; cbn; [reflexivity | rewrite cell_eqb_refl, IH; reflexivity]. Qed.

Lemma est_eqb_refl : forall e, est_eqb e e = true.
Proof. intros [a m|a]; cbn; rewrite cid_eqb_refl, ?amap_eqb_refl; reflexivity. Qed.

Lemma cell_cid_leb_refl : forall x, cell_cid_leb x x = true.
Proof. intros [[c v]|]; cbn; [unfold cid_leb; rewrite cid_ltb_irrefl|]; reflexivity. Qed.

Lemma cmerge_spec : forall x y,
  (cell_eqb (cmerge x y) x || cell_eqb (cmerge x y) y) = true /\
  cell_cid_leb x (cmerge x y) = true /\ cell_cid_leb y (cmerge x y) = true.
Proof.
  intros [[a va]|] [[b vb]|]; cbn -[cell_eqb].
  - destruct (cid_ltb b a) eqn:E; rewrite cell_eqb_refl; cbn; unfold cid_leb;
      rewrite ?cid_ltb_irrefl, ?E, ?orb_true_r; cbn; auto.
    rewrite (cid_ltb_asym _ _ E). auto.
  - rewrite cell_eqb_refl. unfold cid_leb. rewrite cid_ltb_irrefl. auto.
  - rewrite cell_eqb_refl. unfold cid_leb. rewrite cid_ltb_irrefl, orb_true_r. auto.
  - auto.
Qed.

Lemma lww_nil_l : forall r, lww_spec [] r r = true.
Proof.
  induction r as [|z r IH]; [reflexivity|].
  cbn -[cell_eqb cell_cid_leb]. rewrite cell_eqb_refl, orb_true_r, cell_cid_leb_refl. cbn. exact IH.
Qed.

Lemma lww_nil_r : forall l, lww_spec l [] l = true.
Proof.
  induction l as [|z l IH]; [reflexivity|].
  cbn -[cell_eqb cell_cid_leb]. rewrite cell_eqb_refl, cell_cid_leb_refl. cbn. exact IH.
Qed.

Lemma lww_zipw : forall l r, lww_spec l r (zipw l r) = true.
Proof.
  induction l as [|x l IH]; intros r.
  - cbn [zipw]. apply lww_nil_l.
  - destruct r as [|y r]; [apply lww_nil_r|].
    cbn -[cell_eqb cell_cid_leb cmerge].
    destruct (cmerge_spec x y) as [H1 [H2 H3]]. rewrite H1, H2, H3. cbn. apply IH.
Qed.

Theorem model_meets_spec : forall inc d, apply_spec inc d (ejoin inc d) = true.
Proof.
  intros [a m|a] [b n|b]; unfold apply_spec, ejoin, add_conflict, resolve, merge_state, at_of.
  - destruct (cid_eqb a b) eqn:E; cbn [negb].
    + rewrite cid_eqb_refl. apply lww_zipw.
    + destruct (cid_ltb a b) eqn:E1.
      * rewrite (cid_ltb_asym _ _ E1). apply est_eqb_refl.
      * destruct (cid_ltb b a) eqn:E2; [apply est_eqb_refl|].
        rewrite (cid_total _ _ E1 E2), cid_eqb_refl in E. discriminate.
  - apply est_eqb_refl.
  - apply est_eqb_refl.
  - destruct (cid_ltb a b) eqn:E1.
    + rewrite (cid_ltb_asym _ _ E1). apply est_eqb_refl.
    + destruct (cid_ltb b a) eqn:E2; [apply est_eqb_refl|].
      rewrite (cid_total _ _ E1 E2). apply est_eqb_refl.
Qed.

(* ------------------------------------------------------------------ local write transactions keep consistency *)
Lemma cell_eqb_eq : forall x y, cell_eqb x y = true -> x = y.
Proof.
  intros [[c [v|]]|] [[c' [v'|]]|] H; cbn in H; try discriminate; try reflexivity.
  - apply andb_true_iff in H. destruct H as [H1 H2]. apply cid_eqb_eq in H1. apply N.eqb_eq in H2. subst. reflexivity.
  - apply andb_true_iff in H. destruct H as [H1 H2]. discriminate.
  - apply andb_true_iff in H. destruct H as [H1 H2]. discriminate.
  - apply andb_true_iff in H. destruct H as [H1 _]. apply cid_eqb_eq in H1. subst. reflexivity.
Qed.

Lemma forallb_nth : forall {A} (f : A -> bool) l d i, forallb f l = true -> f d = true -> f (nth i l d) = true.
Proof.
  intros A f l d; induction l as [|x l IH]; intros [|i] H Hd; cbn in *; auto;
    apply andb_true_iff in H; destruct H; auto.
Qed.

Lemma cells_stamp_nth : forall c old new i,
  cells_stamp c old new = true -> cell_stamp c (nth i old None) (nth i new None) = true.
Proof.
  intros c old; induction old as [|x old IH]; intros new i H.
  - cbn [cells_stamp] in H.
    assert (E : nth i (@nil cell) None = None) by (destruct i; reflexivity). rewrite E.
    apply (forallb_nth (cell_stamp c None) new None i H). reflexivity.
  - destruct new as [|y new].
    + cbn [cells_stamp] in H.
      assert (E : nth i (@nil cell) None = None) by (destruct i; reflexivity). rewrite E.
      apply (forallb_nth (fun z => cell_stamp c z None) (x :: old) None i H). reflexivity.
    + cbn [cells_stamp] in H. apply andb_true_iff in H. destruct H as [H1 H2].
      destruct i; cbn; auto.
Qed.

Lemma lookup_In : forall u d e, lookup u d = Some e -> In (u, e) d.
Proof.
  intros u d e; induction d as [|[k x] d IH]; cbn; [discriminate|].
  destruct (k =? u) eqn:E; intros H.
  - apply N.eqb_eq in E. inversion H; subst. left; reflexivity.
  - right; auto.
Qed.

(* the change id c is not yet recorded anywhere *)
Definition fresh_in (c : cid) (e : est) : Prop :=
  match e with Live _ m => forall i v, nth i m None <> Some (c, v) | Tomb _ => True end.
Definition fresh (c : cid) (s : dsys) : Prop :=
  forall r u e, lookup u (getd s r) = Some e -> fresh_in c e.

Theorem sys_wf_local : forall s r c post,
  sys_wf s -> fresh c s -> (N.to_nat r < length s)%nat ->
  stamped c (getd s r) post = true ->
  sys_wf (setn (N.to_nat r) post s).
Proof.
  intros s r c post [W HW] Hfresh Hr Hst.
  set (W' := fun (u : N) (i : nat) (k : cid) =>
    if cid_eqb k c then
      match lookup u post with
      | Some (Live _ m) => match nth i m None with
                           | Some (k', v) => if cid_eqb k' c then v else W u i k
                           | None => W u i k end
      | _ => W u i k
      end
    else W u i k).
  exists W'. intros q u e He.
  unfold getd in He.
  destruct (Nat.eq_dec (N.to_nat r) (N.to_nat q)) as [E|E].
  - (* the written replica *)
    rewrite <- E, nth_setn_eq in He by assumption.
    destruct e as [a' m'|a']; [|exact I].
    intros i. destruct (nth i m' None) as [[k v]|] eqn:Hc; [|exact I]. cbn.
    unfold W'. destruct (cid_eqb k c) eqn:Ek.
    + rewrite He, Hc, Ek. reflexivity.
    + unfold stamped in Hst. apply andb_true_iff in Hst. destruct Hst as [_ Hst].
      rewrite forallb_forall in Hst. specialize (Hst _ (lookup_In _ _ _ He)). cbn [fst snd] in Hst.
      destruct (lookup u (getd s r)) as [e0|] eqn:Hpre.
      * destruct e0 as [a m|a]; cbn in Hst; [|discriminate].
        apply andb_true_iff in Hst. destruct Hst as [_ Hst].
        assert (Hn := cells_stamp_nth c m m' i Hst). rewrite Hc in Hn. unfold cell_stamp in Hn.
        rewrite Ek, orb_false_r in Hn. apply cell_eqb_eq in Hn.
        assert (Hwf := HW r u _ Hpre i). rewrite Hn in Hwf. exact Hwf.
      * cbn in Hst. apply andb_true_iff in Hst. destruct Hst as [_ Hst].
        assert (Hn := cells_stamp_nth c [] m' i Hst). rewrite Hc in Hn.
        assert (E0 : nth i (@nil cell) None = None) by (destruct i; reflexivity). rewrite E0 in Hn.
        unfold cell_stamp in Hn. cbn in Hn. rewrite Ek in Hn. discriminate.
  - (* another replica: nothing there records c *)
    rewrite nth_setn_neq in He by assumption.
    assert (Hwf := HW q u e He). assert (Hf := Hfresh q u e He).
    destruct e as [a m|a]; [|exact I].
    intros i. specialize (Hwf i). specialize (Hf i).
    destruct (nth i m None) as [[k v]|] eqn:Hc; [|exact I]. cbn in *.
    unfold W'. destruct (cid_eqb k c) eqn:Ek; [|exact Hwf].
    apply cid_eqb_eq in Ek. subst k. exfalso. apply (Hf v). reflexivity.
Qed.

(* ------------------------------------------------------------------ histories *)
(* system states reachable by any history: local write transactions that stamp what they change with a
   change id not used before (any requests, any plugin fix-ups, conflict copies), incremental replications
   and refreshes, in any interleaving *)
Inductive reach (n : nat) : dsys -> Prop :=
| reach_init : reach n (repeat [] n)
| reach_local : forall s r c post, reach n s -> fresh c s -> (N.to_nat r < length s)%nat ->
    stamped c (getd s r) post = true -> reach n (setn (N.to_nat r) post s)
| reach_repl : forall s o, reach n s -> reach n (rstep s o).

Lemma reach_length : forall n s, reach n s -> length s = n.
Proof.
  intros n s H; induction H.
  - apply repeat_length.
  - rewrite length_setn. assumption.
  - destruct o; unfold rstep; rewrite length_setn; assumption.
Qed.

Lemma reach_wf : forall n s, reach n s -> sys_wf s.
Proof.
  intros n s H; induction H.
  - exists (fun _ _ _ => None). intros r u e He. exfalso.
    assert (E : forall k, getd (repeat [] n) k = []).
    { intro k. unfold getd. generalize (N.to_nat k) as q. clear. induction n as [|n IH]; intros [|q]; cbn; auto. }
    rewrite E in He. discriminate.
  - eapply sys_wf_local; eauto.
  - apply sys_wf_rstep. assumption.
Qed.

Theorem converge_history : forall n s l r r' u,
  reach n s ->
  forallb (rop_ok n) l = true -> complete n l = true ->
  r < N.of_nat n -> r' < N.of_nat n ->
  lookup u (getd (rrun s l) r) = lookup u (getd (rrun s l) r').
Proof.
  intros n s l r r' u HR Hok Hc Hr Hr'.
  assert (L := reach_length n s HR). subst n.
  apply converge; auto. eapply reach_wf; eauto.
Qed.
