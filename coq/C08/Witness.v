(* KV.C08.Witness — non-vacuity witnesses. *)
From Coq Require Import List NArith Bool.
Import ListNotations.
Require Import KV.C08.Model KV.C08.Proofs.
Open Scope N_scope.

(* three replicas: uuid 1 created on replica 0 at (1,0) and, concurrently, on replica 1 at (2,1); uuid 2 edited
   concurrently on replicas 1 and 2 (attribute 5) and deleted to a tombstone on replica 0; replica 2 holds a
   conflict entry 1001 nobody else has *)
Definition e1a := Live (1, 0) [Some ((1, 0), Some 10); Some ((1, 0), Some 11)].
Definition e1b := Live (2, 1) [Some ((2, 1), Some 10); Some ((2, 1), Some 12); None; Some ((3, 1), None)].
Definition e2 := Live (1, 2) [Some ((1, 2), Some 20); None; None; None; None; Some ((1, 2), Some 30)].
Definition e2x := Live (1, 2) [Some ((1, 2), Some 20); None; None; None; None; Some ((4, 1), Some 31)].
Definition e2y := Live (1, 2) [Some ((1, 2), Some 20); None; None; None; None; Some ((4, 2), Some 32); Some ((5, 2), None)].
Definition w_s0 : dsys :=
  [ [(1, e1a); (2, Tomb (6, 0))];
    [(2, e2x); (1, e1b)];
    [(2, e2y); (1001, Live (7, 2) [Some ((7, 2), Some 40); Some ((7, 2), Some 41); Some ((7, 2), Some 42)])] ].

(* a ring 1<-0, 2<-1, 0<-2 followed by 1<-0 2<-0 (no full mesh), and one with a refresh *)
Definition w_ring := [RRepl 1 0; RRepl 2 1; RRepl 0 2; RRepl 1 0; RRepl 2 0].
Definition w_refresh := [RRepl 0 1; RRepl 0 2; RRefresh 1 0; RRepl 2 0].
Definition w_incomplete := [RRepl 1 0; RRepl 2 1].

Example C08_witness_schedules :
  forallb (rop_ok 3) w_ring = true /\ complete 3 w_ring = true /\
  forallb (rop_ok 3) w_refresh = true /\ complete 3 w_refresh = true /\
  complete 3 w_incomplete = false.
Proof. vm_compute. repeat split. Qed.

(* the starting state is consistent: the table of writes *)
Definition w_tab (u : N) : wtab := fun i c =>
  match u, i, c with
  | 1, 0%nat, _ => Some 10
  | 1, 1%nat, (1, 0) => Some 11
  | 1, 1%nat, _ => Some 12
  | 1, _, _ => None
  | 2, 0%nat, _ => Some 20
  | 2, 5%nat, (1, 2) => Some 30
  | 2, 5%nat, (4, 1) => Some 31
  | 2, 5%nat, (4, 2) => Some 32
  | 2, _, _ => None
  | _, 0%nat, _ => Some 40
  | _, 1%nat, _ => Some 41
  | _, 2%nat, _ => Some 42
  | _, _, _ => None
  end.

Ltac nth_cases i := do 8 (destruct i as [|i]; [cbn; try exact I; try reflexivity|]); cbn; try exact I; try (destruct i; exact I).

Example C08_witness_consistent : sys_wf w_s0.
Proof.
  exists w_tab. intros r u e H.
  unfold getd, w_s0 in H.
  destruct (N.to_nat r) as [|[|[|q]]]; cbn in H.
  - destruct (1 =? u) eqn:E1; [apply N.eqb_eq in E1; subst u; inversion H; subst e; intro i; nth_cases i|].
    destruct (2 =? u) eqn:E2; [inversion H; subst e; exact I | discriminate].
  - destruct (2 =? u) eqn:E2; [apply N.eqb_eq in E2; subst u; inversion H; subst e; intro i; nth_cases i|].
    destruct (1 =? u) eqn:E1; [apply N.eqb_eq in E1; subst u; inversion H; subst e; intro i; nth_cases i | discriminate].
  - destruct (2 =? u) eqn:E2; [apply N.eqb_eq in E2; subst u; inversion H; subst e; intro i; nth_cases i|].
    destruct (1001 =? u) eqn:E1; [apply N.eqb_eq in E1; subst u; inversion H; subst e; intro i; nth_cases i | discriminate].
  - destruct q; discriminate.
Qed.

(* ... and the schedules do make the three replicas equal, on a non-trivial result: uuid 1 is the earlier
   creation, uuid 2 the tombstone, 1001 has reached everybody *)
Example C08_witness_converged :
  let f := rrun w_s0 w_ring in
  map (fun u => lookup u (getd f 0)) [1; 2; 1001; 7] = map (fun u => lookup u (getd f 1)) [1; 2; 1001; 7] /\
  map (fun u => lookup u (getd f 1)) [1; 2; 1001; 7] = map (fun u => lookup u (getd f 2)) [1; 2; 1001; 7] /\
  lookup 1 (getd f 2) = Some e1a /\ lookup 2 (getd f 1) = Some (Tomb (6, 0)) /\
  has 1001 (getd f 0) = true /\
  (* without the tombstone the concurrent edits of attribute 5 merge to the later one, server id breaking the tie *)
  ejoin e2x e2y = Live (1, 2) [Some ((1, 2), Some 20); None; None; None; None; Some ((4, 2), Some 32); Some ((5, 2), None)] /\
  ejoin e2y e2x = ejoin e2x e2y /\
  (* the incomplete schedule leaves replica 0 behind *)
  lookup 1001 (getd (rrun w_s0 w_incomplete) 0) = None.
Proof. vm_compute. repeat split. Qed.

Example C08_witness_refresh_converged :
  let f := rrun w_s0 w_refresh in
  map (fun u => lookup u (getd f 0)) [1; 2; 1001] = map (fun u => lookup u (getd f 1)) [1; 2; 1001] /\
  map (fun u => lookup u (getd f 1)) [1; 2; 1001] = map (fun u => lookup u (getd f 2)) [1; 2; 1001].
Proof. vm_compute. repeat split. Qed.

(* premises of C08_merge_comm / C08_order_independent are met by non-trivial versions *)
Example C08_witness_comm : ewf (w_tab 2) e2x /\ ewf (w_tab 2) e2y /\ ewf (w_tab 2) e2.
Proof. repeat split; intro i; nth_cases i. Qed.

(* without consistency commutativity fails: the same change id naming two different writes *)
Example C08_witness_inconsistent_not_comm :
  ejoin (Live (1, 0) [Some ((2, 0), Some 1)]) (Live (1, 0) [Some ((2, 0), Some 2)])
  <> ejoin (Live (1, 0) [Some ((2, 0), Some 2)]) (Live (1, 0) [Some ((2, 0), Some 1)]).
Proof. vm_compute. discriminate. Qed.

(* window filter: premise of C08_window_filter_sound met with something filtered out *)
Example C08_witness_filter :
  let w := [(0, (2, 9)); (1, (0, 9))] in
  let m := [Some ((1, 0), Some 5); Some ((3, 0), Some 6); Some ((1, 1), Some 7)] in
  let n := [Some ((2, 2), Some 8); None; None] in
  map (cfilter w) m = [None; Some ((3, 0), Some 6); Some ((1, 1), Some 7)] /\
  zipw (map (cfilter w) m) n = zipw m n.
Proof. vm_compute. repeat split. Qed.

(* Documentation of the behaviour BEFORE fix 41afc51: the conflict copy minted at (15,0) kept the loser's
   creation id (9,0) and records (9,0)/(10,0); a consumer that already holds server 0 up to 10 asks for the
   window (10,15] and receives a hollow entry.  With every record re-stamped (15,0) it is shipped whole. *)
Example C08_prefix_hollow_copy :
  let w := [(0, (10, 15))] in
  let old := Live (9, 0) [Some ((15, 0), Some 21); Some ((15, 0), Some 23); Some ((15, 0), Some 22);
                          Some ((9, 0), Some 8); Some ((10, 0), Some 9); Some ((10, 0), Some 17)] in
  let new := Live (15, 0) [Some ((15, 0), Some 21); Some ((15, 0), Some 23); Some ((15, 0), Some 22);
                           Some ((15, 0), Some 8); Some ((15, 0), Some 9); Some ((15, 0), Some 17)] in
  rfilter w old = Live (9, 0) [Some ((15, 0), Some 21); Some ((15, 0), Some 23); Some ((15, 0), Some 22); None; None; None]
  /\ rfilter w new = new.
Proof. vm_compute. repeat split. Qed.

(* agree / pcheck accept a correct observation and reject wrong ones *)
Example C08_witness_agree :
  let c := CApply (9, 0) e2x e2y false None (ejoin e2x e2y) in
  agree c = true /\ pcheck c = true /\
  (* taking the earlier change instead is refused by both *)
  agree (CApply (9, 0) e2x e2y false None e2x) = false /\ pcheck (CApply (9, 0) e2x e2y false None e2x) = false /\
  (* a uuid conflict: the earlier creation survives; the later one's origin (server 1) mints the copy *)
  agree (CApply (9, 1) e1a e1b true
           (Some (Live (9, 1) [Some ((9, 1), Some 50); Some ((9, 1), Some 51); Some ((9, 1), Some 52); Some ((9, 1), None)])) e1a) = true /\
  agree (CApply (9, 1) e1a e1b true None e1a) = false /\
  pcheck (CApply (9, 1) e1a e1b true None e1b) = false.
Proof. vm_compute. repeat split. Qed.

Example C08_witness_hist :
  let d0 := [(1, e1a)] in
  let d1 := [(1, e1a); (1001, Live (5, 1) [Some ((5, 1), Some 50); Some ((5, 1), Some 51); Some ((5, 1), Some 52)])] in
  let steps := [OLocal 0 1 d0;
                OLocal 1 2 [(1, Live (2, 1) [Some ((2, 1), Some 10); Some ((2, 1), Some 12)])];
                ORepl 1 0 5 d1;
                ORepl 0 1 6 d1] in
  agree (CHist [0; 1] steps [d1; d1] [[]; []]) = true /\
  pcheck (CHist [0; 1] steps [d1; d1] [[]; []]) = true /\
  (* a hollow copy on the second replica (the pre-fix behaviour) is refused by both *)
  let hollow := [(1, e1a); (1001, Live (5, 1) [Some ((5, 1), Some 50)])] in
  agree (CHist [0; 1] [OLocal 0 1 d0;
                OLocal 1 2 [(1, Live (2, 1) [Some ((2, 1), Some 10); Some ((2, 1), Some 12)])];
                ORepl 1 0 5 d1; ORepl 0 1 6 hollow] [hollow; d1] [[]; []]) = false /\
  pcheck (CHist [0; 1] steps [hollow; d1] [[]; []]) = false.
Proof. vm_compute. repeat split. Qed.

(* premises of C08_converge_history / C08_local_write_keeps_consistency: a reachable non-trivial state
   (uuid 1 created concurrently on both replicas, then one replication) *)
Lemma fresh_empty : forall c n, fresh c (repeat [] n).
Proof.
  intros c n r u e He. exfalso.
  assert (E : forall k, getd (repeat [] n) k = []).
  { intro k. unfold getd. generalize (N.to_nat k) as q. clear. induction n as [|n IH]; intros [|q]; cbn; auto. }
  rewrite E in He. discriminate.
Qed.

Definition e1c := Live (3, 1) [Some ((3, 1), Some 10); Some ((3, 1), Some 12)].

Example C08_witness_reach :
  reach 2 (rstep [[(1, e1a)]; [(1, e1c)]] (RRepl 1 0)) /\
  lookup 1 (getd (rstep [[(1, e1a)]; [(1, e1c)]] (RRepl 1 0)) 1) = Some e1a.
Proof.
  split; [|vm_compute; reflexivity].
  apply reach_repl.
  change [[(1, e1a)]; [(1, e1c)]] with (setn (N.to_nat 1) [(1, e1c)] [[(1, e1a)]; []]).
  apply (reach_local 2 _ 1 (3, 1)).
  - change [[(1, e1a)]; []] with (setn (N.to_nat 0) [(1, e1a)] (repeat [] 2)).
    apply (reach_local 2 _ 0 (1, 0)).
    + apply reach_init.
    + apply fresh_empty.
    + cbn. auto.
    + vm_compute. reflexivity.
  - intros r u e He. unfold getd in He.
    destruct (N.to_nat r) as [|[|q]]; cbn in He.
    + destruct (1 =? u); [|discriminate]. inversion He; subst e.
      intros i v. do 3 (destruct i as [|i]; [cbn; discriminate|]). cbn. destruct i; discriminate.
    + discriminate.
    + destruct q; discriminate.
  - cbn. auto.
  - vm_compute. reflexivity.
Qed.

(* the known-finding class: replicated state equal, a conflict copy with derived attributes on one replica only *)
Example C08_witness_known :
  let d1 := [(1, e1a); (1001, Live (5, 1) [Some ((5, 1), Some 50); Some ((5, 1), Some 51); Some ((5, 1), Some 52)])] in
  known (CHist [0; 1] [] [d1; d1] [[(1, []); (1001, [(8, 20)])]; [(1, []); (1001, [])]]) = true /\
  pcheck (CHist [0; 1] [] [d1; d1] [[(1, []); (1001, [(8, 20)])]; [(1, []); (1001, [])]]) = false /\
  (* not in the class: the replicated state itself differs, or no uuid conflict happened *)
  known (CHist [0; 1] [] [d1; [(1, e1a)]] [[]; []]) = false /\
  known (CHist [0; 1] [] [[(1, e1a)]; [(1, e1a)]] [[(1, [(8, 20)])]; [(1, [])]]) = false.
Proof. vm_compute. repeat split. Qed.
