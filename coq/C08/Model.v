(* KV.C08.Model — replicas converge (executable definitions only).
   Transcribes the replication algebra of
     entry.rs          Entry::is_add_conflict, resolve_add_conflict, merge_state (attribute-level last writer
                       wins: take_left := cid_left > cid_right, ties keep the database side; tombstone arms;
                       the earlier of two tombstones)
     repl/proto.rs     ReplIncrementalEntryV1::new (only attributes whose change id lies in the requested
                       per-server window are shipped), ReplEntryV1::new (refresh: everything)
     repl/consumer.rs  consumer_incremental_apply_entries (per entry: stub / conflict / merge; conflict copies
                       minted by the origin server of the losing entry), consumer_apply_refresh
   An attribute's valueset is an opaque interned id: valueset-level merges (sessions, keys, audit log:
   repl_merge_valueset) are C11's subject and are not generated here.
   Local write transactions and the fix-up writes of the post-replication plugins (refint, memberof, attrunique,
   spn ...) are NOT modelled operation by operation: they are arbitrary writes stamped with the transaction's
   change id (`stamped`), which is all the convergence argument needs. *)
From Coq Require Import List NArith Bool.
Import ListNotations.
Open Scope N_scope.

(* change id = (timestamp, server id); `#[derive(Ord)] struct Cid { ts, s_uuid }` *)
Definition cid := (N * N)%type.
Definition cid_ltb (a b : cid) : bool :=
  (fst a <? fst b) || ((fst a =? fst b) && (snd a <? snd b)).
Definition cid_eqb (a b : cid) : bool := (fst a =? fst b) && (snd a =? snd b).

(* one attribute of an entry: None = no record in the change state; Some (c, v) = last changed at c,
   v = the valueset now held (None = the attribute is absent / empty: only the change id is replicated) *)
Definition cell := option (cid * option N).
(* the change state + attribute map of a live entry: position = attribute id (trailing None = no record) *)
Definition amap := list cell.

(* EntryChangeState + Eattrs *)
Inductive est := Live (at_ : cid) (m : amap) | Tomb (at_ : cid).

(* ------------------------------------------------------------------ merge_state *)
(* one attribute; l = incoming, r = database.  (Some,Some): take_left = cid_left > cid_right, the winner's
   valueset (or absence) is kept with its change id; a record on one side only is kept. *)
Definition cmerge (l r : cell) : cell :=
  match l, r with
  | Some (cl, _), Some (cr, _) => if cid_ltb cr cl then l else r
  | Some _, None => l
  | None, _ => r
  end.

Fixpoint zipw (l r : amap) : amap :=
  match l, r with
  | [], _ => r
  | _, [] => l
  | x :: l', y :: r' => cmerge x y :: zipw l' r'
  end.

(* merge_state inc db (live/live presupposes equal creation ids: debug_assert_eq!(at_left, at_right)) *)
Definition merge_state (inc d : est) : est :=
  match inc, d with
  | Live al ml, Live _ mr => Live al (zipw ml mr)
  | Tomb al, Live _ _ => Tomb al
  | Live _ _, Tomb ar => Tomb ar
  | Tomb al, Tomb ar => if cid_ltb al ar then Tomb al else Tomb ar
  end.

(* is_add_conflict: both live, different creation ids *)
Definition add_conflict (inc d : est) : bool :=
  match inc, d with
  | Live al _, Live ar _ => negb (cid_eqb al ar)
  | _, _ => false
  end.

Definition at_of (e : est) : cid := match e with Live a _ => a | Tomb a => a end.

(* resolve_add_conflict, surviving entry: incoming created later -> the database entry stays, else the
   incoming entry replaces it *)
Definition resolve (inc d : est) : est :=
  if cid_ltb (at_of d) (at_of inc) then d else inc.

(* ... and the origin server of the losing database entry mints the conflict copy *)
Definition copy_needed (me : N) (inc d : est) : bool :=
  add_conflict inc d && negb (cid_ltb (at_of d) (at_of inc)) && (snd (at_of d) =? me).

(* what the consumer writes back for one uuid present on both sides *)
Definition ejoin (inc d : est) : est :=
  if add_conflict inc d then resolve inc d else merge_state inc d.

(* incremental_prepare makes a stub (same creation id / tombstone, no attributes) for an unknown uuid, so the
   result is the incoming entry itself *)
Definition ojoin (inc d : option est) : option est :=
  match inc, d with
  | Some i, Some x => Some (ejoin i x)
  | Some i, None => Some i
  | None, x => x
  end.

(* ------------------------------------------------------------------ databases *)
Definition db := list (N * est).          (* uuid id |-> entry; at most one binding per uuid is looked at *)

Fixpoint lookup (u : N) (d : db) : option est :=
  match d with
  | [] => None
  | (k, e) :: r => if k =? u then Some e else lookup u r
  end.
Definition has (u : N) (d : db) : bool := match lookup u d with Some _ => true | None => false end.

(* the consumer's database after applying everything the supplier holds *)
Definition join_db (inc d : db) : db :=
  map (fun ke => (fst ke, match lookup (fst ke) inc with Some i => ejoin i (snd ke) | None => snd ke end)) d
  ++ filter (fun ke => negb (has (fst ke) d)) inc.

(* ------------------------------------------------------------------ ReplIncrementalEntryV1::new *)
(* requested window: server id |-> (ts_min, ts_max]; servers not listed are not shipped *)
Definition ranges := list (N * (N * N)).
Fixpoint rfind (s : N) (w : ranges) : option (N * N) :=
  match w with [] => None | (k, x) :: r => if k =? s then Some x else rfind s r end.
Definition within (w : ranges) (c : cid) : bool :=
  match rfind (snd c) w with
  | Some (mn, mx) => (fst c <=? mx) && (mn <? fst c)
  | None => false
  end.
Definition cfilter (w : ranges) (x : cell) : cell :=
  match x with Some (c, v) => if within w c then x else None | None => None end.
Definition rfilter (w : ranges) (e : est) : est :=
  match e with Live a m => Live a (map (cfilter w) m) | Tomb a => Tomb a end.

(* ------------------------------------------------------------------ stamped writes *)
Definition cell_eqb (a b : cell) : bool :=
  match a, b with
  | None, None => true
  | Some (c, v), Some (c', v') =>
      cid_eqb c c' && match v, v' with Some x, Some y => x =? y | None, None => true | _, _ => false end
  | _, _ => false
  end.
Fixpoint amap_eqb (a b : amap) : bool :=      (* up to trailing None *)
  match a, b with
  | [], _ => forallb (fun x => cell_eqb x None) b
  | _, [] => forallb (fun x => cell_eqb x None) a
  | x :: a', y :: b' => cell_eqb x y && amap_eqb a' b'
  end.
Definition est_eqb (a b : est) : bool :=
  match a, b with
  | Live x m, Live y n => cid_eqb x y && amap_eqb m n
  | Tomb x, Tomb y => cid_eqb x y
  | _, _ => false
  end.
Definition oest_eqb (a b : option est) : bool :=
  match a, b with Some x, Some y => est_eqb x y | None, None => true | _, _ => false end.

Definition cell_stamp (c : cid) (old new : cell) : bool :=
  cell_eqb old new || match new with Some (k, _) => cid_eqb k c | None => false end.
Fixpoint cells_stamp (c : cid) (old new : amap) : bool :=
  match old, new with
  | [], _ => forallb (cell_stamp c None) new
  | _, [] => forallb (fun x => cell_stamp c x None) old
  | x :: o', y :: n' => cell_stamp c x y && cells_stamp c o' n'
  end.
(* a transaction with change id c may only: leave an entry alone, change attributes recording c for them,
   or turn a live entry into a tombstone at c *)
Definition est_stamp (c : cid) (old new : est) : bool :=
  match old, new with
  | Live a m, Live a' m' => cid_eqb a a' && cells_stamp c m m'
  | Live _ _, Tomb t => cid_eqb t c
  | Tomb t, Tomb t' => cid_eqb t t'
  | Tomb _, Live _ _ => false
  end.
(* a new entry made by the transaction *)
Definition est_created (c : cid) (new : est) : bool :=
  match new with Live a m => cid_eqb a c && cells_stamp c [] m | Tomb _ => false end.

(* post is pre after a local write transaction with change id c *)
Definition stamped (c : cid) (pre post : db) : bool :=
  forallb (fun ke => has (fst ke) post) pre &&
  forallb (fun ke => match lookup (fst ke) pre with
                     | Some e => est_stamp c e (snd ke)
                     | None => est_created c (snd ke) end) post.

(* attribute ids fixed by the harness *)
Definition A_CLASS := 0.  Definition A_UUID := 1.  Definition A_SOURCE := 2.

Definition cell_at (i : N) (m : amap) : cell := nth (N.to_nat i) m None.
Definition stamped_at (c : cid) (i : N) (m : amap) : bool :=
  match cell_at i m with Some (k, Some _) => cid_eqb k c | _ => false end.

(* the conflict copy minted by resolve_add_conflict for the losing database entry d is a NEW entry of the
   consumer: created at the transaction's change id c, holding d's attributes, every one recorded as changed
   at c; uuid, class and source_uuid get new values *)
(* member: referential integrity strips references to the conflicting uuid in the same transaction *)
Definition A_MEMBER := 6.
Definition special (i : N) : bool := (i =? A_CLASS) || (i =? A_UUID) || (i =? A_SOURCE) || (i =? A_MEMBER).
Definition vopt_eqb (a b : option N) : bool :=
  match a, b with Some x, Some y => x =? y | None, None => true | _, _ => false end.
Definition copy_cell (c : cid) (i : N) (x y : cell) : bool :=
  match x, y with
  | Some (_, v), Some (k, v') => cid_eqb k c && (special i || vopt_eqb v v')
  | None, Some (k, _) => cid_eqb k c        (* source_uuid; records added by the plugins of the same transaction *)
  | None, None => true
  | Some _, None => false
  end.
Definition copy_cells (c : cid) (m m' : amap) : bool :=
  forallb (fun i => copy_cell c (N.of_nat i) (nth i m None) (nth i m' None))
          (seq 0 (Nat.max (length m) (length m'))).
Definition copy_ok (c : cid) (d cp : est) : bool :=
  match d, cp with
  | Live _ m, Live a' m' =>
      cid_eqb a' c && copy_cells c m m'
      && stamped_at c A_CLASS m' && stamped_at c A_UUID m' && stamped_at c A_SOURCE m'
  | _, _ => false
  end.

(* conflict copies get uuid id = k * 1000 + (id of the uuid they were split from), k >= 1 *)
Definition src_of (u : N) : N := u mod 1000.
Definition is_copy_id (u : N) : bool := 1000 <=? u.

(* post is the consumer's database after an incremental replication (change id c, consumer server id me)
   from a supplier holding sup, the consumer holding pre *)
Definition repl_ok (c : cid) (me : N) (sup pre post : db) : bool :=
  let j := join_db sup pre in
  forallb (fun ke => has (fst ke) post) j &&
  forallb (fun ke =>
     match lookup (fst ke) j with
     | Some e => est_stamp c e (snd ke)            (* merge result, then plugin fix-ups stamped c *)
     | None =>                                      (* a conflict copy minted now *)
         match lookup (src_of (fst ke)) sup, lookup (src_of (fst ke)) pre with
         | Some i, Some d => is_copy_id (fst ke) && copy_needed me i d && copy_ok c d (snd ke)
         | _, _ => false
         end
     end) post &&
  forallb (fun ke =>
     match lookup (fst ke) sup with
     | Some i => negb (copy_needed me i (snd ke))
                 || existsb (fun kp => (src_of (fst kp) =? fst ke) && is_copy_id (fst kp) && negb (has (fst kp) j)) post
     | None => true
     end) pre.

(* ------------------------------------------------------------------ the replicated system *)
(* replica = (current server id, database); a refresh gives the consumer a new server id *)
Definition sys := list (N * db).
Definition getr (s : sys) (r : N) : N * db := nth (N.to_nat r) s (0, []).
Fixpoint setn {A} (n : nat) (x : A) (s : list A) : list A :=
  match s, n with
  | [], _ => []
  | _ :: t, O => x :: t
  | h :: t, S k => h :: setn k x t
  end.
Definition setr (s : sys) (r : N) (x : N * db) : sys := setn (N.to_nat r) x s.

Inductive op :=
| OLocal (r ct : N) (post : db)              (* a local write transaction (any request, accepted or refused) *)
| ORepl (to from ct : N) (post : db)         (* incremental replication; post = what the consumer holds afterwards *)
| ORefresh (to from newsid : N) (post : db). (* full refresh *)

(* one observed transaction: checked against the replication algebra, then the model continues from the
   observed state (step-wise refinement) *)
Definition step (s : sys) (o : op) : option sys :=
  match o with
  | OLocal r ct post =>
      let '(sid, pre) := getr s r in
      if stamped (ct, sid) pre post then Some (setr s r (sid, post)) else None
  | ORepl to from ct post =>
      let '(sid, pre) := getr s to in
      let '(_, sup) := getr s from in
      if negb (to =? from) && repl_ok (ct, sid) sid sup pre post then Some (setr s to (sid, post)) else None
  | ORefresh to from newsid post =>
      let '(_, sup) := getr s from in
      if negb (to =? from)
         && forallb (fun ke => oest_eqb (lookup (fst ke) sup) (Some (snd ke))) post
         && forallb (fun ke => has (fst ke) post) sup
      then Some (setr s to (newsid, post)) else None
  end.

Fixpoint run (s : sys) (ops : list op) : option sys :=
  match ops with
  | [] => Some s
  | o :: r => match step s o with Some s1 => run s1 r | None => None end
  end.

(* ------------------------------------------------------------------ pure replication schedules (theorems) *)
(* the consumer applies the supplier's state and no plugin has anything to fix *)
Inductive rop := RRepl (to from : N) | RRefresh (to from : N).
Definition dsys := list db.
Definition getd (s : dsys) (r : N) : db := nth (N.to_nat r) s [].
Definition rstep (s : dsys) (o : rop) : dsys :=
  match o with
  | RRepl to from => setn (N.to_nat to) (join_db (getd s from) (getd s to)) s
  | RRefresh to from => setn (N.to_nat to) (getd s from) s
  end.
Definition rrun (s : dsys) (l : list rop) : dsys := fold_left rstep l s.

(* who has (transitively) heard of whom during a schedule: know r = the replicas whose starting state has
   reached r *)
Definition kmap := list (list N).
Definition getk (k : kmap) (r : N) : list N := nth (N.to_nat r) k [].
Definition kstep (k : kmap) (o : rop) : kmap :=
  match o with
  | RRepl to from => setn (N.to_nat to) (getk k from ++ getk k to) k
  | RRefresh to from => setn (N.to_nat to) (getk k from) k
  end.
Definition kinit (n : nat) : kmap := map (fun i => [N.of_nat i]) (seq 0 n).
Definition krun (n : nat) (l : list rop) : kmap := fold_left kstep l (kinit n).
Definition memN (x : N) (l : list N) : bool := existsb (N.eqb x) l.
(* every replica has heard of every replica *)
Definition complete (n : nat) (l : list rop) : bool :=
  forallb (fun r => forallb (fun i => memN (N.of_nat i) (getk (krun n l) (N.of_nat r))) (seq 0 n)) (seq 0 n).
Definition rop_ok (n : nat) (o : rop) : bool :=
  match o with RRepl to from | RRefresh to from => (to <? N.of_nat n) && (from <? N.of_nat n) end.

(* ------------------------------------------------------------------ correspondence *)
(* memberof-style derived (not replicated) attributes of one replica: (uuid id, [(attribute id, value id)]) *)
Definition derived := list (N * list (N * N)).

Inductive case :=
(* function level: the real is_add_conflict / resolve_add_conflict / merge_state on explicit parts.
   me = server id of the consumer's transaction change id c *)
| CApply (c : cid) (inc d : est) (conflict : bool) (copy : option est) (res : est)
(* function level: the real ReplIncrementalEntryV1::new + rehydrate on an entry and a window *)
| CFilter (w : ranges) (e : est) (res : est)
(* system level: replicas' server ids, observed transactions, final tracked databases, final derived dumps *)
| CHist (sids : list N) (steps : list op) (finals : list db) (der : list derived).

Definition db_sub (a b : db) : bool :=
  forallb (fun ke => oest_eqb (lookup (fst ke) b) (Some (snd ke))) a.
Definition db_eqb (a b : db) : bool := db_sub a b && db_sub b a.

Fixpoint finals_agree (s : sys) (f : list db) : bool :=
  match s, f with
  | [], [] => true
  | (_, d) :: s', o :: f' => db_eqb d o && finals_agree s' f'
  | _, _ => false
  end.

Definition agree (c : case) : bool :=
  match c with
  | CApply c inc d conflict copy res =>
      Bool.eqb conflict (add_conflict inc d)
      && est_eqb res (ejoin inc d)
      && match copy with
         | Some cp => copy_needed (snd c) inc d && copy_ok c d cp
         | None => negb (copy_needed (snd c) inc d)
         end
  | CFilter w e res => est_eqb res (rfilter w e)
  | CHist sids steps finals _ =>
      match run (map (fun s => (s, [])) sids) steps with
      | Some s => finals_agree s finals
      | None => false
      end
  end.

(* ------------------------------------------------------------------ the property, executable *)
Fixpoint all_same {A} (eq : A -> A -> bool) (l : list A) : bool :=
  match l with
  | a :: ((b :: _) as r) => eq a b && all_same eq r
  | _ => true
  end.
Fixpoint list_eqb {A} (eq : A -> A -> bool) (a b : list A) : bool :=
  match a, b with
  | [], [] => true
  | x :: r, y :: t => eq x y && list_eqb eq r t
  | _, _ => false
  end.
Definition pair_eqb (a b : N * N) : bool := (fst a =? fst b) && (snd a =? snd b).
Definition derived_eqb : derived -> derived -> bool :=
  list_eqb (fun a b => (fst a =? fst b) && list_eqb pair_eqb (snd a) (snd b)).

(* Independent single-step specifications used for the function-level cases *)
(* the later change wins, per attribute: the result's cell is one of the two inputs', and its change id is
   not below either *)
Definition cid_leb (a b : cid) : bool := negb (cid_ltb b a).
Definition cell_cid_leb (a b : cell) : bool :=
  match a, b with
  | None, _ => true
  | Some _, None => false
  | Some (x, _), Some (y, _) => cid_leb x y
  end.
Fixpoint lww_spec (l r m : amap) : bool :=
  match m with
  | [] => forallb (fun x => cell_eqb x None) l && forallb (fun x => cell_eqb x None) r
  | z :: m' =>
      let x := hd None l in let y := hd None r in
      (cell_eqb z x || cell_eqb z y) && cell_cid_leb x z && cell_cid_leb y z && lww_spec (tl l) (tl r) m'
  end.
Definition apply_spec (inc d res : est) : bool :=
  match inc, d with
  | Tomb a, Tomb b => est_eqb res (Tomb (if cid_ltb b a then b else a))    (* the earlier tombstone *)
  | Tomb a, Live _ _ => est_eqb res (Tomb a)                              (* a tombstone always wins *)
  | Live _ _, Tomb b => est_eqb res (Tomb b)
  | Live a m, Live b n =>
      if cid_eqb a b then match res with Live x k => cid_eqb x a && lww_spec m n k | Tomb _ => false end
      else if cid_ltb a b then est_eqb res inc else est_eqb res d          (* the earlier creation survives *)
  end.

Definition pcheck (c : case) : bool :=
  match c with
  | CApply _ inc d _ _ res => apply_spec inc d res
  | CFilter w e res =>
      (* nothing outside the window is shipped, everything inside is, creation id / tombstone kept *)
      match e, res with
      | Live a m, Live b k =>
          cid_eqb a b && amap_eqb k (map (fun x => match x with
                                                   | Some (c, _) => if within w c then x else None
                                                   | None => None end) m)
      | Tomb a, Tomb b => cid_eqb a b
      | _, _ => false
      end
  | CHist _ _ finals der =>
      (* at quiescence all replicas hold the same entries (live, recycled, conflict, tombstone) with the same
         replicated attributes and change state, and the same derived attributes *)
      all_same db_eqb finals && all_same derived_eqb der
  end.

(* Known-finding class "derived-after-uuid-conflict": the replicated state of all replicas is identical, only
   derived (not replicated) attributes differ, and the history contains a uuid conflict (a conflict copy
   exists).  Two shapes observed on the real code: (a) the conflict copy keeps the loser's memberof /
   directmemberof on the replica that minted it and has none elsewhere; (b) on a replica that merely KEEPS its
   entry in a uuid conflict the post-replication plugins strip memberof values pointing to that uuid although
   the surviving group still lists the member. *)
Definition known (c : case) : bool :=
  match c with
  | CHist _ _ finals der =>
      all_same db_eqb finals && negb (all_same derived_eqb der)
      && existsb (fun d => existsb (fun ke => is_copy_id (fst ke)) d) finals
  | _ => false
  end.
