(* KV.C08.Props — replicas converge: the property theorems. *)
From Coq Require Import List NArith Bool Permutation.
Import ListNotations.
Require Import KV.C08.Model KV.C08.Proofs.
Open Scope N_scope.

(* Merging an entry version into itself changes nothing (is_add_conflict / merge_state / tombstone arms). *)
Theorem C08_merge_idem : forall e, ejoin e e = e.
Proof. exact ejoin_idem. Qed.

(* Merging is associative for ALL entry versions (live with any attribute records, different creation ids,
   tombstones) — no consistency premise needed: "the last of the latest" is associative. *)
Theorem C08_merge_assoc : forall x y z, ejoin x (ejoin y z) = ejoin (ejoin x y) z.
Proof. exact ejoin_assoc. Qed.

(* Merging is commutative for versions that are consistent with one table of writes (an attribute recorded as
   changed at change id c holds what was written at c): who is "incoming" and who is "in the database" does
   not matter, although ties keep the database side. *)
Theorem C08_merge_comm : forall w x y, ewf w x -> ewf w y -> ejoin x y = ejoin y x.
Proof. exact ejoin_comm. Qed.

(* A tombstone always wins over a live version, whichever side it is on; of two tombstones the earlier stays. *)
Theorem C08_tombstone_absorbs : forall a b m,
  ejoin (Tomb a) (Live b m) = Tomb a /\ ejoin (Live b m) (Tomb a) = Tomb a /\
  ejoin (Tomb a) (Tomb b) = Tomb (if cid_ltb a b then a else b).
Proof. intros a b m. unfold ejoin; cbn. destruct (cid_ltb a b); auto. Qed.

(* Merging a set of consistent versions into an entry gives the same result in every order. *)
Theorem C08_order_independent : forall w l1 l2 e,
  Permutation l1 l2 -> Forall (ewf w) l1 -> fold_right ejoin e l1 = fold_right ejoin e l2.
Proof. exact fold_ejoin_perm. Qed.

(* Consistency ("one change id names one write") is preserved by every incremental replication and refresh. *)
Theorem C08_consistency_preserved : forall l s, sys_wf s -> sys_wf (rrun s l).
Proof. exact sys_wf_rrun. Qed.

(* THE PROPERTY.  Whatever the replicas hold after any concurrent history (any consistent system state: any
   number of replicas, entries created several times under one uuid, concurrent edits, recycled entries,
   tombstones, conflict entries), any schedule of incremental replications and refreshes — any order, any
   topology — after which every replica has transitively received from every replica leaves ALL replicas with
   the same entry, attribute values and change state (or the same absence) for EVERY uuid. *)
Theorem C08_converge : forall (s : dsys) (l : list rop) (r r' u : N),
  sys_wf s ->
  forallb (rop_ok (length s)) l = true ->
  complete (length s) l = true ->
  r < N.of_nat (length s) -> r' < N.of_nat (length s) ->
  lookup u (getd (rrun s l) r) = lookup u (getd (rrun s l) r').
Proof. exact converge. Qed.

(* The consumer's database after an incremental replication is, uuid by uuid, the merge of what the supplier
   and the consumer held (unknown uuids are taken over, untouched ones kept). *)
Theorem C08_apply_pointwise : forall u inc d, lookup u (join_db inc d) = ojoin (lookup u inc) (lookup u d).
Proof. exact lookup_join_db. Qed.

(* The supplier's window filter (ReplIncrementalEntryV1::new) is harmless exactly when the consumer already
   holds, attribute by attribute, a change at least as late as every record that is filtered out: then merging
   the filtered entry equals merging the whole entry. *)
Theorem C08_window_filter_sound : forall w m n,
  (forall i, cfilter w (nth i m None) = None -> cell_cid_le (nth i m None) (nth i n None)) ->
  forall i, nth i (zipw (map (cfilter w) m) n) None = nth i (zipw m n) None.
Proof. exact zipw_rfilter. Qed.

(* An entry all of whose records carry change ids inside the requested window is shipped whole.  This is what
   fix 41afc51 establishes for conflict copies (every record re-stamped with the minting transaction's id);
   before it the copy kept the loser's old change ids, see Witness C08_prefix_hollow_copy. *)
Theorem C08_in_window_shipped_whole : forall w a m,
  (forall i c v, nth i m None = Some (c, v) -> within w c = true) ->
  rfilter w (Live a m) = Live a m.
Proof. exact rfilter_whole. Qed.

(* A local write transaction that records every attribute it changes under its own, not yet used, change id
   (Model.stamped: any request, plugin fix-ups, new entries, conflict copies, tombstoning) keeps the system
   consistent. *)
Theorem C08_local_write_keeps_consistency : forall s r c post,
  sys_wf s -> fresh c s -> (N.to_nat r < length s)%nat ->
  stamped c (getd s r) post = true ->
  sys_wf (setn (N.to_nat r) post s).
Proof. exact sys_wf_local. Qed.

(* THE PROPERTY over histories: for ANY history on n replicas — local write transactions with fresh change
   ids, incremental replications and refreshes in any interleaving — and ANY final schedule of replications
   and refreshes after which every replica has transitively received from every replica, all replicas hold
   identical entries (live, recycled, conflict, tombstone), attribute values and change states. *)
Theorem C08_converge_history : forall n s l r r' u,
  reach n s ->
  forallb (rop_ok n) l = true -> complete n l = true ->
  r < N.of_nat n -> r' < N.of_nat n ->
  lookup u (getd (rrun s l) r) = lookup u (getd (rrun s l) r').
Proof. exact converge_history. Qed.

(* The transcribed per-entry decision satisfies the independent specification used by pcheck for all inputs:
   per attribute the result is one of the two records and not older than either; the earlier creation wins a
   uuid conflict; any tombstone wins; of two tombstones the earlier. *)
Theorem C08_model_meets_spec : forall inc d, apply_spec inc d (ejoin inc d) = true.
Proof. exact model_meets_spec. Qed.
