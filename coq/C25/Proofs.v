(* KV.C25.Proofs — lemmas and proofs for C25. *)
From Coq Require Import List NArith Bool Lia.
Import ListNotations.
Require Import KV.C24.Model KV.C24.Proofs KV.C25.Builtin KV.C25.Model.
Open Scope N_scope.

(* ------------------------------------------------------------------ induction on target filters *)
Section TfInd.
  Variable P : tf -> Prop.
  Hypothesis HEq : forall a v, P (TEq a v).
  Hypothesis HPres : forall a, P (TPres a).
  Hypothesis HSelf : P TSelf.
  Hypothesis HAnd : forall l, Forall P l -> P (TAnd l).
  Hypothesis HOr : forall l, Forall P l -> P (TOr l).
  Hypothesis HNot : forall f, P f -> P (TNot f).
  Fixpoint tf_ind' (f : tf) : P f :=
    match f with
    | TEq a v => HEq a v
    | TPres a => HPres a
    | TSelf => HSelf
    | TAnd l => HAnd l ((fix go (l : list tf) : Forall P l :=
                           match l with
                           | [] => Forall_nil P
                           | x :: r => Forall_cons x (tf_ind' x) (go r)
                           end) l)
    | TOr l => HOr l ((fix go (l : list tf) : Forall P l :=
                         match l with
                         | [] => Forall_nil P
                         | x :: r => Forall_cons x (tf_ind' x) (go r)
                         end) l)
    | TNot g => HNot g (tf_ind' g)
    end.
End TfInd.

(* ------------------------------------------------------------------ small list facts *)
Lemma intersects_false_iff a b :
  intersects a b = false <-> (forall x, In x a -> In x b -> False).
Proof.
  unfold intersects. split.
  - intros H x Ha Hb. assert (E : existsb (fun y => mem y b) a = true).
    { apply existsb_exists. exists x. split; [exact Ha | apply mem_In; exact Hb]. }
    congruence.
  - intros H. destruct (existsb (fun y => mem y b) a) eqn:E; [|reflexivity].
    apply existsb_exists in E as [x [Ha Hb]]. apply mem_In in Hb. exfalso. exact (H x Ha Hb).
Qed.
Lemma disjoint_iff a b : disjoint a b = true <-> (forall x, In x a -> In x b -> False).
Proof. unfold disjoint. rewrite negb_true_iff. apply intersects_false_iff. Qed.
Lemma mem_false_iff x l : mem x l = false <-> ~ In x l.
Proof.
  split.
  - intros H Hi. apply mem_In in Hi. congruence.
  - intros H. destruct (mem x l) eqn:E; [|reflexivity]. apply mem_In in E. contradiction.
Qed.

(* ------------------------------------------------------------------ the group world *)
Lemma hp_groups_spec n g : In g (hp_groups n) -> g = HP \/ In HP (parents n g).
Proof.
  unfold hp_groups. intros [H|H]; [left; symmetry; exact H|].
  apply filter_In in H as [_ H]. right. apply mem_In. exact H.
Qed.
Lemma closedb_spec n G : closedb n G = true <-> (forall g h, In g G -> In h (parents n g) -> In h G).
Proof.
  unfold closedb. rewrite forallb_forall. split.
  - intros H g h Hg Hh. specialize (H g Hg). rewrite subset_In in H. exact (H h Hh).
  - intros H g Hg. apply subset_In. intros h Hh. exact (H g h Hg Hh).
Qed.
(* a memberof consistent with the nesting and without idm_high_privilege contains no
   high-privilege group *)
Lemma closed_not_hp_disjoint n G :
  closedb n G = true -> mem HP G = false -> disjoint G (hp_groups n) = true.
Proof.
  intros Hc Hn. apply disjoint_iff. intros g Hg Hh.
  apply mem_false_iff in Hn. apply Hn.
  apply hp_groups_spec in Hh as [->|Hh]; [exact Hg|].
  rewrite closedb_spec in Hc. exact (Hc g HP Hg Hh).
Qed.

Lemma assoc_pair n g : assoc g n = [] \/ In (g, assoc g n) n.
Proof.
  induction n as [|[k v] r IH]; cbn [assoc]; [left; reflexivity|].
  destruct (g =? k) eqn:E.
  - apply N.eqb_eq in E. subst k. right. left. reflexivity.
  - destruct IH as [IH|IH]; [left; exact IH | right; right; exact IH].
Qed.
(* with transitively closed nesting data, the memberof computed from ANY list of direct groups
   is consistent *)
Lemma closure_closed n R : nesting_transitive n = true -> closedb n (closure n R) = true.
Proof.
  intros Ht. apply closedb_spec. intros g h Hg Hh. unfold closure in *.
  apply in_app_or in Hg as [Hg|Hg].
  - apply in_or_app. right. apply in_flat_map. exists g. split; assumption.
  - apply in_flat_map in Hg as [r [Hr Hg]].
    apply in_or_app. right. apply in_flat_map. exists r. split; [exact Hr|].
    unfold parents in *.
    destruct (assoc_pair n r) as [E|Hp]; [rewrite E in Hg; destruct Hg|].
    unfold nesting_transitive in Ht. rewrite forallb_forall in Ht.
    specialize (Ht _ Hp). cbn [snd] in Ht. rewrite forallb_forall in Ht.
    specialize (Ht g Hg). rewrite subset_In in Ht. exact (Ht h Hh).
Qed.

(* ------------------------------------------------------------------ three-valued evaluation *)
Section Sound.
  Variables (u : N) (e : entry).
  Hypothesis Hhp : hp_target e = true.
  Hypothesis Hself : tmatch u e TSelf = false.

  Lemma aeval_sound f :
    (aeval f = TriT -> tmatch u e f = true) /\ (aeval f = TriF -> tmatch u e f = false).
  Proof.
    induction f as [a v | a | | l IH | l IH | g IH] using tf_ind'.
    - cbn [aeval tmatch]. destruct ((a =? A_MemberOf) && (v =? HP)) eqn:E; split; try discriminate.
      intros _. apply andb_true_iff in E as [Ea Ev]. apply N.eqb_eq in Ea, Ev. subst a v.
      unfold hp_target in Hhp. exact Hhp.
    - cbn [aeval tmatch]. destruct (a =? A_MemberOf) eqn:E; split; try discriminate.
      intros _. apply N.eqb_eq in E. subst a. unfold hp_target in Hhp.
      destruct (ava A_MemberOf e); [reflexivity | discriminate].
    - split; [cbn [aeval]; discriminate | intros _; exact Hself].
    - cbn [aeval tmatch]. unfold tri_all. split.
      + destruct (existsb tri_is_f (map aeval l)); [discriminate|].
        destruct (forallb tri_is_t (map aeval l)) eqn:E; [|discriminate]. intros _.
        apply forallb_forall. intros x Hx. rewrite Forall_forall in IH. apply (IH x Hx).
        rewrite forallb_forall in E. specialize (E (aeval x) (in_map aeval l x Hx)).
        destruct (aeval x); try discriminate. reflexivity.
      + destruct (existsb tri_is_f (map aeval l)) eqn:E.
        * intros _. apply existsb_exists in E as [t [Ht Hf]]. apply in_map_iff in Ht as [x [Hx Hxl]]. subst t.
          destruct (forallb (tmatch u e) l) eqn:F; [|reflexivity].
          rewrite forallb_forall in F. specialize (F x Hxl).
          rewrite Forall_forall in IH. destruct (IH x Hxl) as [_ H2].
          destruct (aeval x); try discriminate. rewrite (H2 eq_refl) in F. discriminate.
        * destruct (forallb tri_is_t (map aeval l)); discriminate.
    - cbn [aeval tmatch]. unfold tri_any. split.
      + destruct (existsb tri_is_t (map aeval l)) eqn:E.
        * intros _. apply existsb_exists in E as [t [Ht Hf]]. apply in_map_iff in Ht as [x [Hx Hxl]]. subst t.
          apply existsb_exists. exists x. split; [exact Hxl|].
          rewrite Forall_forall in IH. destruct (IH x Hxl) as [H1 _].
          destruct (aeval x); try discriminate. exact (H1 eq_refl).
        * destruct (forallb tri_is_f (map aeval l)); discriminate.
      + destruct (existsb tri_is_t (map aeval l)); [discriminate|].
        destruct (forallb tri_is_f (map aeval l)) eqn:E; [|discriminate]. intros _.
        destruct (existsb (tmatch u e) l) eqn:F; [|reflexivity].
        apply existsb_exists in F as [x [Hxl Hm]].
        rewrite forallb_forall in E. specialize (E (aeval x) (in_map aeval l x Hxl)).
        rewrite Forall_forall in IH. destruct (IH x Hxl) as [_ H2].
        destruct (aeval x); try discriminate. rewrite (H2 eq_refl) in Hm. discriminate.
    - cbn [aeval tmatch]. destruct IH as [H1 H2]. destruct (aeval g); cbn [tri_neg]; split; try discriminate; intros _.
      + rewrite (H1 eq_refl). reflexivity.
      + rewrite (H2 eq_refl). reflexivity.
  Qed.
End Sound.

(* ------------------------------------------------------------------ no profile matches *)
Lemma hp_writers_incl l a g :
  In a l -> a_recv a = RGroup g -> may_match_hp a = true -> forall x, In x g -> In x (hp_writers l).
Proof.
  intros Ha Hr Hm x Hx. unfold hp_writers. apply in_flat_map. exists a. split; [exact Ha|].
  rewrite Hr, Hm. exact Hx.
Qed.

(* a user whose groups avoid `hp_writers l`, who is not an entry manager of the high-privilege
   target e and is not e itself, matches no profile of l on e *)
Lemma no_profile_matches i e l :
  disjoint (i_memberof i) (hp_writers l) = true ->
  hp_target e = true -> is_self i e = false -> manager_ok i e = false ->
  forall a, In a l -> acp_matches i e a = false.
Proof.
  intros Hd Hhp Hs Hm a Ha. unfold acp_matches.
  destruct (a_recv a) as [|g|] eqn:Er; [reflexivity| |].
  - destruct (a_target a) as [f|] eqn:Et; [|reflexivity].
    destruct (may_match_hp a) eqn:Em.
    + assert (Hi : intersects (i_memberof i) g = false).
      { apply intersects_false_iff. intros x Hx Hg. rewrite disjoint_iff in Hd.
        exact (Hd x Hx (hp_writers_incl l a g Ha Er Em x Hg)). }
      rewrite Hi. reflexivity.
    + unfold may_match_hp in Em. rewrite Et in Em. apply negb_false_iff in Em.
      destruct (aeval f) eqn:Ea; try discriminate.
      destruct (aeval_sound (i_uuid i) e Hhp Hs f) as [_ H2]. rewrite (H2 Ea). apply andb_false_r.
  - destruct (a_target a); [|reflexivity]. rewrite Hm. reflexivity.
Qed.

Lemma existsb_false_all {A} (f : A -> bool) l : (forall x, In x l -> f x = false) -> existsb f l = false.
Proof.
  intros H. destruct (existsb f l) eqn:E; [|reflexivity].
  apply existsb_exists in E as [x [Hx Hf]]. rewrite (H x Hx) in Hf. discriminate.
Qed.

(* GENERAL (any profile set A): the decidable premise on the user's groups implies that every
   modify of the high-privilege target is refused *)
Theorem modify_denied_general i A e ml :
  i_origin i = OUser ->
  disjoint (i_memberof i) (hp_writers (ac_modify A)) = true ->
  hp_target e = true -> is_self i e = false -> manager_ok i e = false ->
  modify_entry i A e ml = false.
Proof.
  intros Ho Hd Hhp Hs Hm. rewrite (modify_user_exact i A e ml Ho).
  destruct (spec_modify_user i A e ml) eqn:E; [|reflexivity]. exfalso.
  assert (Hg : forall sel x, granted sel i (ac_modify A) e x = false).
  { intros sel x. unfold granted. apply existsb_false_all. intros a Ha.
    rewrite (no_profile_matches i e (ac_modify A) Hd Hhp Hs Hm a Ha). reflexivity. }
  unfold spec_modify_user in E.
  repeat (apply andb_true_iff in E as [E ?]).
  match goal with H : negb (is_empty (adds ml) && is_empty (removes ml)) = true |- _ => rename H into Hne end.
  match goal with H : forallb _ (adds ml) = true |- _ => rename H into Ha end.
  match goal with H : forallb _ (removes ml) = true |- _ => rename H into Hr end.
  destruct (adds ml) as [|x xs].
  - destruct (removes ml) as [|y ys]; [discriminate Hne|].
    cbn [forallb] in Hr. rewrite Hg in Hr. discriminate Hr.
  - cbn [forallb] in Ha. rewrite Hg in Ha. discriminate Ha.
Qed.

Theorem delete_denied_general i A e :
  i_origin i = OUser ->
  disjoint (i_memberof i) (hp_writers (ac_delete A)) = true ->
  hp_target e = true -> is_self i e = false -> manager_ok i e = false ->
  delete_entry i A e = false.
Proof.
  intros Ho Hd Hhp Hs Hm. rewrite (delete_user_exact i A e Ho).
  unfold spec_delete_user.
  rewrite (existsb_false_all _ _ (no_profile_matches i e (ac_delete A) Hd Hhp Hs Hm)).
  apply andb_false_r.
Qed.

(* ------------------------------------------------------------------ the shipped data *)
Lemma builtin_data_safe : data_safe builtin nesting = true.
Proof. vm_compute. reflexivity. Qed.
Lemma builtin_nesting_transitive : nesting_transitive nesting = true.
Proof. vm_compute. reflexivity. Qed.

Lemma disjoint_subset a b c : disjoint a c = true -> subset b c = true -> disjoint a b = true.
Proof.
  intros Hd Hs. apply disjoint_iff. intros x Ha Hb. rewrite disjoint_iff in Hd.
  rewrite subset_In in Hs. exact (Hd x Ha (Hs x Hb)).
Qed.

(* the property for the shipped access controls, in executable-premise form *)
Theorem builtin_hp_protected i e :
  closedb nesting (i_memberof i) = true -> subject i e = true ->
  (forall ml, modify_entry i builtin e ml = false) /\ delete_entry i builtin e = false.
Proof.
  intros Hc Hs. unfold subject in Hs.
  repeat (apply andb_true_iff in Hs as [Hs ?]).
  match goal with H : negb (manager_ok i e) = true |- _ => apply negb_true_iff in H; rename H into Hm end.
  match goal with H : negb (is_self i e) = true |- _ => apply negb_true_iff in H; rename H into Hself end.
  match goal with H : hp_target e = true |- _ => rename H into Hhp end.
  match goal with H : negb (mem HP (i_memberof i)) = true |- _ => apply negb_true_iff in H; rename H into Hn end.
  assert (Ho : i_origin i = OUser) by (destruct (i_origin i); try discriminate; reflexivity).
  pose proof (closed_not_hp_disjoint nesting (i_memberof i) Hc Hn) as Hd.
  pose proof builtin_data_safe as Hsafe. unfold data_safe in Hsafe. apply andb_true_iff in Hsafe as [S1 S2].
  split.
  - intros ml. apply modify_denied_general; try assumption. exact (disjoint_subset _ _ _ Hd S1).
  - apply delete_denied_general; try assumption. exact (disjoint_subset _ _ _ Hd S2).
Qed.

(* ------------------------------------------------------------------ limited-remit roles *)
Lemma limited_roles_receive_nothing :
  disjoint (HP :: LIMITED_ROLES) (hp_writers (ac_modify builtin)) = true
  /\ disjoint (HP :: LIMITED_ROLES) (hp_writers (ac_delete builtin)) = true.
Proof. split; vm_compute; reflexivity. Qed.

Lemma limited_user_disjoint i l :
  limited_user i = true -> subset l (hp_groups nesting) = true -> disjoint (HP :: LIMITED_ROLES) l = true ->
  disjoint (i_memberof i) l = true.
Proof.
  intros Hl Hs Hd. apply disjoint_iff. intros x Hx Hxl.
  unfold limited_user in Hl. rewrite forallb_forall in Hl. specialize (Hl x Hx).
  rewrite subset_In in Hs. specialize (Hs x Hxl). apply mem_In in Hs. rewrite Hs in Hl.
  cbn [negb orb] in Hl. rewrite disjoint_iff in Hd. apply (Hd x); [|exact Hxl].
  apply orb_true_iff in Hl as [Hl|Hl].
  - apply N.eqb_eq in Hl. subst x. left. reflexivity.
  - right. apply mem_In. exact Hl.
Qed.

Theorem limited_denied i e :
  subject_limited i e = true ->
  (forall ml, modify_entry i builtin e ml = false) /\ delete_entry i builtin e = false.
Proof.
  intros Hs. unfold subject_limited in Hs.
  repeat (apply andb_true_iff in Hs as [Hs ?]).
  match goal with H : negb (manager_ok i e) = true |- _ => apply negb_true_iff in H; rename H into Hm end.
  match goal with H : negb (is_self i e) = true |- _ => apply negb_true_iff in H; rename H into Hself end.
  match goal with H : hp_target e = true |- _ => rename H into Hhp end.
  match goal with H : limited_user i = true |- _ => rename H into Hl end.
  assert (Ho : i_origin i = OUser) by (destruct (i_origin i); try discriminate; reflexivity).
  pose proof builtin_data_safe as Hsafe. unfold data_safe in Hsafe. apply andb_true_iff in Hsafe as [S1 S2].
  destruct limited_roles_receive_nothing as [D1 D2].
  split.
  - intros ml. apply modify_denied_general; try assumption. exact (limited_user_disjoint i _ Hl S1 D1).
  - apply delete_denied_general; try assumption. exact (limited_user_disjoint i _ Hl S2 D2).
Qed.

Theorem protected_denied i e :
  closedb nesting (i_memberof i) = true -> protected_pair i e = true ->
  (forall ml, modify_entry i builtin e ml = false) /\ delete_entry i builtin e = false.
Proof.
  intros Hc Hp. unfold protected_pair in Hp. apply orb_true_iff in Hp as [Hp|Hp].
  - exact (builtin_hp_protected i e Hc Hp).
  - exact (limited_denied i e Hp).
Qed.

(* ------------------------------------------------------------------ the delegation premise *)
(* W x = the memberof the server maintains for entity x.  If every entry manager of e is
   high-privilege, a user outside idm_high_privilege is not an entry manager of e *)
Lemma managers_hp_not_manager (W : N -> list N) i e :
  (forall x g h, In g (W x) -> In h (W g) -> In h (W x)) ->
  (forall g, In g (i_memberof i) <-> In g (W (i_uuid i))) ->
  ~ In HP (W (i_uuid i)) ->
  (forall ms m, ava A_EntryManagedBy e = Some ms -> In m ms -> In HP (W m)) ->
  manager_ok i e = false.
Proof.
  intros Htr Hmo Hn Hms. unfold manager_ok.
  destruct (ava A_EntryManagedBy e) as [ms|] eqn:E; [|reflexivity].
  apply orb_false_iff. split.
  - apply intersects_false_iff. intros m Hm Hin. apply Hn.
    apply (Htr (i_uuid i) m HP); [apply Hmo; exact Hm | exact (Hms ms m eq_refl Hin)].
  - apply mem_false_iff. intros Hin. apply Hn. exact (Hms ms (i_uuid i) eq_refl Hin).
Qed.

(* ------------------------------------------------------------------ equality of dumped data *)
Lemma list_eqb_eq {A} (eq : A -> A -> bool) :
  (forall a b, eq a b = true -> a = b) -> forall l m, list_eqb eq l m = true -> l = m.
Proof.
  intros H l. induction l as [|x r IH]; intros [|y s]; cbn [list_eqb]; try discriminate; [reflexivity|].
  intros E. apply andb_true_iff in E as [E1 E2]. rewrite (H _ _ E1), (IH _ E2). reflexivity.
Qed.
Lemma Neqb_eq a b : (a =? b) = true -> a = b.
Proof. apply N.eqb_eq. Qed.
Lemma tf_eqb_eq f : forall g, tf_eqb f g = true -> f = g.
Proof.
  induction f as [a v | a | | l IH | l IH | f IH] using tf_ind'; intros [b w | b | | m | m | g]; cbn [tf_eqb]; try discriminate.
  - intros E. apply andb_true_iff in E as [E1 E2]. apply N.eqb_eq in E1, E2. subst. reflexivity.
  - intros E. apply N.eqb_eq in E. subst. reflexivity.
  - reflexivity.
  - intros E. f_equal. revert m E. induction IH as [|x r Hx Hr IHr]; intros [|y s]; try discriminate; [reflexivity|].
    intros E. apply andb_true_iff in E as [E1 E2]. rewrite (Hx _ E1), (IHr _ E2). reflexivity.
  - intros E. f_equal. revert m E. induction IH as [|x r Hx Hr IHr]; intros [|y s]; try discriminate; [reflexivity|].
    intros E. apply andb_true_iff in E as [E1 E2]. rewrite (Hx _ E1), (IHr _ E2). reflexivity.
  - intros E. rewrite (IH _ E). reflexivity.
Qed.
Lemma acp_eqb_eq a b : acp_eqb a b = true -> a = b.
Proof.
  destruct a as [r1 t1 s1 s2 c1 c2], b as [r2 t2 u1 u2 d1 d2]. unfold acp_eqb. cbn [a_recv a_target a_s1 a_s2 a_c1 a_c2].
  intros E. repeat (apply andb_true_iff in E as [E ?]).
  repeat match goal with H : list_eqb N.eqb _ _ = true |- _ => apply (list_eqb_eq N.eqb Neqb_eq) in H end.
  subst.
  assert (r1 = r2).
  { destruct r1, r2; cbn [recv_eqb] in E; try discriminate; try reflexivity.
    apply (list_eqb_eq N.eqb Neqb_eq) in E. subst. reflexivity. }
  assert (t1 = t2).
  { match goal with H : otf_eqb _ _ = true |- _ => rename H into Ht end.
    destruct t1, t2; cbn [otf_eqb] in Ht; try discriminate; try reflexivity.
    rewrite (tf_eqb_eq _ _ Ht). reflexivity. }
  subst. reflexivity.
Qed.
Lemma pair_eqb_eq a b : pair_eqb a b = true -> a = b.
Proof.
  destruct a, b. unfold pair_eqb. cbn [fst snd]. intros E. apply andb_true_iff in E as [E1 E2].
  apply N.eqb_eq in E1. apply (list_eqb_eq N.eqb Neqb_eq) in E2. subst. reflexivity.
Qed.
Lemma acps_eqb_eq A B : acps_eqb A B = true -> A = B.
Proof.
  destruct A as [m1 c1 d1 s1], B as [m2 c2 d2 s2]. unfold acps_eqb. cbn [ac_modify ac_create ac_delete ac_sync].
  intros E. repeat (apply andb_true_iff in E as [E ?]).
  repeat match goal with H : list_eqb acp_eqb _ _ = true |- _ => apply (list_eqb_eq acp_eqb acp_eqb_eq) in H end.
  match goal with H : list_eqb pair_eqb _ _ = true |- _ => apply (list_eqb_eq pair_eqb pair_eqb_eq) in H end.
  subst. reflexivity.
Qed.

(* ------------------------------------------------------------------ bridge *)
Lemma check_from_all_false f rs allowed : forall k,
  check_from k f rs allowed = true -> (forall r, In r rs -> f r = false) ->
  forall j, k <= j -> j < k + N.of_nat (length rs) -> mem j allowed = false.
Proof.
  induction rs as [|r rest IH]; intros k Hc Hf j H1 H2.
  - cbn [length] in H2. lia.
  - cbn [check_from] in Hc. apply andb_true_iff in Hc as [Hc1 Hc2].
    destruct (N.eq_dec j k) as [->|Hne].
    + rewrite (Hf r (or_introl eq_refl)) in Hc1. destruct (mem k allowed); [discriminate | reflexivity].
    + apply (IH (N.succ k) Hc2 (fun r' Hr' => Hf r' (or_intror Hr')) j); [lia|].
      cbn [length] in H2. lia.
Qed.

Theorem agree_implies_pcheck c : agree c = true -> pcheck c = true.
Proof.
  destruct c as [A n | th rs | i e th allowed del | i e ml res unchanged]; cbn [agree pcheck].
  - intros H. apply andb_true_iff in H as [H1 H2].
    apply acps_eqb_eq in H1. apply (list_eqb_eq pair_eqb pair_eqb_eq) in H2. subst.
    exact builtin_data_safe.
  - reflexivity.
  - intros H. destruct (protected_pair i e) eqn:Hs; [|reflexivity].
    repeat (apply andb_true_iff in H as [H ?]).
    match goal with X : Bool.eqb (delete_entry i builtin e) del = true |- _ => apply eqb_prop in X; rename X into Hdel end.
    match goal with X : check_from _ _ _ _ = true |- _ => rename X into Hck end.
    match goal with X : forallb _ allowed = true |- _ => rename X into Hrange end.
    destruct (protected_denied i e H Hs) as [Hm Hd].
    rewrite Hd in Hdel. subst del. rewrite andb_true_r.
    destruct allowed as [|k rest]; [reflexivity|]. exfalso.
    cbn [forallb] in Hrange. apply andb_true_iff in Hrange as [Hk _]. apply N.ltb_lt in Hk.
    assert (E : mem k (k :: rest) = false).
    { apply (check_from_all_false _ _ _ 0 Hck (fun r _ => Hm r) k); lia. }
    cbn [mem existsb] in E. rewrite N.eqb_refl in E. discriminate.
  - intros H. destruct (protected_pair i e) eqn:Hs; [|reflexivity].
    apply andb_true_iff in H as [Hc H].
    destruct (protected_denied i e Hc Hs) as [Hm _]. rewrite (Hm ml) in H.
    apply andb_true_iff in H as [H1 H2]. subst unchanged. destruct res; try discriminate; reflexivity.
Qed.

(* ------------------------------------------------------------------ the statement over a memberof world *)
Lemma subject_intro i e :
  i_origin i = OUser -> mem HP (i_memberof i) = false -> hp_target e = true ->
  is_self i e = false -> manager_ok i e = false -> subject i e = true.
Proof.
  intros Ho Hn Hhp Hs Hm. unfold subject. rewrite Ho, Hn, Hhp, Hs, Hm. reflexivity.
Qed.

Theorem hp_protected_world (W : N -> list N) i e t :
  (forall x g h, In g (W x) -> In h (W g) -> In h (W x)) ->
  (forall g h, In h (parents nesting g) -> In h (W g)) ->
  i_origin i = OUser ->
  (forall g, In g (i_memberof i) <-> In g (W (i_uuid i))) ->
  ~ In HP (W (i_uuid i)) ->
  euuid e = Some t ->
  (forall vs g, ava A_MemberOf e = Some vs -> In g vs -> In g (W t)) ->
  hp_target e = true ->
  (forall ms m, ava A_EntryManagedBy e = Some ms -> In m ms -> In HP (W m)) ->
  (forall ml, modify_entry i builtin e ml = false) /\ delete_entry i builtin e = false.
Proof.
  intros Htr Hnest Ho Hmo Hn Hu Hemo Hhp Hms.
  apply builtin_hp_protected.
  - apply closedb_spec. intros g h Hg Hh. apply Hmo.
    apply (Htr (i_uuid i) g h); [apply Hmo; exact Hg | exact (Hnest g h Hh)].
  - apply subject_intro; try assumption.
    + apply mem_false_iff. intros Hin. apply Hn. apply Hmo. exact Hin.
    + (* the target is another entry: it is high-privilege, the user is not *)
      assert (Ht : In HP (W t)).
      { unfold hp_target in Hhp. destruct (ava A_MemberOf e) as [vs|] eqn:E; [|discriminate].
        apply (Hemo vs HP eq_refl). apply mem_In. exact Hhp. }
      unfold is_self. cbn [tmatch]. unfold euuid in Hu.
      destruct (ava A_Uuid e) as [[|x [|y r]]|]; try discriminate.
      injection Hu as ->. cbn [mem existsb]. rewrite orb_false_r.
      apply N.eqb_neq. intros E. rewrite E in Hn. contradiction.
    + exact (managers_hp_not_manager W i e Htr Hmo Hn Hms).
Qed.

Theorem every_role_subset R i e :
  i_origin i = OUser -> i_memberof i = closure nesting R -> mem HP (closure nesting R) = false ->
  hp_target e = true -> is_self i e = false -> manager_ok i e = false ->
  (forall ml, modify_entry i builtin e ml = false) /\ delete_entry i builtin e = false.
Proof.
  intros Ho Hmo Hn Hhp Hs Hm. apply builtin_hp_protected.
  - rewrite Hmo. apply closure_closed. exact builtin_nesting_transitive.
  - apply subject_intro; try assumption. rewrite Hmo. exact Hn.
Qed.
