(* KV.C25.Model — default roles cannot act on high-privilege accounts (executable definitions only).

   The access DECISION is KV.C24.Model (transcription of server/lib/src/server/access/{mod,modify,
   delete,...}.rs: modify_entry = modify_allow_operation per entry, delete_entry likewise).
   The access DATA is KV.C25.Builtin, regenerated from the running code by `c25 --dump`: the
   modify / create / delete profiles a freshly initialised server has loaded and the memberof of
   every built-in group (migration_data/dl_1_12/{access,groups}.rs through migrations.rs, the
   profile loaders and the memberof plugin).

   This file adds: the group world (which groups are high-privilege, consistency of a user's
   memberof with the shipped nesting), a three-valued evaluation of target filters on "some
   high-privilege entry other than the acting user", the decidable criterion `hp_writers`, the
   hypotheses of the property as an executable predicate, and the correspondence cases. *)
From Coq Require Import List NArith Bool.
Import ListNotations.
Require Export KV.C24.Model KV.C25.Builtin.
Open Scope N_scope.

(* ------------------------------------------------------------------ the group world *)
Fixpoint assoc (g : N) (l : list (N * list N)) : list N :=
  match l with
  | [] => []
  | (k, v) :: r => if g =? k then v else assoc g r
  end.
(* the groups a group is itself a (transitive) member of, per nesting data n *)
Definition parents (n : list (N * list N)) (g : N) : list N := assoc g n.
(* the high-privilege groups: idm_high_privilege and every group that is a member of it *)
Definition hp_groups (n : list (N * list N)) : list N :=
  HP :: filter (fun g => mem HP (parents n g)) (map fst n).
(* a user's memberof G agrees with the nesting: with a group it contains the groups of that group *)
Definition closedb (n : list (N * list N)) (G : list N) : bool :=
  forallb (fun g => subset (parents n g) G) G.
(* memberof of a user whose DIRECT groups are R (any list of uuids) under the shipped nesting *)
Definition closure (n : list (N * list N)) (R : list N) : list N := R ++ flat_map (parents n) R.
(* the nesting data is transitively closed (memberof is) *)
Definition nesting_transitive (n : list (N * list N)) : bool :=
  forallb (fun p => forallb (fun h => subset (parents n h) (snd p)) (snd p)) n.

(* ------------------------------------------------------------------ targets *)
(* the target entry is high-privilege: its memberof lists idm_high_privilege (FILTER_HP) *)
Definition hp_target (e : entry) : bool :=
  match ava A_MemberOf e with Some vs => mem HP vs | None => false end.
(* the target is the acting user's own entry (what SelfUuid resolves to) *)
Definition is_self (i : ident) (e : entry) : bool := tmatch (i_uuid i) e TSelf.

(* three-valued evaluation of a target filter knowing only: memberof contains HP, not self *)
Inductive tri := TriT | TriF | TriU.
Definition tri_is_t (t : tri) : bool := match t with TriT => true | _ => false end.
Definition tri_is_f (t : tri) : bool := match t with TriF => true | _ => false end.
Definition tri_neg (t : tri) : tri := match t with TriT => TriF | TriF => TriT | TriU => TriU end.
Definition tri_all (l : list tri) : tri :=
  if existsb tri_is_f l then TriF else if forallb tri_is_t l then TriT else TriU.
Definition tri_any (l : list tri) : tri :=
  if existsb tri_is_t l then TriT else if forallb tri_is_f l then TriF else TriU.
Fixpoint aeval (f : tf) {struct f} : tri :=
  match f with
  | TEq a v => if (a =? A_MemberOf) && (v =? HP) then TriT else TriU
  | TPres a => if a =? A_MemberOf then TriT else TriU
  | TSelf => TriF
  | TAnd l => tri_all (map aeval l)
  | TOr l => tri_any (map aeval l)
  | TNot g => tri_neg (aeval g)
  end.

(* the profile's target is not excluded from matching a high-privilege entry other than the actor *)
Definition may_match_hp (a : acp) : bool :=
  match a_target a with Some f => negb (tri_is_f (aeval f)) | None => false end.
(* the receiver groups of the group-received profiles that may reach such an entry *)
Definition hp_writers (l : list acp) : list N :=
  flat_map (fun a => match a_recv a with
                     | RGroup g => if may_match_hp a then g else []
                     | _ => [] end) l.

(* ------------------------------------------------------------------ the property's hypotheses *)
(* acting USER who is not a member of idm_high_privilege, target that is, not the user's own
   entry, and the user is not an entry manager of the target (directly or through a group) *)
Definition subject (i : ident) (e : entry) : bool :=
  match i_origin i with OUser => true | _ => false end
  && negb (mem HP (i_memberof i)) && hp_target e && negb (is_self i e) && negb (manager_ok i e).

(* EXTENSION beyond the literal statement — role holders with a limited remit.  These built-in
   roles are themselves members of HP, but the profiles they receive are written to exclude
   high-privilege targets (FILTER_ANDNOT_HP_OR_RECYCLED_OR_TOMBSTONE; people admins get the
   separate idm_acp_hp_people_credential_reset): idm_service_desk, idm_people_on_boarding,
   idm_group_admins, idm_service_account_admins, idm_oauth2_account_admins. *)
Definition LIMITED_ROLES : list N := [65; 69; 21; 70; 87].
(* the user holds no high-privilege group other than HP itself and limited-remit roles *)
Definition limited_user (i : ident) : bool :=
  forallb (fun g => negb (mem g (hp_groups nesting)) || (g =? HP) || mem g LIMITED_ROLES) (i_memberof i).
Definition subject_limited (i : ident) (e : entry) : bool :=
  match i_origin i with OUser => true | _ => false end
  && limited_user i && hp_target e && negb (is_self i e) && negb (manager_ok i e).
(* the pairs on which the check demands a denial *)
Definition protected_pair (i : ident) (e : entry) : bool := subject i e || subject_limited i e.

(* credential-, session-, account-detail- and membership-bearing attributes (for the statement
   in the property's words; the theorems cover every attribute) *)
Definition SENSITIVE : list N :=
  [A_PrimaryCredential; A_UnixPassword; A_RadiusSecret; A_SshPublicKey;
   A_UserAuthTokenSession; A_OAuth2Session; A_ApiTokenSession; A_CredentialUpdateIntentToken;
   A_AccountExpire; A_AccountValidFrom; A_Name; A_DisplayName; A_LegalName; A_Mail;
   A_Member; A_EntryManagedBy; A_Class;
   XA_passkeys; XA_attested_passkeys; XA_application_password; XA_account_softlock_expire;
   XA_oauth2_account_credential_uuid; XA_unix_password_import; XA_password_import; XA_totp_import].

(* ------------------------------------------------------------------ equality of dumped data *)
Fixpoint list_eqb {A} (eq : A -> A -> bool) (a b : list A) : bool :=
  match a, b with
  | [], [] => true
  | x :: r, y :: s => eq x y && list_eqb eq r s
  | _, _ => false
  end.
Fixpoint tf_eqb (f g : tf) {struct f} : bool :=
  match f, g with
  | TEq a v, TEq b w => (a =? b) && (v =? w)
  | TPres a, TPres b => a =? b
  | TSelf, TSelf => true
  | TAnd l, TAnd m =>
      (fix go (l m : list tf) : bool :=
         match l, m with
         | [], [] => true
         | x :: r, y :: s => tf_eqb x y && go r s
         | _, _ => false
         end) l m
  | TOr l, TOr m =>
      (fix go (l m : list tf) : bool :=
         match l, m with
         | [], [] => true
         | x :: r, y :: s => tf_eqb x y && go r s
         | _, _ => false
         end) l m
  | TNot a, TNot b => tf_eqb a b
  | _, _ => false
  end.
Definition recv_eqb (a b : receiver) : bool :=
  match a, b with
  | RNone, RNone => true
  | RManager, RManager => true
  | RGroup g, RGroup h => list_eqb N.eqb g h
  | _, _ => false
  end.
Definition otf_eqb (a b : option tf) : bool :=
  match a, b with
  | None, None => true
  | Some f, Some g => tf_eqb f g
  | _, _ => false
  end.
Definition acp_eqb (a b : acp) : bool :=
  recv_eqb (a_recv a) (a_recv b) && otf_eqb (a_target a) (a_target b)
  && list_eqb N.eqb (a_s1 a) (a_s1 b) && list_eqb N.eqb (a_s2 a) (a_s2 b)
  && list_eqb N.eqb (a_c1 a) (a_c1 b) && list_eqb N.eqb (a_c2 a) (a_c2 b).
Definition pair_eqb (a b : N * list N) : bool := (fst a =? fst b) && list_eqb N.eqb (snd a) (snd b).
Definition acps_eqb (A B : acps) : bool :=
  list_eqb acp_eqb (ac_modify A) (ac_modify B) && list_eqb acp_eqb (ac_create A) (ac_create B)
  && list_eqb acp_eqb (ac_delete A) (ac_delete B) && list_eqb pair_eqb (ac_sync A) (ac_sync B).

(* the decidable criterion: every group that receives a modify / delete profile able to reach a
   high-privilege entry (other than the actor's own) is itself high-privilege *)
Definition data_safe (A : acps) (n : list (N * list N)) : bool :=
  subset (hp_writers (ac_modify A)) (hp_groups n) && subset (hp_writers (ac_delete A)) (hp_groups n).

(* ------------------------------------------------------------------ correspondence *)
Definition md_eqb (a b : md) : bool :=
  match a, b with
  | MPresent x v, MPresent y w => (x =? y) && (v =? w)
  | MRemoved x v, MRemoved y w => (x =? y) && (v =? w)
  | MPurged x, MPurged y => x =? y
  | MAssert x v, MAssert y w => (x =? y) && (v =? w)
  | MSet x vs, MSet y ws => (x =? y) && list_eqb N.eqb vs ws
  | _, _ => false
  end.
(* the request table of a tier (KV.C25.Builtin, generated with the data) *)
Definition requests (thorough : bool) : list (list md) :=
  if thorough then requests_thorough else requests_quick.
(* request number k, k+1, ... : the decision f equals "the number is listed as allowed" *)
Fixpoint check_from (k : N) (f : list md -> bool) (rs : list (list md)) (allowed : list N) : bool :=
  match rs with
  | [] => true
  | r :: rest => Bool.eqb (f r) (mem k allowed) && check_from (N.succ k) f rest allowed
  end.

Inductive case :=
(* the profiles and group nesting dumped from the server of THIS run *)
| CData (A : acps) (n : list (N * list N))
(* the request table the harness of this run used *)
| CReqs (thorough : bool) (rs : list (list md))
(* one acting user (memberof as stored by the server) and one target entry as stored, on the
   populated server: `allowed` = the numbers of the requests of the tier's table for which the
   server's live AccessControls::modify_allow_operation answered "allowed"; del = the answer of
   the live delete_allow_operation *)
| CPair (i : ident) (e : entry) (thorough : bool) (allowed : list N) (del : bool)
(* a real QueryServerWriteTransaction::modify as the acting user (never committed): outcome class
   and whether the target read back unchanged *)
| CSrv (i : ident) (e : entry) (ml : list md) (res : sres) (unchanged : bool).

Definition agree (c : case) : bool :=
  match c with
  | CData A n => acps_eqb A builtin && list_eqb pair_eqb n nesting
  | CReqs th rs => list_eqb (list_eqb md_eqb) rs (requests th)
  | CPair i e th allowed del =>
      closedb nesting (i_memberof i)
      && forallb (fun k => k <? N.of_nat (length (requests th))) allowed
      && check_from 0 (modify_entry i builtin e) (requests th) allowed
      && Bool.eqb (delete_entry i builtin e) del
  | CSrv i e ml res unchanged =>
      closedb nesting (i_memberof i)
      && if modify_entry i builtin e ml
         then negb (match res with SDenied => true | _ => false end) && (negb (refused res) || unchanged)
         else refused res && unchanged
  end.

(* the property on what the implementation did: under the property's hypotheses (and for the
   limited-remit role holders of the extension) every verdict is a denial, no operation succeeds
   and nothing changes; the dumped data meets the criterion *)
Definition pcheck (c : case) : bool :=
  match c with
  | CData A n => data_safe A n
  | CReqs _ _ => true
  | CPair i e th allowed del => if protected_pair i e then is_empty allowed && negb del else true
  | CSrv i e ml res unchanged => if protected_pair i e then negb (sres_ok res) && unchanged else true
  end.
Definition known (_ : case) : bool := false.
