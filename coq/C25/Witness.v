(* KV.C25.Witness — non-vacuity: concrete users / targets satisfy the hypotheses of the theorems,
   the model is not trivially "denied", and the premises are needed. *)
From Coq Require Import List NArith Bool String.
Import ListNotations.
Require Import KV.C24.Model KV.C24.Proofs KV.C25.Builtin KV.C25.Model KV.C25.Proofs.
Open Scope N_scope.

(* uuids outside the built-in range *)
Definition U_LOW : N := 281474976720001.
Definition U_HPP : N := 281474976720002.
Definition U_ADM : N := 281474976720003.
Definition U_GRP : N := 281474976720004.
Definition G_SELF_NAME : N := 72.   (* idm_people_self_name_write *)
Definition G_ALL_PERSONS : N := 53.
Definition G_ALL_ACCOUNTS : N := 54.
Definition G_PEOPLE_ADMINS : N := 19.
Definition G_SERVICE_DESK : N := 65.
Definition G_ON_BOARDING : N := 69.
Definition G_GROUP_ADMINS : N := 21.
Definition G_SERVICE_ACCOUNT_ADMINS : N := 70.

(* an ordinary person: dynamic groups and the default self-name-write role *)
Definition low_user : ident := mkI OUser ScRW U_LOW [G_ALL_PERSONS; G_ALL_ACCOUNTS; G_SELF_NAME].
(* a member of idm_people_admins (hence of HP) *)
Definition people_admin : ident := mkI OUser ScRW U_ADM [G_PEOPLE_ADMINS; G_ALL_PERSONS; G_ALL_ACCOUNTS; G_SELF_NAME; HP].
(* a service desk member (hence of HP), a role with a remit limited to non-HP persons *)
Definition service_desk : ident := mkI OUser ScRW U_ADM [G_SERVICE_DESK; G_ALL_PERSONS; G_ALL_ACCOUNTS; G_SELF_NAME; HP].

(* a person who is a member of idm_high_privilege *)
Definition hp_person : entry :=
  [(A_Class, [K_Object; K_Account; K_Person; K_MemberOf]); (A_Uuid, [U_HPP]); (A_Name, [0]);
   (A_DisplayName, [0]); (A_MemberOf, [G_ALL_PERSONS; G_ALL_ACCOUNTS; G_SELF_NAME; HP]);
   (A_PrimaryCredential, [0])].
(* a high-privilege group whose entry manager is the ordinary person: the excluded delegation *)
Definition hp_group_managed_by_low : entry :=
  [(A_Class, [K_Object; K_Group; K_MemberOf]); (A_Uuid, [U_GRP]); (A_Name, [0]);
   (A_Member, [U_HPP]); (A_MemberOf, [HP]); (A_EntryManagedBy, [U_LOW])].
(* the ordinary person's own entry *)
Definition low_entry : entry :=
  [(A_Class, [K_Object; K_Account; K_Person; K_MemberOf]); (A_Uuid, [U_LOW]); (A_Name, [0]);
   (A_DisplayName, [0]); (A_MemberOf, [G_ALL_PERSONS; G_ALL_ACCOUNTS; G_SELF_NAME])].

(* hypotheses of C25_subject_denied / C25_no_sensitive_change / C25_no_revive hold for a concrete pair *)
Example C25_witness_subject :
  closedb nesting (i_memberof low_user) = true /\ subject low_user hp_person = true.
Proof. split; vm_compute; reflexivity. Qed.

(* hypotheses of C25_every_role_subset: direct roles {self-name-write, mail servers, unix auth read} *)
Example C25_witness_role_subset :
  let R := [G_SELF_NAME; 82; 83; G_ALL_PERSONS] in
  mem HP (closure nesting R) = false /\ hp_target hp_person = true
  /\ is_self (mkI OUser ScRW U_LOW (closure nesting R)) hp_person = false
  /\ manager_ok (mkI OUser ScRW U_LOW (closure nesting R)) hp_person = false.
Proof. vm_compute. repeat split; reflexivity. Qed.

(* the model is not trivially "denied": a people admin may reset the high-privilege person's
   credential and change the name, an ordinary person may write the own credential *)
Example C25_witness_model_allows :
  modify_entry people_admin builtin hp_person [MPurged A_PrimaryCredential] = true
  /\ modify_entry people_admin builtin hp_person [MPresent A_DisplayName 0] = true
  /\ modify_entry low_user builtin low_entry [MPurged A_PrimaryCredential] = true
  /\ modify_entry low_user builtin hp_person [MPurged A_PrimaryCredential] = false.
Proof. vm_compute. repeat split; reflexivity. Qed.

(* the delegation premise is needed: the ordinary person who is entry manager of a high-privilege
   group CAN change its membership (so `manager_ok i e = false` cannot be dropped) *)
Example C25_witness_manager_premise_needed :
  subject low_user hp_group_managed_by_low = false
  /\ hp_target hp_group_managed_by_low = true /\ mem HP (i_memberof low_user) = false
  /\ modify_entry low_user builtin hp_group_managed_by_low [MPresent A_Member 0] = true.
Proof. vm_compute. repeat split; reflexivity. Qed.

(* hypotheses of C25_profiles_cannot_reach_hp for high-privilege role holders with a limited remit:
   service desk, people on-boarding, group admins and service-account admins receive no modify
   profile that can reach a high-privilege entry — and the criterion is not vacuous: people admins do *)
Example C25_witness_limited_roles :
  disjoint (i_memberof service_desk) (hp_writers (ac_modify builtin)) = true
  /\ disjoint [G_ON_BOARDING; G_GROUP_ADMINS; G_SERVICE_ACCOUNT_ADMINS; HP] (hp_writers (ac_modify builtin)) = true
  /\ hp_target hp_person = true /\ is_self service_desk hp_person = false
  /\ manager_ok service_desk hp_person = false
  /\ mem G_PEOPLE_ADMINS (hp_writers (ac_modify builtin)) = true
  /\ modify_entry service_desk builtin hp_person [MPurged A_PrimaryCredential] = false.
Proof. vm_compute. repeat split; reflexivity. Qed.

(* hypothesis of C25_limited_roles_denied holds for the service desk member; a people admin is not
   a limited user *)
Example C25_witness_limited_subject :
  subject_limited service_desk hp_person = true /\ subject service_desk hp_person = false
  /\ limited_user people_admin = false /\ limited_user low_user = true.
Proof. vm_compute. repeat split; reflexivity. Qed.

(* the numbers in LIMITED_ROLES are the groups meant (names from the generated data) *)
Fixpoint name_of (g : N) (l : list (N * String.string)) : String.string :=
  match l with [] => String.EmptyString | (k, s) :: r => if g =? k then s else name_of g r end.
Example C25_witness_limited_role_names :
  map (fun g => name_of g group_names) LIMITED_ROLES =
  ["idm_service_desk"; "idm_people_on_boarding"; "idm_group_admins"; "idm_service_account_admins";
   "idm_oauth2_account_admins"]%string
  /\ name_of HP group_names = "idm_high_privilege"%string.
Proof. vm_compute. split; reflexivity. Qed.

(* C25_not_hp_means_no_hp_role is not vacuous, and consistency matters: a memberof that lists
   idm_people_admins without HP is NOT consistent with the shipped nesting *)
Example C25_witness_closed :
  closedb nesting [G_SELF_NAME; G_ALL_PERSONS] = true /\ mem HP [G_SELF_NAME; G_ALL_PERSONS] = false
  /\ closedb nesting [G_PEOPLE_ADMINS] = false /\ mem G_PEOPLE_ADMINS (hp_groups nesting) = true.
Proof. vm_compute. repeat split; reflexivity. Qed.

(* ------------------------------------------------------------------ a world for C25_hp_protected *)
(* memberof of every entity: the ordinary person, the high-privilege person, and the shipped
   nesting for everything else *)
Definition W (x : N) : list N :=
  if x =? U_LOW then [G_ALL_PERSONS; G_ALL_ACCOUNTS; G_SELF_NAME]
  else if x =? U_HPP then [G_ALL_PERSONS; G_ALL_ACCOUNTS; G_SELF_NAME; HP]
  else parents nesting x.

Lemma nesting_small : forallb (fun p => forallb (fun g => g <? 100000) (snd p)) nesting = true.
Proof. vm_compute. reflexivity. Qed.
Lemma parents_small x g : In g (parents nesting x) -> g < 100000.
Proof.
  intros H. unfold parents in H. destruct (assoc_pair nesting x) as [E|Hp]; [rewrite E in H; destruct H|].
  pose proof nesting_small as S. rewrite forallb_forall in S. specialize (S _ Hp). cbn [snd] in S.
  rewrite forallb_forall in S. apply N.ltb_lt. exact (S g H).
Qed.
Lemma W_group g : g < 100000 -> W g = parents nesting g.
Proof.
  intros H. unfold W.
  assert (E1 : (g =? U_LOW) = false) by (apply N.eqb_neq; unfold U_LOW; intros ->; vm_compute in H; discriminate).
  assert (E2 : (g =? U_HPP) = false) by (apply N.eqb_neq; unfold U_HPP; intros ->; vm_compute in H; discriminate).
  rewrite E1, E2. reflexivity.
Qed.
Lemma W_transitive : forall x g h, In g (W x) -> In h (W g) -> In h (W x).
Proof.
  intros x g h Hg Hh. unfold W in Hg |- *.
  destruct (x =? U_LOW).
  - cbn [In] in Hg. destruct Hg as [<-|[<-|[<-|[]]]]; vm_compute in Hh; vm_compute; tauto.
  - destruct (x =? U_HPP).
    + cbn [In] in Hg. destruct Hg as [<-|[<-|[<-|[<-|[]]]]]; vm_compute in Hh; vm_compute; tauto.
    + rewrite (W_group g (parents_small x g Hg)) in Hh.
      unfold parents in Hg |- *.
      destruct (assoc_pair nesting x) as [E|Hp]; [rewrite E in Hg; destruct Hg|].
      pose proof builtin_nesting_transitive as T. unfold nesting_transitive in T.
      rewrite forallb_forall in T. specialize (T _ Hp). cbn [snd] in T.
      rewrite forallb_forall in T. specialize (T g Hg). rewrite subset_In in T. exact (T h Hh).
Qed.

(* all nine hypotheses of C25_hp_protected hold for the ordinary person and the high-privilege
   person in the world W *)
Example C25_witness_world :
  (forall x g h, In g (W x) -> In h (W g) -> In h (W x))
  /\ (forall g h, In h (parents nesting g) -> In h (W g))
  /\ i_origin low_user = OUser
  /\ (forall g, In g (i_memberof low_user) <-> In g (W (i_uuid low_user)))
  /\ ~ In HP (W (i_uuid low_user))
  /\ euuid hp_person = Some U_HPP
  /\ (forall vs g, ava A_MemberOf hp_person = Some vs -> In g vs -> In g (W U_HPP))
  /\ hp_target hp_person = true
  /\ (forall ms m, ava A_EntryManagedBy hp_person = Some ms -> In m ms -> In HP (W m)).
Proof.
  split; [exact W_transitive|].
  split.
  { intros g h Hh. unfold W.
    destruct (g =? U_LOW) eqn:E1.
    { apply N.eqb_eq in E1. subst g. vm_compute in Hh. destruct Hh. }
    destruct (g =? U_HPP) eqn:E2.
    { apply N.eqb_eq in E2. subst g. vm_compute in Hh. destruct Hh. }
    exact Hh. }
  split; [reflexivity|].
  split; [intros g; vm_compute; tauto|].
  split; [vm_compute; intuition discriminate|].
  split; [reflexivity|].
  split.
  { intros vs g E Hg. vm_compute in E. injection E as <-. vm_compute. vm_compute in Hg. exact Hg. }
  split; [vm_compute; reflexivity|].
  intros ms m E. vm_compute in E. discriminate.
Qed.

(* pcheck is not vacuous on the case shapes: a case whose subject holds and whose verdicts are
   denials passes, the same case with one allowed verdict fails *)
Example C25_witness_pcheck :
  pcheck (CPair low_user hp_person false [] false) = true
  /\ pcheck (CPair low_user hp_person false [1] false) = false
  /\ pcheck (CPair low_user hp_person false [] true) = false
  /\ agree (CPair low_user hp_person false [] false) = true
  /\ agree (CPair people_admin hp_person false [] false) = false
  /\ pcheck (CSrv low_user hp_person [MPurged A_PrimaryCredential] SOk true) = false
  /\ agree (CData builtin nesting) = true /\ pcheck (CData builtin nesting) = true.
Proof. vm_compute. repeat split; reflexivity. Qed.

(* the criterion detects an unsafe profile set: had idm_acp_people_credential_reset (received by
   service desk and on-boarding) not excluded HP targets, the data would not be safe — and neither
   would it be if idm_people_admins were not a member of HP *)
Definition unsafe_modify : list acp :=
  [mkA (RGroup [G_PEOPLE_ADMINS; G_SERVICE_DESK; G_ON_BOARDING])
       (Some (TAnd [TEq A_Class K_Account; TEq A_Class K_Person; TNot (TOr [TEq A_Class K_Recycled; TEq A_Class K_Tombstone])]))
       [A_PrimaryCredential] [A_PrimaryCredential] [] []].
Example C25_witness_criterion_detects :
  data_safe (mkAcps unsafe_modify [] [] []) [(G_PEOPLE_ADMINS, [HP]); (G_SERVICE_DESK, []); (G_ON_BOARDING, [HP])] = false
  /\ data_safe (mkAcps unsafe_modify [] [] []) [(G_PEOPLE_ADMINS, [HP]); (G_SERVICE_DESK, [HP]); (G_ON_BOARDING, [HP])] = true
  /\ data_safe builtin (filter (fun p => negb (fst p =? G_PEOPLE_ADMINS)) nesting) = false.
Proof. vm_compute. repeat split; reflexivity. Qed.
