(* KV.C25.Props — property theorems only.

   modify_entry i A e ml / delete_entry i A e  = the transcription (KV.C24.Model) of
     AccessControls::modify_allow_operation / delete_allow_operation for identity i, profile set A,
     stored target entry e and modify list ml (arbitrary, no size bound).
   builtin, nesting = KV.C25.Builtin: the write profiles a freshly initialised server has loaded and
     the memberof of every built-in group, REGENERATED from the running code (`c25 --dump`) and
     compared with the running code inside Coq on every run of the check (case CData).
   HP = idm_high_privilege.  hp_target e = "memberof of e lists HP" (the FILTER_HP test). *)
From Coq Require Import List NArith Bool.
Import ListNotations.
Require Import KV.C24.Model KV.C25.Builtin KV.C25.Model KV.C25.Proofs.
Open Scope N_scope.

(* THE PROPERTY, over a world of memberships.  W x is the memberof the server maintains for entity
   x; it is transitive, and the shipped nesting of the built-in groups is in place (an administrator
   may have ADDED groups, members and nesting at will).  A user who is not a member of HP — whatever
   built-in role groups and other groups the user is in — can change NOTHING (no attribute at all,
   so in particular no credential, session, account detail or group membership; ml is arbitrary) on,
   and cannot delete, an entry that is a member of HP, provided every entry manager of that entry is
   itself high-privilege (the property's "not delegated to a non-high-privilege entry manager"). *)
Theorem C25_hp_protected : forall (W : N -> list N) i e t,
  (forall x g h, In g (W x) -> In h (W g) -> In h (W x)) ->
  (forall g h, In h (parents nesting g) -> In h (W g)) ->
  i_origin i = OUser ->
  (forall g, In g (i_memberof i) <-> In g (W (i_uuid i))) ->
  ~ In HP (W (i_uuid i)) ->
  euuid e = Some t ->
  (forall vs g, ava A_MemberOf e = Some vs -> In g vs -> In g (W t)) ->
  hp_target e = true ->
  (forall ms m, ava A_EntryManagedBy e = Some ms -> In m ms -> In HP (W m)) ->
  (forall ml, modify_entry i builtin e ml = false) /\ delete_entry i builtin e = false.
Proof. exact hp_protected_world. Qed.

(* "Every subset of built-in role groups", without a bound: R is ANY list of directly held groups
   (built-in role groups or not); the user's memberof is R closed under the shipped nesting.  If
   that closure does not reach HP, every modify and the delete of a high-privilege entry other
   than the user's own, of which the user is not an entry manager, are refused. *)
Theorem C25_every_role_subset : forall R i e,
  i_origin i = OUser -> i_memberof i = closure nesting R -> mem HP (closure nesting R) = false ->
  hp_target e = true -> is_self i e = false -> manager_ok i e = false ->
  (forall ml, modify_entry i builtin e ml = false) /\ delete_entry i builtin e = false.
Proof. exact every_role_subset. Qed.

(* The same with the hypotheses as the executable predicate the correspondence run evaluates:
   memberof consistent with the shipped nesting, and `subject` (user, HP not in memberof, target in
   HP, target is another entry, user not an entry manager of it). *)
Theorem C25_subject_denied : forall i e,
  closedb nesting (i_memberof i) = true -> subject i e = true ->
  (forall ml, modify_entry i builtin e ml = false) /\ delete_entry i builtin e = false.
Proof. exact builtin_hp_protected. Qed.

(* In the property's own words: no request that touches a credential-, session-, account-detail-
   or membership-bearing attribute is allowed. *)
Theorem C25_no_sensitive_change : forall i e ml a,
  closedb nesting (i_memberof i) = true -> subject i e = true ->
  In a SENSITIVE -> In a (adds ml) \/ In a (removes ml) ->
  modify_entry i builtin e ml = false.
Proof. intros i e ml a Hc Hs _ _. exact (proj1 (builtin_hp_protected i e Hc Hs) ml). Qed.

(* Recycle-bin revive of such an entry (the fake modify of recycle.rs) is refused as well. *)
Theorem C25_no_revive : forall i e,
  closedb nesting (i_memberof i) = true -> subject i e = true ->
  decide i builtin [e] OpRevive = false.
Proof.
  intros i e Hc Hs. unfold decide. cbn [forallb entry_decision].
  rewrite (proj1 (builtin_hp_protected i e Hc Hs) REVIVE_MODLIST). reflexivity.
Qed.

(* GENERAL criterion, for ANY set of access control profiles A (not only the shipped ones): a user
   none of whose groups receives a modify (delete) profile whose target could match a
   high-privilege entry other than the user's own (hp_writers: three-valued evaluation of the
   target filter knowing only "memberof contains HP" and "not self") cannot modify (delete) such an
   entry unless he is one of its entry managers.  This also covers high-privilege role holders with
   a limited remit: see Witness (service desk, on-boarding, group / service-account admins). *)
Theorem C25_profiles_cannot_reach_hp : forall i A e,
  i_origin i = OUser -> hp_target e = true -> is_self i e = false -> manager_ok i e = false ->
  (disjoint (i_memberof i) (hp_writers (ac_modify A)) = true -> forall ml, modify_entry i A e ml = false) /\
  (disjoint (i_memberof i) (hp_writers (ac_delete A)) = true -> delete_entry i A e = false).
Proof.
  intros i A e Ho Hhp Hs Hm. split.
  - intros Hd ml. apply modify_denied_general; assumption.
  - intros Hd. apply delete_denied_general; assumption.
Qed.

(* EXTENSION (beyond the literal statement): holders of the limited-remit roles — service desk,
   people on-boarding, group admins, service-account admins, OAuth2-account admins — are members of
   HP themselves, yet as long as they hold no other high-privilege group they, too, can change
   nothing on and cannot delete a high-privilege entry (other than their own / one they manage):
   the profiles they receive exclude high-privilege targets. *)
Theorem C25_limited_roles_denied : forall i e,
  subject_limited i e = true ->
  (forall ml, modify_entry i builtin e ml = false) /\ delete_entry i builtin e = false.
Proof. exact limited_denied. Qed.

(* The shipped data meets the criterion: every group that receives a modify or delete profile able
   to reach a high-privilege entry is itself a member of HP; and the dumped nesting is transitively
   closed.  (Re-proved by computation whenever the regenerated data changes.) *)
Theorem C25_shipped_data_safe :
  data_safe builtin nesting = true /\ nesting_transitive nesting = true.
Proof. split; [exact builtin_data_safe | exact builtin_nesting_transitive]. Qed.

(* Group facts used above, for any nesting data: a memberof that is consistent with the nesting and
   does not contain HP contains no high-privilege group at all. *)
Theorem C25_not_hp_means_no_hp_role : forall n G,
  closedb n G = true -> mem HP G = false -> disjoint G (hp_groups n) = true.
Proof. exact closed_not_hp_disjoint. Qed.

(* The delegation premise in world form implies the executable one. *)
Theorem C25_hp_managers_exclude_low_users : forall (W : N -> list N) i e,
  (forall x g h, In g (W x) -> In h (W g) -> In h (W x)) ->
  (forall g, In g (i_memberof i) <-> In g (W (i_uuid i))) ->
  ~ In HP (W (i_uuid i)) ->
  (forall ms m, ava A_EntryManagedBy e = Some ms -> In m ms -> In HP (W m)) ->
  manager_ok i e = false.
Proof. exact managers_hp_not_manager. Qed.

(* Bridge to the implementation: on every recorded case where the model and kanidm agree (the
   dumped data equals the data the theorems are about; the live access decisions and real modify
   outcomes equal the model's), the implementation's own answers satisfy the property. *)
Theorem C25_agree_implies_property : forall c, agree c = true -> pcheck c = true.
Proof. exact agree_implies_pcheck. Qed.
