(* KV.C09.Witness — non-vacuity of the implication theorems and the refutation witnesses, by vm_compute. *)
From Coq Require Import List NArith Bool.
Import ListNotations.
Require Import KV.C09.Model KV.C09.Proofs KV.C09.Props.
Open Scope N_scope.

(* one-way break: replica 1 stops hearing replica 0; replica 0 keeps pulling from 1; both keep purging *)
Definition round (t : N) : list op := [OPurgeRec 0 t; OPurgeTomb 0 (t + 1); OPurgeTomb 1 (t + 2); ORepl 0 1 (t + 3)].
Definition oneway_prefix : list op :=
  [OCreate 0 604855 1; OCreate 0 604856 2; ORepl 1 0 604866; OMod 0 604876 1; ODelete 0 604886 1]
  ++ round 756086 ++ round 907289 ++ round 1058492 ++ round 1209695.
Definition oneway_history : list op :=
  oneway_prefix ++ round 1360898 ++ round 1512101 ++ round 1663304 ++ round 1814507
  ++ [OMod 1 1814520 2; ORepl 0 1 1814530; ORepl 1 0 1814540; OMod 1 1814550 1; ORepl 0 1 1814560].

Definition st_after (ops : list op) (r u : N) : option est :=
  match run sys0 ops with Some s => find u (ents (getr s r)) | None => None end.

(* C09_tombstone_absorbing / C09_tombstone_never_revived_in_place / C09_tombstone_until_reaped: a real tombstone
   exists (u1 on replica 0 after the fourth housekeeping round), made from an entry with a modified attribute *)
Example C09_witness_tombstone : st_after oneway_prefix 0 1 = Some (ETomb (1209695, 0)).
Proof. vm_compute. reflexivity. Qed.
(* ... the live-vs-tombstone arm is met with concurrent edits on the live side *)
Example C09_witness_absorbing :
  merge_state (ILive (604855, 0) 0 [(3, (1814550, 1), true); (4, (1814550, 1), true)]) (ETomb (1209695, 0))
  = Some (ETomb (1209695, 0)).
Proof. vm_compute. reflexivity. Qed.
(* ... and it is reaped four rounds later (second disjunct of C09_tombstone_until_reaped) *)
Example C09_witness_reaped :
  st_after (oneway_prefix ++ round 1360898 ++ round 1512101 ++ round 1663304 ++ round 1814507) 0 1 = None.
Proof. vm_compute. reflexivity. Qed.

(* the one-way history up to the point where the silent link has come back *)
Definition oneway_guarded : list op :=
  oneway_prefix ++ round 1360898 ++ round 1512101 ++ round 1663304 ++ round 1814507
  ++ [OMod 1 1814520 2; ORepl 0 1 1814530; ORepl 1 0 1814540].

(* C09_no_resurrection_partial: the premises hold on a non-trivial history (healthy_history below, from the moment
   u1 is a tombstone on replica 0): the tombstone is reaped and replica 0 then applies replication from a replica
   that has reaped it as well; u1 stays gone *)
Definition hk (t : N) : list op :=
  [OPurgeTomb 0 t; OPurgeTomb 1 (t + 1); OPurgeTomb 2 (t + 2);
   ORepl 1 0 (t + 10); ORepl 2 0 (t + 11); ORepl 0 1 (t + 12); ORepl 0 2 (t + 13); ORepl 1 2 (t + 14); ORepl 2 1 (t + 15)].
Definition healthy_history : list op :=
  [OCreate 0 604855 1; ORepl 1 0 604866; ORepl 2 0 604867; ODelete 0 604886 1; ORepl 1 0 604890; ORepl 2 1 604891]
  ++ hk 907000 ++ [OPurgeRec 0 1209695] ++ hk 1209700 ++ hk 1512100 ++ hk 1814508.
Example C09_witness_partial_premises :
  guardedb (match run sys0 (firstn 16 healthy_history) with Some s => s | None => sys0 end)
           (skipn 16 healthy_history) 0 1 = true
  /\ is_tomb (st_after (firstn 16 healthy_history) 0 1) = true
  /\ st_after healthy_history 0 1 = None
  /\ match model_obs sys0 healthy_history with
     | Some l => match last l (Obs (OPurgeRec 0 0) 0 rep0) with Obs _ k _ => k end | None => 99 end = R_V1.
Proof. vm_compute. repeat split; reflexivity. Qed.

(* the guard is not vacuous: it fails on the full one-way history, where replica 1 finally modifies u1 and
   replica 0 (which has reaped u1) applies that change: u1 is back on replica 0 as a conflict entry *)
Example C09_witness_guard_fails :
  guardedb (match run sys0 oneway_prefix with Some s => s | None => sys0 end)
           (skipn (length oneway_prefix) oneway_history) 0 1 = false
  /\ st_after oneway_history 0 1 = Some (ELive (604855, 0) 2 [(3, (1814550, 1), true); (4, (1814550, 1), true)]).
Proof. vm_compute. split; reflexivity. Qed.

(* C09_entry_appears_only_by_create_or_supply: both causes occur *)
Example C09_witness_appears_by_supply :
  st_after (firstn 2 oneway_prefix) 1 1 = None /\ is_live_state (st_after (firstn 3 oneway_prefix) 1 1) = true.
Proof. vm_compute. split; reflexivity. Qed.

(* C09_lagging_refused: a consumer that still lists the supplier's server with an old newest change is told to
   refresh (the one-way history, replica 1 not purging: it keeps its old rows of server 0) *)
Definition lagging_history : list op :=
  [OCreate 0 604855 1; ORepl 1 0 604866; ODelete 0 604886 1; OPurgeRec 0 1209695; OPurgeTomb 0 1209696;
   OPurgeTomb 0 1814508; ORepl 1 0 1814540].
Example C09_witness_lagging_refused :
  match model_obs sys0 lagging_history with
  | Some l => match last l (Obs (OPurgeRec 0 0) 0 rep0) with Obs _ k _ => k end
  | None => 0 end = R_REFRESH.
Proof. vm_compute. reflexivity. Qed.

(* refutation witnesses *)
(* (1) dropped deletion: in the one-way history the step `repl 1<-0` at 1814540 is ACCEPTED although replica 0 has
   reaped u1 and replica 1 has never seen the deletion: replica 1 keeps u1 live for ever *)
Example C09_refuted_dropped_deletion :
  match model_obs sys0 oneway_guarded with
  | Some l => (pcheck (CHist sys0 l), known (CHist sys0 l),
               match last l (Obs (OPurgeRec 0 0) 0 rep0) with Obs _ k _ => k end)
  | None => (true, false, 99) end = (false, true, R_V1)
  /\ is_visible (st_after oneway_guarded 1 1) = true.
Proof. vm_compute. split; reflexivity. Qed.

(* (2) resurrection: Props.stale_clock_history; the failing history lies in the known class *)
Example C09_refuted_resurrection :
  match model_obs sys0 stale_clock_history with
  | Some l => (pcheck (CHist sys0 l), known (CHist sys0 l)) | None => (true, false) end = (false, true).
Proof. vm_compute. reflexivity. Qed.

(* the known class is not everything: an ordinary history with deletion, purge, reaping and replication inside
   the window is outside it and satisfies the property *)
Example C09_witness_healthy :
  match model_obs sys0 healthy_history with
  | Some l => (pcheck (CHist sys0 l), known (CHist sys0 l), agree (CHist sys0 l)) | None => (false, true, false) end
  = (true, false, true)
  /\ st_after healthy_history 0 1 = None /\ st_after healthy_history 1 1 = None /\ st_after healthy_history 2 1 = None.
Proof. vm_compute. repeat split; reflexivity. Qed.
