(* KV.C09.Props — property theorems only. *)
From Coq Require Import List NArith Bool.
Import ListNotations.
Require Import KV.C09.Model KV.C09.Proofs.
Require KV.C10.Model.
Open Scope N_scope.

(* merge_state: as soon as one side is a tombstone the result is a tombstone, whichever side it is and whatever
   the other side holds (any concurrent edits) *)
Theorem C09_tombstone_absorbing : forall i d m,
  merge_state i d = Some m ->
  (exists a, i = ITomb a) \/ (exists b, d = ETomb b) ->
  exists c, m = ETomb c.
Proof.
  intros i d m H [[a ->]|[b ->]]; [eapply merge_tomb_left | eapply merge_tomb_right]; exact H.
Qed.

(* two tombstones merge to the earlier one *)
Theorem C09_tombstone_merge_min : forall a b,
  merge_state (ITomb a) (ETomb b) = Some (ETomb (if cid_ltb a b then a else b)).
Proof. exact merge_tomb_min. Qed.

(* ANY transaction of the modelled system (create, modify, delete, purge_recycled, purge_tombstones, incremental
   replication with any outcome), on ANY state: a uuid that a replica holds as a tombstone is afterwards still a
   tombstone there, or the replica holds nothing for it (it was reaped).  No transaction turns a held tombstone
   back into an entry. *)
Theorem C09_tombstone_never_revived_in_place : forall s o k s1 r u,
  step s o = Some (k, s1) ->
  is_tomb (find u (ents (getr s r))) = true ->
  is_tomb (find u (ents (getr s1 r))) = true \/ find u (ents (getr s1 r)) = None.
Proof. intros s o k s1 r u H Ht. exact (step_pres s o k s1 H r u Ht). Qed.

(* ... over whole histories of any length: at the end the tombstone is still there, or at some point of the
   history the replica had forgotten the uuid completely. *)
Theorem C09_tombstone_until_reaped : forall ops s s' r u,
  run s ops = Some s' ->
  is_tomb (find u (ents (getr s r))) = true ->
  is_tomb (find u (ents (getr s' r))) = true \/
  exists pre post sm, ops = pre ++ post /\ run s pre = Some sm /\ find u (ents (getr sm r)) = None.
Proof. exact run_tomb_until_reaped. Qed.

(* The ONLY transactions after which a replica holds a (live-state) entry for a uuid it held nothing for are:
   a create request for that uuid on that replica, or an APPLIED incremental replication into that replica whose
   supplier holds the uuid in a live change state at that moment. *)
Theorem C09_entry_appears_only_by_create_or_supply : forall s o k s1 r u,
  step s o = Some (k, s1) ->
  find u (ents (getr s r)) = None ->
  is_live_state (find u (ents (getr s1 r))) = true ->
  (exists t, o = OCreate r t u) \/
  (exists from t a c ch, o = ORepl r from t /\ k = R_V1 /\ In (u, ELive a c ch) (ents (getr s from))).
Proof.
  intros s o k s1 r u H Hn Hl. exact (step_appear s o k s1 r u H (conj Hn Hl)).
Qed.

(* PARTIAL no-resurrection theorem (histories of any length, any schedule, any times): if the uuid is never
   created again by a request and no replication is applied at a moment when the consumer holds nothing for the
   uuid while the supplier still holds it live — i.e. whenever the refusal the property demands actually
   happens —, then a uuid that is a tombstone (or already forgotten) on a replica is never an entry there again.
   What is missing for the full statement: the premise on replication steps is NOT enforced by the code
   (C09_refuted). *)
Theorem C09_no_resurrection_partial : forall ops s s' r u,
  run s ops = Some s' ->
  guardedb s ops r u = true ->
  is_tomb (find u (ents (getr s r))) = true \/ find u (ents (getr s r)) = None ->
  is_live_state (find u (ents (getr s' r))) = false.
Proof.
  intros ops s s' r u Hrun Hg Hq.
  destruct (run_tomb_or_gone ops s s' r u Hrun (guardedb_sound _ _ _ _ Hg) Hq) as [Ht|Hn]; unfold st_of in *.
  - destruct (find u (ents (getr s' r))) as [[a k ch|a]|]; [discriminate | reflexivity | reflexivity].
  - rewrite Hn. reflexivity.
Qed.

(* Lag detection as far as the code has it (on top of C10): if the consumer lists a server and its newest change
   of that server is older than the oldest change of that server in the supplier's (trim-filtered) view, the
   supplier never supplies changes: it answers RefreshRequired or UnwillingToSupply. *)
Theorem C09_lagging_refused : forall cns s e cmin cmx,
  In e (view_range (cmax s - W) (ruv s)) ->
  KV.C10.Model.lookup (fst e) cns = Some (cmin, cmx) ->
  cmx < fst (snd e) ->
  provide cns s = CtxRefresh \/ provide cns s = CtxUnwilling.
Proof. exact provide_lagging. Qed.

(* The full statement of the property for the model: from the warmed-up three-replica system, for every history,
   the observations the model makes of itself satisfy the property's predicate (no uuid once held as a tombstone
   is visible again on that replica; no replication is accepted while one side has reaped a deletion the other
   side has never seen). *)
Definition C09_full_statement : Prop :=
  forall ops steps, model_obs sys0 ops = Some steps -> pcheck (CHist sys0 steps) = true.

(* replica 1 creates u1, u2 and later falls silent; replica 2 deletes u1, purges it to a tombstone and reaps it
   (which trims replica 1 out of its RUV); replica 0 still holds u1 live and last wrote less than a window ago *)
Definition stale_clock_history : list op :=
  [OCreate 1 604874 1; OCreate 1 604915 2; ORepl 0 1 604956; ORepl 2 1 604997; ODelete 2 611045 1;
   OPurgeTomb 1 913445; ORepl 2 1 913486; OMod 1 1203790 2; ORepl 0 1 1203831; ORepl 2 1 1203872;
   OPurgeRec 2 1215968; OMod 0 1228064 2; ORepl 2 0 1228105; OPurgeTomb 2 1826815; ORepl 2 0 1826856].

Theorem C09_refuted : ~ C09_full_statement.
Proof.
  intros H.
  destruct (model_obs sys0 stale_clock_history) as [steps|] eqn:E; [|vm_compute in E; discriminate].
  specialize (H stale_clock_history steps E).
  assert (Hf : match model_obs sys0 stale_clock_history with
               | Some l => pcheck (CHist sys0 l) | None => true end = false) by (vm_compute; reflexivity).
  rewrite E in Hf. rewrite H in Hf. discriminate.
Qed.

(* and it is a resurrection in the strict sense: after the last step u1, a tombstone reaped on replica 2, is a
   live (visible, not recycled, not conflict) entry of replica 2 again *)
Theorem C09_resurrection_witness :
  exists s', run sys0 stale_clock_history = Some s' /\
             is_visible (find 1 (ents (getr s' 2))) = true /\
  exists pre post sm a, stale_clock_history = pre ++ post /\ run sys0 pre = Some sm /\
             find 1 (ents (getr sm 2)) = Some (ETomb a).
Proof.
  destruct (run sys0 stale_clock_history) as [s'|] eqn:E; [|vm_compute in E; discriminate].
  exists s'. split; [reflexivity|]. split.
  - assert (Hv : match run sys0 stale_clock_history with
                 | Some x => is_visible (find 1 (ents (getr x 2))) | None => false end = true) by (vm_compute; reflexivity).
    rewrite E in Hv. exact Hv.
  - exists (firstn 11 stale_clock_history), (skipn 11 stale_clock_history).
    destruct (run sys0 (firstn 11 stale_clock_history)) as [sm|] eqn:Em; [|vm_compute in Em; discriminate].
    assert (Ht : match run sys0 (firstn 11 stale_clock_history) with
                 | Some x => find 1 (ents (getr x 2)) | None => None end = Some (ETomb (1215968, 2)))
      by (vm_compute; reflexivity).
    rewrite Em in Ht. exists sm, (1215968, 2). split; [reflexivity|]. split; [reflexivity | exact Ht].
Qed.

(* the executable predicate means what it says: if it accepts a recorded history, then after every recorded
   transaction no uuid the touched replica had held as a tombstone is visible on it *)
Theorem C09_pcheck_sound_first_step : forall init o code snap rest,
  pcheck (CHist init (Obs o code snap :: rest)) = true ->
  forall u, In u (snd (pget (map (fun r => (r, tombs_of r)) init) (op_rep o))) ->
  is_visible (find u (ents snap)) = false.
Proof.
  intros init o code snap rest H u Hu. cbn [pcheck pcheck_steps] in H.
  apply andb_true_iff in H as [H _]. apply andb_true_iff in H as [_ H].
  unfold no_resurrection in H. rewrite forallb_forall in H.
  specialize (H u Hu). destruct (is_visible (find u (ents snap))); [discriminate | reflexivity].
Qed.
