(* KV.C09.Model — deleted entries are never resurrected by replication (executable definitions only).

   Transcribes, for entries of class `group` without members (replicated attributes: 0 class, 1 name,
   2 uuid, 3 spn, 4 description, 5 recycled_directmemberof) on replicas of one domain:
     server/mod.rs        QueryServer::write (txn change id, trim_cid = cid - CHANGELOG_MAX_AGE),
                          QueryServer::read (trim_cid = published cid_max - CHANGELOG_MAX_AGE)
     server/{create,modify,delete}.rs  change ids written by create / modify(description) / delete(recycle)
     server/recycle.rs    purge_recycled (recycled with LastModifiedCid < cid - RECYCLEBIN_MAX_AGE -> tombstone
                          at the txn cid), purge_tombstones
     be/mod.rs            create / modify (RUV insert_change), reap_tombstones (anchor, trim_up_to, partition
                          by can_delete, the two RUV sanity checks, delete), retrieve_range,
                          incremental_prepare (stub entries), incremental_apply (update_entry_changestate)
     repl/ruv.rs          insert_change, update_entry_changestate, trim_up_to, filter_ruv_range,
                          current_ruv_range, range_to_idl, get_anchored_ranges,
                          incremental_preflight_validate_ruv, refresh_validate_ruv, refresh_update_ruv;
                          range_diff is KV.C10.Model.range_diff (proved equal to its table there)
     repl/supplier.rs     supplier_provide_changes
     repl/proto.rs        ReplIncrementalEntryV1::new (only attributes changed inside the supplied ranges)
     repl/consumer.rs     consumer_apply_changes(_v1), consumer_incremental_apply_entries
     entry.rs             merge_state (all four arms), validate_repl (schema failure -> conflict in place)
   Time stamps are whole seconds relative to the harness' epoch (0 = the zero Duration); all transaction
   times of one history are distinct, so change ids are ordered by time stamp alone (the server id only
   distinguishes them). *)
From Coq Require Import List NArith Bool.
Import ListNotations.
Require KV.C10.Model.
Module R := KV.C10.Model.
Open Scope N_scope.

Definition W : N := 604800.          (* CHANGELOG_MAX_AGE = RECYCLEBIN_MAX_AGE = 7 days (non-test build) *)

(* change id = (time stamp, server id); `#[derive(Ord)] struct Cid { ts, s_uuid }` *)
Definition cid := (N * N)%type.
Definition cid_ltb (a b : cid) : bool :=
  (fst a <? fst b) || ((fst a =? fst b) && (snd a <? snd b)).
Definition cid_eqb (a b : cid) : bool := (fst a =? fst b) && (snd a =? snd b).

(* one record of the entry change state: attribute, change id, "the attribute has a value" *)
Definition chg := (N * cid * bool)%type.
Definition c_attr (c : chg) : N := fst (fst c).
Definition c_cid (c : chg) : cid := snd (fst c).
Definition c_val (c : chg) : bool := snd c.

(* cls: 0 live, 1 recycled, 2 conflict (+recycled) — the content of the class attribute *)
Inductive est :=
| ELive (at_ : cid) (cls : N) (ch : list chg)      (* ch ascending by attribute *)
| ETomb (at_ : cid).

Definition ent := (N * est)%type.                  (* uuid id, state *)
Definition ruvrow := (cid * list N)%type.          (* change id, entries recorded for it (ascending) *)

Record rep := mkR {
  ents : list ent;               (* ascending by uuid id *)
  ruv : list ruvrow;             (* ascending by change id *)
  cmax : N }.                    (* time stamp of the published cid_max *)

(* ------------------------------------------------------------------ small list tools *)
Fixpoint ins (x : N) (l : list N) : list N :=
  match l with
  | [] => [x]
  | y :: r => if x <? y then x :: l else if x =? y then l else y :: ins x r
  end.
Definition union (a b : list N) : list N := fold_left (fun acc x => ins x acc) a b.
Definition mem (x : N) (l : list N) : bool := existsb (N.eqb x) l.

Fixpoint find (u : N) (l : list ent) : option est :=
  match l with [] => None | (v, s) :: r => if v =? u then Some s else find u r end.
Fixpoint put (u : N) (s : est) (l : list ent) : list ent :=
  match l with
  | [] => [(u, s)]
  | (v, s') :: r => if u <? v then (u, s) :: l else if u =? v then (u, s) :: r else (v, s') :: put u s r
  end.
Definition del (us : list N) (l : list ent) : list ent := filter (fun e => negb (mem (fst e) us)) l.

Fixpoint lookc (a : N) (l : list chg) : option chg :=
  match l with [] => None | c :: r => if c_attr c =? a then Some c else lookc a r end.
Fixpoint putc (c : chg) (l : list chg) : list chg :=
  match l with
  | [] => [c]
  | d :: r => if c_attr c <? c_attr d then c :: l else if c_attr c =? c_attr d then c :: r else d :: putc c r
  end.

(* ReplicationUpdateVectorWriteTransaction::insert_change: OR the ids into the row, create the row if new *)
Fixpoint ruv_ins (c : cid) (ids : list N) (l : list ruvrow) : list ruvrow :=
  match l with
  | [] => [(c, ids)]
  | (d, x) :: r => if cid_ltb c d then (c, ids) :: l
                   else if cid_eqb c d then (d, union x ids) :: r
                   else (d, x) :: ruv_ins c ids r
  end.

(* EntryChangeState::cid_iter *)
Definition cids_of (s : est) : list cid :=
  match s with ELive _ _ ch => map c_cid ch | ETomb a => [a] end.
(* update_entry_changestate *)
Definition ruv_upd (u : N) (s : est) (l : list ruvrow) : list ruvrow :=
  fold_left (fun acc c => ruv_ins c [u] acc) (cids_of s) l.

(* get_max_cid (LastModifiedCid) *)
Definition cid_max2 (a b : cid) : cid := if cid_ltb a b then b else a.
Definition max_cid (s : est) : cid :=
  match s with
  | ELive a _ [] => a
  | ELive _ _ (c :: r) => fold_left cid_max2 (map c_cid r) (c_cid c)
  | ETomb a => a
  end.

(* ------------------------------------------------------------------ local write transactions *)
Definition R_OK := 0.  Definition R_NOMATCH := 3.  Definition R_RUVSTATE := 5.

Definition all_attrs (c : cid) : list chg := [(0, c, true); (1, c, true); (2, c, true); (3, c, true); (4, c, true)].

(* internal_create of one group (the uuid must be unknown to this replica) *)
Definition do_create (c : cid) (u : N) (r : rep) : option (N * rep) :=
  match find u (ents r) with
  | Some _ => None
  | None => Some (R_OK, mkR (put u (ELive c 0 (all_attrs c)) (ents r)) (ruv_ins c [u] (ruv r)) (fst c))
  end.

(* internal_modify (purge_and_set description) through filter!(uuid = u): only a live entry matches; no match is
   Ok for an internal identity; plugins/spn.rs re-sets the spn on every modify *)
Definition do_mod (c : cid) (u : N) (r : rep) : N * rep :=
  match find u (ents r) with
  | Some (ELive a 0 ch) =>
      (R_OK, mkR (put u (ELive a 0 (putc (4, c, true) (putc (3, c, true) ch))) (ents r)) (ruv_ins c [u] (ruv r)) (fst c))
  | _ => (R_OK, mkR (ents r) (ruv r) (fst c))
  end.

(* internal_delete: live -> recycled (class changes, recycled_directmemberof is recorded without a value);
   no match = NoMatchingEntries and the transaction is dropped *)
Definition do_delete (c : cid) (u : N) (r : rep) : N * rep :=
  match find u (ents r) with
  | Some (ELive a 0 ch) =>
      (R_OK, mkR (put u (ELive a 1 (putc (5, c, false) (putc (0, c, true) ch))) (ents r)) (ruv_ins c [u] (ruv r)) (fst c))
  | _ => (R_NOMATCH, r)
  end.

(* purge_recycled: class = recycled AND LastModifiedCid < (ts - RECYCLEBIN_MAX_AGE, nil uuid) *)
Definition rec_due (t : N) (e : ent) : bool :=
  match snd e with
  | ELive _ k _ => negb (k =? 0) && (fst (max_cid (snd e)) <? t - W)
  | ETomb _ => false
  end.
Definition do_purge_rec (c : cid) (r : rep) : N * rep :=
  let due := map fst (filter (rec_due (fst c)) (ents r)) in
  match due with
  | [] => (R_OK, mkR (ents r) (ruv r) (fst c))
  | _ => (R_OK, mkR (map (fun e => if mem (fst e) due then (fst e, ETomb c) else e) (ents r))
                    (ruv_ins c due (ruv r)) (fst c))
  end.

(* trim_up_to: rows with cid < (trim, nil uuid) are removed; their ids are returned *)
Definition trim_lt (trim : N) (row : ruvrow) : bool := fst (fst row) <? trim.
Definition ruv_ids (l : list ruvrow) : list N := fold_left (fun acc row => union acc (snd row)) l [].

(* purge_tombstones = reap_tombstones(cid, trim_cid) *)
Definition do_purge_tomb (c : cid) (r : rep) : N * rep :=
  let trim := fst c - W in
  let ruv1 := ruv_ins c [] (ruv r) in
  let idl := ruv_ids (filter (trim_lt trim) ruv1) in
  let ruv2 := filter (fun row => negb (trim_lt trim row)) ruv1 in
  let cand := filter (fun e => mem (fst e) idl) (ents r) in
  let is_dead := fun e : ent => match snd e with ETomb a => fst a <? trim | _ => false end in
  let tombs := map fst (filter is_dead cand) in
  let left := filter (fun e => negb (is_dead e)) cand in
  let rids := ruv_ids ruv2 in
  if negb (forallb (fun e : ent => match snd e with ELive _ _ _ => true | ETomb _ => mem (fst e) rids end) left)
  then (R_RUVSTATE, r)
  else if existsb (fun u => mem u rids) tombs then (R_RUVSTATE, r)
  else (R_OK, mkR (del tombs (ents r)) ruv2 (fst c)).

(* ------------------------------------------------------------------ supplier *)
(* ranged index: per server the ascending time stamps *)
Definition sids_of (l : list ruvrow) : list N := fold_left (fun acc row => ins (snd (fst row)) acc) l [].
Definition ts_of (s : N) (l : list ruvrow) : list N :=
  map (fun row => fst (fst row)) (filter (fun row => snd (fst row) =? s) l).
Definition first_last (l : list N) : option (N * N) :=
  match l with [] => None | x :: _ => Some (x, last l x) end.

(* current_ruv_range *)
Definition cur_range (l : list ruvrow) : R.ruv :=
  flat_map (fun s => match first_last (ts_of s l) with Some p => [(s, p)] | None => [] end) (sids_of l).
(* filter_ruv_range: servers whose newest change is older than the trim point are left out *)
Definition view_range (trim : N) (l : list ruvrow) : R.ruv :=
  filter (fun e => negb (snd (snd e) <? trim)) (cur_range l).

(* what travels for one entry *)
Inductive ist := ILive (at_ : cid) (cls : N) (ch : list chg) | ITomb (at_ : cid).

Definition in_range (ranges : R.ruv) (c : cid) : bool :=
  match R.lookup (snd c) ranges with
  | Some (lo, hi) => (lo <? fst c) && (fst c <=? hi)
  | None => false
  end.
Definition inc_of (ranges : R.ruv) (s : est) : ist :=
  match s with
  | ELive a k ch => ILive a k (filter (fun c => in_range ranges (c_cid c)) ch)
  | ETomb a => ITomb a
  end.

(* range_to_idl: every row of a listed server strictly above the consumer's newest time stamp *)
Definition range_idl (ranges : R.ruv) (l : list ruvrow) : list N :=
  ruv_ids (filter (fun row => match R.lookup (snd (fst row)) ranges with
                              | Some (lo, _) => lo <? fst (fst row) | None => false end) l).

(* get_anchored_ranges: (ts_min, anchors strictly between, ts_max) *)
Definition anchored (ranges : R.ruv) (l : list ruvrow) : list (N * (N * list N * N)) :=
  map (fun e => let '(s, (lo, hi)) := e in
                (s, (lo, filter (fun t => (lo <? t) && (t <? hi)) (ts_of s l), hi))) ranges.

Inductive ctx :=
| CtxV1 (ranges : list (N * (N * list N * N))) (entries : list (N * ist))
| CtxNoChanges | CtxRefresh | CtxUnwilling.

Definition provide (cns : R.ruv) (s : rep) : ctx :=
  let ours := view_range (cmax s - W) (ruv s) in
  match R.range_diff cns ours with
  | R.SOk [] => CtxNoChanges
  | R.SOk ranges =>
      let idl := range_idl ranges (ruv s) in
      CtxV1 (anchored ranges (ruv s))
            (map (fun e => (fst e, inc_of ranges (snd e))) (filter (fun e => mem (fst e) idl) (ents s)))
  | R.SRefresh _ => CtxRefresh
  | _ => CtxUnwilling
  end.

(* ------------------------------------------------------------------ consumer *)
(* merge_state, Live/Live arm, one attribute: take_left = cid_left > cid_right *)
Fixpoint merge_ch (l r : list chg) (fuel : nat) : list chg :=
  match fuel with
  | O => []
  | S f =>
    match l, r with
    | [], _ => r
    | _, [] => l
    | a :: l', b :: r' =>
        if c_attr a <? c_attr b then a :: merge_ch l' r f
        else if c_attr b <? c_attr a then b :: merge_ch l r' f
        else (if cid_ltb (c_cid b) (c_cid a) then a else b) :: merge_ch l' r' f
    end
  end.

(* the class attribute of the merged entry comes from the side whose class change wins; None = no class *)
Definition merge_cls (kl : N) (l : list chg) (kr : N) (r : list chg) : option N :=
  match lookc 0 l, lookc 0 r with
  | Some a, Some b => Some (if cid_ltb (c_cid b) (c_cid a) then kl else kr)
  | Some _, None => Some kl
  | None, Some _ => Some kr
  | None, None => None
  end.

Definition has (a : N) (ch : list chg) : bool :=
  match lookc a ch with Some c => c_val c | None => false end.

(* Entry::validate for these entries: class present; conflict entries are exempt; recycled entries may miss
   MUST attributes; otherwise name, uuid and spn are required.  validate_repl turns a failure into the
   conflict state in place (no change id is recorded). *)
Definition fixup (k : option N) (ch : list chg) : N :=
  match k with
  | None => 2
  | Some k => if (k =? 0) && negb (has 1 ch && has 2 ch && has 3 ch) then 2 else k
  end.

(* Some None = add conflict on the uuid (never the case when every uuid is created once) *)
Definition merge_state (i : ist) (d : est) : option est :=
  match i, d with
  | ILive a kl l, ELive b kr r =>
      if cid_eqb a b then
        let ch := merge_ch l r (length l + length r) in
        Some (ELive b (fixup (merge_cls kl l kr r) ch) ch)
      else None
  | ITomb a, ELive _ _ _ => Some (ETomb a)
  | ILive _ _ _, ETomb b => Some (ETomb b)
  | ITomb a, ETomb b => Some (ETomb (if cid_ltb a b then a else b))
  end.

(* EntryChangeState::stub: what incremental_prepare creates for an unknown uuid *)
Definition stub (i : ist) : est :=
  match i with ILive a _ _ => ELive a 0 [] | ITomb a => ETomb a end.

Fixpoint apply_entries (inc : list (N * ist)) (es : list ent) (rv : list ruvrow) : option (list ent * list ruvrow) :=
  match inc with
  | [] => Some (es, rv)
  | (u, i) :: rest =>
      let d := match find u es with Some d => d | None => stub i end in
      match merge_state i d with
      | None => None
      | Some m => apply_entries rest (put u m es) (ruv_upd u m rv)
      end
  end.

Definition R_V1 := 0.  Definition R_V1_RUV := 1.  Definition R_V1_SPLIT := 2.
Definition R_NOCHG := 10.  Definition R_REFRESH := 20.  Definition R_UNWILLING := 30.

Definition last_ts (s : N) (l : list ruvrow) : option N :=
  match first_last (ts_of s l) with Some p => Some (snd p) | None => None end.

(* consumer_apply_changes on the context; `me` = the consumer's server id, t = transaction time.
   The harness commits after V1/NoChanges/Unwilling and drops the transaction otherwise. *)
Definition consume (me t : N) (x : ctx) (c : rep) : option (N * rep) :=
  match x with
  | CtxNoChanges => Some (R_NOCHG, mkR (ents c) (ruv c) t)
  | CtxRefresh => Some (R_REFRESH, c)
  | CtxUnwilling => Some (R_UNWILLING, mkR (ents c) (ruv c) t)
  | CtxV1 ranges entries =>
      (* incremental_preflight_validate_ruv *)
      let split := match last_ts me (ruv c), R.lookup me (map (fun e => (fst e, (fst (fst (snd e)), snd (snd e)))) ranges) with
                   | Some mx, Some (_, hi) => mx <? hi
                   | _, _ => false end in
      if split then Some (R_V1_SPLIT, c) else
      match apply_entries entries (ents c) (ruv c) with
      | None => None
      | Some (es, rv) =>
          (* refresh_validate_ruv *)
          let ok := forallb (fun e => match last_ts (fst e) rv with
                                      | Some mx => mx <=? snd (snd e) | None => true end) ranges in
          if negb ok then Some (R_V1_RUV, c) else
          (* refresh_update_ruv *)
          let rv2 := fold_left (fun acc e => let '(s, (lo, anchors, hi)) := e in
                                  fold_left (fun a ts => ruv_ins (ts, s) [] a) (lo :: anchors ++ [hi]) acc) ranges rv in
          Some (R_V1, mkR es rv2 t)
      end
  end.

(* ------------------------------------------------------------------ the replicated system *)
Definition sys := list rep.
Definition rep0 := mkR [] [] 0.
Definition getr (s : sys) (r : N) : rep := nth (N.to_nat r) s rep0.
Fixpoint setn (n : nat) (x : rep) (s : sys) : sys :=
  match s, n with
  | [], _ => []
  | _ :: t, O => x :: t
  | h :: t, S k => h :: setn k x t
  end.
Definition setr (s : sys) (r : N) (x : rep) : sys := setn (N.to_nat r) x s.

Inductive op :=
| OCreate (r t u : N)
| OMod (r t u : N)
| ODelete (r t u : N)
| OPurgeRec (r t : N)
| OPurgeTomb (r t : N)
| ORepl (to from t : N).

Definition op_rep (o : op) : N :=
  match o with OCreate r _ _ | OMod r _ _ | ODelete r _ _ | OPurgeRec r _ | OPurgeTomb r _ => r | ORepl to _ _ => to end.
Definition op_time (o : op) : N :=
  match o with OCreate _ t _ | OMod _ t _ | ODelete _ t _ | OPurgeRec _ t | OPurgeTomb _ t | ORepl _ _ t => t end.

(* one transaction: (result code, state); None = the model refuses (side condition violated) *)
Definition step (s : sys) (o : op) : option (N * sys) :=
  match o with
  | OCreate r t u => match do_create (t, r) u (getr s r) with
                     | Some (k, x) => Some (k, setr s r x) | None => None end
  | OMod r t u => let '(k, x) := do_mod (t, r) u (getr s r) in Some (k, setr s r x)
  | ODelete r t u => let '(k, x) := do_delete (t, r) u (getr s r) in Some (k, setr s r x)
  | OPurgeRec r t => let '(k, x) := do_purge_rec (t, r) (getr s r) in Some (k, setr s r x)
  | OPurgeTomb r t => let '(k, x) := do_purge_tomb (t, r) (getr s r) in Some (k, setr s r x)
  | ORepl to from t =>
      let c := getr s to in
      match consume to t (provide (cur_range (ruv c)) (getr s from)) c with
      | Some (k, x) => Some (k, setr s to x)
      | None => None
      end
  end.

Fixpoint run (s : sys) (ops : list op) : option sys :=
  match ops with
  | [] => Some s
  | o :: r => match step s o with Some (_, s1) => run s1 r | None => None end
  end.

(* ------------------------------------------------------------------ equality of observations *)
Fixpoint list_eqb {A} (eq : A -> A -> bool) (a b : list A) : bool :=
  match a, b with
  | [], [] => true
  | x :: r, y :: t => eq x y && list_eqb eq r t
  | _, _ => false
  end.
Definition chg_eqb (a b : chg) : bool :=
  (c_attr a =? c_attr b) && cid_eqb (c_cid a) (c_cid b) && Bool.eqb (c_val a) (c_val b).
Definition est_eqb (a b : est) : bool :=
  match a, b with
  | ELive x k l, ELive y j m => cid_eqb x y && (k =? j) && list_eqb chg_eqb l m
  | ETomb x, ETomb y => cid_eqb x y
  | _, _ => false
  end.
Definition ent_eqb (a b : ent) : bool := (fst a =? fst b) && est_eqb (snd a) (snd b).
Definition row_eqb (a b : ruvrow) : bool := cid_eqb (fst a) (fst b) && list_eqb N.eqb (snd a) (snd b).
Definition rep_eqb (a b : rep) : bool :=
  list_eqb ent_eqb (ents a) (ents b) && list_eqb row_eqb (ruv a) (ruv b) && (cmax a =? cmax b).

(* ------------------------------------------------------------------ the property, executable, on observations *)
(* One observed transaction: the op, its result code and the touched replica as read back afterwards. *)
Inductive obs := Obs (o : op) (code : N) (snap : rep).
(* replicas after the warm-up; the observed steps *)
Inductive case := CHist (init : list rep) (steps : list obs).

Definition is_live_state (s : option est) : bool := match s with Some (ELive _ _ _) => true | _ => false end.
Definition is_visible (s : option est) : bool := match s with Some (ELive _ 0 _) => true | _ => false end.
Definition tombs_of (r : rep) : list N :=
  flat_map (fun e => match snd e with ETomb _ => [fst e] | _ => [] end) (ents r).

(* what the property talks about: per replica its last read-back and every uuid it has held as a tombstone *)
Definition pstate := list (rep * list N).
Definition pget (p : pstate) (r : N) : rep * list N := nth (N.to_nat r) p (rep0, []).
Fixpoint psetn (n : nat) (x : rep * list N) (p : pstate) : pstate :=
  match p, n with
  | [], _ => []
  | _ :: t, O => x :: t
  | h :: t, S k => h :: psetn k x t
  end.

Definition accepted (code : N) : bool := (code =? R_V1) || (code =? R_NOCHG).

(* a replica that has REAPED u (held it as a tombstone, holds nothing now) *)
Definition reaped (x : rep * list N) (u : N) : bool :=
  mem u (snd x) && match find u (ents (fst x)) with None => true | Some _ => false end.

(* The refusal sentence of the property for one replication step, judged on what both sides hold:
   the supplier has already forgotten a deletion the consumer has never seen (the consumer is out of contact
   for longer than the changelog window), or the consumer has forgotten a deletion the supplier has never seen:
   such a step must not be accepted. *)
Definition stale_pair (cns sup : rep * list N) : bool :=
  existsb (fun e => match snd e with ELive _ _ _ => reaped sup (fst e) | _ => false end) (ents (fst cns))
  || existsb (fun e => match snd e with ELive _ _ _ => reaped cns (fst e) | _ => false end) (ents (fst sup)).

Definition refusal_ok (p : pstate) (o : op) (code : N) : bool :=
  match o with
  | ORepl to from _ => negb (accepted code && stale_pair (pget p to) (pget p from))
  | _ => true
  end.

(* no resurrection: a uuid this replica has held as a tombstone is not visible (live, not recycled) on it *)
Definition no_resurrection (old : list N) (snap : rep) : bool :=
  forallb (fun u => negb (is_visible (find u (ents snap)))) old.

Fixpoint pcheck_steps (p : pstate) (l : list obs) : bool :=
  match l with
  | [] => true
  | Obs o code snap :: r =>
      let rp := op_rep o in
      let old := snd (pget p rp) in
      refusal_ok p o code && no_resurrection old snap &&
      pcheck_steps (psetn (N.to_nat rp) (snap, union old (tombs_of snap)) p) r
  end.

Definition pcheck (c : case) : bool :=
  match c with CHist init steps => pcheck_steps (map (fun r => (r, tombs_of r)) init) steps end.

(* ------------------------------------------------------------------ the model observing itself *)
(* the observations the model makes of its own run (what the harness records of the implementation) *)
Fixpoint model_obs (s : sys) (ops : list op) : option (list obs) :=
  match ops with
  | [] => Some []
  | o :: r =>
      match step s o with
      | None => None
      | Some (k, s1) =>
          match model_obs s1 r with
          | Some l => Some (Obs o k (getr s1 (op_rep o)) :: l)
          | None => None
          end
      end
  end.

(* three replicas as the harness' warm-up leaves them: no tracked entry, every replica knows an old and a recent
   anchor of every server *)
Definition ruv0 : list ruvrow :=
  [((51, 0), []); ((52, 1), []); ((53, 2), []); ((604831, 0), []); ((604832, 1), []); ((604833, 2), [])].
Definition sys0 : sys := [mkR [] ruv0 604841; mkR [] ruv0 604843; mkR [] ruv0 604845].

(* decidable form of "this transaction can bring uuid u into existence on replica r": a create request for it,
   or an applied incremental replication whose supplier holds u in a live change state *)
Definition causeb (s : sys) (o : op) (k : N) (r u : N) : bool :=
  match o with
  | OCreate r' _ u' => (r' =? r) && (u' =? u)
  | ORepl to from _ =>
      (to =? r) && (k =? R_V1) &&
      existsb (fun e : ent => (fst e =? u) && match snd e with ELive _ _ _ => true | ETomb _ => false end)
              (ents (getr s from))
  | _ => false
  end.

(* along the run, whenever replica r holds nothing for u, the next transaction is not such a cause *)
Fixpoint guardedb (s : sys) (ops : list op) (r u : N) : bool :=
  match ops with
  | [] => true
  | o :: rest =>
      match step s o with
      | None => true
      | Some (k, s1) =>
          (match find u (ents (getr s r)) with None => negb (causeb s o k r u) | Some _ => true end)
          && guardedb s1 rest r u
      end
  end.

(* ------------------------------------------------------------------ correspondence *)
Fixpoint steps_agree (s : sys) (l : list obs) : bool :=
  match l with
  | [] => true
  | Obs o code snap :: r =>
      match step s o with
      | None => false
      | Some (k, s1) => (k =? code) && rep_eqb snap (getr s1 (op_rep o)) && steps_agree s1 r
      end
  end.

Definition agree (c : case) : bool :=
  match c with CHist init steps => steps_agree init steps end.

(* ------------------------------------------------------------------ the known-finding class *)
(* `window-misrepresented`: at an ACCEPTED replication step the two RUV windows handed to range_diff do not
   describe what each side has really seen and forgotten:
   (a) the consumer lists no change of a server the supplier's view lists (after the warm-up every replica
       knows every server, so the consumer has trimmed that server out of its RUV: it is treated as a server
       never seen and supplied "from 0" instead of being recognised as lagging), or
   (b) the supplier's view leaves out a server the consumer lists (filter_ruv_range dropped it: the supplier's
       own lag on that server cannot be seen), or
   (c) the supplier's window for a server starts below the supplier's last trim point (an old change id was
       put back by update_entry_changestate, so the lower bound no longer says what has been trimmed). *)
Definition last_trim (r : N) (done : list obs) : N :=
  fold_left (fun acc x => match x with
                          | Obs (OPurgeTomb r' t) 0 _ => if r' =? r then N.max acc (t - W) else acc
                          | _ => acc end) done 0.

Definition misrepresented (trim_s : N) (cns sup : rep) : bool :=
  let cr := cur_range (ruv cns) in
  let sv := view_range (cmax sup - W) (ruv sup) in
  existsb (fun e => match R.lookup (fst e) cr with None => true | Some _ => false end) sv
  || existsb (fun e => match R.lookup (fst e) sv with None => true | Some _ => false end) cr
  || existsb (fun e => fst (snd e) <? trim_s) sv.

Fixpoint known_steps (p : pstate) (done : list obs) (l : list obs) : bool :=
  match l with
  | [] => false
  | Obs o code snap :: r =>
      let rp := op_rep o in
      let old := snd (pget p rp) in
      let hit := match o with
                 | ORepl to from _ =>
                     accepted code && stale_pair (pget p to) (pget p from) &&
                     misrepresented (last_trim from done) (fst (pget p to)) (fst (pget p from))
                 | _ => false end in
      hit || known_steps (psetn (N.to_nat rp) (snap, union old (tombs_of snap)) p) (done ++ [Obs o code snap]) r
  end.

(* the class: a replication step that is accepted between a side that has reaped a deletion and a side that never
   saw it (the property's refusal sentence fails there) AND whose windows were misrepresented in one of the three
   ways above.  A failure of the property with honest windows is NOT in the class. *)
Definition known (c : case) : bool :=
  match c with CHist init steps => known_steps (map (fun r => (r, tombs_of r)) init) [] steps end.
