(* KV.C09.Proofs — lemmas about the replicated model of KV.C09.Model. *)
From Coq Require Import List NArith Bool Lia.
Import ListNotations.
Require Import KV.C09.Model.
Require KV.C10.Model KV.C10.Proofs.
Open Scope N_scope.
Arguments N.add : simpl never.
Arguments N.sub : simpl never.
Arguments N.ltb : simpl never.
Arguments N.leb : simpl never.
Arguments N.eqb : simpl never.

(* ------------------------------------------------------------------ find / put / filter / map *)
Lemma find_put_other : forall l u v s, u <> v -> find u (put v s l) = find u l.
Proof.
  induction l as [|[w s'] l IH]; intros u v s Huv; cbn [put find].
  - destruct (v =? u) eqn:E; [apply N.eqb_eq in E; congruence | reflexivity].
  - destruct (v <? w) eqn:E1.
    + cbn [find]. destruct (v =? u) eqn:E; [apply N.eqb_eq in E; congruence | reflexivity].
    + destruct (v =? w) eqn:E2.
      * apply N.eqb_eq in E2. subst w. cbn [find].
        destruct (v =? u) eqn:E; [apply N.eqb_eq in E; congruence | reflexivity].
      * cbn [find]. destruct (w =? u); [reflexivity | apply IH; exact Huv].
Qed.

Lemma find_put_same : forall l u s, find u (put u s l) = Some s.
Proof.
  induction l as [|[w s'] l IH]; intros u s; cbn [put find].
  - rewrite N.eqb_refl. reflexivity.
  - destruct (u <? w) eqn:E1.
    + cbn [find]. rewrite N.eqb_refl. reflexivity.
    + destruct (u =? w) eqn:E2.
      * cbn [find]. rewrite N.eqb_refl. reflexivity.
      * cbn [find]. rewrite N.eqb_sym, E2. apply IH.
Qed.

Lemma find_filter_key : forall (p : N -> bool) l u,
  find u (filter (fun e : ent => p (fst e)) l) = if p u then find u l else None.
Proof.
  intros p. induction l as [|[w s] l IH]; intros u; cbn [filter find fst].
  - destruct (p u); reflexivity.
  - destruct (p w) eqn:Ew; cbn [find].
    + destruct (w =? u) eqn:E.
      * apply N.eqb_eq in E. subst w. rewrite Ew. reflexivity.
      * apply IH.
    + destruct (w =? u) eqn:E.
      * apply N.eqb_eq in E. subst w. rewrite IH, Ew. reflexivity.
      * apply IH.
Qed.

Lemma find_map_key : forall (g : ent -> ent) l u,
  (forall e, fst (g e) = fst e) ->
  find u (map g l) = match find u l with Some s => Some (snd (g (u, s))) | None => None end.
Proof.
  intros g. induction l as [|[w s] l IH]; intros u Hg; cbn [map find]; [reflexivity|].
  specialize (Hg (w, s)) as Hw. destruct (g (w, s)) as [w' s'] eqn:Eg. cbn [fst] in Hw. subst w'.
  destruct (w =? u) eqn:E.
  - apply N.eqb_eq in E. subst w. rewrite Eg. reflexivity.
  - apply IH. exact Hg.
Qed.

Lemma find_In : forall l u s, find u l = Some s -> In (u, s) l.
Proof.
  induction l as [|[w s'] l IH]; intros u s H; cbn [find] in H; [discriminate|].
  destruct (w =? u) eqn:E.
  - apply N.eqb_eq in E. injection H as ->. subst w. left. reflexivity.
  - right. apply IH. exact H.
Qed.

(* ------------------------------------------------------------------ states of one uuid on one replica *)
Definition is_tomb (s : option est) : bool := match s with Some (ETomb _) => true | _ => false end.
Definition st_of (r : rep) (u : N) : option est := find u (ents r).

(* a tombstone stays a tombstone or disappears *)
Definition Pres (a b : rep) : Prop :=
  forall u, is_tomb (st_of a u) = true -> is_tomb (st_of b u) = true \/ st_of b u = None.
(* an entry that is absent and then present in a live change state *)
Definition Appears (a b : rep) (u : N) : Prop :=
  st_of a u = None /\ is_live_state (st_of b u) = true.

Lemma Pres_refl a : Pres a a.
Proof. intros u H. left. exact H. Qed.

Lemma Pres_same_ents a b : ents b = ents a -> Pres a b.
Proof. intros E u H. left. unfold st_of in *. rewrite E. exact H. Qed.

Lemma Pres_put a v m rv mx :
  (is_tomb (st_of a v) = true -> is_tomb (Some m) = true) ->
  Pres a (mkR (put v m (ents a)) rv mx).
Proof.
  intros Hm u H. unfold st_of in *. cbn [ents].
  destruct (N.eq_dec u v) as [->|Hne].
  - rewrite find_put_same. left. apply Hm. exact H.
  - rewrite find_put_other by exact Hne. left. exact H.
Qed.

(* ------------------------------------------------------------------ merge_state: tombstones absorb *)
Lemma merge_tomb_left a d m : merge_state (ITomb a) d = Some m -> exists b, m = ETomb b.
Proof. destruct d; cbn; intros [= <-]; eexists; reflexivity. Qed.

Lemma merge_tomb_right i b m : merge_state i (ETomb b) = Some m -> exists c, m = ETomb c.
Proof. destruct i; cbn; intros [= <-]; eexists; reflexivity. Qed.

(* both tombstones: the earlier change id is kept, whatever the order of the arguments *)
Lemma merge_tomb_min a b : merge_state (ITomb a) (ETomb b) = Some (ETomb (if cid_ltb a b then a else b)).
Proof. reflexivity. Qed.

Lemma merge_live_needs_live i d a k ch :
  merge_state i d = Some (ELive a k ch) ->
  (exists a1 k1 c1, i = ILive a1 k1 c1) /\ (exists a2 k2 c2, d = ELive a2 k2 c2).
Proof.
  destruct i as [a1 k1 c1|a1], d as [a2 k2 c2|a2]; cbn; try discriminate.
  intros _. split; repeat eexists.
Qed.

(* ------------------------------------------------------------------ local transactions *)
Lemma create_pres c u r k x : do_create c u r = Some (k, x) -> Pres r x.
Proof.
  unfold do_create. destruct (find u (ents r)) eqn:E; [discriminate|]. intros [= <- <-].
  apply Pres_put. unfold st_of. rewrite E. discriminate.
Qed.

Lemma mod_pres c u r : Pres r (snd (do_mod c u r)).
Proof.
  unfold do_mod. destruct (find u (ents r)) as [[a k ch|a]|] eqn:E; cbn [snd]; try (apply Pres_same_ents; reflexivity).
  destruct k as [|p]; cbn [snd]; try (apply Pres_same_ents; reflexivity).
  apply Pres_put. unfold st_of. rewrite E. discriminate.
Qed.

Lemma delete_pres c u r : Pres r (snd (do_delete c u r)).
Proof.
  unfold do_delete. destruct (find u (ents r)) as [[a k ch|a]|] eqn:E; cbn [snd]; try apply Pres_refl.
  destruct k as [|p]; cbn [snd]; try apply Pres_refl.
  apply Pres_put. unfold st_of. rewrite E. discriminate.
Qed.

Lemma purge_rec_pres c r : Pres r (snd (do_purge_rec c r)).
Proof.
  unfold do_purge_rec. destruct (map fst (filter (rec_due (fst c)) (ents r))) as [|d0 dl] eqn:Ed; cbn [snd].
  - apply Pres_same_ents. reflexivity.
  - intros u H. unfold st_of in *. cbn [ents]. left.
    rewrite find_map_key by (intros e; match goal with |- context [if ?b then _ else _] => destruct b end; reflexivity).
    destruct (find u (ents r)) as [[a k ch|a]|]; try discriminate. cbn [fst].
    destruct (mem u (d0 :: dl)); reflexivity.
Qed.

Lemma purge_tomb_pres c r : Pres r (snd (do_purge_tomb c r)).
Proof.
  unfold do_purge_tomb.
  match goal with |- context [if ?b then _ else _] => destruct b end; cbn [snd]; [apply Pres_refl|].
  match goal with |- context [if ?b then _ else _] => destruct b end; cbn [snd]; [apply Pres_refl|].
  intros u H. unfold st_of in *. cbn [ents]. unfold del.
  rewrite (find_filter_key (fun x => negb (mem x _))).
  match goal with |- context [if ?b then _ else _] => destruct b end; [left; exact H | right; reflexivity].
Qed.

(* ------------------------------------------------------------------ consumer *)
Lemma apply_entries_pres : forall inc es rv es' rv',
  apply_entries inc es rv = Some (es', rv') ->
  forall u, is_tomb (find u es) = true -> is_tomb (find u es') = true.
Proof.
  induction inc as [|[v i] inc IH]; intros es rv es' rv' H u Hu; cbn [apply_entries] in H.
  - injection H as <- <-. exact Hu.
  - destruct (merge_state i (match find v es with Some d => d | None => stub i end)) as [m|] eqn:Em; [|discriminate].
    apply (IH _ _ _ _ H u).
    destruct (N.eq_dec u v) as [->|Hne].
    + rewrite find_put_same. destruct (find v es) as [[a k ch|a]|]; try discriminate.
      apply merge_tomb_right in Em as [c0 ->]. reflexivity.
    + rewrite find_put_other by exact Hne. exact Hu.
Qed.

Lemma apply_entries_appear : forall inc es rv es' rv' u a k ch,
  apply_entries inc es rv = Some (es', rv') ->
  find u es' = Some (ELive a k ch) ->
  (exists a0 k0 c0, find u es = Some (ELive a0 k0 c0)) \/ (exists a1 k1 c1, In (u, ILive a1 k1 c1) inc).
Proof.
  induction inc as [|[v i] inc IH]; intros es rv es' rv' u a k ch H Hu; cbn [apply_entries] in H.
  - injection H as <- <-. left. repeat eexists. exact Hu.
  - destruct (merge_state i (match find v es with Some d => d | None => stub i end)) as [m|] eqn:Em; [|discriminate].
    destruct (IH _ _ _ _ u a k ch H Hu) as [[a0 [k0 [c0 H0]]]|[a1 [k1 [c1 H1]]]].
    + destruct (N.eq_dec u v) as [->|Hne].
      * rewrite find_put_same in H0. injection H0 as ->.
        apply merge_live_needs_live in Em as [[a1 [k1 [c1 ->]]] _].
        right. exists a1, k1, c1. left. reflexivity.
      * rewrite find_put_other in H0 by exact Hne. left. repeat eexists. exact H0.
    + right. exists a1, k1, c1. right. exact H1.
Qed.

Lemma consume_pres me t x c k c' : consume me t x c = Some (k, c') -> Pres c c'.
Proof.
  unfold consume. destruct x as [ranges entries| | |].
  - match goal with |- context [if ?b then _ else _] => destruct b end.
    { intros [= <- <-]. apply Pres_refl. }
    destruct (apply_entries entries (ents c) (ruv c)) as [[es rv]|] eqn:Ea; [|discriminate].
    match goal with |- context [if ?b then _ else _] => destruct b end.
    { intros [= <- <-]. apply Pres_refl. }
    intros [= <- <-] u H. left. unfold st_of in *. cbn [ents].
    eapply apply_entries_pres; eassumption.
  - intros [= <- <-]. apply Pres_same_ents. reflexivity.
  - intros [= <- <-]. apply Pres_refl.
  - intros [= <- <-]. apply Pres_same_ents. reflexivity.
Qed.

(* what the supplier sends as a live entry it holds as a live entry *)
Lemma provide_live cns s ranges entries u a k ch :
  provide cns s = CtxV1 ranges entries -> In (u, ILive a k ch) entries ->
  exists ch0, In (u, ELive a k ch0) (ents s).
Proof.
  unfold provide. destruct (R.range_diff cns _) as [d| | | |]; try discriminate.
  destruct d as [|d0 dl]; [discriminate|]. intros [= _ <-] Hin.
  apply in_map_iff in Hin as [[v st] [Heq Hin]]. cbn [fst snd] in Heq.
  apply filter_In in Hin as [Hin _].
  destruct st as [a0 k0 c0|a0]; cbn [inc_of] in Heq; [|discriminate].
  injection Heq as -> -> -> _. exists c0. exact Hin.
Qed.

Lemma consume_appear me t x c k c' u :
  consume me t x c = Some (k, c') -> Appears c c' u ->
  k = R_V1 /\ exists ranges entries a1 k1 c1, x = CtxV1 ranges entries /\ In (u, ILive a1 k1 c1) entries.
Proof.
  unfold Appears, st_of. intros H [Hn Hl].
  assert (Hcontra : forall c0 : rep, ents c0 = ents c -> is_live_state (find u (ents c0)) = true -> False).
  { intros c0 E. rewrite E, Hn. discriminate. }
  unfold consume in H. destruct x as [ranges entries| | |].
  - match type of H with context [if ?b then _ else _] => destruct b end.
    { injection H as <- <-. exfalso. eapply Hcontra; [reflexivity | exact Hl]. }
    destruct (apply_entries entries (ents c) (ruv c)) as [[es rv]|] eqn:Ea; [|discriminate].
    match type of H with context [if ?b then _ else _] => destruct b end.
    { injection H as <- <-. exfalso. eapply Hcontra; [reflexivity | exact Hl]. }
    injection H as <- <-. cbn [ents] in Hl.
    destruct (find u es) as [[a0 k0 c0|a0]|] eqn:Ef; try discriminate.
    destruct (apply_entries_appear _ _ _ _ _ _ _ _ _ Ea Ef) as [[a2 [k2 [c2 H2]]]|[a1 [k1 [c1 H1]]]].
    + rewrite Hn in H2. discriminate.
    + split; [reflexivity|]. exists ranges, entries, a1, k1, c1. split; [reflexivity | exact H1].
  - injection H as <- <-. exfalso. eapply Hcontra; [reflexivity | exact Hl].
  - injection H as <- <-. exfalso. eapply Hcontra; [reflexivity | exact Hl].
  - injection H as <- <-. exfalso. eapply Hcontra; [reflexivity | exact Hl].
Qed.

(* ------------------------------------------------------------------ the system *)
Lemma getr_setr : forall s r x r',
  getr (setr s r x) r' = getr s r' \/ (r' = r /\ getr (setr s r x) r' = x).
Proof.
  intros s r x r'. unfold getr, setr.
  destruct (N.eq_dec r' r) as [->|Hne].
  - generalize (N.to_nat r) as n. induction s as [|h s IH]; intros n; cbn [setn].
    + left. destruct n; reflexivity.
    + destruct n as [|n]; cbn [nth].
      * right. split; reflexivity.
      * apply IH.
  - left. assert (Hn : N.to_nat r' <> N.to_nat r) by (intros E; apply Hne; apply N2Nat.inj; exact E).
    revert Hn. generalize (N.to_nat r') as m. generalize (N.to_nat r) as n.
    induction s as [|h s IH]; intros n m Hn; cbn [setn]; [destruct n; reflexivity|].
    destruct n as [|n], m as [|m]; cbn [nth]; try reflexivity; try congruence.
    apply IH. congruence.
Qed.

(* every transaction keeps tombstones (or removes them) on every replica *)
Lemma step_pres s o k s1 : step s o = Some (k, s1) -> forall r, Pres (getr s r) (getr s1 r).
Proof.
  intros H r. destruct o as [r0 t u|r0 t u|r0 t u|r0 t|r0 t|to from t]; cbn [step] in H.
  - destruct (do_create (t, r0) u (getr s r0)) as [[k0 x]|] eqn:E; [|discriminate]. injection H as <- <-.
    destruct (getr_setr s r0 x r) as [->|[-> ->]]; [apply Pres_refl | eapply create_pres; exact E].
  - pose proof (mod_pres (t, r0) u (getr s r0)) as P. destruct (do_mod (t, r0) u (getr s r0)) as [k0 x].
    injection H as <- <-. destruct (getr_setr s r0 x r) as [->|[-> ->]]; [apply Pres_refl | exact P].
  - pose proof (delete_pres (t, r0) u (getr s r0)) as P. destruct (do_delete (t, r0) u (getr s r0)) as [k0 x].
    injection H as <- <-. destruct (getr_setr s r0 x r) as [->|[-> ->]]; [apply Pres_refl | exact P].
  - pose proof (purge_rec_pres (t, r0) (getr s r0)) as P. destruct (do_purge_rec (t, r0) (getr s r0)) as [k0 x].
    injection H as <- <-. destruct (getr_setr s r0 x r) as [->|[-> ->]]; [apply Pres_refl | exact P].
  - pose proof (purge_tomb_pres (t, r0) (getr s r0)) as P. destruct (do_purge_tomb (t, r0) (getr s r0)) as [k0 x].
    injection H as <- <-. destruct (getr_setr s r0 x r) as [->|[-> ->]]; [apply Pres_refl | exact P].
  - destruct (consume to t _ (getr s to)) as [[k0 x]|] eqn:E; [|discriminate]. injection H as <- <-.
    destruct (getr_setr s to x r) as [->|[-> ->]]; [apply Pres_refl | eapply consume_pres; exact E].
Qed.

(* how an entry can come into existence on a replica *)
Definition Cause (s : sys) (o : op) (k : N) (r u : N) : Prop :=
  (exists t, o = OCreate r t u) \/
  (exists from t a c ch, o = ORepl r from t /\ k = R_V1 /\ In (u, ELive a c ch) (ents (getr s from))).

Lemma local_no_appear (a b : rep) u v m rv mx :
  b = mkR (put v m (ents a)) rv mx -> (exists d, find v (ents a) = Some d) -> ~ Appears a b u.
Proof.
  intros -> [d Hd] [Hn Hl]. unfold st_of in *. cbn [ents] in Hl.
  destruct (N.eq_dec u v) as [->|Hne]; [rewrite Hd in Hn; discriminate|].
  rewrite find_put_other in Hl by exact Hne. rewrite Hn in Hl. discriminate.
Qed.

Lemma same_ents_no_appear (a b : rep) u : ents b = ents a -> ~ Appears a b u.
Proof. intros E [Hn Hl]. unfold st_of in *. rewrite E, Hn in Hl. discriminate. Qed.

Lemma step_appear s o k s1 r u :
  step s o = Some (k, s1) -> Appears (getr s r) (getr s1 r) u -> Cause s o k r u.
Proof.
  intros H Ha.
  assert (Hsame : getr s1 r = getr s r -> False).
  { intros E. rewrite E in Ha. eapply same_ents_no_appear; [reflexivity | exact Ha]. }
  destruct o as [r0 t v|r0 t v|r0 t v|r0 t|r0 t|to from t]; cbn [step] in H.
  - destruct (do_create (t, r0) v (getr s r0)) as [[k0 x]|] eqn:E; [|discriminate]. injection H as <- <-.
    destruct (getr_setr s r0 x r) as [E1|[-> E1]]; [exfalso; auto|]. rewrite E1 in Ha.
    unfold do_create in E. destruct (find v (ents (getr s r0))) eqn:Ef; [discriminate|]. injection E as <- <-.
    destruct Ha as [Hn Hl]. unfold st_of in *. cbn [ents] in Hl.
    destruct (N.eq_dec u v) as [->|Hne]; [left; exists t; reflexivity|].
    rewrite find_put_other in Hl by exact Hne. rewrite Hn in Hl. discriminate.
  - destruct (do_mod (t, r0) v (getr s r0)) as [k0 x] eqn:E. injection H as <- <-.
    destruct (getr_setr s r0 x r) as [E1|[-> E1]]; [exfalso; auto|]. rewrite E1 in Ha. exfalso.
    unfold do_mod in E. destruct (find v (ents (getr s r0))) as [[a0 k1 ch|a0]|] eqn:Ef;
      try (injection E as <- <-; eapply same_ents_no_appear; [reflexivity | exact Ha]).
    destruct k1 as [|p]; try (injection E as <- <-; eapply same_ents_no_appear; [reflexivity | exact Ha]).
    injection E as <- <-. eapply local_no_appear; [reflexivity | eexists; exact Ef | exact Ha].
  - destruct (do_delete (t, r0) v (getr s r0)) as [k0 x] eqn:E. injection H as <- <-.
    destruct (getr_setr s r0 x r) as [E1|[-> E1]]; [exfalso; auto|]. rewrite E1 in Ha. exfalso.
    unfold do_delete in E. destruct (find v (ents (getr s r0))) as [[a0 k1 ch|a0]|] eqn:Ef;
      try (injection E as <- <-; eapply same_ents_no_appear; [reflexivity | exact Ha]).
    destruct k1 as [|p]; try (injection E as <- <-; eapply same_ents_no_appear; [reflexivity | exact Ha]).
    injection E as <- <-. eapply local_no_appear; [reflexivity | eexists; exact Ef | exact Ha].
  - destruct (do_purge_rec (t, r0) (getr s r0)) as [k0 x] eqn:E. injection H as <- <-.
    destruct (getr_setr s r0 x r) as [E1|[-> E1]]; [exfalso; auto|]. rewrite E1 in Ha. exfalso.
    unfold do_purge_rec in E. destruct (map fst (filter (rec_due (fst (t, r0))) (ents (getr s r0)))) as [|d0 dl];
      injection E as <- <-; [eapply same_ents_no_appear; [reflexivity | exact Ha]|].
    destruct Ha as [Hn Hl]. unfold st_of in *. cbn [ents] in Hl.
    rewrite find_map_key in Hl by (intros e; match goal with |- context [if ?b then _ else _] => destruct b end; reflexivity).
    rewrite Hn in Hl. discriminate.
  - destruct (do_purge_tomb (t, r0) (getr s r0)) as [k0 x] eqn:E. injection H as <- <-.
    destruct (getr_setr s r0 x r) as [E1|[-> E1]]; [exfalso; auto|]. rewrite E1 in Ha. exfalso.
    unfold do_purge_tomb in E.
    match type of E with context [if ?b then _ else _] => destruct b end;
      [injection E as <- <-; eapply same_ents_no_appear; [reflexivity | exact Ha]|].
    match type of E with context [if ?b then _ else _] => destruct b end;
      [injection E as <- <-; eapply same_ents_no_appear; [reflexivity | exact Ha]|].
    injection E as <- <-. destruct Ha as [Hn Hl]. unfold st_of in *. cbn [ents] in Hl. unfold del in Hl.
    rewrite (find_filter_key (fun x => negb (mem x _))) in Hl. rewrite Hn in Hl.
    match type of Hl with context [if ?b then _ else _] => destruct b end; discriminate.
  - destruct (consume to t _ (getr s to)) as [[k0 x]|] eqn:E; [|discriminate]. injection H as <- <-.
    destruct (getr_setr s to x r) as [E1|[-> E1]]; [exfalso; auto|]. rewrite E1 in Ha.
    destruct (consume_appear _ _ _ _ _ _ _ E Ha) as [-> [ranges [entries [a1 [k1 [c1 [Hp Hin]]]]]]].
    destruct (provide_live _ _ _ _ _ _ _ _ Hp Hin) as [ch0 Hs].
    right. exists from, t, a1, k1, ch0. repeat split; try reflexivity. exact Hs.
Qed.

(* ------------------------------------------------------------------ runs *)
(* the uuid is never created (again) by a request, and every replication step into r that is accepted while r
   holds nothing for u has a supplier that does not hold u in a live change state *)
Fixpoint guarded (s : sys) (ops : list op) (r u : N) : Prop :=
  match ops with
  | [] => True
  | o :: rest =>
      match step s o with
      | None => True
      | Some (k, s1) =>
          (st_of (getr s r) u = None -> ~ Cause s o k r u) /\ guarded s1 rest r u
      end
  end.

Lemma run_tomb_or_gone : forall ops s s' r u,
  run s ops = Some s' -> guarded s ops r u ->
  is_tomb (st_of (getr s r) u) = true \/ st_of (getr s r) u = None ->
  is_tomb (st_of (getr s' r) u) = true \/ st_of (getr s' r) u = None.
Proof.
  induction ops as [|o ops IH]; intros s s' r u Hrun Hg Hq; cbn [run] in Hrun.
  - injection Hrun as <-. exact Hq.
  - cbn [guarded] in Hg. destruct (step s o) as [[k s1]|] eqn:Es; [|discriminate].
    destruct Hg as [Hc Hg]. apply (IH s1 s' r u Hrun Hg).
    destruct Hq as [Ht|Hn].
    + exact (step_pres _ _ _ _ Es r u Ht).
    + destruct (st_of (getr s1 r) u) as [[a k0 ch|a]|] eqn:E1.
      * exfalso. apply (Hc Hn). eapply step_appear; [exact Es|]. split; [exact Hn|]. rewrite E1. reflexivity.
      * left. reflexivity.
      * right. reflexivity.
Qed.

Lemma causeb_complete s o k r u : Cause s o k r u -> causeb s o k r u = true.
Proof.
  intros [[t ->]|[from [t [a [c [ch [-> [-> Hin]]]]]]]]; cbn [causeb].
  - rewrite !N.eqb_refl. reflexivity.
  - rewrite !N.eqb_refl. cbn [andb]. apply existsb_exists. exists (u, ELive a c ch). split; [exact Hin|].
    cbn [fst snd]. rewrite N.eqb_refl. reflexivity.
Qed.

Lemma guardedb_sound : forall ops s r u, guardedb s ops r u = true -> guarded s ops r u.
Proof.
  induction ops as [|o ops IH]; intros s r u H; cbn [guardedb guarded] in *; [exact I|].
  destruct (step s o) as [[k s1]|]; [|exact I].
  apply andb_true_iff in H as [H1 H2]. split; [|apply IH; exact H2].
  intros Hn Hc. unfold st_of in Hn. rewrite Hn in H1. apply causeb_complete in Hc. rewrite Hc in H1. discriminate.
Qed.

(* without any side condition: a tombstone is still a tombstone at the end, or the replica held nothing for the
   uuid at some point of the run (the tombstone was reaped) *)
Lemma run_tomb_until_reaped : forall ops s s' r u,
  run s ops = Some s' -> is_tomb (st_of (getr s r) u) = true ->
  is_tomb (st_of (getr s' r) u) = true \/
  exists pre post sm, ops = pre ++ post /\ run s pre = Some sm /\ st_of (getr sm r) u = None.
Proof.
  induction ops as [|o ops IH]; intros s s' r u Hrun Ht; cbn [run] in Hrun.
  - injection Hrun as <-. left. exact Ht.
  - destruct (step s o) as [[k s1]|] eqn:Es; [|discriminate].
    destruct (step_pres _ _ _ _ Es r u Ht) as [Ht1|Hn1].
    + destruct (IH s1 s' r u Hrun Ht1) as [H|[pre [post [sm [-> [Hr Hn]]]]]]; [left; exact H|].
      right. exists (o :: pre), post, sm. split; [reflexivity|]. split; [|exact Hn].
      cbn [run]. rewrite Es. exact Hr.
    + right. exists [o], ops, s1. split; [reflexivity|]. split; [|exact Hn1].
      cbn [run]. rewrite Es. reflexivity.
Qed.

(* ------------------------------------------------------------------ lag detection (on top of C10) *)
Lemma behind_refused cns sup :
  existsb (R.behind cns) sup = true ->
  match R.range_diff cns sup with R.SRefresh _ | R.SCritical _ _ => True | _ => False end.
Proof.
  intros Hb. rewrite KV.C10.Proofs.range_diff_spec. unfold R.spec.
  assert (Hsh : existsb (R.shared cns) sup = true).
  { apply existsb_exists in Hb as [e [He Hbe]]. apply existsb_exists. exists e. split; [exact He|].
    unfold R.behind in Hbe. unfold R.shared. destruct (R.lookup (fst e) cns); [reflexivity | discriminate]. }
  rewrite Hsh, Hb. cbn [negb].
  match goal with |- context [if ?b then _ else _] => destruct b end; exact I.
Qed.

Lemma provide_lagging cns s e cmin cmx :
  In e (view_range (cmax s - W) (ruv s)) -> R.lookup (fst e) cns = Some (cmin, cmx) -> cmx < fst (snd e) ->
  provide cns s = CtxRefresh \/ provide cns s = CtxUnwilling.
Proof.
  intros Hin Hl Hlt. unfold provide.
  assert (Hb : existsb (R.behind cns) (view_range (cmax s - W) (ruv s)) = true).
  { apply existsb_exists. exists e. split; [exact Hin|]. unfold R.behind. rewrite Hl. cbn [snd].
    apply N.ltb_lt. exact Hlt. }
  pose proof (behind_refused _ _ Hb) as H.
  destruct (R.range_diff cns _) as [d| | | |]; try contradiction; [left | right]; reflexivity.
Qed.
