(* KV.C36.Proofs — lemmas and proofs about the session-consistency model. *)
From Coq Require Import List NArith Bool Lia.
Import ListNotations.
Require Import KV.C36.Model.
Open Scope N_scope.
Arguments N.add : simpl never.
Arguments N.sub : simpl never.
Arguments N.ltb : simpl never.
Arguments N.leb : simpl never.
Arguments N.eqb : simpl never.

Ltac bsplit :=
  repeat match goal with
         | H : _ && _ = true |- _ => apply andb_prop in H; destruct H
         end.

(* ------------------------------------------------------------------ sets and maps *)
Lemma memN_In : forall x l, memN x l = true <-> In x l.
Proof.
  intros x l. unfold memN. rewrite existsb_exists. split.
  - intros [y [Hy E]]. apply N.eqb_eq in E. subst. exact Hy.
  - intro H. exists x. split; [exact H | apply N.eqb_refl].
Qed.

Lemma memN_false : forall x l, memN x l = false <-> ~ In x l.
Proof.
  intros x l. rewrite <- memN_In. destruct (memN x l); split; intro H;
    try reflexivity; try discriminate; try (exfalso; apply H; reflexivity); try (intro; discriminate).
Qed.

Lemma lookup_map_vals : forall {A} (f : N -> A -> A) k (m : list (N * A)),
  lookup k (map_vals f m) = option_map (f k) (lookup k m).
Proof.
  intros A f k m. induction m as [|[k' v] r IH]; cbn [map_vals map lookup fst snd option_map].
  - reflexivity.
  - destruct (k =? k') eqn:E.
    + apply N.eqb_eq in E. subst. reflexivity.
    + exact IH.
Qed.

Lemma keys_map_vals : forall {A} (f : N -> A -> A) (m : list (N * A)),
  map fst (map_vals f m) = map fst m.
Proof.
  intros A f m. unfold map_vals. rewrite map_map. cbn [fst]. reflexivity.
Qed.

Lemma in_map_vals : forall {A} (f : N -> A -> A) (m : list (N * A)) i v,
  In (i, v) (map_vals f m) -> exists v0, In (i, v0) m /\ v = f i v0.
Proof.
  intros A f m i v H. unfold map_vals in H. apply in_map_iff in H.
  destruct H as [[i0 v0] [E H]]. cbn [fst snd] in E. inversion E; subst.
  exists v0. split; [exact H | reflexivity].
Qed.

Lemma lookup_ins_sorted : forall {A} k (v : A) (m : list (N * A)) k',
  lookup k m = None ->
  lookup k' (ins_sorted k v m) = if k' =? k then Some v else lookup k' m.
Proof.
  intros A k v m k'. induction m as [|[k1 v1] r IH]; intro Hn.
  - reflexivity.
  - cbn [lookup] in Hn. destruct (k =? k1) eqn:E1; [discriminate|].
    cbn [ins_sorted]. destruct (k <? k1).
    + reflexivity.
    + cbn [lookup]. rewrite (IH Hn).
      destruct (k' =? k1) eqn:E2; destruct (k' =? k) eqn:E3; try reflexivity.
      apply N.eqb_eq in E2. apply N.eqb_eq in E3. subst.
      rewrite N.eqb_refl in E1. discriminate.
Qed.

Lemma lookup_insert_with : forall {A} (upd : A -> A -> A) k v (m : list (N * A)) k',
  lookup k' (insert_with upd k v m) =
  if k' =? k then Some (match lookup k m with Some old => upd old v | None => v end)
  else lookup k' m.
Proof.
  intros A upd k v m k'. unfold insert_with. destruct (lookup k m) as [old|] eqn:L.
  - rewrite lookup_map_vals. destruct (k' =? k) eqn:E.
    + apply N.eqb_eq in E. subst. rewrite L. cbn [option_map]. try rewrite N.eqb_refl. reflexivity.
    + destruct (lookup k' m); cbn [option_map]; try rewrite E; reflexivity.
  - apply lookup_ins_sorted. exact L.
Qed.

Lemma lookup_None_notin : forall {A} k (m : list (N * A)), lookup k m = None -> ~ In k (map fst m).
Proof.
  intros A k m. induction m as [|[k1 v1] r IH]; cbn [lookup map fst In]; intro Hn.
  - tauto.
  - destruct (k =? k1) eqn:E; [discriminate|]. intros [H|H].
    + subst. rewrite N.eqb_refl in E. discriminate.
    + exact (IH Hn H).
Qed.

Lemma keys_ins_sorted : forall {A} k (v : A) (m : list (N * A)) i,
  In i (map fst (ins_sorted k v m)) <-> i = k \/ In i (map fst m).
Proof.
  intros A k v m i. induction m as [|[k1 v1] r IH]; cbn [ins_sorted map fst In].
  - intuition.
  - destruct (k <? k1); cbn [map fst In]; [|rewrite IH]; intuition.
Qed.

Lemma nodup_ins_sorted : forall {A} k (v : A) (m : list (N * A)),
  ~ In k (map fst m) -> NoDup (map fst m) -> NoDup (map fst (ins_sorted k v m)).
Proof.
  intros A k v m. induction m as [|[k1 v1] r IH]; cbn [ins_sorted map fst In]; intros Hk Hn.
  - constructor; [tauto | constructor].
  - destruct (k <? k1); cbn [map fst].
    + constructor; [exact Hk | exact Hn].
    + inversion Hn as [|? ? Hh Ht]; subst. constructor.
      * rewrite keys_ins_sorted. intros [H|H]; [subst; tauto | exact (Hh H)].
      * apply IH; [tauto | exact Ht].
Qed.

Lemma nodup_insert_with : forall {A} (upd : A -> A -> A) k v (m : list (N * A)),
  NoDup (map fst m) -> NoDup (map fst (insert_with upd k v m)).
Proof.
  intros A upd k v m Hn. unfold insert_with. destruct (lookup k m) eqn:L.
  - rewrite keys_map_vals. exact Hn.
  - apply nodup_ins_sorted; [apply lookup_None_notin; exact L | exact Hn].
Qed.

Lemma nodup_in_lookup : forall {A} (m : list (N * A)) i v,
  NoDup (map fst m) -> In (i, v) m -> lookup i m = Some v.
Proof.
  intros A m i v. induction m as [|[k1 v1] r IH]; cbn [map fst In lookup]; intros Hn Hi.
  - tauto.
  - inversion Hn as [|? ? Hh Ht]; subst. destruct Hi as [E|Hi].
    + inversion E; subst. rewrite N.eqb_refl. reflexivity.
    + destruct (i =? k1) eqn:E.
      * apply N.eqb_eq in E. subst. exfalso. apply Hh.
        apply in_map_iff. exists (k1, v). split; [reflexivity | exact Hi].
      * exact (IH Ht Hi).
Qed.

Lemma lookup_in : forall {A} (m : list (N * A)) i v, lookup i m = Some v -> In (i, v) m.
Proof.
  intros A m i v. induction m as [|[k1 v1] r IH]; cbn [lookup In]; intro H.
  - discriminate.
  - destruct (i =? k1) eqn:E.
    + apply N.eqb_eq in E. inversion H; subst. left. reflexivity.
    + right. exact (IH H).
Qed.

(* ------------------------------------------------------------------ login sessions only move towards revoked *)
Definition ule (k : N) (u u1 : uat) : Prop :=
  u_cred u1 = u_cred u /\ u_issued u1 = u_issued u /\
  (u_state u1 = u_state u \/ (live (u_state u) = true /\ u_state u1 = SRevoked k)).

Lemma ule_refl : forall k u, ule k u u.
Proof. intros k u. unfold ule. auto. Qed.

Lemma ule_trans : forall k a b c, ule k a b -> ule k b c -> ule k a c.
Proof.
  intros k a b c (C1 & I1 & S1) (C2 & I2 & S2). unfold ule.
  split; [congruence|]. split; [congruence|].
  destruct S1 as [S1 | [L1 S1]]; destruct S2 as [S2 | [L2 S2]].
  - left. congruence.
  - right. split; congruence.
  - right. split; [exact L1 | congruence].
  - rewrite S1 in L2. cbn in L2. discriminate.
Qed.

Lemma ule_urevoke : forall k u, ule k u (urevoke k u).
Proof.
  intros k u. unfold ule, urevoke, set_ustate, revoke. cbn [u_cred u_issued u_state].
  split; [reflexivity|]. split; [reflexivity|].
  destruct (live (u_state u)) eqn:L; auto.
Qed.

Definition umono (k : N) (m m1 : list (N * uat)) : Prop :=
  forall i u, lookup i m = Some u -> exists u1, lookup i m1 = Some u1 /\ ule k u u1.

Lemma umono_refl : forall k m, umono k m m.
Proof. intros k m i u L. exists u. split; [exact L | apply ule_refl]. Qed.

Lemma umono_trans : forall k a b c, umono k a b -> umono k b c -> umono k a c.
Proof.
  intros k a b c H1 H2 i u L. destruct (H1 i u L) as [u1 [L1 R1]].
  destruct (H2 i u1 L1) as [u2 [L2 R2]]. exists u2. split; [exact L2 | exact (ule_trans _ _ _ _ R1 R2)].
Qed.

Lemma umono_map_vals : forall k g m, (forall i u, ule k u (g i u)) -> umono k m (map_vals g m).
Proof.
  intros k g m H i u L. rewrite lookup_map_vals, L. cbn [option_map].
  eexists. split; [reflexivity | apply H].
Qed.

Lemma umono_insert : forall k sid v m, umono k m (insert_with (fun old _ => old) sid v m).
Proof.
  intros k sid v m i u L. rewrite lookup_insert_with. destruct (i =? sid) eqn:E.
  - apply N.eqb_eq in E. subst. rewrite L. eexists. split; [reflexivity | apply ule_refl].
  - exists u. split; [exact L | apply ule_refl].
Qed.

Lemma apply_md_umono : forall k a m, umono k (a_uats a) (a_uats (apply_md k a m)).
Proof.
  intros k a m. destruct m; cbn [apply_md a_uats upd_uats upd_o2s]; try apply umono_refl.
  - apply umono_insert.
  - apply umono_insert.
  - apply umono_map_vals. intros i u. destruct (i =? sid); [apply ule_urevoke | apply ule_refl].
  - apply umono_map_vals. intros i u. apply ule_urevoke.
Qed.

Lemma fold_umono : forall k mods a, umono k (a_uats a) (a_uats (fold_left (apply_md k) mods a)).
Proof.
  intros k mods. induction mods as [|m r IH]; intro a; cbn [fold_left].
  - apply umono_refl.
  - eapply umono_trans; [apply apply_md_umono | apply IH].
Qed.

(* the per-element functions of the first two passes *)
Definition f1 (k : N) (creds : list N) (u : uat) : uat :=
  if live (u_state u) && negb (memN (u_cred u) creds) then urevoke k u else u.
Definition f2 (k ct : N) (u : uat) : uat :=
  if expired ct (u_state u) then urevoke k u else u.

Lemma ule_f1 : forall k creds u, ule k u (f1 k creds u).
Proof. intros. unfold f1. destruct (_ && _); [apply ule_urevoke | apply ule_refl]. Qed.
Lemma ule_f2 : forall k ct u, ule k u (f2 k ct u).
Proof. intros. unfold f2. destruct (expired _ _); [apply ule_urevoke | apply ule_refl]. Qed.

Definition mid (k : N) (mods : list md) (a : acct) : acct := fold_left (apply_md k) mods a.

Lemma step_creds : forall k ct mods a, cred_ids (step k ct mods a) = cred_ids (mid k mods a).
Proof. reflexivity. Qed.
Lemma step_apis : forall k ct mods a, a_apis (step k ct mods a) = a_apis (mid k mods a).
Proof. reflexivity. Qed.

Lemma step_uats_lookup : forall k ct mods a i,
  lookup i (a_uats (step k ct mods a)) =
  option_map (fun u => f2 k ct (f1 k (cred_ids (mid k mods a)) u)) (lookup i (a_uats (mid k mods a))).
Proof.
  intros. unfold step, plugin, pass2, pass1, mid. cbn [a_uats].
  rewrite !lookup_map_vals. destruct (lookup i _); reflexivity.
Qed.

Lemma step_umono : forall k ct mods a, umono k (a_uats a) (a_uats (step k ct mods a)).
Proof.
  intros k ct mods a i u L. destruct (fold_umono k mods a i u L) as [u1 [L1 R1]].
  rewrite step_uats_lookup. fold (mid k mods a) in L1. rewrite L1. cbn [option_map].
  eexists. split; [reflexivity|].
  eapply ule_trans; [exact R1|]. eapply ule_trans; [apply ule_f1 | apply ule_f2].
Qed.

Lemma f12_live : forall k ct creds u,
  live (u_state (f2 k ct (f1 k creds u))) = true ->
  f2 k ct (f1 k creds u) = u /\ memN (u_cred u) creds = true.
Proof.
  intros k ct creds [c s i]. unfold f1, f2, urevoke, set_ustate, revoke.
  cbn [u_state u_cred u_issued].
  destruct s as [j|e|]; cbn [live andb negb expired];
    destruct (memN c creds) eqn:M; cbn [negb andb u_state u_cred u_issued live expired];
    try destruct (e <=? ct); cbn [u_state live]; intro H; try discriminate; auto.
Qed.

Lemma f12_removed : forall k ct creds u,
  memN (u_cred u) creds = false ->
  (live (u_state u) = true \/ u_state u = SRevoked k) ->
  u_state (f2 k ct (f1 k creds u)) = SRevoked k /\ u_cred (f2 k ct (f1 k creds u)) = u_cred u.
Proof.
  intros k ct creds [c s i] M HS. unfold f1, f2, urevoke, set_ustate, revoke in *.
  cbn [u_state u_cred u_issued] in *. rewrite M.
  destruct s as [j|e|]; cbn [live andb negb expired u_state u_cred] in *.
  - destruct HS as [HS|HS]; [discriminate|]. inversion HS; subst. auto.
  - auto.
  - auto.
Qed.

(* the property, part (a) *)
Lemma same_change : forall k ct mods a sid u,
  lookup sid (a_uats a) = Some u -> live (u_state u) = true ->
  ~ In (u_cred u) (cred_ids (step k ct mods a)) ->
  exists u', lookup sid (a_uats (step k ct mods a)) = Some u'
             /\ u_cred u' = u_cred u /\ u_state u' = SRevoked k.
Proof.
  intros k ct mods a sid u L Lv Hn.
  destruct (fold_umono k mods a sid u L) as [u1 [L1 (C1 & I1 & S1)]].
  fold (mid k mods a) in L1. rewrite step_uats_lookup, L1. cbn [option_map].
  rewrite step_creds in Hn. apply memN_false in Hn. rewrite <- C1 in Hn.
  eexists. split; [reflexivity|].
  destruct (f12_removed k ct (cred_ids (mid k mods a)) u1 Hn) as [HS HC].
  - destruct S1 as [S1|[_ S1]]; [left; congruence | right; exact S1].
  - split; congruence.
Qed.

(* the property, part (b): invariant established by every transaction from ANY pre-state *)
Lemma no_live_without_cred : forall k ct mods a sid u',
  lookup sid (a_uats (step k ct mods a)) = Some u' -> live (u_state u') = true ->
  In (u_cred u') (cred_ids (step k ct mods a)).
Proof.
  intros k ct mods a sid u' L Lv. rewrite step_uats_lookup in L.
  destruct (lookup sid (a_uats (mid k mods a))) as [u1|]; cbn [option_map] in L; [|discriminate].
  inversion L; subst. destruct (f12_live _ _ _ _ Lv) as [E M].
  rewrite E. rewrite step_creds. apply memN_In. exact M.
Qed.

(* revoked stays revoked with the same change index, over any history *)
Lemma umono_revoked : forall k m m1 sid u j,
  umono k m m1 -> lookup sid m = Some u -> u_state u = SRevoked j ->
  exists u1, lookup sid m1 = Some u1 /\ u_state u1 = SRevoked j /\ u_cred u1 = u_cred u.
Proof.
  intros k m m1 sid u j H L S. destruct (H sid u L) as [u1 [L1 (C1 & I1 & S1)]].
  exists u1. split; [exact L1|]. split; [|exact C1].
  destruct S1 as [S1|[Lv _]]; [congruence|]. rewrite S in Lv. cbn in Lv. discriminate.
Qed.

Lemma run_revoked : forall h k a sid u j,
  lookup sid (a_uats a) = Some u -> u_state u = SRevoked j ->
  exists u1, lookup sid (a_uats (run k a h)) = Some u1 /\ u_state u1 = SRevoked j /\ u_cred u1 = u_cred u.
Proof.
  induction h as [|[ct mods] r IH]; intros k a sid u j L S; cbn [run].
  - exists u. auto.
  - destruct (umono_revoked k _ _ sid u j (step_umono k ct mods a) L S) as [u1 (L1 & S1 & C1)].
    destruct (IH (k + 1) _ sid u1 j L1 S1) as [u2 (L2 & S2 & C2)].
    exists u2. split; [exact L2|]. split; [exact S2 | congruence].
Qed.

(* ------------------------------------------------------------------ OAuth2 sessions: records persist, revoked stays revoked *)
Definition ole (o o1 : o2) : Prop := live (o_state o) = false -> live (o_state o1) = false.
Definition omono (m m1 : list (N * o2)) : Prop :=
  forall i o, lookup i m = Some o -> exists o1, lookup i m1 = Some o1 /\ ole o o1.

Lemma omono_refl : forall m, omono m m.
Proof. intros m i o L. exists o. split; [exact L | intro H; exact H]. Qed.
Lemma omono_trans : forall a b c, omono a b -> omono b c -> omono a c.
Proof.
  intros a b c H1 H2 i o L. destruct (H1 i o L) as [o1 [L1 R1]].
  destruct (H2 i o1 L1) as [o2' [L2 R2]]. exists o2'. split; [exact L2 | intro H; exact (R2 (R1 H))].
Qed.
Lemma omono_map_vals : forall g m, (forall i o, ole o (g i o)) -> omono m (map_vals g m).
Proof.
  intros g m H i o L. rewrite lookup_map_vals, L. cbn [option_map].
  eexists. split; [reflexivity | apply H].
Qed.

Lemma ole_orevoke : forall k o, ole o (orevoke k o).
Proof.
  intros k o H. unfold orevoke, set_ostate, revoke. cbn [o_state]. rewrite H. exact H.
Qed.
Lemma orevoke_dead : forall k o, live (o_state (orevoke k o)) = false.
Proof.
  intros k o. unfold orevoke, set_ostate, revoke. cbn [o_state].
  destruct (live (o_state o)) eqn:L; [reflexivity | exact L].
Qed.

Lemma sgt_revoked : forall sn so, live so = false -> sgt sn so = true -> live sn = false.
Proof. intros sn so. destruct sn, so; cbn; intros; try reflexivity; discriminate. Qed.

Lemma apply_md_omono : forall k a m, omono (a_o2s a) (a_o2s (apply_md k a m)).
Proof.
  intros k a m. destruct m; cbn [apply_md a_o2s upd_uats upd_o2s]; try apply omono_refl.
  - (* MAddO2 *)
    intros i o L. rewrite lookup_insert_with. destruct (i =? oid) eqn:E.
    + apply N.eqb_eq in E. subst. rewrite L. eexists. split; [reflexivity|].
      intro H. cbn [o_state]. destruct (sgt st (o_state o)) eqn:G.
      * cbn [o_state]. exact (sgt_revoked _ _ H G).
      * exact H.
    + exists o. split; [exact L | intro H; exact H].
  - (* MRevokeO2 *)
    unfold o2_remove_ref. destruct (lookup oid (a_o2s a)) as [x|]; apply omono_map_vals; intros i o.
    + destruct (i =? oid); [apply ole_orevoke | intro H; exact H].
    + destruct (o_rs o =? oid); [intro; reflexivity | intro H; exact H].
  - (* MRevokeRs *)
    unfold o2_remove_ref. destruct (lookup rs (a_o2s a)) as [x|]; apply omono_map_vals; intros i o.
    + destruct (i =? rs); [apply ole_orevoke | intro H; exact H].
    + destruct (o_rs o =? rs); [intro; reflexivity | intro H; exact H].
  - (* MPurgeO2s *)
    apply omono_map_vals. intros i o. apply ole_orevoke.
Qed.

Lemma fold_omono : forall k mods a, omono (a_o2s a) (a_o2s (fold_left (apply_md k) mods a)).
Proof.
  intros k mods. induction mods as [|m r IH]; intro a; cbn [fold_left].
  - apply omono_refl.
  - eapply omono_trans; [apply apply_md_omono | apply IH].
Qed.

Definition f3 (k ct : N) (uats : list (N * uat)) (o : o2) : o2 :=
  if o2_doomed ct uats o then orevoke k o else o.

Lemma step_o2s : forall k ct mods a,
  a_o2s (step k ct mods a) = map_vals (fun _ => f3 k ct (a_uats (step k ct mods a))) (a_o2s (mid k mods a)).
Proof. reflexivity. Qed.

Lemma step_omono : forall k ct mods a, omono (a_o2s a) (a_o2s (step k ct mods a)).
Proof.
  intros k ct mods a. eapply omono_trans; [apply (fold_omono k mods a)|].
  rewrite step_o2s. apply omono_map_vals. intros i o. unfold f3.
  destruct (o2_doomed _ _ _); [apply ole_orevoke | intro H; exact H].
Qed.

Lemma run_o2_dead : forall h k a oid o,
  lookup oid (a_o2s a) = Some o -> live (o_state o) = false ->
  exists o1, lookup oid (a_o2s (run k a h)) = Some o1 /\ live (o_state o1) = false.
Proof.
  induction h as [|[ct mods] r IH]; intros k a oid o L S; cbn [run].
  - exists o. auto.
  - destruct (step_omono k ct mods a oid o L) as [o1 [L1 R1]].
    exact (IH (k + 1) _ oid o1 L1 (R1 S)).
Qed.

(* the property, part (c): what the plugin leaves behind *)
Lemma f3_live : forall k ct uats o,
  live (o_state (f3 k ct uats o)) = true -> f3 k ct uats o = o /\ o2_doomed ct uats o = false.
Proof.
  intros k ct uats o. unfold f3. destruct (o2_doomed ct uats o).
  - rewrite orevoke_dead. discriminate.
  - auto.
Qed.

Lemma parent_ok_live : forall a o, parent_ok (a_uats a) o = true -> parent_live a (o_parent o) = true.
Proof.
  intros a o. unfold parent_ok, parent_live. destruct (a_uats a) as [|x r]; [discriminate|].
  destruct (o_parent o) as [p|]; [|reflexivity].
  destruct (lookup p (x :: r)); [auto | discriminate].
Qed.

Lemma doomed_false : forall ct a o,
  live (o_state o) = true -> o2_doomed ct (a_uats a) o = false ->
  (o_issued o + GRACE <= ct -> parent_live a (o_parent o) = true) /\ expired ct (o_state o) = false.
Proof.
  intros ct a o Lv D. unfold o2_doomed in D.
  assert (Horph : (if parent_ok (a_uats a) o then false else o_issued o + GRACE <=? ct) = false ->
                  o_issued o + GRACE <= ct -> parent_live a (o_parent o) = true).
  { intros H Hle. destruct (parent_ok (a_uats a) o) eqn:P.
    - apply parent_ok_live. exact P.
    - apply N.leb_gt in H. lia. }
  destruct (o_state o) as [j|e|]; cbn [live expired] in *.
  - discriminate.
  - destruct (e <=? ct) eqn:E; [discriminate|]. split; [exact (Horph D) | reflexivity].
  - split; [exact (Horph D) | reflexivity].
Qed.

Lemma orphans_revoked : forall k ct mods a oid o,
  lookup oid (a_o2s (step k ct mods a)) = Some o -> live (o_state o) = true ->
  (o_issued o + GRACE <= ct -> parent_live (step k ct mods a) (o_parent o) = true)
  /\ expired ct (o_state o) = false.
Proof.
  intros k ct mods a oid o L Lv. rewrite step_o2s, lookup_map_vals in L.
  destruct (lookup oid (a_o2s (mid k mods a))) as [o1|]; cbn [option_map] in L; [|discriminate].
  inversion L as [E]. rewrite <- E in Lv. destruct (f3_live _ _ _ _ Lv) as [E1 D].
  rewrite E1 in *. apply doomed_false; assumption.
Qed.

(* ------------------------------------------------------------------ the token check *)
Lemma live_at_live : forall ct s, live_at ct s = true -> live s = true.
Proof. intros ct s H. unfold live_at in H. apply andb_prop in H. tauto. Qed.
Lemma dead_not_live_at : forall ct s, live s = false -> live_at ct s = false.
Proof. intros ct s H. unfold live_at. rewrite H. reflexivity. Qed.

(* the property, part (d) *)
Lemma check_past_grace : forall a oid parent iat ct,
  check a oid parent iat ct = true -> iat + GRACE <= ct ->
  (exists o, lookup oid (a_o2s a) = Some o /\ live_at ct (o_state o) = true)
  /\ match parent with
     | Some p => (exists u, lookup p (a_uats a) = Some u /\ live_at ct (u_state u) = true) \/ In p (a_apis a)
     | None => True
     end.
Proof.
  intros a oid parent iat ct H Hle. unfold check in H.
  assert (G : (ct <? iat + GRACE) = false) by (apply N.ltb_ge; exact Hle).
  rewrite G in H.
  destruct (lookup oid (a_o2s a)) as [o|]; [|discriminate].
  destruct (live_at ct (o_state o)) eqn:Lo; cbn [negb] in H; [|discriminate].
  split; [exists o; auto|].
  destruct parent as [p|]; [|exact I].
  destruct (lookup p (a_uats a)) as [u|].
  - left. exists u. auto.
  - right. destruct (memN p (a_apis a)) eqn:M; [apply memN_In; exact M | discriminate].
Qed.

(* at EVERY time (inside grace too): an accepted token whose record / named parent login session is
   on the entry has them neither revoked nor expired *)
Lemma check_accept_live : forall a oid parent iat ct,
  check a oid parent iat ct = true ->
  (forall o, lookup oid (a_o2s a) = Some o -> live_at ct (o_state o) = true
     /\ forall p u, parent = Some p -> lookup p (a_uats a) = Some u -> live_at ct (u_state u) = true).
Proof.
  intros a oid parent iat ct H o Lo. unfold check in H. rewrite Lo in H.
  destruct (live_at ct (o_state o)) eqn:L; cbn [negb] in H; [|discriminate].
  split; [reflexivity|]. intros p u Ep Lu. subst parent. rewrite Lu in H. exact H.
Qed.

(* a parent login session that is revoked or past its expiry rejects the token at any time, as soon
   as the OAuth2 session record is on the entry; without the record only the grace window is left *)
Lemma check_dead_parent : forall a oid p u iat ct,
  lookup p (a_uats a) = Some u -> live_at ct (u_state u) = false ->
  check a oid (Some p) iat ct = true ->
  lookup oid (a_o2s a) = None /\ ct < iat + GRACE.
Proof.
  intros a oid p u iat ct L Lv H. unfold check in H. rewrite L, Lv in H.
  destruct (lookup oid (a_o2s a)) as [o|].
  - destruct (negb (live_at ct (o_state o))); discriminate.
  - split; [reflexivity | apply N.ltb_lt; exact H].
Qed.

Lemma check_revoked_parent : forall a oid p u iat ct,
  lookup p (a_uats a) = Some u -> live (u_state u) = false ->
  check a oid (Some p) iat ct = true ->
  lookup oid (a_o2s a) = None /\ ct < iat + GRACE.
Proof.
  intros a oid p u iat ct L Lv H.
  exact (check_dead_parent a oid p u iat ct L (dead_not_live_at ct _ Lv) H).
Qed.

Lemma check_dead_o2 : forall a oid o parent iat ct,
  lookup oid (a_o2s a) = Some o -> live_at ct (o_state o) = false ->
  check a oid parent iat ct = false.
Proof. intros a oid o parent iat ct L Lv. unfold check. rewrite L, Lv. reflexivity. Qed.

Lemma check_revoked_o2 : forall a oid o parent iat ct,
  lookup oid (a_o2s a) = Some o -> live (o_state o) = false ->
  check a oid parent iat ct = false.
Proof.
  intros a oid o parent iat ct L Lv. exact (check_dead_o2 a oid o parent iat ct L (dead_not_live_at ct _ Lv)).
Qed.

(* end to end: a credential leaves the account in transaction k; whatever happens afterwards, a
   token that names a login session issued with that credential as its parent is only ever
   accepted while no OAuth2 session record exists AND its grace window is still open *)
Lemma removed_cred_kills_oauth2 : forall k ct mods a sid u rest oid iat ct',
  lookup sid (a_uats a) = Some u -> live (u_state u) = true ->
  ~ In (u_cred u) (cred_ids (step k ct mods a)) ->
  check (run (k + 1) (step k ct mods a) rest) oid (Some sid) iat ct' = true ->
  lookup oid (a_o2s (run (k + 1) (step k ct mods a) rest)) = None /\ ct' < iat + GRACE.
Proof.
  intros k ct mods a sid u rest oid iat ct' L Lv Hn H.
  destruct (same_change k ct mods a sid u L Lv Hn) as [u' (L' & C' & S')].
  destruct (run_revoked rest (k + 1) _ sid u' k L' S') as [u2 (L2 & S2 & _)].
  eapply check_revoked_parent; [exact L2 | rewrite S2; reflexivity | exact H].
Qed.

(* ------------------------------------------------------------------ well-formed maps (for the bridge) *)
Definition wf (a : acct) : Prop := NoDup (map fst (a_uats a)).

Lemma wf_apply_md : forall k a m, wf a -> wf (apply_md k a m).
Proof.
  intros k a m H. unfold wf in *. destruct m; cbn [apply_md a_uats upd_uats upd_o2s]; try exact H.
  - apply nodup_insert_with. exact H.
  - apply nodup_insert_with. exact H.
  - rewrite keys_map_vals. exact H.
  - rewrite keys_map_vals. exact H.
Qed.

Lemma wf_step : forall k ct mods a, wf a -> wf (step k ct mods a).
Proof.
  intros k ct mods a H. unfold step.
  assert (Hm : wf (fold_left (apply_md k) mods a)).
  { revert a H. induction mods as [|m r IH]; intros a H; cbn [fold_left]; [exact H|].
    apply IH. apply wf_apply_md. exact H. }
  unfold wf, plugin, pass2, pass1 in *. cbn [a_uats]. rewrite !keys_map_vals. exact Hm.
Qed.

(* ------------------------------------------------------------------ boolean equalities reflect equality *)
Lemma opt_eqb_eq : forall a b, opt_eqb a b = true -> a = b.
Proof.
  intros [x|] [y|]; cbn [opt_eqb]; intro H; try discriminate; try reflexivity.
  apply N.eqb_eq in H. subst. reflexivity.
Qed.
Lemma list_eqb_eq : forall {A} (e : A -> A -> bool),
  (forall x y, e x y = true -> x = y) -> forall a b, list_eqb e a b = true -> a = b.
Proof.
  intros A e He. induction a as [|x r IH]; intros [|y s]; cbn [list_eqb]; intro H; try discriminate.
  - reflexivity.
  - bsplit. f_equal; [apply He; assumption | apply IH; assumption].
Qed.
Lemma sstate_eqb_eq : forall a b, sstate_eqb a b = true -> a = b.
Proof.
  intros [x|x|] [y|y|]; cbn [sstate_eqb]; intro H; try discriminate; try reflexivity;
    apply N.eqb_eq in H; subst; reflexivity.
Qed.
Lemma uat_eqb_eq : forall a b, uat_eqb a b = true -> a = b.
Proof.
  intros [c1 s1 i1] [c2 s2 i2]. unfold uat_eqb. cbn [u_cred u_state u_issued]. intro H. bsplit.
  repeat match goal with H : (_ =? _) = true |- _ => apply N.eqb_eq in H end.
  match goal with H : sstate_eqb _ _ = true |- _ => apply sstate_eqb_eq in H end.
  subst. reflexivity.
Qed.
Lemma o2_eqb_eq : forall a b, o2_eqb a b = true -> a = b.
Proof.
  intros [p1 s1 i1 r1] [p2 s2 i2 r2]. unfold o2_eqb. cbn [o_parent o_state o_issued o_rs]. intro H. bsplit.
  repeat match goal with H : (_ =? _) = true |- _ => apply N.eqb_eq in H end.
  match goal with H : sstate_eqb _ _ = true |- _ => apply sstate_eqb_eq in H end.
  match goal with H : opt_eqb _ _ = true |- _ => apply opt_eqb_eq in H end.
  subst. reflexivity.
Qed.
Lemma pair_eqb_eq : forall {A} (e : A -> A -> bool),
  (forall x y, e x y = true -> x = y) -> forall a b, pair_eqb e a b = true -> a = b.
Proof.
  intros A e He [k1 v1] [k2 v2]. unfold pair_eqb. cbn [fst snd]. intro H. bsplit.
  match goal with H : (_ =? _) = true |- _ => apply N.eqb_eq in H end.
  f_equal; [assumption | apply He; assumption].
Qed.
Lemma Neqb_eq' : forall x y : N, N.eqb x y = true -> x = y.
Proof. intros x y H. apply N.eqb_eq. exact H. Qed.

Lemma acct_eqb_eq : forall a b, acct_eqb a b = true -> a = b.
Proof.
  intros [p1 k1 t1 c1 u1 o1 i1] [p2 k2 t2 c2 u2 o2' i2]. unfold acct_eqb.
  cbn [a_primary a_passkeys a_attested a_o2cred a_uats a_o2s a_apis]. intro H. bsplit.
  repeat match goal with H : opt_eqb _ _ = true |- _ => apply opt_eqb_eq in H end.
  repeat match goal with H : list_eqb N.eqb _ _ = true |- _ => apply (list_eqb_eq _ Neqb_eq') in H end.
  match goal with H : list_eqb (pair_eqb uat_eqb) _ _ = true |- _ =>
    apply (list_eqb_eq _ (pair_eqb_eq _ uat_eqb_eq)) in H end.
  match goal with H : list_eqb (pair_eqb o2_eqb) _ _ = true |- _ =>
    apply (list_eqb_eq _ (pair_eqb_eq _ o2_eqb_eq)) in H end.
  subst. reflexivity.
Qed.

Lemma sstate_eqb_refl : forall s, sstate_eqb s s = true.
Proof. intros [x|x|]; cbn [sstate_eqb]; try apply N.eqb_refl; reflexivity. Qed.

(* ------------------------------------------------------------------ the bridge: agree -> pcheck *)
Lemma step_p_same_change : forall k ct mods a, wf a -> p_same_change k a (step k ct mods a) = true.
Proof.
  intros k ct mods a W. unfold p_same_change. apply forallb_forall. intros [i u] Hin. cbn [fst snd].
  pose proof (nodup_in_lookup _ _ _ W Hin) as L.
  destruct (step_umono k ct mods a i u L) as [u1 [L1 (C1 & I1 & S1)]]. rewrite L1.
  rewrite C1, N.eqb_refl. cbn [andb].
  destruct (live (u_state u)) eqn:Lv.
  - destruct (memN (u_cred u) (cred_ids (step k ct mods a))) eqn:M; [reflexivity|].
    apply memN_false in M.
    destruct (same_change k ct mods a i u L Lv M) as [u' (L' & _ & S')].
    rewrite L1 in L'. inversion L'; subst. rewrite S'. apply sstate_eqb_refl.
  - destruct S1 as [S1|[Lv' _]]; [|congruence]. rewrite S1. apply sstate_eqb_refl.
Qed.

Lemma step_p_inv : forall k ct mods a, wf a -> p_inv (step k ct mods a) = true.
Proof.
  intros k ct mods a W. unfold p_inv. apply forallb_forall. intros [i u] Hin. cbn [fst snd].
  pose proof (nodup_in_lookup _ _ _ (wf_step k ct mods a W) Hin) as L.
  destruct (live (u_state u)) eqn:Lv; [|reflexivity]. cbn [negb orb].
  apply memN_In. exact (no_live_without_cred k ct mods a i u L Lv).
Qed.

Lemma step_p_orphans : forall k ct mods a, p_orphans ct (step k ct mods a) = true.
Proof.
  intros k ct mods a. unfold p_orphans. apply forallb_forall. intros [i o] Hin. cbn [fst snd].
  rewrite step_o2s in Hin. apply in_map_vals in Hin. destruct Hin as [o1 [_ E]].
  destruct (live (o_state o)) eqn:Lv; [|reflexivity]. cbn [negb orb].
  rewrite E in Lv. destruct (f3_live _ _ _ _ Lv) as [E1 D]. rewrite E1 in *. subst o.
  destruct (doomed_false ct (step k ct mods a) o1 Lv D) as [HP HE].
  rewrite HE. cbn [negb]. rewrite andb_true_r.
  destruct (o_issued o1 + GRACE <=? ct) eqn:G; [|reflexivity]. cbn [negb orb].
  apply HP. apply N.leb_le. exact G.
Qed.

Lemma chk_agree_p_chk : forall a c, chk_agree a c = true -> p_chk a c = true.
Proof.
  intros a c H. unfold chk_agree in H. apply eqb_prop in H. unfold p_chk.
  destruct (c_res c) eqn:R; [|reflexivity]. cbn [andb].
  destruct (c_iat c + GRACE <=? c_ct c) eqn:G; [|reflexivity].
  apply N.leb_le in G.
  destruct (check_past_grace a _ _ _ _ H G) as [[o [Lo Lv]] HP].
  rewrite Lo, Lv. cbn [andb].
  destruct (c_parent c) as [p|]; [|reflexivity].
  destruct HP as [[u [Lu Lvu]]|Hin].
  - rewrite Lu. exact Lvu.
  - unfold check in H. rewrite Lo, Lv in H. cbn [negb] in H.
    destruct (lookup p (a_uats a)) as [u|]; [exact H | apply memN_In; exact Hin].
Qed.

Lemma login_agree_p_login : forall a m, login_agree a m = true -> p_login a m = true.
Proof.
  intros a m. destruct m; cbn [login_agree p_login]; try (intro; reflexivity).
  intro H. apply opt_eqb_eq in H. apply memN_In. unfold cred_ids. rewrite H. cbn [opt_list app].
  left. reflexivity.
Qed.

Lemma hist_bridge : forall steps k a, wf a -> hist_agree k a steps = true -> hist_pcheck k a steps = true.
Proof.
  induction steps as [|s r IH]; intros k a W H; cbn [hist_agree hist_pcheck] in *.
  - reflexivity.
  - bsplit.
    match goal with H : acct_eqb _ _ = true |- _ => apply acct_eqb_eq in H; rename H into E end.
    rewrite <- E.
    match goal with H : forallb (login_agree _) _ = true |- _ => rename H into HL end.
    assert (HL' : forallb (p_login a) (s_mods s) = true).
    { apply forallb_forall. intros m Hm. rewrite forallb_forall in HL. apply login_agree_p_login. exact (HL m Hm). }
    rewrite HL'.
    rewrite step_p_same_change by exact W.
    rewrite step_p_inv by exact W.
    rewrite step_p_orphans. cbn [andb].
    apply andb_true_intro. split.
    + apply forallb_forall. intros c Hc.
      match goal with H : forallb _ _ = true |- _ => rewrite forallb_forall in H; specialize (H c Hc) end.
      apply chk_agree_p_chk. assumption.
    + apply IH; [apply wf_step; exact W | assumption].
Qed.

Lemma agree_pcheck : forall c, agree c = true -> pcheck c = true.
Proof.
  intros [steps] H. cbn [agree pcheck] in *. apply hist_bridge; [|exact H].
  unfold wf. cbn. constructor.
Qed.
