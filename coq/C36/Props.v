(* KV.C36.Props — property theorems only.
   Property C36: when a credential is removed from an account, every login session issued with
   that credential is revoked in the same change, and an OAuth2 session whose parent login
   session is revoked or missing stops being usable once the grace window has passed. *)
From Coq Require Import List NArith Bool.
Import ListNotations.
Require Import KV.C36.Model KV.C36.Proofs.
Open Scope N_scope.

(* SAME CHANGE. For every account state (well formed or not), every write transaction (any list
   of changes, any time) with change index k: a login session that was live before the transaction
   and whose credential is not among the account's credentials after it is still recorded
   afterwards, still bound to that credential, and is revoked with exactly this transaction's
   change id. In particular this covers "credential c was on the account and the transaction
   removed it", for every credential class the plugin reads. *)
Theorem C36_same_change : forall k ct mods a sid u,
  lookup sid (a_uats a) = Some u -> live (u_state u) = true ->
  ~ In (u_cred u) (cred_ids (step k ct mods a)) ->
  exists u', lookup sid (a_uats (step k ct mods a)) = Some u'
             /\ u_cred u' = u_cred u /\ u_state u' = SRevoked k.
Proof. exact same_change. Qed.

(* INVARIANT established by every transaction from ANY pre-state: afterwards no live login session
   is bound to a credential that is not on the account (this includes sessions that the same
   transaction added). *)
Theorem C36_no_live_session_without_credential : forall k ct mods a sid u,
  lookup sid (a_uats (step k ct mods a)) = Some u -> live (u_state u) = true ->
  In (u_cred u) (cred_ids (step k ct mods a)).
Proof. exact no_live_without_cred. Qed.

(* ... and therefore along every history (any number of transactions, any times, any changes). *)
Theorem C36_history_invariant : forall h k a ct mods sid u,
  lookup sid (a_uats (run k a (h ++ [(ct, mods)]))) = Some u -> live (u_state u) = true ->
  In (u_cred u) (cred_ids (run k a (h ++ [(ct, mods)]))).
Proof.
  induction h as [|[ct0 mods0] r IH]; intros k a ct mods sid u; cbn [app run].
  - apply no_live_without_cred.
  - apply IH.
Qed.

(* REVOCATION IS PERMANENT: over every later history the session record stays, with the same
   credential and the same revoking change id — re-adding the credential (or a session with the
   same id) does not bring it back. *)
Theorem C36_revocation_permanent : forall h k a sid u j,
  lookup sid (a_uats a) = Some u -> u_state u = SRevoked j ->
  exists u1, lookup sid (a_uats (run k a h)) = Some u1 /\ u_state u1 = SRevoked j /\ u_cred u1 = u_cred u.
Proof. exact run_revoked. Qed.

(* A revoked OAuth2 session record stays recorded and revoked over every later history. *)
Theorem C36_oauth2_revocation_permanent : forall h k a oid o,
  lookup oid (a_o2s a) = Some o -> live (o_state o) = false ->
  exists o1, lookup oid (a_o2s (run k a h)) = Some o1 /\ live (o_state o1) = false.
Proof. exact run_o2_dead. Qed.

(* ORPHANED OAUTH2 TOKENS. Whenever check_oauth2_account_uuid_valid accepts a token whose grace
   window has passed, the token's OAuth2 session record is on the entry and neither revoked nor past
   its expiry at that time, and a parent named by the token is a login session of the account that
   is neither revoked nor past its expiry, or one of its API tokens. Hence a parent login session
   that is revoked, expired or missing makes the token unusable after grace. *)
Theorem C36_oauth2_orphan : forall a oid parent iat ct,
  check a oid parent iat ct = true -> iat + GRACE <= ct ->
  (exists o, lookup oid (a_o2s a) = Some o /\ live_at ct (o_state o) = true)
  /\ match parent with
     | Some p => (exists u, lookup p (a_uats a) = Some u /\ live_at ct (u_state u) = true) \/ In p (a_apis a)
     | None => True
     end.
Proof. exact check_past_grace. Qed.

(* At EVERY time, grace or not: if a token is accepted and its OAuth2 session record is on the entry,
   the record is neither revoked nor expired, and a named parent that is recorded as a login session
   is neither revoked nor expired. *)
Theorem C36_accepted_token_sessions_live : forall a oid parent iat ct,
  check a oid parent iat ct = true ->
  forall o, lookup oid (a_o2s a) = Some o -> live_at ct (o_state o) = true
    /\ forall p u, parent = Some p -> lookup p (a_uats a) = Some u -> live_at ct (u_state u) = true.
Proof. exact check_accept_live. Qed.

(* A REVOKED OR EXPIRED parent login session rejects the token at every time once the OAuth2 session
   record is on the entry; without that record only the grace window is left. *)
Theorem C36_dead_parent : forall a oid p u iat ct,
  lookup p (a_uats a) = Some u -> live_at ct (u_state u) = false ->
  check a oid (Some p) iat ct = true ->
  lookup oid (a_o2s a) = None /\ ct < iat + GRACE.
Proof. exact check_dead_parent. Qed.

Theorem C36_revoked_parent : forall a oid p u iat ct,
  lookup p (a_uats a) = Some u -> live (u_state u) = false ->
  check a oid (Some p) iat ct = true ->
  lookup oid (a_o2s a) = None /\ ct < iat + GRACE.
Proof. exact check_revoked_parent. Qed.

(* A revoked or expired OAuth2 session record rejects its tokens at every time, whatever the parent. *)
Theorem C36_dead_oauth2_session : forall a oid o parent iat ct,
  lookup oid (a_o2s a) = Some o -> live_at ct (o_state o) = false -> check a oid parent iat ct = false.
Proof. exact check_dead_o2. Qed.

Theorem C36_revoked_oauth2_session : forall a oid o parent iat ct,
  lookup oid (a_o2s a) = Some o -> live (o_state o) = false -> check a oid parent iat ct = false.
Proof. exact check_revoked_o2. Qed.

(* END TO END over histories: a credential leaves the account in transaction k while a login
   session issued with it is live. Whatever transactions follow, a token naming that login session
   as parent is accepted only while NO OAuth2 session record exists for it and its grace window is
   still open; with the record on the entry it is rejected at every time, and after grace always. *)
Theorem C36_removed_credential_kills_oauth2 : forall k ct mods a sid u rest oid iat ct',
  lookup sid (a_uats a) = Some u -> live (u_state u) = true ->
  ~ In (u_cred u) (cred_ids (step k ct mods a)) ->
  check (run (k + 1) (step k ct mods a) rest) oid (Some sid) iat ct' = true ->
  lookup oid (a_o2s (run (k + 1) (step k ct mods a) rest)) = None /\ ct' < iat + GRACE.
Proof. exact removed_cred_kills_oauth2. Qed.

(* WHAT THE PLUGIN LEAVES BEHIND. After a transaction at time ct every OAuth2 session record that is
   still live is not past its expiry, and if its grace window has passed its parent is a live
   login session (a record without parent needs the login-session attribute to exist): orphaned
   records are revoked by the first change to the account after grace. *)
Theorem C36_orphans_revoked_by_next_change : forall k ct mods a oid o,
  lookup oid (a_o2s (step k ct mods a)) = Some o -> live (o_state o) = true ->
  (o_issued o + GRACE <= ct -> parent_live (step k ct mods a) (o_parent o) = true)
  /\ expired ct (o_state o) = false.
Proof. exact orphans_revoked. Qed.

(* Soundness of the run-time tie: whenever the implementation's read-backs and answers agree with
   the model, the property's executable predicate holds on those read-backs and answers. *)
Theorem C36_agree_implies_property : forall c : case, agree c = true -> pcheck c = true.
Proof. exact agree_pcheck. Qed.
