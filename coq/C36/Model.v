(* KV.C36.Model — removing a credential revokes its sessions (executable definitions only).
   Transcribes:
     SessionConsistency::modify_inner            server/lib/src/plugins/session.rs:47
       (three ordered passes over one candidate entry, run by pre_modify / pre_batch_modify)
     IdmServerTransaction::check_oauth2_account_uuid_valid   server/lib/src/idm/server.rs:643
     ValueSetSession / ValueSetOauth2Session  insert_checked / remove / purge
                                                 server/lib/src/valueset/session.rs:239, :722
     impl Ord for SessionState                   server/lib/src/value.rs:1132
     Entry::apply_modlist (Present / Removed / Purged) server/lib/src/entry.rs:3363
   Not modelled (the harness keeps histories inside these limits and says so):
     * ValueSetSession::trim (revoked sessions older than CHANGELOG_MAX_AGE = 7 days are dropped when
       an entry is invalidated; SESSION_MAXIMUM force trimming): histories span < 1 day, < 10 sessions.
       Consequently a login-session attribute that exists is never empty.
     * ValueSetOauth2Session::rs_filter (a bit mask that is not extended when a session record is
       replaced): an OAuth2 session id keeps its resource server in every history.
     * the account validity window test at the top of check_oauth2_account_uuid_valid (accounts in
       the histories carry no valid_from / expire).
   check_oauth2_account_uuid_valid is transcribed as of /repo commit 8607e8e (sessions past their
   expiry are refused like revoked ones).
   All times are nanoseconds relative to a harness constant; a RevokedAt(cid) is represented by the
   index k of the write transaction (step) whose change id is cid. *)
From Coq Require Import List NArith Bool.
Import ListNotations.
Open Scope N_scope.

(* AUTH_TOKEN_GRACE_WINDOW = 5 minutes (proto/src/constants.rs:55) *)
Definition GRACE : N := 300000000000.

Inductive sstate := SRevoked (k : N) | SExpires (t : N) | SNever.
Definition live (s : sstate) : bool := match s with SRevoked _ => false | _ => true end.

Record uat := mkuat { u_cred : N; u_state : sstate; u_issued : N }.
Record o2 := mko2 { o_parent : option N; o_state : sstate; o_issued : N; o_rs : N }.

(* the attributes of one account entry that the anchored code reads *)
Record acct := mkacct {
  a_primary : option N;          (* uuid of the single primary credential *)
  a_passkeys : list N;           (* keys of the passkeys map *)
  a_attested : list N;           (* keys of the attested passkeys map *)
  a_o2cred : option N;           (* oauth2_account_credential_uuid *)
  a_uats : list (N * uat);       (* user_auth_token_session: BTreeMap<Uuid, Session>; [] = attribute absent *)
  a_o2s : list (N * o2);         (* oauth2_session: BTreeMap<Uuid, Oauth2Session> *)
  a_apis : list N                (* keys of api_token_session *)
}.
Definition acct0 : acct := mkacct None [] [] None [] [] [].

(* ------------------------------------------------------------------ finite maps and sets *)
Fixpoint lookup {A} (k : N) (m : list (N * A)) : option A :=
  match m with
  | [] => None
  | (k', v) :: r => if k =? k' then Some v else lookup k r
  end.

Definition map_vals {A} (f : N -> A -> A) (m : list (N * A)) : list (N * A) :=
  map (fun kv => (fst kv, f (fst kv) (snd kv))) m.

Fixpoint ins_sorted {A} (k : N) (v : A) (m : list (N * A)) : list (N * A) :=
  match m with
  | [] => [(k, v)]
  | (k', v') :: r => if k <? k' then (k, v) :: m else (k', v') :: ins_sorted k v r
  end.

(* BTreeMap::entry(k): Vacant -> insert v; Occupied(old) -> upd old v *)
Definition insert_with {A} (upd : A -> A -> A) (k : N) (v : A) (m : list (N * A)) : list (N * A) :=
  match lookup k m with
  | Some _ => map_vals (fun k' old => if k' =? k then upd old v else old) m
  | None => ins_sorted k v m
  end.

Definition memN (x : N) (l : list N) : bool := existsb (N.eqb x) l.
Fixpoint set_ins (k : N) (l : list N) : list N :=
  match l with
  | [] => [k]
  | x :: r => if k <? x then k :: l else x :: set_ins k r
  end.
Definition set_add (k : N) (l : list N) : list N := if memN k l then l else set_ins k l.
Definition set_del (k : N) (l : list N) : list N := filter (fun x => negb (x =? k)) l.

Definition opt_list (o : option N) : list N := match o with Some x => [x] | None => [] end.

(* the `cred_ids` set built at the top of the closure in modify_inner *)
Definition cred_ids (a : acct) : list N :=
  opt_list (a_primary a) ++ a_passkeys a ++ a_attested a ++ opt_list (a_o2cred a).

(* ------------------------------------------------------------------ value set operations *)
Definition set_ustate (u : uat) (s : sstate) : uat := mkuat (u_cred u) s (u_issued u).
Definition set_ostate (o : o2) (s : sstate) : o2 := mko2 (o_parent o) s (o_issued o) (o_rs o).

(* ValueSetSession::remove / purge on one element:
   `if !matches!(session.state, RevokedAt(_)) { session.state = RevokedAt(cid) }` *)
Definition revoke (k : N) (s : sstate) : sstate := if live s then SRevoked k else s.
Definition urevoke (k : N) (u : uat) : uat := set_ustate u (revoke k (u_state u)).
Definition orevoke (k : N) (o : o2) : o2 := set_ostate o (revoke k (o_state o)).

(* impl Ord for SessionState: `m.state > e_v.state` *)
Definition sgt (n o : sstate) : bool :=
  match n, o with
  | SRevoked cn, SRevoked co => cn <? co           (* c_other.cmp(c_self): the earlier cid is greater *)
  | SRevoked _, _ => true
  | _, SRevoked _ => false
  | SExpires en, SExpires eo => eo <? en
  | SExpires _, SNever => true
  | SNever, _ => false
  end.

(* the changes a modify list can make to the attributes above *)
Inductive md :=
| MSetPrimary (c : N)            (* Purged(primary_credential); Present(primary_credential, cred c) *)
| MPurgePrimary
| MAddPasskey (c : N) | MDelPasskey (c : N)
| MAddAttested (c : N) | MDelAttested (c : N)
| MSetO2Cred (c : N) | MDropO2Cred
| MAddUat (sid cred : N) (st : sstate) (issued : N)     (* Present(user_auth_token_session, ..) *)
| MLogin (sid cred : N) (st : sstate) (issued : N)
    (* a REAL password login (auth state machine) whose AuthSessionRecord (session id, cred_id, expiry,
       issue time as recorded by the server) is written by process_authsessionrecord: the same Present *)
| MRevokeUat (sid : N)                                  (* Removed(user_auth_token_session, Refer sid) *)
| MPurgeUats                                            (* Purged(user_auth_token_session) *)
| MAddO2 (oid : N) (parent : option N) (st : sstate) (issued rs : N)
| MRevokeO2 (oid : N)                                   (* Removed(oauth2_session, Refer oid) *)
| MRevokeRs (rs : N)                                    (* Removed(oauth2_session, Refer rs_uuid) *)
| MPurgeO2s
| MAddApi (i : N) | MDelApi (i : N)
| MTouch.

(* ValueSetOauth2Session::remove: a session id first, otherwise every session of that resource
   server is stamped RevokedAt(cid) — including ones that are revoked already. *)
Definition o2_remove_ref (k : N) (r : N) (m : list (N * o2)) : list (N * o2) :=
  match lookup r m with
  | Some _ => map_vals (fun i o => if i =? r then orevoke k o else o) m
  | None => map_vals (fun _ o => if o_rs o =? r then set_ostate o (SRevoked k) else o) m
  end.

Definition upd_uats (a : acct) (u : list (N * uat)) : acct :=
  mkacct (a_primary a) (a_passkeys a) (a_attested a) (a_o2cred a) u (a_o2s a) (a_apis a).
Definition upd_o2s (a : acct) (o : list (N * o2)) : acct :=
  mkacct (a_primary a) (a_passkeys a) (a_attested a) (a_o2cred a) (a_uats a) o (a_apis a).

Definition apply_md (k : N) (a : acct) (m : md) : acct :=
  match m with
  | MSetPrimary c => mkacct (Some c) (a_passkeys a) (a_attested a) (a_o2cred a) (a_uats a) (a_o2s a) (a_apis a)
  | MPurgePrimary => mkacct None (a_passkeys a) (a_attested a) (a_o2cred a) (a_uats a) (a_o2s a) (a_apis a)
  | MAddPasskey c => mkacct (a_primary a) (set_add c (a_passkeys a)) (a_attested a) (a_o2cred a) (a_uats a) (a_o2s a) (a_apis a)
  | MDelPasskey c => mkacct (a_primary a) (set_del c (a_passkeys a)) (a_attested a) (a_o2cred a) (a_uats a) (a_o2s a) (a_apis a)
  | MAddAttested c => mkacct (a_primary a) (a_passkeys a) (set_add c (a_attested a)) (a_o2cred a) (a_uats a) (a_o2s a) (a_apis a)
  | MDelAttested c => mkacct (a_primary a) (a_passkeys a) (set_del c (a_attested a)) (a_o2cred a) (a_uats a) (a_o2s a) (a_apis a)
  | MSetO2Cred c => mkacct (a_primary a) (a_passkeys a) (a_attested a) (Some c) (a_uats a) (a_o2s a) (a_apis a)
  | MDropO2Cred => mkacct (a_primary a) (a_passkeys a) (a_attested a) None (a_uats a) (a_o2s a) (a_apis a)
  | MAddUat sid c st iss =>
      (* ValueSetSession::insert_checked: only a vacant key is written *)
      upd_uats a (insert_with (fun old _ => old) sid (mkuat c st iss) (a_uats a))
  | MLogin sid c st iss =>
      upd_uats a (insert_with (fun old _ => old) sid (mkuat c st iss) (a_uats a))
  | MRevokeUat sid => upd_uats a (map_vals (fun i u => if i =? sid then urevoke k u else u) (a_uats a))
  | MPurgeUats => upd_uats a (map_vals (fun _ u => urevoke k u) (a_uats a))
  | MAddO2 oid p st iss rs =>
      (* ValueSetOauth2Session::insert_checked: replace when the new state has higher priority *)
      upd_o2s a (insert_with (fun old new => if sgt (o_state new) (o_state old) then new else old)
                             oid (mko2 p st iss rs) (a_o2s a))
  | MRevokeO2 oid => upd_o2s a (o2_remove_ref k oid (a_o2s a))
  | MRevokeRs rs => upd_o2s a (o2_remove_ref k rs (a_o2s a))
  | MPurgeO2s => upd_o2s a (map_vals (fun _ o => orevoke k o) (a_o2s a))
  | MAddApi i => mkacct (a_primary a) (a_passkeys a) (a_attested a) (a_o2cred a) (a_uats a) (a_o2s a) (set_add i (a_apis a))
  | MDelApi i => mkacct (a_primary a) (a_passkeys a) (a_attested a) (a_o2cred a) (a_uats a) (a_o2s a) (set_del i (a_apis a))
  | MTouch => a
  end.

(* ------------------------------------------------------------------ SessionConsistency::modify_inner *)
(* pass 1: `!cred_ids.contains(&session.cred_id)` for ExpiresAt / NeverExpires sessions *)
Definition pass1 (k : N) (creds : list N) (m : list (N * uat)) : list (N * uat) :=
  map_vals (fun _ u => if live (u_state u) && negb (memN (u_cred u) creds) then urevoke k u else u) m.

(* pass 2: `SessionState::ExpiresAt(exp) if exp <= &curtime_odt` *)
Definition expired (ct : N) (s : sstate) : bool :=
  match s with SExpires e => e <=? ct | _ => false end.
Definition pass2 (k ct : N) (m : list (N * uat)) : list (N * uat) :=
  map_vals (fun _ u => if expired ct (u_state u) then urevoke k u else u) m.

(* `sessions.map(|session_map| ..).unwrap_or(false)`; sessions = None when the attribute is absent *)
Definition parent_ok (uats : list (N * uat)) (o : o2) : bool :=
  match uats with
  | [] => false
  | _ =>
    match o_parent o with
    | Some p => match lookup p uats with
                | Some u => live (u_state u)       (* !matches!(parent_session.state, RevokedAt(_)) *)
                | None => false
                end
    | None => true
    end
  end.

(* pass 3: the filter_map over oauth2 sessions *)
Definition o2_doomed (ct : N) (uats : list (N * uat)) (o : o2) : bool :=
  let orphan := if parent_ok uats o then false else o_issued o + GRACE <=? ct in
  match o_state o with
  | SRevoked _ => false
  | SExpires e => if e <=? ct then true else orphan
  | SNever => orphan
  end.
Definition pass3 (k ct : N) (uats : list (N * uat)) (m : list (N * o2)) : list (N * o2) :=
  map_vals (fun _ o => if o2_doomed ct uats o then orevoke k o else o) m.

Definition plugin (k ct : N) (a : acct) : acct :=
  let u1 := pass1 k (cred_ids a) (a_uats a) in
  let u2 := pass2 k ct u1 in
  mkacct (a_primary a) (a_passkeys a) (a_attested a) (a_o2cred a) u2 (pass3 k ct u2 (a_o2s a)) (a_apis a).

(* one write transaction: apply_modlist, then the pre_modify plugin *)
Definition step (k ct : N) (mods : list md) (a : acct) : acct :=
  plugin k ct (fold_left (apply_md k) mods a).

(* a history: transaction i of the list has change index k + i *)
Fixpoint run (k : N) (a : acct) (h : list (N * list md)) : acct :=
  match h with
  | [] => a
  | (ct, mods) :: r => run (k + 1) (step k ct mods a) r
  end.

(* ------------------------------------------------------------------ check_oauth2_account_uuid_valid *)
(* the `session_is_live` closure (fix 8607e8e): RevokedAt => false, ExpiresAt(exp) => exp > ct,
   NeverExpires => true *)
Definition live_at (ct : N) (s : sstate) : bool := live s && negb (expired ct s).

(* true = Ok(Some(entry)), false = Ok(None). iat is the token's issue time (whole seconds, here in ns). *)
Definition check (a : acct) (oid : N) (parent : option N) (iat ct : N) : bool :=
  let grace_valid := ct <? iat + GRACE in
  match lookup oid (a_o2s a) with
  | Some o =>
      if negb (live_at ct (o_state o)) then false
      else match parent with
           | Some p =>
               match lookup p (a_uats a) with
               | Some u => live_at ct (u_state u)
               | None => if memN p (a_apis a) then true else grace_valid
               end
           | None => true
           end
  | None => grace_valid
  end.

(* ------------------------------------------------------------------ correspondence *)
Record chk := mkchk { c_oid : N; c_parent : option N; c_iat : N; c_ct : N; c_res : bool }.
(* one observed transaction: time, changes, whether the modify succeeded, the entry read back
   after commit, answers of the real check function on that entry *)
Record step_obs := mkstep { s_ct : N; s_mods : list md; s_ok : bool; s_dump : acct; s_checks : list chk }.
Inductive case := CHist (steps : list step_obs).

Definition opt_eqb (a b : option N) : bool :=
  match a, b with Some x, Some y => x =? y | None, None => true | _, _ => false end.
Fixpoint list_eqb {A} (e : A -> A -> bool) (a b : list A) : bool :=
  match a, b with
  | [], [] => true
  | x :: r, y :: s => e x y && list_eqb e r s
  | _, _ => false
  end.
Definition sstate_eqb (a b : sstate) : bool :=
  match a, b with
  | SRevoked x, SRevoked y => x =? y
  | SExpires x, SExpires y => x =? y
  | SNever, SNever => true
  | _, _ => false
  end.
Definition uat_eqb (a b : uat) : bool :=
  (u_cred a =? u_cred b) && sstate_eqb (u_state a) (u_state b) && (u_issued a =? u_issued b).
Definition o2_eqb (a b : o2) : bool :=
  opt_eqb (o_parent a) (o_parent b) && sstate_eqb (o_state a) (o_state b)
  && (o_issued a =? o_issued b) && (o_rs a =? o_rs b).
Definition pair_eqb {A} (e : A -> A -> bool) (a b : N * A) : bool :=
  (fst a =? fst b) && e (snd a) (snd b).
Definition acct_eqb (a b : acct) : bool :=
  opt_eqb (a_primary a) (a_primary b)
  && list_eqb N.eqb (a_passkeys a) (a_passkeys b)
  && list_eqb N.eqb (a_attested a) (a_attested b)
  && opt_eqb (a_o2cred a) (a_o2cred b)
  && list_eqb (pair_eqb uat_eqb) (a_uats a) (a_uats b)
  && list_eqb (pair_eqb o2_eqb) (a_o2s a) (a_o2s b)
  && list_eqb N.eqb (a_apis a) (a_apis b).

Definition chk_agree (a : acct) (c : chk) : bool :=
  Bool.eqb (check a (c_oid c) (c_parent c) (c_iat c) (c_ct c)) (c_res c).

(* what the model predicts for the credential a password login binds its session to: the
   account's primary credential at the time of the login (login transactions carry one change) *)
Definition login_agree (a : acct) (m : md) : bool :=
  match m with
  | MLogin _ c _ _ => opt_eqb (a_primary a) (Some c)
  | _ => true
  end.

Fixpoint hist_agree (k : N) (a : acct) (steps : list step_obs) : bool :=
  match steps with
  | [] => true
  | s :: r =>
      let a' := step k (s_ct s) (s_mods s) a in
      s_ok s && forallb (login_agree a) (s_mods s) && acct_eqb a' (s_dump s) && forallb (chk_agree a') (s_checks s)
      && hist_agree (k + 1) a' r
  end.

Definition agree (c : case) : bool :=
  match c with CHist steps => hist_agree 0 acct0 steps end.

(* ------------------------------------------------------------------ the property on observations *)
(* (a) same change: a login session that was live before the transaction and whose credential
   is not on the account after it is still recorded after it, and is revoked with THIS
   transaction's change id; no session record disappears and a revoked one stays as it was. *)
Definition p_same_change (k : N) (prev cur : acct) : bool :=
  forallb (fun kv =>
    match lookup (fst kv) (a_uats cur) with
    | None => false
    | Some u' =>
        let u := snd kv in
        (u_cred u' =? u_cred u)
        && (if live (u_state u)
            then (if memN (u_cred u) (cred_ids cur) then true else sstate_eqb (u_state u') (SRevoked k))
            else sstate_eqb (u_state u') (u_state u))
    end) (a_uats prev).

(* (b) after every transaction no live login session is bound to a credential that is not on the
   account (covers sessions added in the same transaction) *)
Definition p_inv (cur : acct) : bool :=
  forallb (fun kv => negb (live (u_state (snd kv))) || memN (u_cred (snd kv)) (cred_ids cur)) (a_uats cur).

(* (c) after a transaction at time ct no live OAuth2 session that is past its grace window lacks
   a live parent login session (a session recorded without parent needs the login-session
   attribute to exist), and none is past its expiry *)
Definition parent_live (a : acct) (parent : option N) : bool :=
  match parent with
  | Some p => match lookup p (a_uats a) with Some u => live (u_state u) | None => false end
  | None => match a_uats a with [] => false | _ => true end
  end.
Definition p_orphans (ct : N) (cur : acct) : bool :=
  forallb (fun kv =>
    let o := snd kv in
    negb (live (o_state o))
    || ((negb (o_issued o + GRACE <=? ct) || parent_live cur (o_parent o))
        && negb (expired ct (o_state o)))) (a_o2s cur).

(* (d) a token whose grace window has passed is accepted only when its OAuth2 session record is
   neither revoked nor past its expiry at that time, and its parent (if it names one) is a login
   session that is neither revoked nor past its expiry, or an API token of the account *)
Definition p_chk (cur : acct) (c : chk) : bool :=
  if c_res c && (c_iat c + GRACE <=? c_ct c) then
    match lookup (c_oid c) (a_o2s cur) with
    | Some o => live_at (c_ct c) (o_state o)
    | None => false
    end
    && match c_parent c with
       | Some p => match lookup p (a_uats cur) with
                   | Some u => live_at (c_ct c) (u_state u)
                   | None => memN p (a_apis cur)
                   end
       | None => true
       end
  else true.

(* (e) a real login binds its session to a credential that is on the account *)
Definition p_login (prev : acct) (m : md) : bool :=
  match m with
  | MLogin _ c _ _ => memN c (cred_ids prev)
  | _ => true
  end.

Fixpoint hist_pcheck (k : N) (prev : acct) (steps : list step_obs) : bool :=
  match steps with
  | [] => true
  | s :: r =>
      let cur := s_dump s in
      forallb (p_login prev) (s_mods s) && p_same_change k prev cur && p_inv cur && p_orphans (s_ct s) cur
      && forallb (p_chk cur) (s_checks s)
      && hist_pcheck (k + 1) cur r
  end.

Definition pcheck (c : case) : bool :=
  match c with CHist steps => hist_pcheck 0 acct0 steps end.

Definition known (_ : case) : bool := false.
