(* KV.C36.Witness — non-vacuity: concrete states / histories meeting the hypotheses of every
   implication theorem of Props.v, with the conclusions computed. *)
From Coq Require Import List NArith Bool.
Import ListNotations.
Require Import KV.C36.Model.
Open Scope N_scope.

(* an account with a primary credential (1), two passkeys (2, 3), three login sessions
   (10 and 12 by credential 1, 11 by passkey 2) and OAuth2 sessions hanging off them *)
Definition w_acct : acct :=
  mkacct (Some 1) [2; 3] [] None
    [(10, mkuat 1 SNever 50); (11, mkuat 2 (SExpires 900000000000) 60); (12, mkuat 1 (SRevoked 3) 40)]
    [(20, mko2 (Some 10) SNever 70 7); (21, mko2 (Some 11) (SExpires 800000000000) 80 7); (22, mko2 None SNever 90 8)]
    [].

(* transaction 5 at time 100 s removes the primary credential (and touches something else) *)
Definition w_after : acct := step 5 100000000000 [MTouch; MPurgePrimary] w_acct.

(* hypotheses of C36_same_change / C36_removed_credential_kills_oauth2 hold for session 10 ... *)
Example C36_witness_same_change_hyp :
  lookup 10 (a_uats w_acct) = Some (mkuat 1 SNever 50) /\ live SNever = true
  /\ memN 1 (cred_ids w_acct) = true /\ memN 1 (cred_ids w_after) = false.
Proof. vm_compute. repeat split. Qed.

(* ... and the outcome: 10 revoked by change 5, 11 (passkey still there) untouched, 12 keeps its old
   revocation; the OAuth2 session of parent 10 is still inside its grace window so its record
   stays live for now — but its tokens are dead already: *)
Example C36_witness_same_change_result :
  a_uats w_after =
    [(10, mkuat 1 (SRevoked 5) 50); (11, mkuat 2 (SExpires 900000000000) 60); (12, mkuat 1 (SRevoked 3) 40)]
  /\ lookup 20 (a_o2s w_after) = Some (mko2 (Some 10) SNever 70 7)
  /\ check w_after 20 (Some 10) 0 100000000001 = false
  /\ check w_after 21 (Some 11) 0 100000000001 = true.
Proof. vm_compute. repeat split. Qed.

(* the next change after grace revokes the orphaned record as well (C36_orphans_revoked_by_next_change
   has live records to talk about: 21 with live parent 11 past grace) *)
Definition w_later : acct := run 6 w_after [(500000000000, [MTouch])].
Example C36_witness_orphan_revoked_later :
  lookup 20 (a_o2s w_later) = Some (mko2 (Some 10) (SRevoked 6) 70 7)
  /\ lookup 21 (a_o2s w_later) = Some (mko2 (Some 11) (SExpires 800000000000) 80 7)
  /\ (80 + GRACE <=? 500000000000) = true
  /\ parent_live w_later (Some 11) = true.
Proof. vm_compute. repeat split. Qed.

(* the premise `check .. = true` of C36_removed_credential_kills_oauth2 / C36_revoked_parent is
   satisfiable exactly in the corner the theorems leave open: no OAuth2 session record yet and the
   token still inside its grace window *)
Example C36_witness_grace_corner :
  check w_later 99 (Some 10) 400000000000 500000000000 = true
  /\ check w_later 99 (Some 10) 100000000000 500000000000 = false
  /\ lookup 99 (a_o2s w_later) = None.
Proof. vm_compute. repeat split. Qed.

(* C36_oauth2_orphan: an accepted token past grace (live record, live parent), and API-token parent *)
Example C36_witness_accept_past_grace :
  check w_acct 21 (Some 11) 0 700000000000 = true /\ (0 + GRACE <=? 700000000000) = true
  /\ check (mkacct None [] [] None [] [(20, mko2 (Some 33) SNever 0 7)] [33]) 20 (Some 33) 0 700000000000 = true
  /\ check (mkacct None [] [] None [] [(20, mko2 (Some 33) SNever 0 7)] []) 20 (Some 33) 0 700000000000 = false.
Proof. vm_compute. repeat split. Qed.

(* C36_revocation_permanent: the credential comes back, a session with the old id is offered again,
   everything is purged and re-added — session 10 stays revoked by change 5 *)
Example C36_witness_permanent :
  lookup 10 (a_uats (run 6 w_after
      [(100000000001, [MSetPrimary 1; MAddUat 10 1 SNever 99]);
       (100000000002, [MPurgeUats; MAddUat 10 1 SNever 99])]))
  = Some (mkuat 1 (SRevoked 5) 50).
Proof. vm_compute. reflexivity. Qed.

(* C36_oauth2_revocation_permanent: a revoked record is not resurrected by a later Present with a
   longer expiry; revoke-by-resource-server restamps it (still revoked) *)
Example C36_witness_oauth2_permanent :
  lookup 20 (a_o2s (run 7 w_later
      [(600000000000, [MAddO2 20 (Some 11) (SExpires 999000000000) 599000000000 7]);
       (600000000001, [MRevokeRs 7])]))
  = Some (mko2 (Some 10) (SRevoked 8) 70 7).
Proof. vm_compute. reflexivity. Qed.

(* C36_agree_implies_property: a case on which agree holds (two transactions, read-backs, answers) *)
Example C36_witness_agree :
  agree (CHist
    [mkstep 100 [MSetPrimary 1; MAddPasskey 2; MAddUat 10 1 SNever 50; MAddO2 20 (Some 10) SNever 60 7] true
       (mkacct (Some 1) [2] [] None [(10, mkuat 1 SNever 50)] [(20, mko2 (Some 10) SNever 60 7)] [])
       [mkchk 20 (Some 10) 0 400000000000 true; mkchk 21 (Some 10) 0 400000000000 false];
     mkstep 200 [MPurgePrimary] true
       (mkacct None [2] [] None [(10, mkuat 1 (SRevoked 1) 50)] [(20, mko2 (Some 10) SNever 60 7)] [])
       [mkchk 20 (Some 10) 0 200 false; mkchk 21 (Some 10) 0 200 true]]) = true.
Proof. vm_compute. reflexivity. Qed.

(* pcheck is not trivially true: a read-back in which the session survived the removal of its
   credential is rejected, and so is an accepted orphan token *)
Example C36_witness_pcheck_rejects_survivor :
  pcheck (CHist
    [mkstep 100 [MSetPrimary 1; MAddUat 10 1 SNever 50] true
       (mkacct (Some 1) [] [] None [(10, mkuat 1 SNever 50)] [] []) [];
     mkstep 200 [MPurgePrimary] true
       (mkacct None [] [] None [(10, mkuat 1 SNever 50)] [] []) []]) = false.
Proof. vm_compute. reflexivity. Qed.

Example C36_witness_pcheck_rejects_late_revocation :
  pcheck (CHist
    [mkstep 100 [MSetPrimary 1; MAddUat 10 1 SNever 50] true
       (mkacct (Some 1) [] [] None [(10, mkuat 1 SNever 50)] [] []) [];
     mkstep 200 [MPurgePrimary] true
       (mkacct None [] [] None [(10, mkuat 1 (SRevoked 0) 50)] [] []) []]) = false.
Proof. vm_compute. reflexivity. Qed.

Example C36_witness_pcheck_rejects_orphan_accept :
  pcheck (CHist
    [mkstep 100 [MAddO2 20 (Some 10) SNever 60 7] true
       (mkacct None [] [] None [] [(20, mko2 (Some 10) SNever 60 7)] [])
       [mkchk 20 (Some 10) 0 400000000000 true]]) = false.
Proof. vm_compute. reflexivity. Qed.

(* C36_dead_parent / C36_dead_oauth2_session (fix 8607e8e): a parent login session, or the OAuth2
   session record itself, that is past its expiry but not yet turned into a revoked one by the
   plugin rejects the token; just before the expiry the same token is accepted *)
Example C36_witness_expired_parent :
  live_at 950000000000 (SExpires 900000000000) = false
  /\ check w_acct 20 (Some 11) 0 899999999999 = true
  /\ check w_acct 20 (Some 11) 0 900000000000 = false
  /\ check w_acct 21 (Some 11) 0 799999999999 = true
  /\ check w_acct 21 (Some 11) 0 800000000000 = false.
Proof. vm_compute. repeat split. Qed.
